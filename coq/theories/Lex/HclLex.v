(* Lex/HclLex.v — the HCL rule sets of hclsyntax/scan_tokens.rl, transcribed for
   the generic engine Lex/Scanner.v. Definitions only.

   Each matcher is a hand-written longest-match function for ONE Ragel pattern
   (quoted above it); it returns (look, len) as described in Scanner.v. The
   generated DFA hclsyntax/scan_tokens.go is what actually runs; this model is
   tied to it by differential testing only (harness/cmd/c14, LexCheck.v).

   Behaviours of the generated DFA that the grammar does not make obvious and
   that the matchers reproduce (all observed on the real code):
     * `'$' ^'{' %{fhold}`: the byte after a lone `$`/`%` is examined and given
       back: the token is the single `$` — EXCEPT in heredoc and bare-template
       mode when a line ending follows that byte: `$x\n` gives `$x` then `\n`,
       `$x\r…` gives `$x` (the fhold makes the DFA re-read the `\r`, fail, and
       fall back to the two-byte match), `$\r\n` gives `$\r` then `\n`.
     * a carriage return that is not followed by a line feed has NO rule in
       heredoc and bare-template mode (StringLiteralChars excludes it, Newline
       is `'\r'? '\n'`): the DFA stops there.  In a heredoc (and anywhere below
       the top level) that is the error state of Scanner.v: the rest of the
       input becomes one TokenInvalid.  At the top level of a BARE template
       scanTokens (scan_tokens.rl, after `write exec`; /repo 70c81c0) emits the
       one byte as a TokenStringLit and re-enters the bareTemplate machine
       (`cs = hcltok_en_bareTemplate; goto rescan`): rule [m_lone_cr] of
       [rules_bare] below.  (Before that fix the whole rest of the template —
       later lines, `${`/`%{` sequences and escapes included — was ONE literal.)
     * comments `#…`/`//…` run to the first `\n` (a `\r` is ordinary content)
       and include it; `/* … */` ends at the first `*/` at offset >= 2.
     * ID_Start / ID_Continue are alternations of BYTE sequences (not code
       points); some alternatives contain second bytes 0x00..0xFF, so e.g.
       C4 41 is a two-byte identifier. *)
From HclV Require Import Base.Prelude Gen.TokenTypes Gen.UnicodeDerived Lex.Scanner Lex.Positions.

Inductive hmode := MMain | MString | MHeredoc | MBare | MIdentOnly.

Notation hstate := (lstate hmode).
Notation hrule := (rule hmode).

Definition same (n : nat) : option (nat * nat) := Some (n, n).

(* ---- byte classes -------------------------------------------------------- *)

Definition is_digit (b : Z) : bool := (48 <=? b) && (b <=? 57).
Definition is_blank (b : Z) : bool := (b =? 32) || (b =? 9).
Definition is_cont (b : Z) : bool := (128 <=? b) && (b <=? 191).   (* UTF8Cont = 0x80..0xBF *)
Definition is_nlchar (b : Z) : bool := (b =? 13) || (b =? 10).     (* NewlineChars *)
Definition is_dp (b : Z) : bool := (b =? 36) || (b =? 37).         (* '$' | '%' *)

(* AnyUTF8 = 0x00..0x7F | 0xC0..0xDF UTF8Cont | 0xE0..0xEF UTF8Cont UTF8Cont
           | 0xF0..0xF7 UTF8Cont UTF8Cont UTF8Cont      (structural only) *)
Definition utf8_len (s : list Z) : option nat :=
  match s with
  | [] => None
  | b :: r =>
      if b <? 128 then Some 1%nat
      else if (192 <=? b) && (b <=? 223) then
        match r with c1 :: _ => if is_cont c1 then Some 2%nat else None | _ => None end
      else if (224 <=? b) && (b <=? 239) then
        match r with c1 :: c2 :: _ => if is_cont c1 && is_cont c2 then Some 3%nat else None | _ => None end
      else if (240 <=? b) && (b <=? 247) then
        match r with c1 :: c2 :: c3 :: _ =>
          if is_cont c1 && is_cont c2 && is_cont c3 then Some 4%nat else None | _ => None end
      else None
  end.

(* AnyUTF8 *)
Definition m_any_utf8 (s : list Z) : option (nat * nat) :=
  match utf8_len s with Some n => same n | None => None end.
(* BrokenUTF8 = any - AnyUTF8 : the single bytes 0x80..0xFF *)
Definition m_broken (s : list Z) : option (nat * nat) :=
  match s with b :: _ => if 128 <=? b then same 1 else None | [] => None end.

(* a fixed byte string *)
Fixpoint is_prefix (p s : list Z) : bool :=
  match p with
  | [] => true
  | a :: p' => match s with b :: s' => (a =? b) && is_prefix p' s' | [] => false end
  end.
Definition m_lit (p : list Z) (s : list Z) : option (nat * nat) :=
  if is_prefix p s then same (length p) else None.

Definition starts_with (c : Z) (s : list Z) : bool :=
  match s with b :: _ => b =? c | [] => false end.

(* Newline = '\r'? '\n' *)
Definition newline_len (s : list Z) : nat :=
  match s with
  | [] => O
  | a :: r =>
      if a =? 10 then 1%nat
      else if (a =? 13) && starts_with 10 r then 2%nat
      else O
  end.
Definition m_newline (s : list Z) : option (nat * nat) :=
  match newline_len s with O => None | n => same n end.

(* Spaces = (' ' | 0x09)+ *)
Fixpoint span_blank (s : list Z) : nat :=
  match s with b :: r => if is_blank b then S (span_blank r) else O | [] => O end.
Definition m_spaces (s : list Z) : option (nat * nat) :=
  match span_blank s with O => None | n => same n end.

(* ---- identifiers: Gen/UnicodeDerived.v ------------------------------------ *)

Notation alt := (list (Z * Z)).

Fixpoint alt_matches (a : alt) (s : list Z) : bool :=
  match a with
  | [] => true
  | (lo, hi) :: a' =>
      match s with
      | b :: s' => (lo <=? b) && (b <=? hi) && alt_matches a' s'
      | [] => false
      end
  end.

(* the alternation as written: first alternative (file order) matching a prefix *)
Fixpoint match_alts (tbl : list alt) (s : list Z) : option nat :=
  match tbl with
  | [] => None
  | a :: t => if alt_matches a s then Some (length a) else match_alts t s
  end.

(* fast path: the table bucketed by first byte into a binary search tree;
   HclLexProofs.id_start_fast_ok / id_continue_fast_ok: same result as
   match_alts on the generated table, for every first byte 0..255 *)
Definition alt_starts (b : Z) (a : alt) : bool :=
  match a with (lo, hi) :: _ => (lo <=? b) && (b <=? hi) | [] => true end.

Inductive btree := BLeaf (alts : list alt) | BNode (pivot : Z) (l r : btree).

Fixpoint build_tree (depth : nat) (lo width : Z) (tbl : list alt) : btree :=
  match depth with
  | O => BLeaf (filter (alt_starts lo) tbl)
  | S d => let h := width / 2 in
           BNode (lo + h) (build_tree d lo h tbl) (build_tree d (lo + h) h tbl)
  end.

Fixpoint bucket (t : btree) (b : Z) : list alt :=
  match t with
  | BLeaf a => a
  | BNode p l r => if b <? p then bucket l b else bucket r b
  end.

Definition id_start_tree : btree := Eval vm_compute in build_tree 8 0 256 ID_Start.
Definition id_continue_tree : btree := Eval vm_compute in build_tree 8 0 256 ID_Continue.

Definition id_start_len (s : list Z) : option nat :=
  match s with b :: _ => match_alts (bucket id_start_tree b) s | [] => None end.
Definition id_continue_len (s : list Z) : option nat :=
  match s with b :: _ => match_alts (bucket id_continue_tree b) s | [] => None end.

(* (ID_Continue | '-')* ; `skip` = bytes of the current alternative still to
   be consumed (keeps the recursion structural), acc = bytes consumed so far *)
Fixpoint ident_cont (s : list Z) (skip : nat) (acc : nat) : nat :=
  match s with
  | [] => acc
  | b :: r =>
      match skip with
      | S k => ident_cont r k (S acc)
      | O =>
          if b =? 45 then ident_cont r 0 (S acc)
          else match id_continue_len s with
               | Some (S a) => ident_cont r a (S acc)
               | _ => acc
               end
      end
  end.

(* Ident = (ID_Start | '_') (ID_Continue | '-')* ; 0 = no identifier here *)
Definition ident_len (s : list Z) : nat :=
  match s with
  | [] => O
  | b :: r =>
      if b =? 95 then ident_cont r 0 1
      else match id_start_len s with
           | Some (S a) => ident_cont r a 1
           | _ => O
           end
  end.
Definition m_ident (s : list Z) : option (nat * nat) :=
  match ident_len s with O => None | n => same n end.

(* ---- numbers --------------------------------------------------------------
   NumberLitContinue = (digit|'.'|('e'|'E') ('+'|'-')? digit);
   NumberLit = digit ("" | (NumberLitContinue - '.') | (NumberLitContinue* (NumberLitContinue - '.')));
   i.e. a digit followed by elements (digit | '.' | exponent), not ending in '.'.
   num_cont s acc good: acc = bytes consumed, good = end of the last element
   that was not '.' *)
Fixpoint num_cont (s : list Z) (skip : nat) (acc good : nat) : nat :=
  match s with
  | [] => good
  | b :: r =>
      match skip with
      | S O => num_cont r 0 (S acc) (S acc)          (* last byte of an exponent element *)
      | S k => num_cont r k (S acc) good
      | O =>
          if is_digit b then num_cont r 0 (S acc) (S acc)
          else if b =? 46 then num_cont r 0 (S acc) good
          else if (b =? 101) || (b =? 69) then
            match r with
            | d :: _ =>
                if is_digit d then num_cont r 1 (S acc) good
                else if (d =? 43) || (d =? 45) then
                  match r with
                  | _ :: d2 :: _ => if is_digit d2 then num_cont r 2 (S acc) good else good
                  | _ => good
                  end
                else good
            | [] => good
            end
          else good
      end
  end.
Definition m_number (s : list Z) : option (nat * nat) :=
  match s with
  | b :: r => if is_digit b then same (num_cont r 0 1 1) else None
  | [] => None
  end.

(* ---- comments -------------------------------------------------------------
   ("#" (any - EndOfLine)* :>> EndOfLine?) | ("//" (any - EndOfLine)* :>> EndOfLine?)
   | ("/*" any* :>> "*/")
   `any - EndOfLine` removes only the one-byte string "\n": a comment line
   runs to the first '\n' (inclusive) or to the end of input. *)
Fixpoint to_eol (s : list Z) (acc : nat) : nat :=
  match s with
  | [] => acc
  | b :: r => if b =? 10 then S acc else to_eol r (S acc)
  end.
(* length up to and including the first "*/", if any *)
Fixpoint to_star_slash (s : list Z) (acc : nat) : option nat :=
  match s with
  | [] => None
  | b :: r =>
      if (b =? 42) && starts_with 47 r then Some (S (S acc)) else to_star_slash r (S acc)
  end.
Definition m_comment (s : list Z) : option (nat * nat) :=
  match s with
  | 35 :: r => same (to_eol r 1)
  | 47 :: 47 :: r => same (to_eol r 2)
  | 47 :: 42 :: r => match to_star_slash r 2 with Some n => same n | None => None end
  | _ => None
  end.

(* SelfToken *)
Definition self_chars : list Z :=
  [91; 93; 40; 41; 46; 44; 42; 47; 37; 43; 45; 61; 60; 62; 33; 63; 58; 10; 38; 124; 126; 94; 59; 96; 39].
Definition m_self (s : list Z) : option (nat * nat) :=
  match s with b :: _ => if existsb (Z.eqb b) self_chars then same 1 else None | [] => None end.

(* BeginHeredocTmpl = '<<' ('-')? Ident Newline *)
Definition m_heredoc_begin (s : list Z) : option (nat * nat) :=
  match s with
  | c0 :: c1 :: r =>
      if (c0 =? 60) && (c1 =? 60) then
        let d := if starts_with 45 r then 1%nat else O in
        let r1 := skipn d r in
        match ident_len r1 with
        | O => None
        | k => match newline_len (skipn k r1) with
               | O => None
               | n => same (2 + d + k + n)
               end
        end
      else None
  | _ => None
  end.

(* ---- template literals ----------------------------------------------------
   TemplateInterp = "${" ("~")?;  TemplateControl = "%{" ("~")?; *)
Definition m_tmpl_open (d : Z) (s : list Z) : option (nat * nat) :=
  match s with
  | c :: 123 :: r => if c =? d then match r with 126 :: _ => same 3 | _ => same 2 end else None
  | _ => None
  end.

(* TemplateIgnoredNonBrace = (^'{' %{ fhold; });
   TemplateNotInterp  = '$' (TemplateIgnoredNonBrace | TemplateInterp);
   TemplateNotControl = '%' (TemplateIgnoredNonBrace | TemplateControl);
   TEsc n : the escape `$${` / `%%{` with optional `~` (n = 3 or 4 bytes);
   THold r2 : `$`/`%` followed by one byte other than '{' (r2 = what follows
   that byte); TNo : neither (`${`, `%{`, a lone `$`/`%` at the end, other). *)
Inductive tni := TEsc (n : nat) | THold (r2 : list Z) | TNo.
Definition tmpl_not_seq (s : list Z) : tni :=
  match s with
  | d :: c :: r2 =>
      if is_dp d then
        if c =? 123 then TNo
        else if c =? d then
          match r2 with
          | 123 :: 126 :: _ => TEsc 4
          | 123 :: _ => TEsc 3
          | _ => THold r2
          end
        else THold r2
      else TNo
  | _ => TNo
  end.

(* run of characters c with utf8_len and `ok` on the first byte *)
Fixpoint span_chars (ok : Z -> bool) (s : list Z) (skip : nat) (acc : nat) : nat :=
  match s with
  | [] => acc
  | b :: r =>
      match skip with
      | S k => span_chars ok r k (S acc)
      | O => if ok b then
               match utf8_len s with
               | Some (S a) => span_chars ok r a (S acc)
               | _ => acc
               end
             else acc
      end
  end.

(* (StringLiteralChars - ("$" | '%'))  with StringLiteralChars = AnyUTF8 - NewlineChars *)
Definition plain_ok (b : Z) : bool := negb (is_nlchar b) && negb (is_dp b).

(* QuotedStringLiteralWithEsc = ('\\' StringLiteralChars) | (StringLiteralChars - ("$" | '%' | DQUOTE | "\\"));
   (QuotedStringLiteralWithEsc)+ *)
Fixpoint span_quoted (s : list Z) (skip : nat) (acc : nat) : nat :=
  match s with
  | [] => acc
  | b :: r =>
      match skip with
      | S k => span_quoted r k (S acc)
      | O =>
          if b =? 92 then
            match r with
            | c :: _ => if is_nlchar c then acc
                        else match utf8_len r with
                             | Some a => span_quoted r a (S acc)
                             | None => acc
                             end
            | [] => acc
            end
          else if is_nlchar b || is_dp b || (b =? 34) then acc
          else match utf8_len s with
               | Some (S a) => span_quoted r a (S acc)
               | _ => acc
               end
      end
  end.

(* TemplateStringLiteral = TemplateNotInterp | TemplateNotControl | (QuotedStringLiteralWithEsc)+ *)
Definition m_tmpl_string_lit (s : list Z) : option (nat * nat) :=
  match tmpl_not_seq s with
  | TEsc n => same n
  | THold _ => Some (2%nat, 1%nat)
  | TNo => match span_quoted s 0 0 with O => None | n => same n end
  end.

(* NewlineCharsSeq = ("\r"|"\n")+ *)
Fixpoint span_nl (s : list Z) : nat :=
  match s with b :: r => if is_nlchar b then S (span_nl r) else O | [] => O end.
Definition m_nlseq (s : list Z) : option (nat * nat) :=
  match span_nl s with O => None | n => same n end.

(* HeredocStringLiteral = TemplateNotInterp | TemplateNotControl | (StringLiteralChars - ("$" | '%'))*
   rule `HeredocStringLiteral EndOfLine` *)
Definition m_heredoc_eol (s : list Z) : option (nat * nat) :=
  match tmpl_not_seq s with
  | TEsc n => match newline_len (skipn n s) with O => None | k => same (n + k) end
  | THold r2 => if starts_with 10 r2 then Some (3%nat, 2%nat) else None
  | TNo => let k := span_chars plain_ok s 0 0 in
           match newline_len (skipn k s) with O => None | n => same (k + n) end
  end.
(* rule `HeredocStringLiteral` (non-empty) *)
Definition m_heredoc_mid (s : list Z) : option (nat * nat) :=
  match tmpl_not_seq s with
  | TEsc n => same n
  | THold r2 => if starts_with 13 r2 then same 2 else Some (2%nat, 1%nat)
  | TNo => match span_chars plain_ok s 0 0 with O => None | k => same k end
  end.
(* BareStringLiteral = (TemplateNotInterp | TemplateNotControl | (StringLiteralChars - ("$" | '%')) * ) Newline? *)
Definition m_bare_lit (s : list Z) : option (nat * nat) :=
  match tmpl_not_seq s with
  | TEsc n => same (n + newline_len (skipn n s))
  | THold r2 => if starts_with 10 r2 then Some (3%nat, 2%nat)
                else if starts_with 13 r2 then same 2 else Some (2%nat, 1%nat)
  | TNo => let k := span_chars plain_ok s 0 0 in
           match (k + newline_len (skipn k s))%nat with O => None | n => same n end
  end.

(* scanTokens' recovery at the top level of a bare template (scan_tokens.rl after
   `write exec`): `cs < hcltok_first_final && mode == scanTemplate &&
   len(stack) == 0 && data[ts] == '\r'` -> emitToken(TokenStringLit, ts, ts+1),
   p = ts+1, cs = hcltok_en_bareTemplate, rescan.
   As a rule of the bareTemplate scanner: a CR that no Newline claims.  It is the
   only rule of [rules_bare] that can match there (m_bare_lit's `Newline?` needs
   the LF; the others need `$`, `%` or a byte >= 0x80), so "the machine stopped
   with ts on a CR" and "this rule matches at a scanner start" are the same
   event; and the bareTemplate scanner only ever runs as the BOTTOM frame of
   template mode (nothing fcalls it: HclLexProofs.bare_is_top_level), which is
   Go's `mode == scanTemplate && len(stack) == 0`. *)
Definition m_lone_cr (s : list Z) : option (nat * nat) :=
  match s with
  | 13 :: r => if starts_with 10 r then None else same 1
  | _ => None
  end.

(* ---- actions --------------------------------------------------------------- *)

Definition a_tok (ty : Z) : hstate -> list Z -> option (emit * hstate) :=
  fun st _ => Some (EOne ty, st).
Definition a_skip : hstate -> list Z -> option (emit * hstate) :=
  fun st _ => Some (ENone, st).

(* selfToken: panics unless the match is one byte *)
Definition a_self : hstate -> list Z -> option (emit * hstate) :=
  fun st b => match b with [c] => Some (EOne c, st) | _ => None end.

(* action beginStringTemplate *)
Definition a_begin_string : hstate -> list Z -> option (emit * hstate) :=
  fun st _ => Some (EOne TokenOQuote, fcall MString st).
(* action endStringTemplate *)
Definition a_end_string : hstate -> list Z -> option (emit * hstate) :=
  fun st _ => match fret st with Some st' => Some (EOne TokenCQuote, st') | None => None end.

(* action beginHeredocTemplate: marker := data[ts+2:te-1]; strip a leading '-'
   and a trailing '\r' (both index the slice: panic when it is empty) *)
Definition heredoc_marker (b : list Z) : option (list Z) :=
  match removelast (skipn 2 b) with
  | [] => None
  | c :: m' =>
      let m1 := if c =? 45 then m' else c :: m' in
      match m1 with
      | [] => None
      | _ => Some (if last m1 0 =? 13 then removelast m1 else m1)
      end
  end.
Definition a_begin_heredoc : hstate -> list Z -> option (emit * hstate) :=
  fun st b =>
    match heredoc_marker b with
    | None => None
    | Some m => Some (EOne TokenOHeredoc,
                      fcall MHeredoc (set_hdocs (mkHdoc m true :: l_hdocs st) st))
    end.

(* bytes.TrimSpace: leading and trailing white space in the sense of
   unicode.IsSpace on the UTF-8 decoding; these are all its encodings *)
Definition space_seqs : list (list Z) :=
  [[9]; [10]; [11]; [12]; [13]; [32]; [194; 133]; [194; 160]; [225; 154; 128];
   [226; 128; 128]; [226; 128; 129]; [226; 128; 130]; [226; 128; 131]; [226; 128; 132];
   [226; 128; 133]; [226; 128; 134]; [226; 128; 135]; [226; 128; 136]; [226; 128; 137];
   [226; 128; 138]; [226; 128; 168]; [226; 128; 169]; [226; 128; 175]; [226; 129; 159];
   [227; 128; 128]].
Fixpoint first_prefix (ps : list (list Z)) (s : list Z) : option nat :=
  match ps with
  | [] => None
  | p :: r => if is_prefix p s then Some (length p) else first_prefix r s
  end.
Fixpoint trim_left (seqs : list (list Z)) (s : list Z) (skip : nat) : list Z :=
  match s with
  | [] => []
  | _ :: r =>
      match skip with
      | S k => trim_left seqs r k
      | O => match first_prefix seqs s with
             | Some (S a) => trim_left seqs r a
             | _ => s
             end
      end
  end.
Definition trim_space (s : list Z) : list Z :=
  let l := trim_left space_seqs s 0 in
  rev (trim_left (map (@rev Z) space_seqs) (rev l) 0).

Definition set_top_sol (v : bool) (st : hstate) : option hstate :=
  match l_hdocs st with
  | [] => None
  | h :: r => Some (set_hdocs (mkHdoc (h_marker h) v :: r) st)
  end.

(* action heredocLiteralEOL *)
Definition a_heredoc_eol : hstate -> list Z -> option (emit * hstate) :=
  fun st b =>
    match l_hdocs st with
    | [] => None
    | top :: rest =>
        if h_sol top && zlist_eqb (trim_space b) (h_marker top) then
          (* te--; if data[te-1] == '\r' { nls--; te-- } *)
          let k := if last (removelast b) 0 =? 13 then 2%nat else 1%nat in
          match fret (set_hdocs rest st) with
          | Some st' => Some (ETwo TokenCHeredoc k TokenNewline, st')
          | None => None
          end
        else
          Some (EOne TokenStringLit, set_hdocs (mkHdoc (h_marker top) true :: rest) st)
    end.
(* action heredocLiteralMidline *)
Definition a_heredoc_mid : hstate -> list Z -> option (emit * hstate) :=
  fun st _ => match set_top_sol false st with
              | Some st' => Some (EOne TokenStringLit, st')
              | None => None
              end.

(* actions beginTemplateInterp / beginTemplateControl *)
Definition a_begin_tmpl (ty : Z) : hstate -> list Z -> option (emit * hstate) :=
  fun st _ =>
    let br := l_braces st + 1 in
    let st1 := set_ret (br :: l_ret st) (set_braces br st) in
    let st2 := match set_top_sol false st1 with Some s => s | None => st1 end in
    Some (EOne ty, fcall MMain st2).

(* action openBrace *)
Definition a_open_brace : hstate -> list Z -> option (emit * hstate) :=
  fun st _ => Some (EOne TokenOBrace, set_braces (l_braces st + 1) st).

Definition ret_matches (st : hstate) : bool :=
  match l_ret st with r :: _ => r =? l_braces st | [] => false end.

(* actions closeBrace (else_ty = TokenCBrace) and closeTemplateSeqEatWhitespace
   (else_ty = TokenTemplateSeqEnd) *)
Definition a_close (else_ty : Z) : hstate -> list Z -> option (emit * hstate) :=
  fun st _ =>
    if ret_matches st then
      match fret (set_ret (tl (l_ret st)) (set_braces (l_braces st - 1) st)) with
      | Some st' => Some (EOne TokenTemplateSeqEnd, st')
      | None => None
      end
    else Some (EOne else_ty, set_braces (l_braces st - 1) st).

(* ---- the scanners ---------------------------------------------------------- *)

Definition R := @mkRule hmode.

Definition rules_string : list hrule :=
  [ R (m_tmpl_open 36) (a_begin_tmpl TokenTemplateInterp);
    R (m_tmpl_open 37) (a_begin_tmpl TokenTemplateControl);
    R (m_lit [34]) a_end_string;
    R m_tmpl_string_lit (a_tok TokenQuotedLit);
    R m_nlseq (a_tok TokenQuotedNewline);
    R m_any_utf8 (a_tok TokenInvalid);
    R m_broken (a_tok TokenBadUTF8) ].

Definition rules_heredoc : list hrule :=
  [ R (m_tmpl_open 36) (a_begin_tmpl TokenTemplateInterp);
    R (m_tmpl_open 37) (a_begin_tmpl TokenTemplateControl);
    R m_heredoc_eol a_heredoc_eol;
    R m_heredoc_mid a_heredoc_mid;
    R m_broken (a_tok TokenBadUTF8) ].

Definition rules_bare : list hrule :=
  [ R (m_tmpl_open 36) (a_begin_tmpl TokenTemplateInterp);
    R (m_tmpl_open 37) (a_begin_tmpl TokenTemplateControl);
    R m_bare_lit (a_tok TokenStringLit);
    R m_broken (a_tok TokenBadUTF8);
    R m_lone_cr (a_tok TokenStringLit) ].

Definition rules_ident_only : list hrule :=
  [ R m_ident (a_tok TokenIdent);
    R m_broken (a_tok TokenBadUTF8);
    R m_any_utf8 (a_tok TokenInvalid) ].

Definition rule_spaces : hrule := R m_spaces a_skip.

Definition rules_main : list hrule :=
  [ rule_spaces;
    R m_number (a_tok TokenNumberLit);
    R m_ident (a_tok TokenIdent);
    R m_comment (a_tok TokenComment);
    R m_newline (a_tok TokenNewline);
    R (m_lit [61; 61]) (a_tok TokenEqualOp);
    R (m_lit [33; 61]) (a_tok TokenNotEqual);
    R (m_lit [62; 61]) (a_tok TokenGreaterThanEq);
    R (m_lit [60; 61]) (a_tok TokenLessThanEq);
    R (m_lit [38; 38]) (a_tok TokenAnd);
    R (m_lit [124; 124]) (a_tok TokenOr);
    R (m_lit [58; 58]) (a_tok TokenDoubleColon);
    R (m_lit [46; 46; 46]) (a_tok TokenEllipsis);
    R (m_lit [61; 62]) (a_tok TokenFatArrow);
    R m_self a_self;
    R (m_lit [123]) a_open_brace;
    R (m_lit [125]) (a_close TokenCBrace);
    R (m_lit [126; 125]) (a_close TokenTemplateSeqEnd);
    R (m_lit [34]) a_begin_string;
    R m_heredoc_begin a_begin_heredoc;
    R m_broken (a_tok TokenBadUTF8);
    R m_any_utf8 (a_tok TokenInvalid) ].

Definition hcl_rules (m : hmode) : list hrule :=
  match m with
  | MMain => rules_main
  | MString => rules_string
  | MHeredoc => rules_heredoc
  | MBare => rules_bare
  | MIdentOnly => rules_ident_only
  end.

(* scan_tokens.rl:380-392: `mode == scanTemplate && len(stack) == 0` *)
Definition hcl_err_ty (entry : hmode) (st : hstate) : Z :=
  match entry, l_stack st with
  | MBare, [] => TokenStringLit
  | _, _ => TokenInvalid
  end.

Definition hcl_machine (entry : hmode) : machine hmode :=
  mkMachine hcl_rules (hcl_err_ty entry) TokenEOF.

(* scanTokens up to the calls of emitToken: data is the input with the BOM
   already stripped; offsets are relative to data (Ragel ts/te) *)
Definition hcl_scan (entry : hmode) (data : list Z) : list (item) * status :=
  scan (hcl_machine entry) entry data.

(* scanMode: scanNormal = 0, scanTemplate = 1, scanIdentOnly = 2 *)
Definition mode_of_code (c : Z) : hmode :=
  if c =? 1 then MBare else if c =? 2 then MIdentOnly else MMain.

(* ---- entry points: scanTokens + LexConfig / LexExpression / LexTemplate ------
   (hclsyntax/scan_tokens.rl:20-30 and 377-398, hclsyntax/public.go:149-186;
   the diagnostics of checkInvalidTokens are not part of this model) *)

Inductive lex_result :=
  | LexOk (toks : list token)
  | LexPanic            (* a Go panic inside an action *)
  | LexOutOfFuel        (* never: ScannerProofs.scanner_total *)
  | LexMisaligned.      (* a token boundary is not a cluster boundary of gcs *)

(* stripData := stripUTF8BOM(data); start.Byte += len(data) - len(stripData) *)
Definition scan_start (src : list Z) (start : pos) : list Z * pos :=
  let data := strip_bom src in
  (data, mkPos (p_line start) (p_col start) (p_byte start + (zlen src - zlen data))).

(* cls = textseg's clusters of every token's bytes, in token order *)
Definition scan_tokens_cl (src : list Z) (start : pos) (mode : hmode) (cls : list (list Z)) : lex_result :=
  let '(data, st) := scan_start src start in
  match hcl_scan mode data with
  | (its, Done) => LexOk (emit_all_cl (mkAcc st (p_byte st)) (tokens_of its) cls)
  | (_, Panicked) => LexPanic
  | (_, OutOfFuel) => LexOutOfFuel
  end.

(* gcs = textseg's clusters of the input after the BOM *)
Definition scan_tokens (src : list Z) (start : pos) (mode : hmode) (gcs : list Z) : lex_result :=
  let '(data, st) := scan_start src start in
  match hcl_scan mode data with
  | (its, Done) =>
      match emit_all_gcs (mkAcc st (p_byte st)) gcs (tokens_of its) with
      | Some l => LexOk l
      | None => LexMisaligned
      end
  | (_, Panicked) => LexPanic
  | (_, OutOfFuel) => LexOutOfFuel
  end.

Definition lex_config (src : list Z) (start : pos) (gcs : list Z) : lex_result :=
  scan_tokens src start MMain gcs.
(* "This is actually just the same thing as LexConfig" (public.go:165) *)
Definition lex_expression (src : list Z) (start : pos) (gcs : list Z) : lex_result :=
  scan_tokens src start MMain gcs.
Definition lex_template (src : list Z) (start : pos) (gcs : list Z) : lex_result :=
  scan_tokens src start MBare gcs.
