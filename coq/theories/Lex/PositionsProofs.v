(* Lex/PositionsProofs.v — every Start/End computed by emitToken is the
   canonical position of its byte offset (count newline clusters and grapheme
   clusters from the start position), provided the tokens tile the input with
   blank gaps and token boundaries fall on cluster boundaries; the same for
   RangeScanner under its own line-break convention; the two conventions
   differ on a lone CR. *)
From HclV Require Import Base.Prelude Lex.Scanner Lex.ScannerProofs Lex.Positions.

(* ---- lists -------------------------------------------------------------------- *)

Lemma skipn_skipn' {A} : forall a b (l : list A), skipn a (skipn b l) = skipn (b + a) l.
Proof.
  intros a b. induction b as [|b IH]; intro l; [reflexivity|].
  destruct l as [|x l]; simpl; [destruct a; reflexivity|apply IH].
Qed.

Lemma sumZ_app a b : sumZ (a ++ b) = sumZ a + sumZ b.
Proof. induction a as [|x a IH]; simpl; [reflexivity|]. unfold sumZ in *. simpl. rewrite IH. lia. Qed.

Lemma sumZ_nonneg l : Forall (fun n => 0 < n) l -> 0 <= sumZ l.
Proof. induction 1; unfold sumZ in *; simpl; lia. Qed.

(* ---- split_cl ------------------------------------------------------------------ *)

Lemma split_cl_spec : forall cl n pre post,
  split_cl cl n = Some (pre, post) ->
  cl = pre ++ post /\ sumZ pre = n /\ Forall (fun c => 0 < c) pre.
Proof.
  induction cl as [|c r IH]; intros n pre post H; simpl in H.
  - destruct (n =? 0) eqn:E; [|discriminate]. inversion H; subst. apply Z.eqb_eq in E.
    repeat split; auto.
  - destruct (n =? 0) eqn:E.
    + inversion H; subst. apply Z.eqb_eq in E. repeat split; auto.
    + destruct ((0 <? c) && (c <=? n)) eqn:Ec; [|discriminate].
      destruct (split_cl r (n - c)) as [[a b]|] eqn:Es; [|discriminate].
      inversion H; subst. apply IH in Es. destruct Es as (-> & Hs & Hf).
      apply andb_true_iff in Ec. destruct Ec as [E1 E2]. apply Z.ltb_lt in E1.
      repeat split; auto. unfold sumZ in *. simpl. lia.
Qed.

Lemma split_cl_0 cl : split_cl cl 0 = Some ([], cl).
Proof. destruct cl; reflexivity. Qed.

Lemma split_cl_nonneg cl n pre post : split_cl cl n = Some (pre, post) -> 0 <= n.
Proof. intro H. apply split_cl_spec in H. destruct H as (_ & <- & Hf). apply sumZ_nonneg. exact Hf. Qed.

(* splitting at a + b = splitting at a, then splitting the rest at b *)
Lemma split_cl_add : forall cl a b p1 r1,
  split_cl cl a = Some (p1, r1) -> 0 <= b ->
  split_cl cl (a + b) =
  match split_cl r1 b with Some (p2, r2) => Some (p1 ++ p2, r2) | None => None end.
Proof.
  induction cl as [|c r IH]; intros a b p1 r1 H Hb.
  - simpl in H. destruct (a =? 0) eqn:E; [|discriminate]. inversion H; subst.
    apply Z.eqb_eq in E. subst a. simpl (0 + b). destruct (split_cl [] b) as [[p2 r2]|]; reflexivity.
  - simpl in H. destruct (a =? 0) eqn:E.
    + inversion H; subst. apply Z.eqb_eq in E. subst a. simpl (0 + b).
      destruct (split_cl (c :: r) b) as [[p2 r2]|]; reflexivity.
    + destruct ((0 <? c) && (c <=? a)) eqn:Ec; [|discriminate].
      destruct (split_cl r (a - c)) as [[x y]|] eqn:Es; [|discriminate].
      inversion H; subst. apply andb_true_iff in Ec. destruct Ec as [E1 E2].
      apply Z.ltb_lt in E1. apply Z.leb_le in E2. apply Z.eqb_neq in E.
      pose proof (IH _ b _ _ Es Hb) as IH'.
      cbn [split_cl]. assert (En : (a + b =? 0) = false) by (apply Z.eqb_neq; lia). rewrite En.
      assert (Ec' : (0 <? c) && (c <=? a + b) = true).
      { apply andb_true_iff. split; [apply Z.ltb_lt|apply Z.leb_le]; lia. }
      rewrite Ec'. replace (a + b - c) with (a - c + b) by lia. rewrite IH'.
      destruct (split_cl r1 b) as [[p2 r2]|]; reflexivity.
Qed.

Lemma is_boundary_shift cl a b p1 r1 :
  split_cl cl a = Some (p1, r1) -> 0 <= b -> is_boundary cl (a + b) -> is_boundary r1 b.
Proof.
  intros H Hb (pre & post & Hs). rewrite (split_cl_add _ _ b _ _ H Hb) in Hs.
  destruct (split_cl r1 b) as [[p2 r2]|] eqn:E2; [|discriminate]. exists p2, r2. exact E2.
Qed.

(* if every offset 0..g is a boundary, the first g clusters are single bytes *)
Lemma split_cl_ones : forall k cl,
  (forall x, 0 <= x <= Z.of_nat k -> is_boundary cl x) ->
  exists r, split_cl cl (Z.of_nat k) = Some (repeat 1 k, r).
Proof.
  induction k as [|k IH]; intros cl H.
  - exists cl. apply split_cl_0.
  - assert (H1 : is_boundary cl 1) by (apply H; lia).
    destruct H1 as (pre & post & H1).
    destruct cl as [|c r]; [simpl in H1; discriminate|].
    simpl in H1. destruct ((0 <? c) && (c <=? 1)) eqn:Ec; [|discriminate].
    apply andb_true_iff in Ec. destruct Ec as [E1 E2]. apply Z.ltb_lt in E1. apply Z.leb_le in E2.
    assert (c = 1) by lia. subst c.
    assert (Hs1 : split_cl (1 :: r) 1 = Some ([1], r)) by (simpl; rewrite split_cl_0; reflexivity).
    destruct (IH r) as (r' & Hr').
    { intros x Hx. apply (is_boundary_shift (1 :: r) 1 x [1] r Hs1); [lia|].
      apply H. lia. }
    exists r'. replace (Z.of_nat (S k)) with (1 + Z.of_nat k) by lia.
    rewrite (split_cl_add _ _ (Z.of_nat k) _ _ Hs1) by lia. rewrite Hr'. reflexivity.
Qed.

(* ---- count_clusters -------------------------------------------------------------- *)

Lemma count_app nl : forall cl1 l c b cl2, Forall (fun n => 0 < n) cl1 ->
  count_clusters nl l c b (cl1 ++ cl2) =
  let '(l1, c1) := count_clusters nl l c b cl1 in
  count_clusters nl l1 c1 (skipn (Z.to_nat (sumZ cl1)) b) cl2.
Proof.
  induction cl1 as [|n cl1 IH]; intros l c b cl2 Hf; [reflexivity|].
  inversion Hf as [|? ? Hn Hf']; subst. pose proof (sumZ_nonneg _ Hf') as Hs.
  assert (E : skipn (Z.to_nat (sumZ cl1)) (skipn (Z.to_nat n) b) = skipn (Z.to_nat (sumZ (n :: cl1))) b).
  { rewrite skipn_skipn'. f_equal. unfold sumZ in *. simpl. lia. }
  cbn [app count_clusters]. destruct (nl (firstn (Z.to_nat n) b)); rewrite IH by assumption;
    destruct (count_clusters nl _ _ (skipn (Z.to_nat n) b) cl1) as [l1 c1]; rewrite E; auto.
Qed.

(* clusters that lie within b do not look beyond it *)
Lemma count_prefix nl : forall cl l c b x, Forall (fun n => 0 < n) cl -> sumZ cl <= zlen b ->
  count_clusters nl l c (b ++ x) cl = count_clusters nl l c b cl.
Proof.
  induction cl as [|n cl IH]; intros l c b x Hf Hs; [reflexivity|].
  inversion Hf as [|? ? Hn Hf']; subst. pose proof (sumZ_nonneg _ Hf') as Hs'.
  assert (Hle : (Z.to_nat n <= length b)%nat) by (unfold sumZ, zlen in *; simpl in Hs; lia).
  cbn [count_clusters].
  assert (E1 : firstn (Z.to_nat n) (b ++ x) = firstn (Z.to_nat n) b).
  { rewrite firstn_app. replace (Z.to_nat n - length b)%nat with O by lia. simpl. apply app_nil_r. }
  assert (E2 : skipn (Z.to_nat n) (b ++ x) = skipn (Z.to_nat n) b ++ x).
  { rewrite skipn_app. replace (Z.to_nat n - length b)%nat with O by lia. reflexivity. }
  rewrite E1, E2.
  assert (Hs2 : sumZ cl <= zlen (skipn (Z.to_nat n) b)).
  { unfold zlen. rewrite skipn_length. unfold sumZ, zlen in *. simpl in Hs. lia. }
  destruct (nl (firstn (Z.to_nat n) b)); apply IH; assumption.
Qed.

(* a run of one-byte clusters over bytes that are not line breaks: one column each *)
Lemma count_ones nl (blank : Z -> bool) (Hb : forall c, blank c = true -> nl [c] = false) :
  forall g l c x, forallb blank g = true ->
  count_clusters nl l c (g ++ x) (repeat 1 (length g)) = (l, c + zlen g).
Proof.
  induction g as [|a g IH]; intros l c x Hg.
  - simpl. f_equal. unfold zlen. simpl. lia.
  - simpl in Hg. apply andb_true_iff in Hg. destruct Hg as [Ha Hg].
    cbn [length repeat count_clusters]. change (Z.to_nat 1) with 1%nat.
    cbn [app firstn skipn]. rewrite (Hb _ Ha). rewrite IH by assumption.
    f_equal. unfold zlen. simpl length. lia.
Qed.

(* ---- emitToken computes the canonical position ------------------------------------ *)

Lemma skipn_app_exact {A} (a b : list A) n : n = length a -> skipn n (a ++ b) = b.
Proof. intros ->. rewrite skipn_app, skipn_all, Nat.sub_diag. reflexivity. Qed.

Lemma Forall_repeat_1 k : Forall (fun n => 0 < n) (repeat 1 k).
Proof. induction k; simpl; constructor; auto; lia. Qed.

Lemma sumZ_repeat_1 k : sumZ (repeat 1 k) = Z.of_nat k.
Proof. induction k as [|k IH]; [reflexivity|]. unfold sumZ in *. cbn [repeat fold_right]. rewrite IH. lia. Qed.

Section Faithful.
Variable blank : Z -> bool.
Hypothesis blank_not_nl : forall c, blank c = true -> is_nl_lexer [c] = false.

Definition blank_gap (g : list Z) : Prop := forallb blank g = true.

(* "token boundaries fall on grapheme-cluster boundaries": every byte offset
   from the end of the previous token to the start of the token (the gap bytes
   and the token start) and the token's end are cluster boundaries of gcs *)
Fixpoint aligned (gcs : list Z) (lo : Z) (toks : list rtok) : Prop :=
  match toks with
  | [] => True
  | t :: r =>
      (forall off, lo <= off <= k_s t -> is_boundary gcs off) /\
      is_boundary gcs (k_e t) /\
      aligned gcs (k_e t) r
  end.

Definition tok_faithful (start : pos) (data gcs : list Z) (t : rtok) (tk : token) : Prop :=
  t_ty tk = k_ty t /\ t_bytes tk = k_bytes t /\
  pos_at is_nl_lexer start data gcs (p_byte start + k_s t) = Some (r_start (t_range tk)) /\
  pos_at is_nl_lexer start data gcs (p_byte start + k_e t) = Some (r_end (t_range tk)).

Lemma emit_all_faithful (start : pos) (data gcs : list Z) :
  forall toks a rest lo dpre drest pre l c,
  data = dpre ++ drest -> zlen dpre = lo ->
  split_cl gcs lo = Some (pre, rest) ->
  count_clusters is_nl_lexer (p_line start) (p_col start) data pre = (l, c) ->
  a = mkAcc (mkPos l c (p_byte start + lo)) (p_byte start) ->
  tiled blank_gap lo drest toks -> aligned gcs lo toks ->
  exists out, emit_all_gcs a rest toks = Some out /\
              Forall2 (tok_faithful start data gcs) toks out.
Proof.
  induction toks as [|t r IH]; intros a rest lo dpre drest pre l c Hdata Hlo Hsp Hcnt Ha Ht Hal.
  - exists []. split; [reflexivity|constructor].
  - destruct Ht as (g & rest' & Hd & Hg & Hs & He & Ht).
    destruct Hal as (Hb1 & Hb2 & Hal).
    set (sb := p_byte start) in *.
    set (G := zlen g) in *. set (B := zlen (k_bytes t)) in *.
    assert (HG : G = Z.of_nat (length g)) by reflexivity.
    assert (HG0 : 0 <= G) by (unfold G; apply zlen_nonneg).
    assert (HB0 : 0 <= B) by (unfold B; apply zlen_nonneg).
    pose proof (split_cl_spec _ _ _ _ Hsp) as (Hgcs & Hsum & Hfpre).
    assert (Hlo0 : 0 <= lo) by (rewrite <- Hlo; apply zlen_nonneg).
    (* the gap: one-byte clusters *)
    destruct (split_cl_ones (length g) rest) as (r1 & Hones).
    { intros x Hx. apply (is_boundary_shift gcs lo x pre rest Hsp); [lia|]. apply Hb1. lia. }
    rewrite <- HG in Hones.
    assert (Hsp1 : split_cl gcs (lo + G) = Some (pre ++ repeat 1 (length g), r1)).
    { rewrite (split_cl_add gcs lo G pre rest Hsp HG0), Hones. reflexivity. }
    (* the token *)
    assert (Hbt : is_boundary r1 B).
    { apply (is_boundary_shift gcs (lo + G) B _ r1 Hsp1 HB0).
      replace (lo + G + B) with (k_e t) by lia. exact Hb2. }
    destruct Hbt as (cl & r2 & Hcl).
    assert (Hsp2 : split_cl gcs (lo + G + B) = Some ((pre ++ repeat 1 (length g)) ++ cl, r2)).
    { rewrite (split_cl_add gcs (lo + G) B _ r1 Hsp1 HB0), Hcl. reflexivity. }
    pose proof (split_cl_spec _ _ _ _ Hsp1) as (_ & Hsum1 & Hf1).
    pose proof (split_cl_spec _ _ _ _ Hcl) as (_ & Hsumcl & Hfcl).
    (* the data at the three offsets *)
    assert (Hsk0 : skipn (Z.to_nat (sumZ pre)) data = g ++ k_bytes t ++ rest').
    { rewrite Hdata, Hd. apply skipn_app_exact. unfold zlen in Hlo. lia. }
    assert (Hsk1 : skipn (Z.to_nat (sumZ (pre ++ repeat 1 (length g)))) data = k_bytes t ++ rest').
    { rewrite Hdata, Hd, app_assoc. apply skipn_app_exact. rewrite app_length.
      unfold zlen in Hlo. lia. }
    (* canonical counts *)
    assert (Hcnt1 : count_clusters is_nl_lexer (p_line start) (p_col start) data
                      (pre ++ repeat 1 (length g)) = (l, c + G)).
    { rewrite (count_app _ _ _ _ _ _ Hfpre), Hcnt, Hsk0.
      apply (count_ones is_nl_lexer blank blank_not_nl). exact Hg. }
    destruct (count_clusters is_nl_lexer l (c + G) (k_bytes t) cl) as [l2 c2] eqn:Hcnt2.
    assert (Hcnt3 : count_clusters is_nl_lexer (p_line start) (p_col start) data
                      ((pre ++ repeat 1 (length g)) ++ cl) = (l2, c2)).
    { rewrite (count_app _ _ _ _ _ _ Hf1), Hcnt1, Hsk1.
      rewrite count_prefix; [exact Hcnt2|exact Hfcl|fold B; lia]. }
    (* run emitToken *)
    assert (Hemit : emit_token_gcs a rest t =
                    Some (mkToken (k_ty t) (k_bytes t)
                            (mkRange (mkPos l (c + G) (sb + k_s t)) (mkPos l2 c2 (sb + k_e t))),
                          mkAcc (mkPos l2 c2 (sb + k_e t)) sb, r2)).
    { unfold emit_token_gcs. rewrite Ha. cbn [a_pos a_start_byte p_byte].
      replace (k_s t + sb - (sb + lo)) with G by lia. rewrite Hones.
      replace (k_e t - k_s t) with B by lia. rewrite Hcl.
      unfold emit_token_cl. cbn [a_pos a_start_byte p_byte p_line p_col].
      replace (k_s t + sb - (sb + lo)) with G by lia. rewrite Hcnt2.
      replace (k_s t + sb) with (sb + k_s t) by lia.
      replace (k_e t + sb) with (sb + k_e t) by lia. reflexivity. }
    destruct (IH (mkAcc (mkPos l2 c2 (sb + k_e t)) sb) r2 (k_e t) (dpre ++ g ++ k_bytes t) rest'
                 ((pre ++ repeat 1 (length g)) ++ cl) l2 c2) as (out & Hout & Hfa); auto.
    { rewrite Hdata, Hd, <- !app_assoc. reflexivity. }
    { rewrite !zlen_app. fold G B. lia. }
    { replace (k_e t) with (lo + G + B) by lia. exact Hsp2. }
    exists (mkToken (k_ty t) (k_bytes t)
              (mkRange (mkPos l (c + G) (sb + k_s t)) (mkPos l2 c2 (sb + k_e t))) :: out).
    split.
    + cbn [emit_all_gcs]. rewrite Hemit, Hout. reflexivity.
    + constructor; [|exact Hfa]. unfold tok_faithful. cbn [t_ty t_bytes t_range r_start r_end].
      repeat split.
      * unfold pos_at. fold sb. replace (sb + k_s t - sb) with (lo + G) by lia.
        rewrite Hsp1, Hcnt1. reflexivity.
      * unfold pos_at. fold sb. replace (sb + k_e t - sb) with (lo + G + B) by lia.
        rewrite Hsp2, Hcnt3. reflexivity.
Qed.

(* THE POSITION THEOREM. If the tokens tile data with blank gaps (which the
   scanner guarantees) and the token boundaries and gap bytes fall on cluster
   boundaries of gcs, then emitToken succeeds on every token and every Start
   and End it computes is pos_at of its byte offset: the position obtained by
   counting "\n" / "\r\n" clusters and grapheme clusters from the start
   position. Any start position, any cluster list. *)
Theorem positions_faithful : forall (start : pos) (data gcs : list Z) (toks : list rtok),
  tiled blank_gap 0 data toks ->
  aligned gcs 0 toks ->
  exists out,
    emit_all_gcs (mkAcc start (p_byte start)) gcs toks = Some out /\
    Forall2 (tok_faithful start data gcs) toks out.
Proof.
  intros start data gcs toks Ht Hal.
  apply (emit_all_faithful start data gcs toks _ gcs 0 [] data [] (p_line start) (p_col start));
    auto.
  - apply split_cl_0.
  - destruct start as [sl sc sb0]; cbn [p_line p_col p_byte]. rewrite Z.add_0_r. reflexivity.
Qed.

End Faithful.
