(* Lex/PositionsProofs.v — every Start/End computed by emitToken is the
   canonical position of its byte offset (count newline clusters and grapheme
   clusters from the start position), provided the tokens tile the input with
   blank gaps and token boundaries fall on cluster boundaries; the same for
   RangeScanner under its own line-break convention; the two conventions
   differ on a lone CR. *)
From HclV Require Import Base.Prelude Lex.Scanner Lex.ScannerProofs Lex.Positions.

(* ---- lists -------------------------------------------------------------------- *)

Lemma skipn_skipn' {A} : forall a b (l : list A), skipn a (skipn b l) = skipn (b + a) l.
Proof.
  intros a b. induction b as [|b IH]; intro l; [reflexivity|].
  destruct l as [|x l]; simpl; [destruct a; reflexivity|apply IH].
Qed.

Lemma sumZ_app a b : sumZ (a ++ b) = sumZ a + sumZ b.
Proof. induction a as [|x a IH]; simpl; [reflexivity|]. unfold sumZ in *. simpl. rewrite IH. lia. Qed.

Lemma sumZ_nonneg l : Forall (fun n => 0 < n) l -> 0 <= sumZ l.
Proof. induction 1; unfold sumZ in *; simpl; lia. Qed.

(* ---- split_cl ------------------------------------------------------------------ *)

Lemma split_cl_spec : forall cl n pre post,
  split_cl cl n = Some (pre, post) ->
  cl = pre ++ post /\ sumZ pre = n /\ Forall (fun c => 0 < c) pre.
Proof.
  induction cl as [|c r IH]; intros n pre post H; simpl in H.
  - destruct (n =? 0) eqn:E; [|discriminate]. inversion H; subst. apply Z.eqb_eq in E.
    repeat split; auto.
  - destruct (n =? 0) eqn:E.
    + inversion H; subst. apply Z.eqb_eq in E. repeat split; auto.
    + destruct ((0 <? c) && (c <=? n)) eqn:Ec; [|discriminate].
      destruct (split_cl r (n - c)) as [[a b]|] eqn:Es; [|discriminate].
      inversion H; subst. apply IH in Es. destruct Es as (-> & Hs & Hf).
      apply andb_true_iff in Ec. destruct Ec as [E1 E2]. apply Z.ltb_lt in E1.
      repeat split; auto. unfold sumZ in *. simpl. lia.
Qed.

Lemma split_cl_0 cl : split_cl cl 0 = Some ([], cl).
Proof. destruct cl; reflexivity. Qed.

Lemma split_cl_nonneg cl n pre post : split_cl cl n = Some (pre, post) -> 0 <= n.
Proof. intro H. apply split_cl_spec in H. destruct H as (_ & <- & Hf). apply sumZ_nonneg. exact Hf. Qed.

(* splitting at a + b = splitting at a, then splitting the rest at b *)
Lemma split_cl_add : forall cl a b p1 r1,
  split_cl cl a = Some (p1, r1) -> 0 <= b ->
  split_cl cl (a + b) =
  match split_cl r1 b with Some (p2, r2) => Some (p1 ++ p2, r2) | None => None end.
Proof.
  induction cl as [|c r IH]; intros a b p1 r1 H Hb.
  - simpl in H. destruct (a =? 0) eqn:E; [|discriminate]. inversion H; subst.
    apply Z.eqb_eq in E. subst a. simpl (0 + b). destruct (split_cl [] b) as [[p2 r2]|]; reflexivity.
  - simpl in H. destruct (a =? 0) eqn:E.
    + inversion H; subst. apply Z.eqb_eq in E. subst a. simpl (0 + b).
      destruct (split_cl (c :: r) b) as [[p2 r2]|]; reflexivity.
    + destruct ((0 <? c) && (c <=? a)) eqn:Ec; [|discriminate].
      destruct (split_cl r (a - c)) as [[x y]|] eqn:Es; [|discriminate].
      inversion H; subst. apply andb_true_iff in Ec. destruct Ec as [E1 E2].
      apply Z.ltb_lt in E1. apply Z.leb_le in E2. apply Z.eqb_neq in E.
      pose proof (IH _ b _ _ Es Hb) as IH'.
      cbn [split_cl]. assert (En : (a + b =? 0) = false) by (apply Z.eqb_neq; lia). rewrite En.
      assert (Ec' : (0 <? c) && (c <=? a + b) = true).
      { apply andb_true_iff. split; [apply Z.ltb_lt|apply Z.leb_le]; lia. }
      rewrite Ec'. replace (a + b - c) with (a - c + b) by lia. rewrite IH'.
      destruct (split_cl r1 b) as [[p2 r2]|]; reflexivity.
Qed.

Lemma is_boundary_shift cl a b p1 r1 :
  split_cl cl a = Some (p1, r1) -> 0 <= b -> is_boundary cl (a + b) -> is_boundary r1 b.
Proof.
  intros H Hb (pre & post & Hs). rewrite (split_cl_add _ _ b _ _ H Hb) in Hs.
  destruct (split_cl r1 b) as [[p2 r2]|] eqn:E2; [|discriminate]. exists p2, r2. exact E2.
Qed.

(* if every offset 0..g is a boundary, the first g clusters are single bytes *)
Lemma split_cl_ones : forall k cl,
  (forall x, 0 <= x <= Z.of_nat k -> is_boundary cl x) ->
  exists r, split_cl cl (Z.of_nat k) = Some (repeat 1 k, r).
Proof.
  induction k as [|k IH]; intros cl H.
  - exists cl. apply split_cl_0.
  - assert (H1 : is_boundary cl 1) by (apply H; lia).
    destruct H1 as (pre & post & H1).
    destruct cl as [|c r]; [simpl in H1; discriminate|].
    simpl in H1. destruct ((0 <? c) && (c <=? 1)) eqn:Ec; [|discriminate].
    apply andb_true_iff in Ec. destruct Ec as [E1 E2]. apply Z.ltb_lt in E1. apply Z.leb_le in E2.
    assert (c = 1) by lia. subst c.
    assert (Hs1 : split_cl (1 :: r) 1 = Some ([1], r)) by (simpl; rewrite split_cl_0; reflexivity).
    destruct (IH r) as (r' & Hr').
    { intros x Hx. apply (is_boundary_shift (1 :: r) 1 x [1] r Hs1); [lia|].
      apply H. lia. }
    exists r'. replace (Z.of_nat (S k)) with (1 + Z.of_nat k) by lia.
    rewrite (split_cl_add _ _ (Z.of_nat k) _ _ Hs1) by lia. rewrite Hr'. reflexivity.
Qed.

(* ---- count_clusters -------------------------------------------------------------- *)

Lemma count_app nl : forall cl1 l c b cl2, Forall (fun n => 0 < n) cl1 ->
  count_clusters nl l c b (cl1 ++ cl2) =
  let '(l1, c1) := count_clusters nl l c b cl1 in
  count_clusters nl l1 c1 (skipn (Z.to_nat (sumZ cl1)) b) cl2.
Proof.
  induction cl1 as [|n cl1 IH]; intros l c b cl2 Hf; [reflexivity|].
  inversion Hf as [|? ? Hn Hf']; subst. pose proof (sumZ_nonneg _ Hf') as Hs.
  assert (E : skipn (Z.to_nat (sumZ cl1)) (skipn (Z.to_nat n) b) = skipn (Z.to_nat (sumZ (n :: cl1))) b).
  { rewrite skipn_skipn'. f_equal. unfold sumZ in *. simpl. lia. }
  cbn [app count_clusters]. destruct (nl (firstn (Z.to_nat n) b)); rewrite IH by assumption;
    destruct (count_clusters nl _ _ (skipn (Z.to_nat n) b) cl1) as [l1 c1]; rewrite E; auto.
Qed.

(* clusters that lie within b do not look beyond it *)
Lemma count_prefix nl : forall cl l c b x, Forall (fun n => 0 < n) cl -> sumZ cl <= zlen b ->
  count_clusters nl l c (b ++ x) cl = count_clusters nl l c b cl.
Proof.
  induction cl as [|n cl IH]; intros l c b x Hf Hs; [reflexivity|].
  inversion Hf as [|? ? Hn Hf']; subst. pose proof (sumZ_nonneg _ Hf') as Hs'.
  assert (Hle : (Z.to_nat n <= length b)%nat) by (unfold sumZ, zlen in *; simpl in Hs; lia).
  cbn [count_clusters].
  assert (E1 : firstn (Z.to_nat n) (b ++ x) = firstn (Z.to_nat n) b).
  { rewrite firstn_app. replace (Z.to_nat n - length b)%nat with O by lia. simpl. apply app_nil_r. }
  assert (E2 : skipn (Z.to_nat n) (b ++ x) = skipn (Z.to_nat n) b ++ x).
  { rewrite skipn_app. replace (Z.to_nat n - length b)%nat with O by lia. reflexivity. }
  rewrite E1, E2.
  assert (Hs2 : sumZ cl <= zlen (skipn (Z.to_nat n) b)).
  { unfold zlen. rewrite skipn_length. unfold sumZ, zlen in *. simpl in Hs. lia. }
  destruct (nl (firstn (Z.to_nat n) b)); apply IH; assumption.
Qed.

(* a run of one-byte clusters over bytes that are not line breaks: one column each *)
Lemma count_ones nl (blank : Z -> bool) (Hb : forall c, blank c = true -> nl [c] = false) :
  forall g l c x, forallb blank g = true ->
  count_clusters nl l c (g ++ x) (repeat 1 (length g)) = (l, c + zlen g).
Proof.
  induction g as [|a g IH]; intros l c x Hg.
  - simpl. f_equal. unfold zlen. simpl. lia.
  - simpl in Hg. apply andb_true_iff in Hg. destruct Hg as [Ha Hg].
    cbn [length repeat count_clusters]. change (Z.to_nat 1) with 1%nat.
    cbn [app firstn skipn]. rewrite (Hb _ Ha). rewrite IH by assumption.
    f_equal. unfold zlen. simpl length. lia.
Qed.

(* ---- emitToken computes the canonical position ------------------------------------ *)

Lemma skipn_app_exact {A} (a b : list A) n : n = length a -> skipn n (a ++ b) = b.
Proof. intros ->. rewrite skipn_app, skipn_all, Nat.sub_diag. reflexivity. Qed.

Lemma Forall_repeat_1 k : Forall (fun n => 0 < n) (repeat 1 k).
Proof. induction k; simpl; constructor; auto; lia. Qed.

Lemma sumZ_repeat_1 k : sumZ (repeat 1 k) = Z.of_nat k.
Proof. induction k as [|k IH]; [reflexivity|]. unfold sumZ in *. cbn [repeat fold_right]. rewrite IH. lia. Qed.

Section Faithful.
Variable blank : Z -> bool.
Hypothesis blank_not_nl : forall c, blank c = true -> is_nl_lexer [c] = false.

Definition blank_gap (g : list Z) : Prop := forallb blank g = true.

(* "token boundaries fall on grapheme-cluster boundaries": every byte offset
   from the end of the previous token to the start of the token (the gap bytes
   and the token start) and the token's end are cluster boundaries of gcs *)
Fixpoint aligned (gcs : list Z) (lo : Z) (toks : list rtok) : Prop :=
  match toks with
  | [] => True
  | t :: r =>
      (forall off, lo <= off <= k_s t -> is_boundary gcs off) /\
      is_boundary gcs (k_e t) /\
      aligned gcs (k_e t) r
  end.

Definition tok_faithful (start : pos) (data gcs : list Z) (t : rtok) (tk : token) : Prop :=
  t_ty tk = k_ty t /\ t_bytes tk = k_bytes t /\
  pos_at is_nl_lexer start data gcs (p_byte start + k_s t) = Some (r_start (t_range tk)) /\
  pos_at is_nl_lexer start data gcs (p_byte start + k_e t) = Some (r_end (t_range tk)).

Lemma emit_all_faithful (start : pos) (data gcs : list Z) :
  forall toks a rest lo dpre drest pre l c,
  data = dpre ++ drest -> zlen dpre = lo ->
  split_cl gcs lo = Some (pre, rest) ->
  count_clusters is_nl_lexer (p_line start) (p_col start) data pre = (l, c) ->
  a = mkAcc (mkPos l c (p_byte start + lo)) (p_byte start) ->
  tiled blank_gap lo drest toks -> aligned gcs lo toks ->
  exists out, emit_all_gcs a rest toks = Some out /\
              Forall2 (tok_faithful start data gcs) toks out.
Proof.
  induction toks as [|t r IH]; intros a rest lo dpre drest pre l c Hdata Hlo Hsp Hcnt Ha Ht Hal.
  - exists []. split; [reflexivity|constructor].
  - destruct Ht as (g & rest' & Hd & Hg & Hs & He & Ht).
    destruct Hal as (Hb1 & Hb2 & Hal).
    set (sb := p_byte start) in *.
    set (G := zlen g) in *. set (B := zlen (k_bytes t)) in *.
    assert (HG : G = Z.of_nat (length g)) by reflexivity.
    assert (HG0 : 0 <= G) by (unfold G; apply zlen_nonneg).
    assert (HB0 : 0 <= B) by (unfold B; apply zlen_nonneg).
    pose proof (split_cl_spec _ _ _ _ Hsp) as (Hgcs & Hsum & Hfpre).
    assert (Hlo0 : 0 <= lo) by (rewrite <- Hlo; apply zlen_nonneg).
    (* the gap: one-byte clusters *)
    destruct (split_cl_ones (length g) rest) as (r1 & Hones).
    { intros x Hx. apply (is_boundary_shift gcs lo x pre rest Hsp); [lia|]. apply Hb1. lia. }
    rewrite <- HG in Hones.
    assert (Hsp1 : split_cl gcs (lo + G) = Some (pre ++ repeat 1 (length g), r1)).
    { rewrite (split_cl_add gcs lo G pre rest Hsp HG0), Hones. reflexivity. }
    (* the token *)
    assert (Hbt : is_boundary r1 B).
    { apply (is_boundary_shift gcs (lo + G) B _ r1 Hsp1 HB0).
      replace (lo + G + B) with (k_e t) by lia. exact Hb2. }
    destruct Hbt as (cl & r2 & Hcl).
    assert (Hsp2 : split_cl gcs (lo + G + B) = Some ((pre ++ repeat 1 (length g)) ++ cl, r2)).
    { rewrite (split_cl_add gcs (lo + G) B _ r1 Hsp1 HB0), Hcl. reflexivity. }
    pose proof (split_cl_spec _ _ _ _ Hsp1) as (_ & Hsum1 & Hf1).
    pose proof (split_cl_spec _ _ _ _ Hcl) as (_ & Hsumcl & Hfcl).
    (* the data at the three offsets *)
    assert (Hsk0 : skipn (Z.to_nat (sumZ pre)) data = g ++ k_bytes t ++ rest').
    { rewrite Hdata, Hd. apply skipn_app_exact. unfold zlen in Hlo. lia. }
    assert (Hsk1 : skipn (Z.to_nat (sumZ (pre ++ repeat 1 (length g)))) data = k_bytes t ++ rest').
    { rewrite Hdata, Hd, app_assoc. apply skipn_app_exact. rewrite app_length.
      unfold zlen in Hlo. lia. }
    (* canonical counts *)
    assert (Hcnt1 : count_clusters is_nl_lexer (p_line start) (p_col start) data
                      (pre ++ repeat 1 (length g)) = (l, c + G)).
    { rewrite (count_app _ _ _ _ _ _ Hfpre), Hcnt, Hsk0.
      apply (count_ones is_nl_lexer blank blank_not_nl). exact Hg. }
    destruct (count_clusters is_nl_lexer l (c + G) (k_bytes t) cl) as [l2 c2] eqn:Hcnt2.
    assert (Hcnt3 : count_clusters is_nl_lexer (p_line start) (p_col start) data
                      ((pre ++ repeat 1 (length g)) ++ cl) = (l2, c2)).
    { rewrite (count_app _ _ _ _ _ _ Hf1), Hcnt1, Hsk1.
      rewrite count_prefix; [exact Hcnt2|exact Hfcl|fold B; lia]. }
    (* run emitToken *)
    assert (Hemit : emit_token_gcs a rest t =
                    Some (mkToken (k_ty t) (k_bytes t)
                            (mkRange (mkPos l (c + G) (sb + k_s t)) (mkPos l2 c2 (sb + k_e t))),
                          mkAcc (mkPos l2 c2 (sb + k_e t)) sb, r2)).
    { unfold emit_token_gcs. rewrite Ha. cbn [a_pos a_start_byte p_byte].
      replace (k_s t + sb - (sb + lo)) with G by lia. rewrite Hones.
      replace (k_e t - k_s t) with B by lia. rewrite Hcl.
      unfold emit_token_cl. cbn [a_pos a_start_byte p_byte p_line p_col].
      replace (k_s t + sb - (sb + lo)) with G by lia. rewrite Hcnt2.
      replace (k_s t + sb) with (sb + k_s t) by lia.
      replace (k_e t + sb) with (sb + k_e t) by lia. reflexivity. }
    destruct (IH (mkAcc (mkPos l2 c2 (sb + k_e t)) sb) r2 (k_e t) (dpre ++ g ++ k_bytes t) rest'
                 ((pre ++ repeat 1 (length g)) ++ cl) l2 c2) as (out & Hout & Hfa); auto.
    { rewrite Hdata, Hd, <- !app_assoc. reflexivity. }
    { rewrite !zlen_app. fold G B. lia. }
    { replace (k_e t) with (lo + G + B) by lia. exact Hsp2. }
    exists (mkToken (k_ty t) (k_bytes t)
              (mkRange (mkPos l (c + G) (sb + k_s t)) (mkPos l2 c2 (sb + k_e t))) :: out).
    split.
    + cbn [emit_all_gcs]. rewrite Hemit, Hout. reflexivity.
    + constructor; [|exact Hfa]. unfold tok_faithful. cbn [t_ty t_bytes t_range r_start r_end].
      repeat split.
      * unfold pos_at. fold sb. replace (sb + k_s t - sb) with (lo + G) by lia.
        rewrite Hsp1, Hcnt1. reflexivity.
      * unfold pos_at. fold sb. replace (sb + k_e t - sb) with (lo + G + B) by lia.
        rewrite Hsp2, Hcnt3. reflexivity.
Qed.

(* THE POSITION THEOREM. If the tokens tile data with blank gaps (which the
   scanner guarantees) and the token boundaries and gap bytes fall on cluster
   boundaries of gcs, then emitToken succeeds on every token and every Start
   and End it computes is pos_at of its byte offset: the position obtained by
   counting "\n" / "\r\n" clusters and grapheme clusters from the start
   position. Any start position, any cluster list. *)
Theorem positions_faithful : forall (start : pos) (data gcs : list Z) (toks : list rtok),
  tiled blank_gap 0 data toks ->
  aligned gcs 0 toks ->
  exists out,
    emit_all_gcs (mkAcc start (p_byte start)) gcs toks = Some out /\
    Forall2 (tok_faithful start data gcs) toks out.
Proof.
  intros start data gcs toks Ht Hal.
  apply (emit_all_faithful start data gcs toks _ gcs 0 [] data [] (p_line start) (p_col start));
    auto.
  - apply split_cl_0.
  - destruct start as [sl sc sb0]; cbn [p_line p_col p_byte]. rewrite Z.add_0_r. reflexivity.
Qed.

End Faithful.

(* ---- the incremental walk used by the checker IS pos_at ---------------------------- *)

Lemma walk_to_spec nl : forall cl p b off w,
  walk_to nl cl p b off = Some w ->
  exists pre,
    split_cl cl (off - p_byte p) = Some (pre, w_cl w) /\
    w_pos w = (let '(l, c) := count_clusters nl (p_line p) (p_col p) b pre in mkPos l c off) /\
    w_data w = skipn (Z.to_nat (off - p_byte p)) b /\
    p_byte p <= off.
Proof.
  induction cl as [|n cl IH]; intros p b off w H; cbn [walk_to] in H.
  - destruct (p_byte p =? off) eqn:E; [|discriminate]. apply Z.eqb_eq in E. inversion H; subst w.
    exists []. replace (off - p_byte p) with 0 by lia. cbn [w_cl w_pos w_data].
    repeat split; [|lia]. destruct p as [pl pc pb]; cbn in *. subst. reflexivity.
  - destruct (p_byte p =? off) eqn:E.
    + apply Z.eqb_eq in E. inversion H; subst w.
      exists []. replace (off - p_byte p) with 0 by lia. cbn [w_cl w_pos w_data].
      repeat split; [|lia]. destruct p as [pl pc pb]; cbn in *. subst. reflexivity.
    + destruct ((0 <? n) && (p_byte p + n <=? off)) eqn:Ec; [|discriminate].
      apply andb_true_iff in Ec. destruct Ec as [E1 E2]. apply Z.ltb_lt in E1. apply Z.leb_le in E2.
      apply Z.eqb_neq in E. apply IH in H. destruct H as (pre & Hsp & Hpos & Hdat & Hle).
      assert (Hb : p_byte (step_pos nl p (firstn (Z.to_nat n) b) n) = p_byte p + n).
      { unfold step_pos. destruct (nl _); reflexivity. }
      rewrite Hb in *. exists (n :: pre). repeat split.
      * cbn [split_cl]. assert (En : (off - p_byte p =? 0) = false) by (apply Z.eqb_neq; lia).
        rewrite En. assert (Ec : (0 <? n) && (n <=? off - p_byte p) = true).
        { apply andb_true_iff. split; [apply Z.ltb_lt|apply Z.leb_le]; lia. }
        rewrite Ec. replace (off - p_byte p - n) with (off - (p_byte p + n)) by lia.
        rewrite Hsp. reflexivity.
      * rewrite Hpos. cbn [count_clusters]. unfold step_pos.
        destruct (nl (firstn (Z.to_nat n) b)); reflexivity.
      * rewrite Hdat, skipn_skipn'. f_equal. lia.
      * lia.
Qed.

Theorem walk_to_pos_at nl start data gcs off w :
  walk_to nl gcs start data off = Some w -> pos_at nl start data gcs off = Some (w_pos w).
Proof.
  intro H. apply walk_to_spec in H. destruct H as (pre & Hsp & Hpos & _ & _).
  unfold pos_at. rewrite Hsp, Hpos. destruct (count_clusters _ _ _ _ _). reflexivity.
Qed.

Lemma walk_ones_walk_to nl : forall cl p b off w,
  walk_ones nl cl p b off = Some w -> walk_to nl cl p b off = Some w.
Proof.
  induction cl as [|n cl IH]; intros p b off w H; cbn [walk_ones walk_to] in *.
  - exact H.
  - destruct (p_byte p =? off); [exact H|].
    destruct ((n =? 1) && (p_byte p + n <=? off)) eqn:Ec; [|discriminate].
    apply andb_true_iff in Ec. destruct Ec as [E1 E2]. apply Z.eqb_eq in E1. subst n.
    cbn [Z.ltb Z.compare andb]. rewrite E2. apply IH. exact H.
Qed.

(* continuing a walk = walking from the beginning *)
Lemma walk_to_compose nl : forall cl p b a off w,
  walk_to nl cl p b a = Some w -> a <= off ->
  walk_to nl (w_cl w) (w_pos w) (w_data w) off = walk_to nl cl p b off.
Proof.
  induction cl as [|n cl IH]; intros p b a off w H Hle; cbn [walk_to] in H.
  - destruct (p_byte p =? a); [|discriminate]. inversion H; subst w. reflexivity.
  - destruct (p_byte p =? a) eqn:E; [inversion H; subst w; reflexivity|].
    destruct ((0 <? n) && (p_byte p + n <=? a)) eqn:Ec; [|discriminate].
    apply andb_true_iff in Ec. destruct Ec as [E1 E2]. apply Z.ltb_lt in E1. apply Z.leb_le in E2.
    rewrite (IH _ _ _ off _ H Hle). cbn [walk_to].
    assert (En : (p_byte p =? off) = false) by (apply Z.eqb_neq; lia). rewrite En.
    assert (Ec : (0 <? n) && (p_byte p + n <=? off) = true).
    { apply andb_true_iff. split; [apply Z.ltb_lt|apply Z.leb_le]; lia. }
    rewrite Ec. reflexivity.
Qed.

(* ---- RangeScanner -------------------------------------------------------------------- *)

Lemma zlen_firstn_le {A} n (l : list A) : 0 <= n <= zlen l -> zlen (firstn (Z.to_nat n) l) = n.
Proof. intros H. unfold zlen in *. rewrite firstn_length. lia. Qed.

(* the running position `new` of the loop is the canonical walk (RangeScanner's
   line-break convention) *)
Lemma rs_loop_new : forall cl new end_ advanced toklen adv,
  Forall (fun n => 0 < n) cl -> sumZ cl <= zlen adv ->
  fst (rs_loop new end_ advanced toklen adv cl) =
  (let '(l, c) := count_clusters is_nl_rs (p_line new) (p_col new) adv cl in
   mkPos l c (p_byte new + sumZ cl)).
Proof.
  induction cl as [|n cl IH]; intros new end_ advanced toklen adv Hf Hs.
  - cbn. destruct new; cbn. f_equal. unfold sumZ. simpl. lia.
  - inversion Hf as [|? ? Hn Hf']; subst. pose proof (sumZ_nonneg _ Hf') as Hs0.
    assert (Hs1 : sumZ (n :: cl) = n + sumZ cl) by reflexivity. rewrite Hs1 in *.
    assert (Hz : zlen (firstn (Z.to_nat n) adv) = n) by (apply zlen_firstn_le; lia).
    cbn [rs_loop count_clusters]. rewrite Hz.
    assert (Hs2 : sumZ cl <= zlen (skipn (Z.to_nat n) adv)).
    { unfold zlen in *. rewrite skipn_length. lia. }
    rewrite IH by assumption.
    destruct (is_nl_rs (firstn (Z.to_nat n) adv)); cbn [p_line p_col p_byte];
      destruct (count_clusters _ _ _ _ _); f_equal; lia.
Qed.

Lemma rs_loop_end_done : forall cl new end_ advanced toklen adv,
  toklen <= advanced -> snd (rs_loop new end_ advanced toklen adv cl) = end_.
Proof.
  induction cl as [|n cl IH]; intros new end_ advanced toklen adv H; [reflexivity|].
  cbn [rs_loop]. assert (E : (advanced <? toklen) = false) by (apply Z.ltb_ge; lia).
  rewrite E. apply IH. pose proof (zlen_nonneg (firstn (Z.to_nat n) adv)). lia.
Qed.

(* `end` stops after the clusters that cover the token *)
Lemma rs_loop_end : forall cl new end_ advanced toklen adv c1 c2,
  Forall (fun n => 0 < n) cl -> sumZ cl <= zlen adv ->
  advanced < toklen -> split_cl cl (toklen - advanced) = Some (c1, c2) ->
  snd (rs_loop new end_ advanced toklen adv cl) =
  (let '(l, c) := count_clusters is_nl_rs (p_line new) (p_col new) adv c1 in
   mkPos l c (p_byte new + sumZ c1)).
Proof.
  induction cl as [|n cl IH]; intros new end_ advanced toklen adv c1 c2 Hf Hs Hlt Hsp.
  - cbn [split_cl] in Hsp. assert (E : (toklen - advanced =? 0) = false) by (apply Z.eqb_neq; lia).
    rewrite E in Hsp. discriminate.
  - inversion Hf as [|? ? Hn Hf']; subst. pose proof (sumZ_nonneg _ Hf') as Hs0.
    assert (Hs1 : sumZ (n :: cl) = n + sumZ cl) by reflexivity. rewrite Hs1 in *.
    assert (Hz : zlen (firstn (Z.to_nat n) adv) = n) by (apply zlen_firstn_le; lia).
    assert (Hs2 : sumZ cl <= zlen (skipn (Z.to_nat n) adv)).
    { unfold zlen in *. rewrite skipn_length. lia. }
    cbn [split_cl] in Hsp. assert (E : (toklen - advanced =? 0) = false) by (apply Z.eqb_neq; lia).
    rewrite E in Hsp. destruct ((0 <? n) && (n <=? toklen - advanced)) eqn:Ec; [|discriminate].
    apply andb_true_iff in Ec. destruct Ec as [_ E2]. apply Z.leb_le in E2.
    destruct (split_cl cl (toklen - advanced - n)) as [[a b]|] eqn:Es; [|discriminate].
    inversion Hsp; subst c1 c2. clear Hsp.
    cbn [rs_loop]. rewrite Hz. assert (El : (advanced <? toklen) = true) by (apply Z.ltb_lt; lia).
    rewrite El. cbn [count_clusters].
    assert (Hsa : sumZ (n :: a) = n + sumZ a) by reflexivity. rewrite Hsa.
    destruct (Z.eq_dec (advanced + n) toklen) as [Heq|Hne].
    + (* the token ends with this cluster *)
      replace (toklen - advanced - n) with 0 in Es by lia. rewrite split_cl_0 in Es.
      inversion Es; subst a b. rewrite rs_loop_end_done by lia.
      destruct (is_nl_rs (firstn (Z.to_nat n) adv)); cbn; f_equal; unfold sumZ; simpl; lia.
    + replace (toklen - advanced - n) with (toklen - (advanced + n)) in Es by lia.
      rewrite (IH _ _ (advanced + n) toklen _ a b Hf' Hs2) by (try lia; exact Es).
      destruct (is_nl_rs (firstn (Z.to_nat n) adv)); cbn [p_line p_col p_byte];
        destruct (count_clusters _ _ _ _ _); f_equal; lia.
Qed.

(* the split function's results are usable: every advance is a cluster
   boundary of what remains, and the token (a prefix of the advance) ends on a
   cluster boundary *)
Fixpoint rs_aligned (rest : list Z) (results : list (Z * Z)) : Prop :=
  match results with
  | [] => True
  | (adv, tl) :: rs =>
      0 <= tl <= adv /\
      exists cl rest', split_cl rest adv = Some (cl, rest') /\ is_boundary cl tl /\ rs_aligned rest' rs
  end.

Fixpoint rs_faithful (nl : list Z -> bool) (start : pos) (data gcs : list Z) (off : Z)
    (results : list (Z * Z)) (out : list range) : Prop :=
  match out, results with
  | [], _ => True
  | rg :: out', (adv, tl) :: rs =>
      pos_at nl start data gcs off = Some (r_start rg) /\
      pos_at nl start data gcs (off + tl) = Some (r_end rg) /\
      rs_faithful nl start data gcs (off + adv) rs out'
  | _ :: _, [] => False
  end.

Lemma count_firstn nl l c (x : list Z) n cl :
  Forall (fun k => 0 < k) cl -> sumZ cl <= n -> 0 <= n <= zlen x ->
  count_clusters nl l c (firstn (Z.to_nat n) x) cl = count_clusters nl l c x cl.
Proof.
  intros Hf Hs Hn. rewrite <- (firstn_skipn (Z.to_nat n) x) at 2.
  symmetry. apply count_prefix; [exact Hf|]. rewrite zlen_firstn_le; lia.
Qed.

Lemma split_cl_app_l : forall cl tl c1 c2 rest',
  split_cl cl tl = Some (c1, c2) -> split_cl (cl ++ rest') tl = Some (c1, c2 ++ rest').
Proof.
  induction cl as [|n cl IHc]; intros tl c1 c2 rest' H.
  - cbn [split_cl] in H. destruct (tl =? 0) eqn:E; [|discriminate]. inversion H; subst.
    apply Z.eqb_eq in E. subst tl. cbn [app]. apply split_cl_0.
  - cbn [split_cl] in H. destruct (tl =? 0) eqn:E.
    + inversion H; subst. apply Z.eqb_eq in E. subst tl. apply split_cl_0.
    + destruct ((0 <? n) && (n <=? tl)) eqn:Ec; [|discriminate].
      destruct (split_cl cl (tl - n)) as [[x y]|] eqn:Es; [|discriminate]. inversion H; subst.
      apply (IHc _ _ _ rest') in Es. cbn [app split_cl]. rewrite E, Ec, Es. reflexivity.
Qed.

(* the scanner under its own line-break test, over the whole buffer b; the
   reported positions are offset by start, the buffer offset starts at 0 *)
Lemma rs_run_faithful (start : pos) (b gcs : list Z) :
  forall results p rest lo pre l c,
  split_cl gcs lo = Some (pre, rest) ->
  Forall (fun n => 0 < n) rest ->
  sumZ rest = zlen (skipn (Z.to_nat lo) b) ->
  count_clusters is_nl_rs (p_line start) (p_col start) b pre = (l, c) ->
  p = mkPos l c (p_byte start + lo) ->
  rs_aligned rest results ->
  exists out, rs_run_gcs p lo b results rest = Some out /\
              rs_faithful is_nl_rs start b gcs (p_byte start + lo) results out.
Proof.
  induction results as [|[adv tl] rs IH]; intros p rest lo pre l c Hsp Hpos Hsum Hcnt Hp Hal.
  - exists []. split; [reflexivity|exact I].
  - cbn [rs_run_gcs]. destruct (zlen b <=? lo); [exists []; split; [reflexivity|exact I]|].
    destruct Hal as (Htl & cl & rest' & Hcl & (c1 & c2 & Hc1) & Hal).
    pose proof (split_cl_spec _ _ _ _ Hsp) as (Hgcs & Hsumpre & Hfpre).
    pose proof (split_cl_spec _ _ _ _ Hcl) as (Hrest & Hsumcl & Hfcl).
    pose proof (split_cl_spec _ _ _ _ Hc1) as (Hcl12 & Hsumc1 & Hfc1).
    assert (Hlo0 : 0 <= lo) by (rewrite <- Hsumpre; apply sumZ_nonneg; exact Hfpre).
    rewrite Hcl.
    set (X := skipn (Z.to_nat lo) b) in *.
    assert (Hposr' : Forall (fun n => 0 < n) rest').
    { rewrite Hrest in Hpos. apply Forall_app in Hpos. tauto. }
    assert (Hfrest' : 0 <= sumZ rest') by (apply sumZ_nonneg; exact Hposr').
    assert (Hx : sumZ rest = sumZ cl + sumZ rest') by (rewrite Hrest; apply sumZ_app).
    assert (Hadv : 0 <= adv <= zlen X) by lia.
    assert (Hslice : slice b lo (lo + adv) = firstn (Z.to_nat adv) X).
    { unfold slice. replace (lo + adv - lo) with adv by lia. reflexivity. }
    unfold rs_scan. rewrite Hslice.
    destruct (rs_loop p p 0 tl (firstn (Z.to_nat adv) X) cl) as [new e] eqn:Hloop.
    assert (Hzf : zlen (firstn (Z.to_nat adv) X) = adv) by (apply zlen_firstn_le; exact Hadv).
    assert (Hnew : new = (let '(l2, c2) := count_clusters is_nl_rs l c X cl in mkPos l2 c2 (p_byte start + (lo + adv)))).
    { assert (Hle : sumZ cl <= zlen (firstn (Z.to_nat adv) X)) by lia.
      pose proof (rs_loop_new cl p p 0 tl (firstn (Z.to_nat adv) X) Hfcl Hle) as Hn.
      rewrite Hloop in Hn. cbn [fst] in Hn. rewrite Hn. rewrite Hp. cbn [p_line p_col p_byte].
      rewrite (count_firstn is_nl_rs l c X adv cl Hfcl) by lia.
      destruct (count_clusters is_nl_rs l c X cl). f_equal. lia. }
    assert (Hend : e = (let '(l1, c1') := count_clusters is_nl_rs l c X c1 in mkPos l1 c1' (p_byte start + (lo + tl)))).
    { destruct (Z.eq_dec tl 0) as [Hz|Hnz].
      - rewrite Hz in Hc1, Hloop |- *. rewrite split_cl_0 in Hc1. inversion Hc1; subst c1 c2.
        pose proof (rs_loop_end_done cl p p 0 0 (firstn (Z.to_nat adv) X)) as He.
        rewrite Hloop in He. cbn [snd] in He. rewrite He by lia. rewrite Hp. cbn. f_equal. lia.
      - pose proof (rs_loop_end cl p p 0 tl (firstn (Z.to_nat adv) X) c1 c2 Hfcl) as He.
        rewrite Hloop in He. cbn [snd] in He. rewrite He; [|lia|lia|rewrite Z.sub_0_r; exact Hc1].
        rewrite Hp. cbn [p_line p_col p_byte].
        assert (Hs12 : sumZ cl = sumZ c1 + sumZ c2) by (rewrite Hcl12; apply sumZ_app).
        assert (Hc2 : 0 <= sumZ c2).
        { assert (Forall (fun k => 0 < k) c2).
          { rewrite Hcl12 in Hfcl. apply Forall_app in Hfcl. tauto. }
          apply sumZ_nonneg. assumption. }
        rewrite (count_firstn is_nl_rs l c X adv c1 Hfc1) by lia.
        destruct (count_clusters is_nl_rs l c X c1). f_equal. lia. }
    assert (Hsp_adv : split_cl gcs (lo + adv) = Some (pre ++ cl, rest')).
    { rewrite (split_cl_add gcs lo adv pre rest Hsp) by lia. rewrite Hcl. reflexivity. }
    assert (Hsp_tl : split_cl gcs (lo + tl) = Some (pre ++ c1, c2 ++ rest')).
    { rewrite (split_cl_add gcs lo tl pre rest Hsp) by lia.
      rewrite Hrest, (split_cl_app_l _ _ _ _ rest' Hc1). reflexivity. }
    assert (Hskip : skipn (Z.to_nat (sumZ pre)) b = X) by (unfold X; rewrite Hsumpre; reflexivity).
    destruct (count_clusters is_nl_rs l c X cl) as [l2 c2'] eqn:Hcc.
    destruct (IH new rest' (lo + adv) (pre ++ cl) l2 c2') as (out & Hout & Hfa); auto.
    { replace (skipn (Z.to_nat (lo + adv)) b) with (skipn (Z.to_nat adv) X).
      - unfold zlen in *. rewrite skipn_length. lia.
      - unfold X. rewrite skipn_skipn'. f_equal. lia. }
    { rewrite (count_app _ _ _ _ _ _ Hfpre), Hcnt, Hskip. exact Hcc. }
    exists (mkRange p e :: out). split; [rewrite Hout; reflexivity|].
    cbn [rs_faithful r_start r_end]. split; [|split].
    + unfold pos_at. replace (p_byte start + lo - p_byte start) with lo by lia.
      rewrite Hsp, Hcnt, Hp. reflexivity.
    + unfold pos_at. replace (p_byte start + lo + tl - p_byte start) with (lo + tl) by lia.
      rewrite Hsp_tl, (count_app _ _ _ _ _ _ Hfpre), Hcnt, Hskip, Hend.
      destruct (count_clusters is_nl_rs l c X c1). f_equal. f_equal. lia.
    + replace (p_byte start + lo + adv) with (p_byte start + (lo + adv)) by lia. exact Hfa.
Qed.

(* ---- RangeScanner's line-break test and the lexer's coincide --------------------------- *)

(* every cluster of the segmentation cl of b is classified alike by the two
   tests; for is_nl_rs / is_nl_lexer this says: a cluster ending in '\n' is
   "\n" or "\r\n" (true of every UAX #29 segmentation, rules GB4/GB5) *)
Fixpoint clusters_agree (nl1 nl2 : list Z -> bool) (b : list Z) (cl : list Z) : Prop :=
  match cl with
  | [] => True
  | n :: cl' =>
      nl1 (firstn (Z.to_nat n) b) = nl2 (firstn (Z.to_nat n) b) /\
      clusters_agree nl1 nl2 (skipn (Z.to_nat n) b) cl'
  end.

Lemma count_agree nl1 nl2 : forall pre post l c b,
  clusters_agree nl1 nl2 b (pre ++ post) ->
  count_clusters nl1 l c b pre = count_clusters nl2 l c b pre.
Proof.
  induction pre as [|n pre IH]; intros post l c b H; [reflexivity|].
  destruct H as (E & H). cbn [count_clusters]. rewrite E.
  destruct (nl2 (firstn (Z.to_nat n) b)); eapply IH; exact H.
Qed.

Lemma pos_at_agree nl1 nl2 start data gcs off :
  clusters_agree nl1 nl2 data gcs ->
  pos_at nl1 start data gcs off = pos_at nl2 start data gcs off.
Proof.
  intro H. unfold pos_at. destruct (split_cl gcs (off - p_byte start)) as [[pre post]|] eqn:E; [|reflexivity].
  apply split_cl_spec in E. destruct E as (-> & _ & _).
  rewrite (count_agree nl1 nl2 pre post _ _ _ H). reflexivity.
Qed.

Lemma rs_faithful_agree nl1 nl2 start data gcs :
  clusters_agree nl1 nl2 data gcs ->
  forall out results off, rs_faithful nl1 start data gcs off results out ->
                          rs_faithful nl2 start data gcs off results out.
Proof.
  intro H. induction out as [|rg out IH]; intros results off Hf; [destruct results as [|[? ?] ?]; exact I|].
  destruct results as [|[adv tl] rs]; [exact Hf|]. destruct Hf as (H1 & H2 & H3).
  cbn [rs_faithful]. rewrite <- !(pos_at_agree nl1 nl2 start data gcs _ H). auto.
Qed.

(* THE RANGESCANNER THEOREM. For any start position, any buffer b (a whole file
   or a fragment), any segmentation gcs of b in which a cluster ending in '\n'
   is "\n" or "\r\n", and any split function whose advances and tokens end on
   cluster boundaries: every Start is the canonical position — the SAME pos_at
   is_nl_lexer as for the lexer — of its offset in b, counted from start, and
   every End that of Start + len(token). The whole of b is scanned. *)
Theorem range_scanner_faithful : forall (start : pos) (b gcs : list Z) (results : list (Z * Z)),
  Forall (fun n => 0 < n) gcs -> sumZ gcs = zlen b ->
  clusters_agree is_nl_rs is_nl_lexer b gcs ->
  rs_aligned gcs results ->
  exists out, range_scanner_gcs start b results gcs = Some out /\
              rs_faithful is_nl_lexer start b gcs (p_byte start) results out.
Proof.
  intros start b gcs results Hpos Hsum Hag Hal.
  destruct (rs_run_faithful start b gcs results start gcs 0 [] (p_line start) (p_col start))
    as (out & Hout & Hf); auto.
  - apply split_cl_0.
  - destruct start as [sl sc sb0]; cbn [p_line p_col p_byte]. rewrite Z.add_0_r. reflexivity.
  - exists out. split; [exact Hout|]. rewrite Z.add_0_r in Hf.
    eapply rs_faithful_agree; eassumption.
Qed.

(* ---- RangeScanner and the lexer report the same positions ---------------------------- *)

Lemma pos_at_byte nl start data gcs off p : pos_at nl start data gcs off = Some p -> p_byte p = off.
Proof.
  unfold pos_at. destruct (split_cl gcs (off - p_byte start)) as [[pre post]|]; [|discriminate].
  destruct (count_clusters nl (p_line start) (p_col start) data pre). intro H. inversion H. reflexivity.
Qed.

Definition canonical (start : pos) (data gcs : list Z) (p : pos) : Prop :=
  pos_at is_nl_lexer start data gcs (p_byte p) = Some p.

Lemma rs_faithful_canonical start data gcs : forall out results off,
  rs_faithful is_nl_lexer start data gcs off results out ->
  forall rg, In rg out -> canonical start data gcs (r_start rg) /\ canonical start data gcs (r_end rg).
Proof.
  induction out as [|r0 out IH]; intros results off Hf rg Hin; [destruct Hin|].
  destruct results as [|[adv tl] rs]; [destruct Hf|]. destruct Hf as (H1 & H2 & H3).
  destruct Hin as [<-|Hin]; [|eapply IH; eassumption].
  unfold canonical. rewrite (pos_at_byte _ _ _ _ _ _ H1), (pos_at_byte _ _ _ _ _ _ H2). auto.
Qed.

Lemma tok_faithful_canonical start data gcs : forall toks out,
  Forall2 (tok_faithful start data gcs) toks out ->
  forall tk, In tk out ->
    canonical start data gcs (r_start (t_range tk)) /\ canonical start data gcs (r_end (t_range tk)).
Proof.
  induction 1 as [|t tk0 toks out (_ & _ & H1 & H2) _ IH]; intros tk Hin; [destruct Hin|].
  destruct Hin as [<-|Hin]; [|apply IH; exact Hin].
  unfold canonical. rewrite (pos_at_byte _ _ _ _ _ _ H1), (pos_at_byte _ _ _ _ _ _ H2). auto.
Qed.

(* AGREEMENT. Same buffer, same start position, same segmentation: whenever a
   position reported by the lexer (a token's Start or End) and a position
   reported by RangeScanner (a range's Start or End) have the same byte offset,
   they are the same position (line and column). *)
Theorem range_scanner_agrees_with_lexer :
  forall (blank : Z -> bool), (forall c, blank c = true -> is_nl_lexer [c] = false) ->
  forall (start : pos) (b gcs : list Z) (toks : list rtok) (results : list (Z * Z)),
  tiled (blank_gap blank) 0 b toks -> aligned gcs 0 toks ->
  Forall (fun n => 0 < n) gcs -> sumZ gcs = zlen b ->
  clusters_agree is_nl_rs is_nl_lexer b gcs -> rs_aligned gcs results ->
  exists outT outR,
    emit_all_gcs (mkAcc start (p_byte start)) gcs toks = Some outT /\
    range_scanner_gcs start b results gcs = Some outR /\
    forall tk rg p q, In tk outT -> In rg outR ->
      (p = r_start (t_range tk) \/ p = r_end (t_range tk)) ->
      (q = r_start rg \/ q = r_end rg) ->
      p_byte p = p_byte q -> p = q.
Proof.
  intros blank Hbl start b gcs toks results Ht Hal Hpos Hsum Hag Hrs.
  destruct (positions_faithful blank Hbl start b gcs toks Ht Hal) as (outT & HoT & HfT).
  destruct (range_scanner_faithful start b gcs results Hpos Hsum Hag Hrs) as (outR & HoR & HfR).
  exists outT, outR. split; [exact HoT|]. split; [exact HoR|].
  intros tk rg p q Htk Hrg Hp Hq Hb.
  destruct (tok_faithful_canonical start b gcs toks outT HfT tk Htk) as (Ct1 & Ct2).
  destruct (rs_faithful_canonical start b gcs outR results _ HfR rg Hrg) as (Cr1 & Cr2).
  assert (Cp : canonical start b gcs p) by (destruct Hp as [-> | ->]; assumption).
  assert (Cq : canonical start b gcs q) by (destruct Hq as [-> | ->]; assumption).
  unfold canonical in *. rewrite Hb in Cp. rewrite Cp in Cq. inversion Cq. reflexivity.
Qed.

(* the two tests on a lone CR: "a\rb\nc\n", every byte its own cluster: the
   byte 'c' (offset 4) is on line 2 for both *)
Theorem conventions_agree_on_lone_cr :
  let data := [97; 13; 98; 10; 99; 10] in
  let gcs := [1; 1; 1; 1; 1; 1] in
  clusters_agree is_nl_rs is_nl_lexer data gcs /\
  pos_at is_nl_lexer initial_pos data gcs 4 = Some (mkPos 2 1 4) /\
  pos_at is_nl_rs initial_pos data gcs 4 = Some (mkPos 2 1 4).
Proof. vm_compute. repeat split; reflexivity. Qed.
