(* Lex/PositionsProofs.v — every Start/End computed by emitToken is the
   canonical position of its byte offset (count newline clusters and grapheme
   clusters from the start position), provided the tokens tile the input with
   blank gaps and token boundaries fall on cluster boundaries; the same for
   RangeScanner under its own line-break convention; the two conventions
   differ on a lone CR. *)
From HclV Require Import Base.Prelude Lex.Scanner Lex.ScannerProofs Lex.Positions.

(* ---- lists -------------------------------------------------------------------- *)

Lemma skipn_skipn' {A} : forall a b (l : list A), skipn a (skipn b l) = skipn (b + a) l.
Proof.
  intros a b. induction b as [|b IH]; intro l; [reflexivity|].
  destruct l as [|x l]; simpl; [destruct a; reflexivity|apply IH].
Qed.

Lemma sumZ_app a b : sumZ (a ++ b) = sumZ a + sumZ b.
Proof. induction a as [|x a IH]; simpl; [reflexivity|]. unfold sumZ in *. simpl. rewrite IH. lia. Qed.

Lemma sumZ_nonneg l : Forall (fun n => 0 < n) l -> 0 <= sumZ l.
Proof. induction 1; unfold sumZ in *; simpl; lia. Qed.

(* ---- split_cl ------------------------------------------------------------------ *)

Lemma split_cl_spec : forall cl n pre post,
  split_cl cl n = Some (pre, post) ->
  cl = pre ++ post /\ sumZ pre = n /\ Forall (fun c => 0 < c) pre.
Proof.
  induction cl as [|c r IH]; intros n pre post H; simpl in H.
  - destruct (n =? 0) eqn:E; [|discriminate]. inversion H; subst. apply Z.eqb_eq in E.
    repeat split; auto.
  - destruct (n =? 0) eqn:E.
    + inversion H; subst. apply Z.eqb_eq in E. repeat split; auto.
    + destruct ((0 <? c) && (c <=? n)) eqn:Ec; [|discriminate].
      destruct (split_cl r (n - c)) as [[a b]|] eqn:Es; [|discriminate].
      inversion H; subst. apply IH in Es. destruct Es as (-> & Hs & Hf).
      apply andb_true_iff in Ec. destruct Ec as [E1 E2]. apply Z.ltb_lt in E1.
      repeat split; auto. unfold sumZ in *. simpl. lia.
Qed.

Lemma split_cl_0 cl : split_cl cl 0 = Some ([], cl).
Proof. destruct cl; reflexivity. Qed.

Lemma split_cl_nonneg cl n pre post : split_cl cl n = Some (pre, post) -> 0 <= n.
Proof. intro H. apply split_cl_spec in H. destruct H as (_ & <- & Hf). apply sumZ_nonneg. exact Hf. Qed.

(* splitting at a + b = splitting at a, then splitting the rest at b *)
Lemma split_cl_add : forall cl a b p1 r1,
  split_cl cl a = Some (p1, r1) -> 0 <= b ->
  split_cl cl (a + b) =
  match split_cl r1 b with Some (p2, r2) => Some (p1 ++ p2, r2) | None => None end.
Proof.
  induction cl as [|c r IH]; intros a b p1 r1 H Hb.
  - simpl in H. destruct (a =? 0) eqn:E; [|discriminate]. inversion H; subst.
    apply Z.eqb_eq in E. subst a. simpl (0 + b). destruct (split_cl [] b) as [[p2 r2]|]; reflexivity.
  - simpl in H. destruct (a =? 0) eqn:E.
    + inversion H; subst. apply Z.eqb_eq in E. subst a. simpl (0 + b).
      destruct (split_cl (c :: r) b) as [[p2 r2]|]; reflexivity.
    + destruct ((0 <? c) && (c <=? a)) eqn:Ec; [|discriminate].
      destruct (split_cl r (a - c)) as [[x y]|] eqn:Es; [|discriminate].
      inversion H; subst. apply andb_true_iff in Ec. destruct Ec as [E1 E2].
      apply Z.ltb_lt in E1. apply Z.leb_le in E2. apply Z.eqb_neq in E.
      pose proof (IH _ b _ _ Es Hb) as IH'.
      cbn [split_cl]. assert (En : (a + b =? 0) = false) by (apply Z.eqb_neq; lia). rewrite En.
      assert (Ec' : (0 <? c) && (c <=? a + b) = true).
      { apply andb_true_iff. split; [apply Z.ltb_lt|apply Z.leb_le]; lia. }
      rewrite Ec'. replace (a + b - c) with (a - c + b) by lia. rewrite IH'.
      destruct (split_cl r1 b) as [[p2 r2]|]; reflexivity.
Qed.

Lemma is_boundary_shift cl a b p1 r1 :
  split_cl cl a = Some (p1, r1) -> 0 <= b -> is_boundary cl (a + b) -> is_boundary r1 b.
Proof.
  intros H Hb (pre & post & Hs). rewrite (split_cl_add _ _ b _ _ H Hb) in Hs.
  destruct (split_cl r1 b) as [[p2 r2]|] eqn:E2; [|discriminate]. exists p2, r2. exact E2.
Qed.

(* if every offset 0..g is a boundary, the first g clusters are single bytes *)
Lemma split_cl_ones : forall k cl,
  (forall x, 0 <= x <= Z.of_nat k -> is_boundary cl x) ->
  exists r, split_cl cl (Z.of_nat k) = Some (repeat 1 k, r).
Proof.
  induction k as [|k IH]; intros cl H.
  - exists cl. apply split_cl_0.
  - assert (H1 : is_boundary cl 1) by (apply H; lia).
    destruct H1 as (pre & post & H1).
    destruct cl as [|c r]; [simpl in H1; discriminate|].
    simpl in H1. destruct ((0 <? c) && (c <=? 1)) eqn:Ec; [|discriminate].
    apply andb_true_iff in Ec. destruct Ec as [E1 E2]. apply Z.ltb_lt in E1. apply Z.leb_le in E2.
    assert (c = 1) by lia. subst c.
    assert (Hs1 : split_cl (1 :: r) 1 = Some ([1], r)) by (simpl; rewrite split_cl_0; reflexivity).
    destruct (IH r) as (r' & Hr').
    { intros x Hx. apply (is_boundary_shift (1 :: r) 1 x [1] r Hs1); [lia|].
      apply H. lia. }
    exists r'. replace (Z.of_nat (S k)) with (1 + Z.of_nat k) by lia.
    rewrite (split_cl_add _ _ (Z.of_nat k) _ _ Hs1) by lia. rewrite Hr'. reflexivity.
Qed.

(* ---- count_clusters -------------------------------------------------------------- *)

Lemma count_app nl : forall cl1 l c b cl2, Forall (fun n => 0 < n) cl1 ->
  count_clusters nl l c b (cl1 ++ cl2) =
  let '(l1, c1) := count_clusters nl l c b cl1 in
  count_clusters nl l1 c1 (skipn (Z.to_nat (sumZ cl1)) b) cl2.
Proof.
  induction cl1 as [|n cl1 IH]; intros l c b cl2 Hf; [reflexivity|].
  inversion Hf as [|? ? Hn Hf']; subst. pose proof (sumZ_nonneg _ Hf') as Hs.
  assert (E : skipn (Z.to_nat (sumZ cl1)) (skipn (Z.to_nat n) b) = skipn (Z.to_nat (sumZ (n :: cl1))) b).
  { rewrite skipn_skipn'. f_equal. unfold sumZ in *. simpl. lia. }
  cbn [app count_clusters]. destruct (nl (firstn (Z.to_nat n) b)); rewrite IH by assumption;
    destruct (count_clusters nl _ _ (skipn (Z.to_nat n) b) cl1) as [l1 c1]; rewrite E; auto.
Qed.

(* clusters that lie within b do not look beyond it *)
Lemma count_prefix nl : forall cl l c b x, Forall (fun n => 0 < n) cl -> sumZ cl <= zlen b ->
  count_clusters nl l c (b ++ x) cl = count_clusters nl l c b cl.
Proof.
  induction cl as [|n cl IH]; intros l c b x Hf Hs; [reflexivity|].
  inversion Hf as [|? ? Hn Hf']; subst. pose proof (sumZ_nonneg _ Hf') as Hs'.
  assert (Hle : (Z.to_nat n <= length b)%nat) by (unfold sumZ, zlen in *; simpl in Hs; lia).
  cbn [count_clusters].
  assert (E1 : firstn (Z.to_nat n) (b ++ x) = firstn (Z.to_nat n) b).
  { rewrite firstn_app. replace (Z.to_nat n - length b)%nat with O by lia. simpl. apply app_nil_r. }
  assert (E2 : skipn (Z.to_nat n) (b ++ x) = skipn (Z.to_nat n) b ++ x).
  { rewrite skipn_app. replace (Z.to_nat n - length b)%nat with O by lia. reflexivity. }
  rewrite E1, E2.
  assert (Hs2 : sumZ cl <= zlen (skipn (Z.to_nat n) b)).
  { unfold zlen. rewrite skipn_length. unfold sumZ, zlen in *. simpl in Hs. lia. }
  destruct (nl (firstn (Z.to_nat n) b)); apply IH; assumption.
Qed.

(* a run of one-byte clusters over bytes that are not line breaks: one column each *)
Lemma count_ones nl (blank : Z -> bool) (Hb : forall c, blank c = true -> nl [c] = false) :
  forall g l c x, forallb blank g = true ->
  count_clusters nl l c (g ++ x) (repeat 1 (length g)) = (l, c + zlen g).
Proof.
  induction g as [|a g IH]; intros l c x Hg.
  - simpl. f_equal. unfold zlen. simpl. lia.
  - simpl in Hg. apply andb_true_iff in Hg. destruct Hg as [Ha Hg].
    cbn [length repeat count_clusters]. change (Z.to_nat 1) with 1%nat.
    cbn [app firstn skipn]. rewrite (Hb _ Ha). rewrite IH by assumption.
    f_equal. unfold zlen. simpl length. lia.
Qed.

(* ---- emitToken computes the canonical position ------------------------------------ *)

Lemma skipn_app_exact {A} (a b : list A) n : n = length a -> skipn n (a ++ b) = b.
Proof. intros ->. rewrite skipn_app, skipn_all, Nat.sub_diag. reflexivity. Qed.

Lemma Forall_repeat_1 k : Forall (fun n => 0 < n) (repeat 1 k).
Proof. induction k; simpl; constructor; auto; lia. Qed.

Lemma sumZ_repeat_1 k : sumZ (repeat 1 k) = Z.of_nat k.
Proof. induction k as [|k IH]; [reflexivity|]. unfold sumZ in *. cbn [repeat fold_right]. rewrite IH. lia. Qed.

Section Faithful.
Variable blank : Z -> bool.
Hypothesis blank_not_nl : forall c, blank c = true -> is_nl_lexer [c] = false.

Definition blank_gap (g : list Z) : Prop := forallb blank g = true.

(* "token boundaries fall on grapheme-cluster boundaries": every byte offset
   from the end of the previous token to the start of the token (the gap bytes
   and the token start) and the token's end are cluster boundaries of gcs *)
Fixpoint aligned (gcs : list Z) (lo : Z) (toks : list rtok) : Prop :=
  match toks with
  | [] => True
  | t :: r =>
      (forall off, lo <= off <= k_s t -> is_boundary gcs off) /\
      is_boundary gcs (k_e t) /\
      aligned gcs (k_e t) r
  end.

Definition tok_faithful (start : pos) (data gcs : list Z) (t : rtok) (tk : token) : Prop :=
  t_ty tk = k_ty t /\ t_bytes tk = k_bytes t /\
  pos_at is_nl_lexer start data gcs (p_byte start + k_s t) = Some (r_start (t_range tk)) /\
  pos_at is_nl_lexer start data gcs (p_byte start + k_e t) = Some (r_end (t_range tk)).

Lemma emit_all_faithful (start : pos) (data gcs : list Z) :
  forall toks a rest lo dpre drest pre l c,
  data = dpre ++ drest -> zlen dpre = lo ->
  split_cl gcs lo = Some (pre, rest) ->
  count_clusters is_nl_lexer (p_line start) (p_col start) data pre = (l, c) ->
  a = mkAcc (mkPos l c (p_byte start + lo)) (p_byte start) ->
  tiled blank_gap lo drest toks -> aligned gcs lo toks ->
  exists out, emit_all_gcs a rest toks = Some out /\
              Forall2 (tok_faithful start data gcs) toks out.
Proof.
  induction toks as [|t r IH]; intros a rest lo dpre drest pre l c Hdata Hlo Hsp Hcnt Ha Ht Hal.
  - exists []. split; [reflexivity|constructor].
  - destruct Ht as (g & rest' & Hd & Hg & Hs & He & Ht).
    destruct Hal as (Hb1 & Hb2 & Hal).
    set (sb := p_byte start) in *.
    set (G := zlen g) in *. set (B := zlen (k_bytes t)) in *.
    assert (HG : G = Z.of_nat (length g)) by reflexivity.
    assert (HG0 : 0 <= G) by (unfold G; apply zlen_nonneg).
    assert (HB0 : 0 <= B) by (unfold B; apply zlen_nonneg).
    pose proof (split_cl_spec _ _ _ _ Hsp) as (Hgcs & Hsum & Hfpre).
    assert (Hlo0 : 0 <= lo) by (rewrite <- Hlo; apply zlen_nonneg).
    (* the gap: one-byte clusters *)
    destruct (split_cl_ones (length g) rest) as (r1 & Hones).
    { intros x Hx. apply (is_boundary_shift gcs lo x pre rest Hsp); [lia|]. apply Hb1. lia. }
    rewrite <- HG in Hones.
    assert (Hsp1 : split_cl gcs (lo + G) = Some (pre ++ repeat 1 (length g), r1)).
    { rewrite (split_cl_add gcs lo G pre rest Hsp HG0), Hones. reflexivity. }
    (* the token *)
    assert (Hbt : is_boundary r1 B).
    { apply (is_boundary_shift gcs (lo + G) B _ r1 Hsp1 HB0).
      replace (lo + G + B) with (k_e t) by lia. exact Hb2. }
    destruct Hbt as (cl & r2 & Hcl).
    assert (Hsp2 : split_cl gcs (lo + G + B) = Some ((pre ++ repeat 1 (length g)) ++ cl, r2)).
    { rewrite (split_cl_add gcs (lo + G) B _ r1 Hsp1 HB0), Hcl. reflexivity. }
    pose proof (split_cl_spec _ _ _ _ Hsp1) as (_ & Hsum1 & Hf1).
    pose proof (split_cl_spec _ _ _ _ Hcl) as (_ & Hsumcl & Hfcl).
    (* the data at the three offsets *)
    assert (Hsk0 : skipn (Z.to_nat (sumZ pre)) data = g ++ k_bytes t ++ rest').
    { rewrite Hdata, Hd. apply skipn_app_exact. unfold zlen in Hlo. lia. }
    assert (Hsk1 : skipn (Z.to_nat (sumZ (pre ++ repeat 1 (length g)))) data = k_bytes t ++ rest').
    { rewrite Hdata, Hd, app_assoc. apply skipn_app_exact. rewrite app_length.
      unfold zlen in Hlo. lia. }
    (* canonical counts *)
    assert (Hcnt1 : count_clusters is_nl_lexer (p_line start) (p_col start) data
                      (pre ++ repeat 1 (length g)) = (l, c + G)).
    { rewrite (count_app _ _ _ _ _ _ Hfpre), Hcnt, Hsk0.
      apply (count_ones is_nl_lexer blank blank_not_nl). exact Hg. }
    destruct (count_clusters is_nl_lexer l (c + G) (k_bytes t) cl) as [l2 c2] eqn:Hcnt2.
    assert (Hcnt3 : count_clusters is_nl_lexer (p_line start) (p_col start) data
                      ((pre ++ repeat 1 (length g)) ++ cl) = (l2, c2)).
    { rewrite (count_app _ _ _ _ _ _ Hf1), Hcnt1, Hsk1.
      rewrite count_prefix; [exact Hcnt2|exact Hfcl|fold B; lia]. }
    (* run emitToken *)
    assert (Hemit : emit_token_gcs a rest t =
                    Some (mkToken (k_ty t) (k_bytes t)
                            (mkRange (mkPos l (c + G) (sb + k_s t)) (mkPos l2 c2 (sb + k_e t))),
                          mkAcc (mkPos l2 c2 (sb + k_e t)) sb, r2)).
    { unfold emit_token_gcs. rewrite Ha. cbn [a_pos a_start_byte p_byte].
      replace (k_s t + sb - (sb + lo)) with G by lia. rewrite Hones.
      replace (k_e t - k_s t) with B by lia. rewrite Hcl.
      unfold emit_token_cl. cbn [a_pos a_start_byte p_byte p_line p_col].
      replace (k_s t + sb - (sb + lo)) with G by lia. rewrite Hcnt2.
      replace (k_s t + sb) with (sb + k_s t) by lia.
      replace (k_e t + sb) with (sb + k_e t) by lia. reflexivity. }
    destruct (IH (mkAcc (mkPos l2 c2 (sb + k_e t)) sb) r2 (k_e t) (dpre ++ g ++ k_bytes t) rest'
                 ((pre ++ repeat 1 (length g)) ++ cl) l2 c2) as (out & Hout & Hfa); auto.
    { rewrite Hdata, Hd, <- !app_assoc. reflexivity. }
    { rewrite !zlen_app. fold G B. lia. }
    { replace (k_e t) with (lo + G + B) by lia. exact Hsp2. }
    exists (mkToken (k_ty t) (k_bytes t)
              (mkRange (mkPos l (c + G) (sb + k_s t)) (mkPos l2 c2 (sb + k_e t))) :: out).
    split.
    + cbn [emit_all_gcs]. rewrite Hemit, Hout. reflexivity.
    + constructor; [|exact Hfa]. unfold tok_faithful. cbn [t_ty t_bytes t_range r_start r_end].
      repeat split.
      * unfold pos_at. fold sb. replace (sb + k_s t - sb) with (lo + G) by lia.
        rewrite Hsp1, Hcnt1. reflexivity.
      * unfold pos_at. fold sb. replace (sb + k_e t - sb) with (lo + G + B) by lia.
        rewrite Hsp2, Hcnt3. reflexivity.
Qed.

(* THE POSITION THEOREM. If the tokens tile data with blank gaps (which the
   scanner guarantees) and the token boundaries and gap bytes fall on cluster
   boundaries of gcs, then emitToken succeeds on every token and every Start
   and End it computes is pos_at of its byte offset: the position obtained by
   counting "\n" / "\r\n" clusters and grapheme clusters from the start
   position. Any start position, any cluster list. *)
Theorem positions_faithful : forall (start : pos) (data gcs : list Z) (toks : list rtok),
  tiled blank_gap 0 data toks ->
  aligned gcs 0 toks ->
  exists out,
    emit_all_gcs (mkAcc start (p_byte start)) gcs toks = Some out /\
    Forall2 (tok_faithful start data gcs) toks out.
Proof.
  intros start data gcs toks Ht Hal.
  apply (emit_all_faithful start data gcs toks _ gcs 0 [] data [] (p_line start) (p_col start));
    auto.
  - apply split_cl_0.
  - destruct start as [sl sc sb0]; cbn [p_line p_col p_byte]. rewrite Z.add_0_r. reflexivity.
Qed.

End Faithful.

(* ---- the incremental walk used by the checker IS pos_at ---------------------------- *)

Lemma walk_to_spec nl : forall cl p b off w,
  walk_to nl cl p b off = Some w ->
  exists pre,
    split_cl cl (off - p_byte p) = Some (pre, w_cl w) /\
    w_pos w = (let '(l, c) := count_clusters nl (p_line p) (p_col p) b pre in mkPos l c off) /\
    w_data w = skipn (Z.to_nat (off - p_byte p)) b /\
    p_byte p <= off.
Proof.
  induction cl as [|n cl IH]; intros p b off w H; cbn [walk_to] in H.
  - destruct (p_byte p =? off) eqn:E; [|discriminate]. apply Z.eqb_eq in E. inversion H; subst w.
    exists []. replace (off - p_byte p) with 0 by lia. cbn [w_cl w_pos w_data].
    repeat split; [|lia]. destruct p as [pl pc pb]; cbn in *. subst. reflexivity.
  - destruct (p_byte p =? off) eqn:E.
    + apply Z.eqb_eq in E. inversion H; subst w.
      exists []. replace (off - p_byte p) with 0 by lia. cbn [w_cl w_pos w_data].
      repeat split; [|lia]. destruct p as [pl pc pb]; cbn in *. subst. reflexivity.
    + destruct ((0 <? n) && (p_byte p + n <=? off)) eqn:Ec; [|discriminate].
      apply andb_true_iff in Ec. destruct Ec as [E1 E2]. apply Z.ltb_lt in E1. apply Z.leb_le in E2.
      apply Z.eqb_neq in E. apply IH in H. destruct H as (pre & Hsp & Hpos & Hdat & Hle).
      assert (Hb : p_byte (step_pos nl p (firstn (Z.to_nat n) b) n) = p_byte p + n).
      { unfold step_pos. destruct (nl _); reflexivity. }
      rewrite Hb in *. exists (n :: pre). repeat split.
      * cbn [split_cl]. assert (En : (off - p_byte p =? 0) = false) by (apply Z.eqb_neq; lia).
        rewrite En. assert (Ec : (0 <? n) && (n <=? off - p_byte p) = true).
        { apply andb_true_iff. split; [apply Z.ltb_lt|apply Z.leb_le]; lia. }
        rewrite Ec. replace (off - p_byte p - n) with (off - (p_byte p + n)) by lia.
        rewrite Hsp. reflexivity.
      * rewrite Hpos. cbn [count_clusters]. unfold step_pos.
        destruct (nl (firstn (Z.to_nat n) b)); reflexivity.
      * rewrite Hdat, skipn_skipn'. f_equal. lia.
      * lia.
Qed.

Theorem walk_to_pos_at nl start data gcs off w :
  walk_to nl gcs start data off = Some w -> pos_at nl start data gcs off = Some (w_pos w).
Proof.
  intro H. apply walk_to_spec in H. destruct H as (pre & Hsp & Hpos & _ & _).
  unfold pos_at. rewrite Hsp, Hpos. destruct (count_clusters _ _ _ _ _). reflexivity.
Qed.

Lemma walk_ones_walk_to nl : forall cl p b off w,
  walk_ones nl cl p b off = Some w -> walk_to nl cl p b off = Some w.
Proof.
  induction cl as [|n cl IH]; intros p b off w H; cbn [walk_ones walk_to] in *.
  - exact H.
  - destruct (p_byte p =? off); [exact H|].
    destruct ((n =? 1) && (p_byte p + n <=? off)) eqn:Ec; [|discriminate].
    apply andb_true_iff in Ec. destruct Ec as [E1 E2]. apply Z.eqb_eq in E1. subst n.
    cbn [Z.ltb Z.compare andb]. rewrite E2. apply IH. exact H.
Qed.

(* continuing a walk = walking from the beginning *)
Lemma walk_to_compose nl : forall cl p b a off w,
  walk_to nl cl p b a = Some w -> a <= off ->
  walk_to nl (w_cl w) (w_pos w) (w_data w) off = walk_to nl cl p b off.
Proof.
  induction cl as [|n cl IH]; intros p b a off w H Hle; cbn [walk_to] in H.
  - destruct (p_byte p =? a); [|discriminate]. inversion H; subst w. reflexivity.
  - destruct (p_byte p =? a) eqn:E; [inversion H; subst w; reflexivity|].
    destruct ((0 <? n) && (p_byte p + n <=? a)) eqn:Ec; [|discriminate].
    apply andb_true_iff in Ec. destruct Ec as [E1 E2]. apply Z.ltb_lt in E1. apply Z.leb_le in E2.
    rewrite (IH _ _ _ off _ H Hle). cbn [walk_to].
    assert (En : (p_byte p =? off) = false) by (apply Z.eqb_neq; lia). rewrite En.
    assert (Ec : (0 <? n) && (p_byte p + n <=? off) = true).
    { apply andb_true_iff. split; [apply Z.ltb_lt|apply Z.leb_le]; lia. }
    rewrite Ec. reflexivity.
Qed.

(* ---- RangeScanner -------------------------------------------------------------------- *)

Lemma zlen_firstn_le {A} n (l : list A) : 0 <= n <= zlen l -> zlen (firstn (Z.to_nat n) l) = n.
Proof. intros H. unfold zlen in *. rewrite firstn_length. lia. Qed.

(* the running position `new` of the loop is the canonical walk (RangeScanner's
   line-break convention) *)
Lemma rs_loop_new : forall cl new end_ advanced toklen adv,
  Forall (fun n => 0 < n) cl -> sumZ cl <= zlen adv ->
  fst (rs_loop new end_ advanced toklen adv cl) =
  (let '(l, c) := count_clusters is_nl_rs (p_line new) (p_col new) adv cl in
   mkPos l c (p_byte new + sumZ cl)).
Proof.
  induction cl as [|n cl IH]; intros new end_ advanced toklen adv Hf Hs.
  - cbn. destruct new; cbn. f_equal. unfold sumZ. simpl. lia.
  - inversion Hf as [|? ? Hn Hf']; subst. pose proof (sumZ_nonneg _ Hf') as Hs0.
    assert (Hs1 : sumZ (n :: cl) = n + sumZ cl) by reflexivity. rewrite Hs1 in *.
    assert (Hz : zlen (firstn (Z.to_nat n) adv) = n) by (apply zlen_firstn_le; lia).
    cbn [rs_loop count_clusters]. rewrite Hz.
    assert (Hs2 : sumZ cl <= zlen (skipn (Z.to_nat n) adv)).
    { unfold zlen in *. rewrite skipn_length. lia. }
    rewrite IH by assumption.
    destruct (is_nl_rs (firstn (Z.to_nat n) adv)); cbn [p_line p_col p_byte];
      destruct (count_clusters _ _ _ _ _); f_equal; lia.
Qed.

Lemma rs_loop_end_done : forall cl new end_ advanced toklen adv,
  toklen <= advanced -> snd (rs_loop new end_ advanced toklen adv cl) = end_.
Proof.
  induction cl as [|n cl IH]; intros new end_ advanced toklen adv H; [reflexivity|].
  cbn [rs_loop]. assert (E : (advanced <? toklen) = false) by (apply Z.ltb_ge; lia).
  rewrite E. apply IH. pose proof (zlen_nonneg (firstn (Z.to_nat n) adv)). lia.
Qed.

(* `end` stops after the clusters that cover the token *)
Lemma rs_loop_end : forall cl new end_ advanced toklen adv c1 c2,
  Forall (fun n => 0 < n) cl -> sumZ cl <= zlen adv ->
  advanced < toklen -> split_cl cl (toklen - advanced) = Some (c1, c2) ->
  snd (rs_loop new end_ advanced toklen adv cl) =
  (let '(l, c) := count_clusters is_nl_rs (p_line new) (p_col new) adv c1 in
   mkPos l c (p_byte new + sumZ c1)).
Proof.
  induction cl as [|n cl IH]; intros new end_ advanced toklen adv c1 c2 Hf Hs Hlt Hsp.
  - cbn [split_cl] in Hsp. assert (E : (toklen - advanced =? 0) = false) by (apply Z.eqb_neq; lia).
    rewrite E in Hsp. discriminate.
  - inversion Hf as [|? ? Hn Hf']; subst. pose proof (sumZ_nonneg _ Hf') as Hs0.
    assert (Hs1 : sumZ (n :: cl) = n + sumZ cl) by reflexivity. rewrite Hs1 in *.
    assert (Hz : zlen (firstn (Z.to_nat n) adv) = n) by (apply zlen_firstn_le; lia).
    assert (Hs2 : sumZ cl <= zlen (skipn (Z.to_nat n) adv)).
    { unfold zlen in *. rewrite skipn_length. lia. }
    cbn [split_cl] in Hsp. assert (E : (toklen - advanced =? 0) = false) by (apply Z.eqb_neq; lia).
    rewrite E in Hsp. destruct ((0 <? n) && (n <=? toklen - advanced)) eqn:Ec; [|discriminate].
    apply andb_true_iff in Ec. destruct Ec as [_ E2]. apply Z.leb_le in E2.
    destruct (split_cl cl (toklen - advanced - n)) as [[a b]|] eqn:Es; [|discriminate].
    inversion Hsp; subst c1 c2. clear Hsp.
    cbn [rs_loop]. rewrite Hz. assert (El : (advanced <? toklen) = true) by (apply Z.ltb_lt; lia).
    rewrite El. cbn [count_clusters].
    assert (Hsa : sumZ (n :: a) = n + sumZ a) by reflexivity. rewrite Hsa.
    destruct (Z.eq_dec (advanced + n) toklen) as [Heq|Hne].
    + (* the token ends with this cluster *)
      replace (toklen - advanced - n) with 0 in Es by lia. rewrite split_cl_0 in Es.
      inversion Es; subst a b. rewrite rs_loop_end_done by lia.
      destruct (is_nl_rs (firstn (Z.to_nat n) adv)); cbn; f_equal; unfold sumZ; simpl; lia.
    + replace (toklen - advanced - n) with (toklen - (advanced + n)) in Es by lia.
      rewrite (IH _ _ (advanced + n) toklen _ a b Hf' Hs2) by (try lia; exact Es).
      destruct (is_nl_rs (firstn (Z.to_nat n) adv)); cbn [p_line p_col p_byte];
        destruct (count_clusters _ _ _ _ _); f_equal; lia.
Qed.

(* the split function's results are usable: every advance is a cluster
   boundary of what remains, and the token (a prefix of the advance) ends on a
   cluster boundary *)
Fixpoint rs_aligned (rest : list Z) (results : list (Z * Z)) : Prop :=
  match results with
  | [] => True
  | (adv, tl) :: rs =>
      0 <= tl <= adv /\
      exists cl rest', split_cl rest adv = Some (cl, rest') /\ is_boundary cl tl /\ rs_aligned rest' rs
  end.

Fixpoint rs_faithful (start : pos) (data gcs : list Z) (off : Z)
    (results : list (Z * Z)) (out : list range) : Prop :=
  match out, results with
  | [], _ => True
  | rg :: out', (adv, tl) :: rs =>
      pos_at is_nl_rs start data gcs off = Some (r_start rg) /\
      pos_at is_nl_rs start data gcs (off + tl) = Some (r_end rg) /\
      rs_faithful start data gcs (off + adv) rs out'
  | _ :: _, [] => False
  end.

Lemma count_firstn nl l c (x : list Z) n cl :
  Forall (fun k => 0 < k) cl -> sumZ cl <= n -> 0 <= n <= zlen x ->
  count_clusters nl l c (firstn (Z.to_nat n) x) cl = count_clusters nl l c x cl.
Proof.
  intros Hf Hs Hn. rewrite <- (firstn_skipn (Z.to_nat n) x) at 2.
  symmetry. apply count_prefix; [exact Hf|]. rewrite zlen_firstn_le; lia.
Qed.

Lemma range_scanner_faithful_gen (start : pos) (b gcs : list Z) :
  0 <= p_byte start ->
  let data := skipn (Z.to_nat (p_byte start)) b in
  forall results p rest lo pre l c,
  split_cl gcs lo = Some (pre, rest) ->
  Forall (fun n => 0 < n) rest ->
  sumZ rest = zlen (skipn (Z.to_nat lo) data) ->
  count_clusters is_nl_rs (p_line start) (p_col start) data pre = (l, c) ->
  p = mkPos l c (p_byte start + lo) ->
  rs_aligned rest results ->
  exists out, range_scanner_gcs p b results rest = Some out /\
              rs_faithful start data gcs (p_byte start + lo) results out.
Proof.
  intros Hsb data. induction results as [|[adv tl] rs IH]; intros p rest lo pre l c Hsp Hpos Hsum Hcnt Hp Hal.
  - exists []. split; [reflexivity|exact I].
  - cbn [range_scanner_gcs]. destruct (zlen b <=? p_byte p); [exists []; split; [reflexivity|exact I]|].
    destruct Hal as (Htl & cl & rest' & Hcl & (c1 & c2 & Hc1) & Hal).
    pose proof (split_cl_spec _ _ _ _ Hsp) as (Hgcs & Hsumpre & Hfpre).
    pose proof (split_cl_spec _ _ _ _ Hcl) as (Hrest & Hsumcl & Hfcl).
    pose proof (split_cl_spec _ _ _ _ Hc1) as (Hcl12 & Hsumc1 & Hfc1).
    assert (Hlo0 : 0 <= lo) by (rewrite <- Hsumpre; apply sumZ_nonneg; exact Hfpre).
    rewrite Hcl.
    set (X := skipn (Z.to_nat lo) data) in *.
    assert (Hposr' : Forall (fun n => 0 < n) rest').
    { rewrite Hrest in Hpos. apply Forall_app in Hpos. tauto. }
    assert (Hfrest' : 0 <= sumZ rest') by (apply sumZ_nonneg; exact Hposr').
    assert (Hadv : 0 <= adv <= zlen X).
    { assert (Hx : sumZ rest = sumZ cl + sumZ rest') by (rewrite Hrest; apply sumZ_app). lia. }
    (* the slice handed to the loop *)
    assert (Hslice : slice b (p_byte p) (p_byte p + adv) = firstn (Z.to_nat adv) X).
    { unfold slice. rewrite Hp. cbn [p_byte]. replace (p_byte start + lo + adv - (p_byte start + lo)) with adv by lia.
      f_equal. unfold X, data. rewrite skipn_skipn'. f_equal. lia. }
    unfold rs_scan. rewrite Hslice.
    destruct (rs_loop p p 0 tl (firstn (Z.to_nat adv) X) cl) as [new e] eqn:Hloop.
    assert (Hzf : zlen (firstn (Z.to_nat adv) X) = adv) by (apply zlen_firstn_le; exact Hadv).
    (* new *)
    assert (Hnew : new = (let '(l2, c2) := count_clusters is_nl_rs l c X cl in mkPos l2 c2 (p_byte start + (lo + adv)))).
    { assert (Hle : sumZ cl <= zlen (firstn (Z.to_nat adv) X)) by lia.
      pose proof (rs_loop_new cl p p 0 tl (firstn (Z.to_nat adv) X) Hfcl Hle) as Hn.
      rewrite Hloop in Hn. cbn [fst] in Hn. rewrite Hn. rewrite Hp. cbn [p_line p_col p_byte].
      rewrite (count_firstn is_nl_rs l c X adv cl Hfcl) by lia.
      destruct (count_clusters is_nl_rs l c X cl). f_equal. lia. }
    (* end *)
    assert (Hend : e = (let '(l1, c1') := count_clusters is_nl_rs l c X c1 in mkPos l1 c1' (p_byte start + (lo + tl)))).
    { destruct (Z.eq_dec tl 0) as [Hz|Hnz].
      - rewrite Hz in Hc1, Hloop |- *. rewrite split_cl_0 in Hc1. inversion Hc1; subst c1 c2.
        pose proof (rs_loop_end_done cl p p 0 0 (firstn (Z.to_nat adv) X)) as He.
        rewrite Hloop in He. cbn [snd] in He. rewrite He by lia. rewrite Hp. cbn. f_equal. lia.
      - pose proof (rs_loop_end cl p p 0 tl (firstn (Z.to_nat adv) X) c1 c2 Hfcl) as He.
        rewrite Hloop in He. cbn [snd] in He. rewrite He; [|lia|lia|rewrite Z.sub_0_r; exact Hc1].
        rewrite Hp. cbn [p_line p_col p_byte].
        assert (Hs12 : sumZ cl = sumZ c1 + sumZ c2) by (rewrite Hcl12; apply sumZ_app).
        pose proof (split_cl_spec _ _ _ _ Hc1) as (_ & _ & _).
        assert (Hc2 : 0 <= sumZ c2).
        { assert (Forall (fun k => 0 < k) c2).
          { rewrite Hcl12 in Hfcl. apply Forall_app in Hfcl. tauto. }
          apply sumZ_nonneg. assumption. }
        rewrite (count_firstn is_nl_rs l c X adv c1 Hfc1) by lia.
        destruct (count_clusters is_nl_rs l c X c1). f_equal. lia. }
    (* canonical positions *)
    assert (Hsp_adv : split_cl gcs (lo + adv) = Some (pre ++ cl, rest')).
    { rewrite (split_cl_add gcs lo adv pre rest Hsp) by lia. rewrite Hcl. reflexivity. }
    assert (Hsp_tl : split_cl gcs (lo + tl) = Some (pre ++ c1, c2 ++ rest')).
    { rewrite (split_cl_add gcs lo tl pre rest Hsp) by lia.
      assert (Hx : split_cl rest tl = Some (c1, c2 ++ rest')).
      { rewrite Hrest. replace tl with (tl + 0) by lia.
        (* split of cl ++ rest' at tl *)
        clear - Hc1. revert tl c1 c2 Hc1. induction cl as [|n cl IHc]; intros tl c1 c2 H.
        - cbn [split_cl] in H. destruct (tl =? 0) eqn:E; [|discriminate]. inversion H; subst.
          apply Z.eqb_eq in E. subst tl. cbn [app]. apply split_cl_0.
        - cbn [split_cl] in H. destruct (tl =? 0) eqn:E.
          + inversion H; subst. apply Z.eqb_eq in E. subst tl. apply split_cl_0.
          + destruct ((0 <? n) && (n <=? tl)) eqn:Ec; [|discriminate].
            destruct (split_cl cl (tl - n)) as [[x y]|] eqn:Es; [|discriminate]. inversion H; subst.
            apply IHc in Es. rewrite Z.add_0_r in *. cbn [app split_cl]. rewrite E, Ec, Es. reflexivity. }
      rewrite Hx. reflexivity. }
    assert (Hskip : skipn (Z.to_nat (sumZ pre)) data = X) by (unfold X; rewrite Hsumpre; reflexivity).
    destruct (count_clusters is_nl_rs l c X cl) as [l2 c2'] eqn:Hcc.
    destruct (IH new rest' (lo + adv) (pre ++ cl) l2 c2') as (out & Hout & Hfa); auto.
    { assert (Hx : sumZ rest = sumZ cl + sumZ rest') by (rewrite Hrest; apply sumZ_app).
      replace (skipn (Z.to_nat (lo + adv)) data) with (skipn (Z.to_nat adv) X).
      - unfold zlen in *. rewrite skipn_length. lia.
      - unfold X. rewrite skipn_skipn'. f_equal. lia. }
    { rewrite (count_app _ _ _ _ _ _ Hfpre), Hcnt, Hskip. exact Hcc. }
    exists (mkRange p e :: out). split; [rewrite Hout; reflexivity|].
    cbn [rs_faithful r_start r_end]. split; [|split].
    + unfold pos_at. replace (p_byte start + lo - p_byte start) with lo by lia.
      rewrite Hsp, Hcnt, Hp. reflexivity.
    + unfold pos_at. replace (p_byte start + lo + tl - p_byte start) with (lo + tl) by lia.
      rewrite Hsp_tl, (count_app _ _ _ _ _ _ Hfpre), Hcnt, Hskip, Hend.
      destruct (count_clusters is_nl_rs l c X c1). f_equal. f_equal. lia.
    + replace (p_byte start + lo + adv) with (p_byte start + (lo + adv)) by lia. exact Hfa.
Qed.

(* RangeScanner.Scan under ITS OWN convention (a cluster starting with '\r' or
   '\n' is a line break): for any split function whose advances and tokens end
   on cluster boundaries, every Start is pos_at of its offset and every End is
   pos_at of Start + len(token). `data` is what the scanner actually scans:
   b[start.Byte:] — the start position's Byte field indexes the buffer. *)
Theorem range_scanner_faithful : forall (start : pos) (b gcs : list Z) (results : list (Z * Z)),
  0 <= p_byte start ->
  let data := skipn (Z.to_nat (p_byte start)) b in
  Forall (fun n => 0 < n) gcs -> sumZ gcs = zlen data ->
  rs_aligned gcs results ->
  exists out, range_scanner_gcs start b results gcs = Some out /\
              rs_faithful start data gcs (p_byte start) results out.
Proof.
  intros start b gcs results Hsb data Hpos Hsum Hal.
  destruct (range_scanner_faithful_gen start b gcs Hsb results start gcs 0 [] (p_line start) (p_col start))
    as (out & Hout & Hf); auto.
  - apply split_cl_0.
  - destruct start as [sl sc sb0]; cbn [p_line p_col p_byte]. rewrite Z.add_0_r. reflexivity.
  - exists out. split; [exact Hout|]. rewrite Z.add_0_r in Hf. exact Hf.
Qed.

(* ---- the two line-break conventions differ on a lone CR --------------------------- *)

(* "a\rb\nc\n", every byte its own cluster (textseg's segmentation), offset 4
   = the byte 'c': line 2 for emitToken's convention, line 3 for RangeScanner's *)
Theorem conventions_differ_on_lone_cr :
  let data := [97; 13; 98; 10; 99; 10] in
  let gcs := [1; 1; 1; 1; 1; 1] in
  pos_at is_nl_lexer initial_pos data gcs 4 = Some (mkPos 2 1 4) /\
  pos_at is_nl_rs initial_pos data gcs 4 = Some (mkPos 3 1 4).
Proof. vm_compute. split; reflexivity. Qed.

(* Hence "RangeScanner's positions are the canonical positions of the lexer's
   convention" is false: *)
Theorem range_scanner_agrees_with_lexer_convention_refuted :
  exists (b gcs : list Z) (results : list (Z * Z)) (cls : list (list Z)) (rg : range),
    In rg (range_scanner initial_pos b results cls) /\
    pos_at is_nl_lexer initial_pos b gcs (p_byte (r_start rg)) <> Some (r_start rg).
Proof.
  (* bufio.ScanLines on "a\rb\nc\n": ("a\rb", advance 4), ("c", advance 2) *)
  exists [97; 13; 98; 10; 99; 10], [1; 1; 1; 1; 1; 1], [(4, 3); (2, 1)], [[1; 1; 1; 1]; [1; 1]],
         (mkRange (mkPos 3 1 4) (mkPos 3 2 5)).
  split; [vm_compute; right; left; reflexivity|vm_compute; discriminate].
Qed.
