(* Lex/PositionsProofs.v — every Start/End computed by emitToken is the
   canonical position of its byte offset (count newline clusters and grapheme
   clusters from the start position), provided the tokens tile the input with
   blank gaps and token boundaries fall on cluster boundaries; the same for
   RangeScanner under its own line-break convention; the two conventions
   differ on a lone CR. *)
From HclV Require Import Base.Prelude Lex.Scanner Lex.ScannerProofs Lex.Positions.

(* ---- lists -------------------------------------------------------------------- *)

Lemma skipn_skipn' {A} : forall a b (l : list A), skipn a (skipn b l) = skipn (b + a) l.
Proof.
  intros a b. induction b as [|b IH]; intro l; [reflexivity|].
  destruct l as [|x l]; simpl; [destruct a; reflexivity|apply IH].
Qed.

Lemma sumZ_app a b : sumZ (a ++ b) = sumZ a + sumZ b.
Proof. induction a as [|x a IH]; simpl; [reflexivity|]. unfold sumZ in *. simpl. rewrite IH. lia. Qed.

Lemma sumZ_nonneg l : Forall (fun n => 0 < n) l -> 0 <= sumZ l.
Proof. induction 1; unfold sumZ in *; simpl; lia. Qed.

(* ---- split_cl ------------------------------------------------------------------ *)

Lemma split_cl_spec : forall cl n pre post,
  split_cl cl n = Some (pre, post) ->
  cl = pre ++ post /\ sumZ pre = n /\ Forall (fun c => 0 < c) pre.
Proof.
  induction cl as [|c r IH]; intros n pre post H; simpl in H.
  - destruct (n =? 0) eqn:E; [|discriminate]. inversion H; subst. apply Z.eqb_eq in E.
    repeat split; auto.
  - destruct (n =? 0) eqn:E.
    + inversion H; subst. apply Z.eqb_eq in E. repeat split; auto.
    + destruct ((0 <? c) && (c <=? n)) eqn:Ec; [|discriminate].
      destruct (split_cl r (n - c)) as [[a b]|] eqn:Es; [|discriminate].
      inversion H; subst. apply IH in Es. destruct Es as (-> & Hs & Hf).
      apply andb_true_iff in Ec. destruct Ec as [E1 E2]. apply Z.ltb_lt in E1.
      repeat split; auto. unfold sumZ in *. simpl. lia.
Qed.

Lemma split_cl_0 cl : split_cl cl 0 = Some ([], cl).
Proof. destruct cl; reflexivity. Qed.

Lemma split_cl_nonneg cl n pre post : split_cl cl n = Some (pre, post) -> 0 <= n.
Proof. intro H. apply split_cl_spec in H. destruct H as (_ & <- & Hf). apply sumZ_nonneg. exact Hf. Qed.

(* splitting at a + b = splitting at a, then splitting the rest at b *)
Lemma split_cl_add : forall cl a b p1 r1,
  split_cl cl a = Some (p1, r1) -> 0 <= b ->
  split_cl cl (a + b) =
  match split_cl r1 b with Some (p2, r2) => Some (p1 ++ p2, r2) | None => None end.
Proof.
  induction cl as [|c r IH]; intros a b p1 r1 H Hb.
  - simpl in H. destruct (a =? 0) eqn:E; [|discriminate]. inversion H; subst.
    apply Z.eqb_eq in E. subst a. simpl (0 + b). destruct (split_cl [] b) as [[p2 r2]|]; reflexivity.
  - simpl in H. destruct (a =? 0) eqn:E.
    + inversion H; subst. apply Z.eqb_eq in E. subst a. simpl (0 + b).
      destruct (split_cl (c :: r) b) as [[p2 r2]|]; reflexivity.
    + destruct ((0 <? c) && (c <=? a)) eqn:Ec; [|discriminate].
      destruct (split_cl r (a - c)) as [[x y]|] eqn:Es; [|discriminate].
      inversion H; subst. apply andb_true_iff in Ec. destruct Ec as [E1 E2].
      apply Z.ltb_lt in E1. apply Z.leb_le in E2. apply Z.eqb_neq in E.
      pose proof (IH _ b _ _ Es Hb) as IH'.
      cbn [split_cl]. assert (En : (a + b =? 0) = false) by (apply Z.eqb_neq; lia). rewrite En.
      assert (Ec' : (0 <? c) && (c <=? a + b) = true).
      { apply andb_true_iff. split; [apply Z.ltb_lt|apply Z.leb_le]; lia. }
      rewrite Ec'. replace (a + b - c) with (a - c + b) by lia. rewrite IH'.
      destruct (split_cl r1 b) as [[p2 r2]|]; reflexivity.
Qed.

Lemma is_boundary_shift cl a b p1 r1 :
  split_cl cl a = Some (p1, r1) -> 0 <= b -> is_boundary cl (a + b) -> is_boundary r1 b.
Proof.
  intros H Hb (pre & post & Hs). rewrite (split_cl_add _ _ H Hb) in Hs.
  destruct (split_cl r1 b) as [[p2 r2]|]; [|discriminate]. exists p2, r2. reflexivity.
Qed.

(* if every offset 0..g is a boundary, the first g clusters are single bytes *)
Lemma split_cl_ones : forall k cl,
  (forall x, 0 <= x <= Z.of_nat k -> is_boundary cl x) ->
  exists r, split_cl cl (Z.of_nat k) = Some (repeat 1 k, r).
Proof.
  induction k as [|k IH]; intros cl H.
  - exists cl. apply split_cl_0.
  - assert (H1 : is_boundary cl 1) by (apply H; lia).
    destruct H1 as (pre & post & H1).
    destruct cl as [|c r]; [simpl in H1; discriminate|].
    simpl in H1. destruct ((0 <? c) && (c <=? 1)) eqn:Ec; [|discriminate].
    apply andb_true_iff in Ec. destruct Ec as [E1 E2]. apply Z.ltb_lt in E1. apply Z.leb_le in E2.
    assert (c = 1) by lia. subst c.
    assert (Hs1 : split_cl (1 :: r) 1 = Some ([1], r)) by (simpl; rewrite split_cl_0; reflexivity).
    destruct (IH r) as (r' & Hr').
    { intros x Hx. apply (is_boundary_shift (cl := 1 :: r) (a := 1) (b := x) Hs1); [lia|].
      apply H. lia. }
    exists r'. replace (Z.of_nat (S k)) with (1 + Z.of_nat k) by lia.
    rewrite (split_cl_add _ _ Hs1) by lia. rewrite Hr'. reflexivity.
Qed.

(* ---- count_clusters -------------------------------------------------------------- *)

Lemma count_app nl : forall cl1 l c b cl2, Forall (fun n => 0 < n) cl1 ->
  count_clusters nl l c b (cl1 ++ cl2) =
  let '(l1, c1) := count_clusters nl l c b cl1 in
  count_clusters nl l1 c1 (skipn (Z.to_nat (sumZ cl1)) b) cl2.
Proof.
  induction cl1 as [|n cl1 IH]; intros l c b cl2 Hf; [reflexivity|].
  inversion Hf as [|? ? Hn Hf']; subst. pose proof (sumZ_nonneg Hf') as Hs.
  assert (E : forall l' c', skipn (Z.to_nat (sumZ cl1)) (skipn (Z.to_nat n) b) = skipn (Z.to_nat (sumZ (n :: cl1))) b).
  { intros. rewrite skipn_skipn'. f_equal. unfold sumZ in *. simpl. lia. }
  cbn [app count_clusters]. destruct (nl (firstn (Z.to_nat n) b)); rewrite IH by assumption;
    destruct (count_clusters nl _ _ (skipn (Z.to_nat n) b) cl1) as [l1 c1]; rewrite E; auto.
Qed.

(* clusters that lie within b do not look beyond it *)
Lemma count_prefix nl : forall cl l c b x, Forall (fun n => 0 < n) cl -> sumZ cl <= zlen b ->
  count_clusters nl l c (b ++ x) cl = count_clusters nl l c b cl.
Proof.
  induction cl as [|n cl IH]; intros l c b x Hf Hs; [reflexivity|].
  inversion Hf as [|? ? Hn Hf']; subst. pose proof (sumZ_nonneg Hf') as Hs'.
  assert (Hle : (Z.to_nat n <= length b)%nat) by (unfold sumZ, zlen in *; simpl in Hs; lia).
  cbn [count_clusters].
  assert (E1 : firstn (Z.to_nat n) (b ++ x) = firstn (Z.to_nat n) b).
  { rewrite firstn_app. replace (Z.to_nat n - length b)%nat with O by lia. simpl. apply app_nil_r. }
  assert (E2 : skipn (Z.to_nat n) (b ++ x) = skipn (Z.to_nat n) b ++ x).
  { rewrite skipn_app. replace (Z.to_nat n - length b)%nat with O by lia. reflexivity. }
  rewrite E1, E2.
  assert (Hs2 : sumZ cl <= zlen (skipn (Z.to_nat n) b)).
  { unfold zlen. rewrite skipn_length. unfold sumZ, zlen in *. simpl in Hs. lia. }
  destruct (nl (firstn (Z.to_nat n) b)); apply IH; assumption.
Qed.

(* a run of one-byte clusters over bytes that are not line breaks: one column each *)
Lemma count_ones nl (blank : Z -> bool) (Hb : forall c, blank c = true -> nl [c] = false) :
  forall g l c x, forallb blank g = true ->
  count_clusters nl l c (g ++ x) (repeat 1 (length g)) = (l, c + zlen g).
Proof.
  induction g as [|a g IH]; intros l c x Hg.
  - simpl. f_equal. unfold zlen. simpl. lia.
  - simpl in Hg. apply andb_true_iff in Hg. destruct Hg as [Ha Hg].
    cbn [length repeat count_clusters]. change (Z.to_nat 1) with 1%nat.
    cbn [app firstn skipn]. rewrite (Hb _ Ha). rewrite IH by assumption.
    f_equal. unfold zlen. simpl length. lia.
Qed.
