(* Lex/Scanner.v — generic scanner engine with the semantics of a Ragel
   longest-match scanner (`|* ... *|` sections with fcall/fret), as used by
   hclsyntax/scan_tokens.rl. Definitions only.

   What is modelled is the GRAMMAR level of a Ragel scanner, not the generated
   tables: a machine is a set of modes, each an ordered list of rules
   (matcher, action). At every scanner start (Ragel: `ts = p`)

     * every rule of the current mode is tried on the remaining input; a
       matcher returns the rule's longest non-empty match as a pair
       (look, len): `look` = number of bytes the DFA has consumed when it
       accepts (this is what longest-match competition compares), `len` = the
       token end `te - ts` the DFA leaves behind (`len < look` when the
       pattern contains an `fhold`, e.g. `'$' ^'{'` gives (2, 1));
     * the rule with the greatest `look` wins, the EARLIEST rule on ties
       (Ragel gives earlier patterns priority);
     * its action runs on the state {braces, retBraces, heredocs, call stack,
       current mode}, emits 0, 1 or 2 tokens covering exactly the `len`
       matched bytes, and may fcall / fret;
     * if no rule matches, the machine is in Ragel's error state (or, at end
       of input, in a non-final state): scanTokens then emits the whole rest
       of the input as ONE token (scan_tokens.rl:380-392) followed by EOF.

   Go panics are explicit: an action returns None when the Go code would
   index an empty slice (fret with an empty call stack: `cs = stack[top]` with
   top = -1; `heredocs[len(heredocs)-1]` on an empty slice), and the run ends
   with status Panicked. *)
From HclV Require Import Base.Prelude.

Set Implicit Arguments.

(* heredocInProgress, hclsyntax/token.go:171 *)
Record hdoc := mkHdoc { h_marker : list Z; h_sol : bool }.

Section Engine.
Variable mode : Type.

(* the Go locals of scanTokens that actions read and write + Ragel's cs/stack *)
Record lstate := mkL {
  l_cur    : mode;        (* Ragel `cs` at a scanner start = which scanner we are in *)
  l_stack  : list mode;   (* Ragel call stack, top first *)
  l_braces : Z;           (* braces *)
  l_ret    : list Z;      (* retBraces, top first *)
  l_hdocs  : list hdoc    (* heredocs, top first *)
}.

Definition set_cur (m : mode) (st : lstate) : lstate :=
  mkL m (l_stack st) (l_braces st) (l_ret st) (l_hdocs st).
Definition set_braces (z : Z) (st : lstate) : lstate :=
  mkL (l_cur st) (l_stack st) z (l_ret st) (l_hdocs st).
Definition set_ret (r : list Z) (st : lstate) : lstate :=
  mkL (l_cur st) (l_stack st) (l_braces st) r (l_hdocs st).
Definition set_hdocs (h : list hdoc) (st : lstate) : lstate :=
  mkL (l_cur st) (l_stack st) (l_braces st) (l_ret st) h.

(* Ragel `fcall m`: push the current scanner, continue in m *)
Definition fcall (m : mode) (st : lstate) : lstate :=
  mkL m (l_cur st :: l_stack st) (l_braces st) (l_ret st) (l_hdocs st).
(* Ragel `fret`: `top--; cs = stack[top]` — index out of range on an empty stack *)
Definition fret (st : lstate) : option lstate :=
  match l_stack st with
  | [] => None
  | m :: r => Some (mkL m r (l_braces st) (l_ret st) (l_hdocs st))
  end.

(* What an action emits for the matched bytes b:
   ENone          nothing (the bytes become a gap between tokens)
   EOne ty        one token covering b
   ETwo t1 k t2   two tokens: t1 covering b minus its last k bytes, then t2
                  covering the last k bytes (heredocLiteralEOL: CHeredoc+Newline) *)
Inductive emit := ENone | EOne (ty : Z) | ETwo (ty1 : Z) (k : nat) (ty2 : Z).

Record rule := mkRule {
  r_match : list Z -> option (nat * nat);              (* (look, len), see above *)
  r_act   : lstate -> list Z -> option (emit * lstate) (* None = Go panic *)
}.

Record machine := mkMachine {
  m_rules  : mode -> list rule;
  m_err_ty : lstate -> Z;    (* type of the "rest of input" token of the error state *)
  m_eof_ty : Z
}.

(* raw token: what `token(ty)` passes to emitToken (ty, ts, te) + data[ts:te] *)
Record rtok := mkTok { k_ty : Z; k_s : Z; k_e : Z; k_bytes : list Z }.

(* the engine's trace: tokens and skipped matches, in order *)
Inductive item := ITok (t : rtok) | ISkip (s e : Z) (b : list Z).

Inductive status := Done | Panicked | OutOfFuel.

Definition item_s (i : item) : Z := match i with ITok t => k_s t | ISkip s _ _ => s end.
Definition item_e (i : item) : Z := match i with ITok t => k_e t | ISkip _ e _ => e end.
Definition item_b (i : item) : list Z := match i with ITok t => k_bytes t | ISkip _ _ b => b end.

Fixpoint tokens_of (its : list item) : list rtok :=
  match its with
  | [] => []
  | ITok t :: r => t :: tokens_of r
  | ISkip _ _ _ :: r => tokens_of r
  end.

Definition zlen {A} (l : list A) : Z := Z.of_nat (length l).

(* longest match, earliest rule on ties; matches with look = 0 do not count *)
Fixpoint pick (rs : list rule) (s : list Z) (best : option (rule * nat * nat))
  : option (rule * nat * nat) :=
  match rs with
  | [] => best
  | r :: rs' =>
      let best' :=
        match r_match r s with
        | Some (S lk, n) =>
            match best with
            | Some (_, blk, _) => if Nat.ltb blk (S lk) then Some (r, S lk, n) else best
            | None => Some (r, S lk, n)
            end
        | _ => best
        end in
      pick rs' s best'
  end.

Definition emit_items (e : emit) (off : Z) (b : list Z) : list item :=
  match e with
  | ENone => [ISkip off (off + zlen b) b]
  | EOne ty => [ITok (mkTok ty off (off + zlen b) b)]
  | ETwo ty1 k ty2 =>
      let n1 := (length b - k)%nat in
      [ITok (mkTok ty1 off (off + Z.of_nat n1) (firstn n1 b));
       ITok (mkTok ty2 (off + Z.of_nat n1) (off + zlen b) (skipn n1 b))]
  end.

Variable M : machine.

(* The scanner loop. `off` = Ragel p at a scanner start, `s` = data[p:].
   Every iteration consumes at least one byte: a token end of 0 (which would
   make the Ragel machine loop forever) or beyond the input is clamped to
   [1, length s]; HclLexProofs.hcl_match_bounds shows the HCL matchers never
   need the clamp. *)
Fixpoint run (fuel : nat) (off : Z) (s : list Z) (st : lstate) : list item * status :=
  match fuel with
  | O => ([], OutOfFuel)
  | S f =>
      match s with
      | [] => ([ITok (mkTok (m_eof_ty M) off off [])], Done)
      | _ :: _ =>
          match pick (m_rules M (l_cur st)) s None with
          | None =>
              (* error state / non-final state at EOF: scan_tokens.rl:380-396 *)
              let e := off + zlen s in
              ([ITok (mkTok (m_err_ty M st) off e s); ITok (mkTok (m_eof_ty M) e e [])], Done)
          | Some (r, _, n) =>
              let b := firstn (Nat.max 1 n) s in
              let rest := skipn (Nat.max 1 n) s in
              match r_act r st b with
              | None => ([], Panicked)
              | Some (e, st') =>
                  let '(its, fin) := run f (off + zlen b) rest st' in
                  (emit_items e off b ++ its, fin)
              end
          end
      end
  end.

Definition init_state (m0 : mode) : lstate := mkL m0 [] 0 [] [].

(* the whole scan of `data` starting in scanner m0; fuel = length data + 1
   always suffices (ScannerProofs.scanner_total) *)
Definition scan (m0 : mode) (data : list Z) : list item * status :=
  run (S (length data)) 0 data (init_state m0).

End Engine.

(* stripUTF8BOM, hclsyntax/token.go:332 *)
Definition utf8_bom : list Z := [239; 187; 191].
Definition strip_bom (src : list Z) : list Z :=
  match src with
  | 239 :: 187 :: 191 :: r => r
  | _ => src
  end.

(* data[a:b] *)
Definition slice (data : list Z) (a b : Z) : list Z :=
  firstn (Z.to_nat (b - a)) (skipn (Z.to_nat a) data).
