(* Lex/ScannerProofs.v — the generic scanner engine tiles its input, for ANY
   machine (any modes, matchers, actions) and ANY input. *)
From HclV Require Import Base.Prelude Lex.Scanner.

Set Implicit Arguments.

(* ---- small list / length facts ------------------------------------------------ *)

Lemma zlen_nil {A} : zlen (@nil A) = 0.
Proof. reflexivity. Qed.

Lemma zlen_app {A} (a b : list A) : zlen (a ++ b) = zlen a + zlen b.
Proof. unfold zlen. rewrite app_length. lia. Qed.

Lemma zlen_nonneg {A} (a : list A) : 0 <= zlen a.
Proof. unfold zlen. lia. Qed.

Lemma zlen_firstn_skipn {A} n (s : list A) : zlen (firstn n s) + zlen (skipn n s) = zlen s.
Proof. rewrite <- zlen_app, firstn_skipn. reflexivity. Qed.

Lemma skipn_max1_shorter {A} n (s : list A) :
  s <> [] -> (length (skipn (Nat.max 1 n) s) < length s)%nat.
Proof.
  intro Hs. rewrite skipn_length. destruct s; [congruence|]. simpl length. lia.
Qed.

(* ---- the trace is a chain ----------------------------------------------------- *)

(* consecutive items: each starts where the previous one ended and is as long
   as its bytes *)
Fixpoint chain (off : Z) (its : list item) : Prop :=
  match its with
  | [] => True
  | i :: r => item_s i = off /\ item_e i = off + zlen (item_b i) /\ chain (item_e i) r
  end.

Definition bytes_of (its : list item) : list Z := concat (map item_b its).

Lemma chain_app off l1 l2 :
  chain off l1 -> chain (off + zlen (bytes_of l1)) l2 -> chain off (l1 ++ l2).
Proof.
  revert off. induction l1 as [|i r IH]; intros off H1 H2; simpl in *.
  - unfold bytes_of in H2. simpl in H2. rewrite zlen_nil, Z.add_0_r in H2. exact H2.
  - destruct H1 as (Hs & He & Hr). repeat split; auto.
    apply IH; auto. unfold bytes_of in *. simpl in H2. rewrite zlen_app in H2.
    rewrite He. replace (off + zlen (item_b i) + zlen (concat (map item_b r)))
      with (off + (zlen (item_b i) + zlen (concat (map item_b r)))) by lia. exact H2.
Qed.

Lemma emit_items_chain e off b : chain off (emit_items e off b).
Proof.
  destruct e as [|ty|ty1 k ty2]; simpl; repeat split; auto.
  - unfold zlen. rewrite firstn_length. f_equal. f_equal. lia.
  - unfold zlen. rewrite skipn_length.
    assert (length b - k <= length b)%nat by lia. lia.
Qed.

Lemma emit_items_bytes e off b : bytes_of (emit_items e off b) = b.
Proof.
  destruct e as [|ty|ty1 k ty2]; unfold bytes_of; simpl; rewrite ?app_nil_r; auto.
  apply firstn_skipn.
Qed.

Section Generic.
Variable mode : Type.
Variable M : machine mode.

Definition eof_item (off : Z) : item := ITok (mkTok (m_eof_ty M) off off []).

(* a skipped byte string is the match of a rule whose action emitted nothing *)
Definition skip_is_match (b : list Z) : Prop :=
  exists (st st' : lstate mode) (r : rule mode) (s : list Z) (lk n : nat),
    In r (m_rules M (l_cur st)) /\ r_match r s = Some (lk, n) /\ (0 < lk)%nat /\
    b = firstn (Nat.max 1 n) s /\ r_act r st b = Some (ENone, st').

(* where a token of the trace comes from: the final EOF token, the "rest of
   input" token of the error state, or a rule's action *)
Definition emit_types (e : emit) : list Z :=
  match e with ENone => [] | EOne ty => [ty] | ETwo t1 _ t2 => [t1; t2] end.

Definition token_origin (t : rtok) : Prop :=
  (exists st : lstate mode, k_ty t = m_err_ty M st) \/
  (exists (st st' : lstate mode) (r : rule mode) (s : list Z) (lk n : nat) (e : emit),
     In r (m_rules M (l_cur st)) /\ r_match r s = Some (lk, n) /\ (0 < lk)%nat /\
     r_act r st (firstn (Nat.max 1 n) s) = Some (e, st') /\ In (k_ty t) (emit_types e)).

Lemma pick_spec (rs : list (rule mode)) s : forall best r lk n,
  pick rs s best = Some (r, lk, n) ->
  best = Some (r, lk, n) \/ (In r rs /\ r_match r s = Some (lk, n) /\ (0 < lk)%nat).
Proof.
  induction rs as [|r0 rs IH]; intros best r lk n H; simpl in H.
  - left. exact H.
  - apply IH in H. destruct H as [H | (Hin & Hm & Hp)].
    + destruct (r_match r0 s) as [[lk0 n0]|] eqn:E; [|left; exact H].
      destruct lk0 as [|lk0]; [left; exact H|].
      destruct best as [[[rb blk] bn]|].
      * destruct (Nat.ltb blk (S lk0)); [|left; exact H].
        inversion H; subst. right. split; [left; reflexivity|]. split; [exact E|lia].
      * inversion H; subst. right. split; [left; reflexivity|]. split; [exact E|lia].
    + right. split; [right; exact Hin|]. split; assumption.
Qed.

Lemma run_S f off s (st : lstate mode) :
  run M (S f) off s st =
  match s with
  | [] => ([eof_item off], Done)
  | _ :: _ =>
      match pick (m_rules M (l_cur st)) s None with
      | None =>
          let e := off + zlen s in
          ([ITok (mkTok (m_err_ty M st) off e s); eof_item e], Done)
      | Some (r, _, n) =>
          let b := firstn (Nat.max 1 n) s in
          let rest := skipn (Nat.max 1 n) s in
          match r_act r st b with
          | None => ([], Panicked)
          | Some (e, st') =>
              let '(its, fin) := run M f (off + zlen b) rest st' in
              (emit_items e off b ++ its, fin)
          end
      end
  end.
Proof. reflexivity. Qed.

(* the invariant of the scanner loop *)
Lemma run_spec : forall fuel off s (st : lstate mode) its fin,
  run M fuel off s st = (its, fin) ->
  chain off its /\
  (forall s0 e0 b, In (ISkip s0 e0 b) its -> skip_is_match b) /\
  (fin = Done ->
     bytes_of its = s /\ exists body, its = body ++ [eof_item (off + zlen s)]).
Proof.
  induction fuel as [|f IH]; intros off s st its fin H; [simpl in H|rewrite run_S in H].
  - inversion H; subst. split; [exact I|]. split; [intros ? ? ? []|]. intro; discriminate.
  - destruct s as [|c s'].
    + inversion H; subst. split; [|split].
      * simpl. rewrite zlen_nil. repeat split; lia.
      * intros s0 e0 b [Hx|[]]. discriminate.
      * intros _. split; [reflexivity|].
        exists []. simpl. unfold eof_item. rewrite zlen_nil, Z.add_0_r. reflexivity.
    + destruct (pick (m_rules M (l_cur st)) (c :: s') None) as [[[r lk] n]|] eqn:Ep.
      * apply pick_spec in Ep. destruct Ep as [Ep|(Hin & Hm & Hlk)]; [discriminate|].
        cbv zeta in H.
        remember (firstn (Nat.max 1 n) (c :: s')) as b eqn:Hb.
        remember (skipn (Nat.max 1 n) (c :: s')) as rest eqn:Hrest.
        destruct (r_act r st b) as [[e st']|] eqn:Ea.
        -- destruct (run M f (off + zlen b) rest st') as [its' fin'] eqn:Er.
           injection H as Hits Hfin. subst its fin.
           apply IH in Er. destruct Er as (Hc & Hsk & Hd).
           split; [|split].
           ++ apply chain_app; [apply emit_items_chain|].
              rewrite emit_items_bytes. exact Hc.
           ++ intros s0 e0 b0 Hi. apply in_app_or in Hi. destruct Hi as [Hi|Hi]; [|eauto].
              destruct e as [|ty|ty1 k ty2]; simpl in Hi.
              ** destruct Hi as [Hi|[]]. inversion Hi; subst b0.
                 exists st, st', r, (c :: s'), lk, n. repeat split; auto.
              ** destruct Hi as [Hi|[]]. discriminate.
              ** destruct Hi as [Hi|[Hi|[]]]; discriminate.
           ++ intro Hf. destruct (Hd Hf) as (Hbytes & body & Hbody).
              split.
              ** unfold bytes_of in *. rewrite map_app, concat_app.
                 fold (bytes_of (emit_items e off b)). rewrite emit_items_bytes, Hbytes.
                 subst b rest. apply firstn_skipn.
              ** exists (emit_items e off b ++ body). rewrite Hbody, <- app_assoc.
                 assert (E0 : zlen b + zlen rest = zlen (c :: s')) by (subst b rest; apply zlen_firstn_skipn).
                 assert (E : off + zlen b + zlen rest = off + zlen (c :: s')) by lia.
                 rewrite E. reflexivity.
        -- inversion H; subst. split; [exact I|]. split; [intros ? ? ? []|]. intro; discriminate.
      * inversion H; subst. clear H. split; [|split].
        -- simpl. rewrite zlen_nil. repeat split; lia.
        -- intros s0 e0 b [Hx|[Hx|[]]]; discriminate.
        -- intros _. split.
           ++ unfold bytes_of. simpl. rewrite app_nil_r. reflexivity.
           ++ exists [ITok (mkTok (m_err_ty M st) off (off + zlen (c :: s')) (c :: s'))].
              reflexivity.
Qed.

(* every token before the final EOF token is the error-state token or was
   emitted by a rule's action *)
Lemma run_origin : forall fuel off s (st : lstate mode) its,
  run M fuel off s st = (its, Done) ->
  exists body, its = body ++ [eof_item (off + zlen s)] /\
               forall t, In (ITok t) body -> token_origin t.
Proof.
  induction fuel as [|f IH]; intros off s st its H; [simpl in H; discriminate|rewrite run_S in H].
  destruct s as [|c s'].
  - inversion H; subst. exists []. split; [|intros t []].
    simpl. unfold eof_item. rewrite zlen_nil, Z.add_0_r. reflexivity.
  - destruct (pick (m_rules M (l_cur st)) (c :: s') None) as [[[r lk] n]|] eqn:Ep.
    + apply pick_spec in Ep. destruct Ep as [Ep|(Hin & Hm & Hlk)]; [discriminate|].
      cbv zeta in H.
      remember (firstn (Nat.max 1 n) (c :: s')) as b eqn:Hb.
      remember (skipn (Nat.max 1 n) (c :: s')) as rest eqn:Hrest.
      destruct (r_act r st b) as [[e st']|] eqn:Ea; [|discriminate].
      destruct (run M f (off + zlen b) rest st') as [its' fin'] eqn:Er.
      injection H as Hits Hfin. subst its fin'.
      apply IH in Er. destruct Er as (body & Hbody & Horig).
      exists (emit_items e off b ++ body). split.
      * rewrite Hbody, <- app_assoc.
        assert (E0 : zlen b + zlen rest = zlen (c :: s')) by (subst b rest; apply zlen_firstn_skipn).
        assert (E : off + zlen b + zlen rest = off + zlen (c :: s')) by lia.
        rewrite E. reflexivity.
      * intros t Hi. apply in_app_or in Hi. destruct Hi as [Hi|Hi]; [|auto].
        right. exists st, st', r, (c :: s'), lk, n, e. rewrite <- Hb.
        repeat split; auto.
        destruct e as [|ty|ty1 k ty2]; simpl in Hi |- *.
        -- destruct Hi as [Hi|[]]. discriminate.
        -- destruct Hi as [Hi|[]]. inversion Hi. left. reflexivity.
        -- destruct Hi as [Hi|[Hi|[]]]; inversion Hi; [left|right; left]; reflexivity.
    + inversion H; subst. clear H.
      exists [ITok (mkTok (m_err_ty M st) off (off + zlen (c :: s')) (c :: s'))]. split; [reflexivity|].
      intros t [Hi|[]]. inversion Hi. left. exists st. reflexivity.
Qed.

(* every iteration consumes at least one byte, so length data + 1 iterations
   always reach the end: the scan never runs out of fuel *)
Lemma run_total : forall fuel off s (st : lstate mode),
  (length s < fuel)%nat -> snd (run M fuel off s st) <> OutOfFuel.
Proof.
  induction fuel as [|f IH]; intros off s st Hl; [lia|]. rewrite run_S.
  destruct s as [|c s']; [simpl; discriminate|].
  destruct (pick (m_rules M (l_cur st)) (c :: s') None) as [[[r lk] n]|]; [|simpl; discriminate].
  cbv zeta.
  destruct (r_act r st (firstn (Nat.max 1 n) (c :: s'))) as [[e st']|]; [|simpl; discriminate].
  assert (Hs : (length (skipn (Nat.max 1 n) (c :: s')) < f)%nat).
  { pose proof (@skipn_max1_shorter Z n (c :: s')) as Hx.
    assert ((c :: s') <> []) by discriminate. specialize (Hx H). simpl length in *. lia. }
  specialize (IH (off + zlen (firstn (Nat.max 1 n) (c :: s'))) _ st' Hs).
  destruct (run M f (off + zlen (firstn (Nat.max 1 n) (c :: s'))) (skipn (Nat.max 1 n) (c :: s')) st')
    as [its fin]. simpl in *. exact IH.
Qed.

Theorem scanner_total : forall (m0 : mode) (data : list Z),
  snd (scan M m0 data) <> OutOfFuel.
Proof. intros. unfold scan. apply run_total. lia. Qed.

(* ---- no Go panic, given a state invariant that every action preserves ------------- *)

Section Invariant.
Variable Inv : lstate mode -> Prop.
Hypothesis step_ok : forall (st : lstate mode) (r : rule mode) s lk n,
  Inv st -> In r (m_rules M (l_cur st)) -> r_match r s = Some (lk, n) -> (0 < lk)%nat ->
  exists e st', r_act r st (firstn (Nat.max 1 n) s) = Some (e, st') /\ Inv st'.

Lemma run_no_panic : forall fuel off s (st : lstate mode),
  Inv st -> snd (run M fuel off s st) <> Panicked.
Proof.
  induction fuel as [|f IH]; intros off s st Hi; [simpl; discriminate|]. rewrite run_S.
  destruct s as [|c s']; [simpl; discriminate|].
  destruct (pick (m_rules M (l_cur st)) (c :: s') None) as [[[r lk] n]|] eqn:Ep; [|simpl; discriminate].
  apply pick_spec in Ep. destruct Ep as [Ep|(Hin & Hm & Hlk)]; [discriminate|].
  cbv zeta. destruct (step_ok _ _ Hi Hin Hm Hlk) as (e & st' & Ha & Hi'). rewrite Ha.
  specialize (IH (off + zlen (firstn (Nat.max 1 n) (c :: s'))) (skipn (Nat.max 1 n) (c :: s')) st' Hi').
  destruct (run M f _ _ st') as [its fin]. exact IH.
Qed.

(* with such an invariant every scan ends normally *)
Theorem scan_done : forall (m0 : mode) (data : list Z),
  Inv (init_state m0) -> exists its, scan M m0 data = (its, Done).
Proof.
  intros m0 data Hi. pose proof (scanner_total m0 data) as Ht.
  pose proof (run_no_panic (S (length data)) 0 data Hi) as Hp. unfold scan in *.
  destruct (run M (S (length data)) 0 data (init_state m0)) as [its fin]. simpl in *.
  exists its. destruct fin; congruence.
Qed.
End Invariant.

(* ---- tiling, stated on the token list --------------------------------------------- *)

(* a gap is a concatenation of skipped matches *)
Inductive gap_of (P : list Z -> Prop) : list Z -> Prop :=
  | gap_nil : gap_of P []
  | gap_cons b g : P b -> gap_of P g -> gap_of P (b ++ g).

(* toks tile data from offset off on: data = gap ++ bytes t1 ++ gap ++ bytes t2 … ++ gap,
   offsets consecutive *)
Fixpoint tiled (G : list Z -> Prop) (off : Z) (data : list Z) (toks : list rtok) : Prop :=
  match toks with
  | [] => G data
  | t :: r =>
      exists gap rest,
        data = gap ++ k_bytes t ++ rest /\ G gap /\
        k_s t = off + zlen gap /\ k_e t = k_s t + zlen (k_bytes t) /\
        tiled G (k_e t) rest r
  end.

Lemma items_tiled (P : list Z -> Prop) : forall its off,
  chain off its ->
  (forall s0 e0 b, In (ISkip s0 e0 b) its -> P b) ->
  tiled (gap_of P) off (bytes_of its) (tokens_of its).
Proof.
  induction its as [|i r IH]; intros off Hc Hs.
  - simpl. constructor.
  - destruct Hc as (Hs0 & He0 & Hr).
    assert (Hs' : forall s0 e0 b, In (ISkip s0 e0 b) r -> P b) by (intros; eapply Hs; right; eauto).
    specialize (IH _ Hr Hs'). destruct i as [t|s1 e1 b1]; simpl in *.
    + exists [], (bytes_of r). simpl. repeat split; auto.
      * constructor.
      * rewrite zlen_nil. lia.
      * lia.
    + unfold bytes_of in *. simpl.
      destruct (tokens_of r) as [|t ts] eqn:Et; simpl in *.
      * constructor; [eapply Hs; left; reflexivity|exact IH].
      * destruct IH as (gap & rest & Hd & Hg & Hks & Hke & Ht).
        exists (b1 ++ gap), rest. rewrite Hd, app_assoc. repeat split; auto.
        -- constructor; [eapply Hs; left; reflexivity|exact Hg].
        -- rewrite zlen_app. lia.
Qed.

(* tokens in source order, non-overlapping: starts and ends are monotone *)
Fixpoint ordered (lo : Z) (toks : list rtok) : Prop :=
  match toks with
  | [] => True
  | t :: r => lo <= k_s t /\ k_s t <= k_e t /\ ordered (k_e t) r
  end.

Lemma tiled_ordered G : forall toks off data, tiled G off data toks -> ordered off toks.
Proof.
  induction toks as [|t r IH]; intros off data H; simpl in *; auto.
  destruct H as (gap & rest & Hd & Hg & Hs & He & Ht).
  pose proof (zlen_nonneg gap). pose proof (zlen_nonneg (k_bytes t)).
  repeat split; try lia. eapply IH; eauto.
Qed.

Lemma slice_app_mid (a b c : list Z) :
  slice (a ++ b ++ c) (zlen a) (zlen a + zlen b) = b.
Proof.
  unfold slice, zlen. rewrite Nat2Z.id.
  replace (Z.to_nat (Z.of_nat (length a) + Z.of_nat (length b) - Z.of_nat (length a))) with (length b) by lia.
  rewrite skipn_app, skipn_all, Nat.sub_diag. simpl.
  rewrite firstn_app, firstn_all, Nat.sub_diag. simpl. apply app_nil_r.
Qed.

(* each token's bytes are the source slice of its range *)
Lemma tiled_slices G : forall toks off pre data,
  off = zlen pre -> tiled G off data toks ->
  forall t, In t toks -> k_bytes t = slice (pre ++ data) (k_s t) (k_e t).
Proof.
  induction toks as [|t r IH]; intros off pre data Hoff H t0 Hin; [destruct Hin|].
  destruct H as (gap & rest & Hd & Hg & Hs & He & Ht). destruct Hin as [<-|Hin].
  - rewrite Hd, He, Hs, Hoff. rewrite app_assoc. rewrite <- zlen_app.
    symmetry. apply slice_app_mid.
  - rewrite Hd. replace (pre ++ gap ++ k_bytes t ++ rest) with ((pre ++ gap ++ k_bytes t) ++ rest)
      by (rewrite <- !app_assoc; reflexivity).
    eapply IH; [|exact Ht|exact Hin].
    rewrite !zlen_app. lia.
Qed.

(* The tiling theorem. For any machine, any start mode, any input: if the scan
   does not hit a Go panic then
     - the trace (tokens and skipped matches) is a chain starting at offset 0
       whose bytes concatenate to the input,
     - it ends with exactly the EOF token at offset length data,
     - every skipped piece is the match of a rule whose action emitted nothing. *)
Theorem scanner_tiles : forall (m0 : mode) (data : list Z) its,
  scan M m0 data = (its, Done) ->
  chain 0 its /\
  bytes_of its = data /\
  (exists body, its = body ++ [eof_item (zlen data)]) /\
  (forall s0 e0 b, In (ISkip s0 e0 b) its -> skip_is_match b).
Proof.
  intros m0 data its H. unfold scan in H. apply run_spec in H.
  destruct H as (Hc & Hs & Hd). destruct (Hd eq_refl) as (Hb & body & Hbody).
  repeat split; auto. exists body. rewrite Hbody. rewrite Z.add_0_l. reflexivity.
Qed.

(* The same on the token list alone: order, no overlap, byte fidelity, gaps. *)
Theorem scanner_tokens_tile : forall (m0 : mode) (data : list Z) its,
  scan M m0 data = (its, Done) ->
  let toks := tokens_of its in
  tiled (gap_of skip_is_match) 0 data toks /\
  ordered 0 toks /\
  (forall t, In t toks -> k_bytes t = slice data (k_s t) (k_e t)) /\
  (exists body, toks = body ++ [mkTok (m_eof_ty M) (zlen data) (zlen data) []] /\
                forall t, In t body -> token_origin t).
Proof.
  intros m0 data its H toks. pose proof H as Ho. unfold scan in Ho. apply run_origin in Ho.
  destruct Ho as (body & Hbody & Horig). rewrite Z.add_0_l in Hbody.
  apply scanner_tiles in H.
  destruct H as (Hc & Hb & _ & Hs).
  assert (Ht : tiled (gap_of skip_is_match) 0 data toks).
  { rewrite <- Hb. apply items_tiled; assumption. }
  split; [exact Ht|]. split; [eapply tiled_ordered; exact Ht|]. split.
  - intros t Hin. change data with ([] ++ data) at 1.
    eapply tiled_slices; [|exact Ht|exact Hin]. reflexivity.
  - exists (tokens_of body). subst toks. rewrite Hbody. split.
    + clear. induction body as [|i r IH]; simpl; [reflexivity|].
      destruct i; simpl; rewrite IH; reflexivity.
    + intros t Hin. apply Horig. clear - Hin.
      induction body as [|i r IH]; simpl in *; [destruct Hin|].
      destruct i as [t0|]; simpl in Hin.
      * destruct Hin as [<-|Hin]; [left; reflexivity|right; auto].
      * right; auto.
Qed.

End Generic.
