(* Lex/Positions.v — line/column/byte arithmetic. Definitions only.

   * emit_token_cl   mirrors tokenAccum.emitToken (hclsyntax/token.go:131-169)
   * pos_at          the canonical position of a byte offset: count newline
                     clusters and grapheme clusters from the start position
   * rs_scan / range_scanner  mirror RangeScanner.Scan (pos_scanner.go:62-141)

   Grapheme-cluster segmentation (go-textseg) is NOT modelled: it is an oracle
   input. Two oracles appear, exactly as the Go code uses textseg:
     - emitToken segments the bytes of ONE token in isolation: `cl` below is
       the list of cluster lengths textseg returns for that slice;
     - the canonical position uses the segmentation `gcs` of the whole input
       (after the BOM), recorded by the harness.
   emit_token_gcs derives the per-token clusters from gcs by restriction,
   which is what textseg does whenever the token boundaries are cluster
   boundaries of the whole text (the property's own caveat).

   The two tests for "line break" in the code are transcribed as written:
     is_nl_lexer  a cluster that is exactly "\n" or "\r\n"   (emitToken)
     is_nl_rs     a cluster whose last byte is '\n'           (RangeScanner)
   They coincide on every segmentation in which a cluster ending in '\n' is
   "\n" or "\r\n" (UAX #29 GB4/GB5; PositionsProofs.clusters_agree), in
   particular a lone '\r' is an ordinary character for both. *)
From HclV Require Import Base.Prelude Lex.Scanner.

(* hcl.Pos, hcl.Range (pos.go) *)
Record pos := mkPos { p_line : Z; p_col : Z; p_byte : Z }.
Record range := mkRange { r_start : pos; r_end : pos }.
(* hclsyntax.Token *)
Record token := mkToken { t_ty : Z; t_bytes : list Z; t_range : range }.

Definition initial_pos : pos := mkPos 1 1 0.

Definition is_nl_lexer (c : list Z) : bool :=
  match c with
  | [10] => true
  | [13; 10] => true
  | _ => false
  end.
(* pos_scanner.go: `len(gr) != 0 && gr[len(gr)-1] == '\n'` *)
Definition is_nl_rs (c : list Z) : bool :=
  match c with [] => false | _ :: _ => last c 0 =? 10 end.

(* Walk the clusters `cl` (byte lengths) of `b`: a line-break cluster moves to
   column 1 of the next line, any other cluster is one column.
   emitToken: `for len(b) > 0 { advance, seq, _ := ScanGraphemeClusters(b, true) … }` *)
Fixpoint count_clusters (nl : list Z -> bool) (line col : Z) (b : list Z) (cl : list Z) : Z * Z :=
  match cl with
  | [] => (line, col)
  | n :: cl' =>
      let c := firstn (Z.to_nat n) b in
      let b' := skipn (Z.to_nat n) b in
      if nl c then count_clusters nl (line + 1) 1 b' cl'
      else count_clusters nl line (col + 1) b' cl'
  end.

(* tokenAccum: Pos and StartByte (Bytes = data, Tokens = the output list) *)
Record accum := mkAcc { a_pos : pos; a_start_byte : Z }.

(* tokenAccum.emitToken(ty, startOfs, endOfs); b = f.Bytes[startOfs:endOfs],
   cl = textseg's clusters of b *)
Definition emit_token_cl (a : accum) (ty so eo : Z) (b : list Z) (cl : list Z) : token * accum :=
  let p := a_pos a in
  (* start.Column += startOfs + f.StartByte - f.Pos.Byte
     "Safe because only ASCII spaces can be in the offset" *)
  let start := mkPos (p_line p) (p_col p + (so + a_start_byte a - p_byte p)) (so + a_start_byte a) in
  let '(l, c) := count_clusters is_nl_lexer (p_line start) (p_col start) b cl in
  let end_ := mkPos l c (eo + a_start_byte a) in
  (mkToken ty b (mkRange start end_), mkAcc end_ (a_start_byte a)).

(* all tokens of one scan, per-token cluster oracles given in order *)
Fixpoint emit_all_cl (a : accum) (toks : list rtok) (cls : list (list Z)) : list token :=
  match toks with
  | [] => []
  | t :: r =>
      let cl := match cls with c :: _ => c | [] => [] end in
      let '(tk, a') := emit_token_cl a (k_ty t) (k_s t) (k_e t) (k_bytes t) cl in
      tk :: emit_all_cl a' r (tl cls)
  end.

(* ---- whole-input segmentation --------------------------------------------- *)

(* split a cluster list at byte length n: Some (clusters covering exactly the
   first n bytes, the rest) — None when n is not a cluster boundary (or the
   list contains a non-positive length) *)
Fixpoint split_cl (cl : list Z) (n : Z) : option (list Z * list Z) :=
  if n =? 0 then Some ([], cl)
  else match cl with
       | [] => None
       | c :: r =>
           if (0 <? c) && (c <=? n) then
             match split_cl r (n - c) with
             | Some (a, b) => Some (c :: a, b)
             | None => None
             end
           else None
       end.

(* n is a cluster boundary of cl *)
Definition is_boundary (cl : list Z) (n : Z) : Prop :=
  exists pre post, split_cl cl n = Some (pre, post).
Definition is_boundary_b (cl : list Z) (n : Z) : bool :=
  match split_cl cl n with Some _ => true | None => false end.

(* The canonical position of absolute byte offset `off`: start from `start`
   (the position of data[0]), count line-break clusters and clusters up to the
   offset. None when off is not a cluster boundary. *)
Definition pos_at (nl : list Z -> bool) (start : pos) (data : list Z) (gcs : list Z) (off : Z) : option pos :=
  match split_cl gcs (off - p_byte start) with
  | Some (pre, _) =>
      let '(l, c) := count_clusters nl (p_line start) (p_col start) data pre in
      Some (mkPos l c off)
  | None => None
  end.

(* The same walk, incrementally: from position p (b = the input from p on, cl =
   its clusters) forward to absolute offset off. PositionsProofs.walk_to_pos_at
   and walk_to_compose: this IS pos_at, computed without restarting. *)
Definition step_pos (nl : list Z -> bool) (p : pos) (c : list Z) (n : Z) : pos :=
  if nl c then mkPos (p_line p + 1) 1 (p_byte p + n)
  else mkPos (p_line p) (p_col p + 1) (p_byte p + n).

Record walk := mkWalk { w_pos : pos; w_data : list Z; w_cl : list Z }.

Fixpoint walk_to (nl : list Z -> bool) (cl : list Z) (p : pos) (b : list Z) (off : Z) : option walk :=
  if p_byte p =? off then Some (mkWalk p b cl)
  else match cl with
       | [] => None
       | n :: cl' =>
           if (0 <? n) && (p_byte p + n <=? off) then
             walk_to nl cl' (step_pos nl p (firstn (Z.to_nat n) b) n) (skipn (Z.to_nat n) b) off
           else None
       end.

(* walk_to that additionally requires every cluster passed to be one byte long
   (every byte offset on the way is a cluster boundary) *)
Fixpoint walk_ones (nl : list Z -> bool) (cl : list Z) (p : pos) (b : list Z) (off : Z) : option walk :=
  if p_byte p =? off then Some (mkWalk p b cl)
  else match cl with
       | [] => None
       | n :: cl' =>
           if (n =? 1) && (p_byte p + n <=? off) then
             walk_ones nl cl' (step_pos nl p (firstn (Z.to_nat n) b) n) (skipn (Z.to_nat n) b) off
           else None
       end.

(* emitToken with the token's clusters taken from the whole-input segmentation:
   `rest` = clusters of the input from byte f.Pos.Byte on. *)
Definition emit_token_gcs (a : accum) (rest : list Z) (t : rtok) : option (token * accum * list Z) :=
  let gap := k_s t + a_start_byte a - p_byte (a_pos a) in
  match split_cl rest gap with
  | None => None
  | Some (_, r1) =>
      match split_cl r1 (k_e t - k_s t) with
      | None => None
      | Some (cl, r2) =>
          let '(tk, a') := emit_token_cl a (k_ty t) (k_s t) (k_e t) (k_bytes t) cl in
          Some (tk, a', r2)
      end
  end.

Fixpoint emit_all_gcs (a : accum) (rest : list Z) (toks : list rtok) : option (list token) :=
  match toks with
  | [] => Some []
  | t :: r =>
      match emit_token_gcs a rest t with
      | None => None
      | Some (tk, a', rest') =>
          match emit_all_gcs a' rest' r with
          | Some l => Some (tk :: l)
          | None => None
          end
      end
  end.

(* ---- RangeScanner ---------------------------------------------------------- *)

(* the loop `for gsc.Scan() { … }` of RangeScanner.Scan over the clusters cl of
   adv = sc.b[sc.pos.Byte : sc.pos.Byte+advance] *)
Fixpoint rs_loop (new end_ : pos) (advanced toklen : Z) (adv : list Z) (cl : list Z) : pos * pos :=
  match cl with
  | [] => (new, end_)
  | n :: cl' =>
      let gr := firstn (Z.to_nat n) adv in
      let new1 := mkPos (p_line new) (p_col new + 1) (p_byte new + zlen gr) in
      let new2 := if is_nl_rs gr then mkPos (p_line new1 + 1) 1 (p_byte new1) else new1 in
      let end' := if advanced <? toklen then new2 else end_ in
      rs_loop new2 end' (advanced + zlen gr) toklen (skipn (Z.to_nat n) adv) cl'
  end.

(* one successful Scan: returns (sc.cur, new sc.pos); off = sc.off, the offset
   within b of the next byte to process (sc.off += advance afterwards) *)
Definition rs_scan (p : pos) (off : Z) (b : list Z) (advance toklen : Z) (cl : list Z) : range * pos :=
  let adv := slice b off (off + advance) in
  let '(new, e) := rs_loop p p 0 toklen adv cl in
  (mkRange p e, new).

(* The ranges visited by `for sc.Scan() { sc.Range() }`, for a split function
   whose successive results are `results` = (advance, len(token)) and with
   cls = textseg's clusters of each `adv` slice. The reported position p and
   the buffer offset off are separate: a fragment is scanned from its first
   byte, the start position only offsets what is reported. *)
Fixpoint rs_run (p : pos) (off : Z) (b : list Z) (results : list (Z * Z)) (cls : list (list Z)) : list range :=
  match results with
  | [] => []
  | (advance, toklen) :: rs =>
      if zlen b <=? off then []
      else
        let cl := match cls with c :: _ => c | [] => [] end in
        let '(rg, new) := rs_scan p off b advance toklen cl in
        rg :: rs_run new (off + advance) b rs (tl cls)
  end.

(* NewRangeScannerFragment(b, _, start, cb): pos = start, off = 0 *)
Definition range_scanner (start : pos) (b : list Z) (results : list (Z * Z)) (cls : list (list Z)) : list range :=
  rs_run start 0 b results cls.

(* same, the per-step clusters taken from the segmentation of b *)
Fixpoint rs_run_gcs (p : pos) (off : Z) (b : list Z) (results : list (Z * Z)) (rest : list Z) : option (list range) :=
  match results with
  | [] => Some []
  | (advance, toklen) :: rs =>
      if zlen b <=? off then Some []
      else
        match split_cl rest advance with
        | None => None
        | Some (cl, rest') =>
            let '(rg, new) := rs_scan p off b advance toklen cl in
            match rs_run_gcs new (off + advance) b rs rest' with
            | Some l => Some (rg :: l)
            | None => None
            end
        end
  end.

Definition range_scanner_gcs (start : pos) (b : list Z) (results : list (Z * Z)) (gcs : list Z) : option (list range) :=
  rs_run_gcs start 0 b results gcs.
