(* Diag/TextWriter.v — model of the value summaries of the text diagnostic writer
   (/repo/diagnostic_text.go: diagnosticTextWriter.WriteDiagnostic, traversalStr,
   valueStr) and the proof that they print content only of values that are
   unmarked at top level and primitive.

   WriteDiagnostic prints, in this order:
     "Error: " Summary                      (the diagnostic's own text)
     the source lines of Subject/Context    (bytes of the FILE, never of a value)
     "with <traversal> as <valueStr>," ...  (one statement per variable reference of
                                             Diagnostic.Expression, evaluated in
                                             Diagnostic.EvalContext)  <- this file
     Detail                                 (the diagnostic's own text, word-wrapped)
   Only the third part looks at values. *)
From Coq Require Import String Ascii.
From HclV Require Import Base.Prelude Cty.Values Cty.Convert Cty.Ops Eval.Impl Eval.Vars Diag.Leak.
Open Scope list_scope.
Open Scope Z_scope.

(* ---- valueStr ------------------------------------------------------------------------ *)
(* None = the Go code panics (True / AsBigFloat / AsString / LengthInt on a marked
   value: "value is marked, so must be unmarked first").  [o] is the origin given
   to printed content: the writer passes (OVal []) for variable values and the
   traversal printer OExpr for literal index keys. *)
Definition count_text (t : ty) (n : nat) : text :=
  match n with
  | O => [PLit (bytes_of "empty "); PLit (friendly_name false t)]
  | S O => [PLit (friendly_name false t); PLit (bytes_of " with 1 element")]
  | _ => [PLit (friendly_name false t); PLit (bytes_of " with "); PInt (Z.of_nat n); PLit (bytes_of " elements")]
  end.

Definition value_str (o : origin) (v : val) : option text :=
  let '(u, m) := unmark v in
  match u with
  | VNull _ => Some (lit "null")
  | VUnk _ _ => Some (lit "(not yet known)")
  | _ =>
    match m with
    | _ :: _ => None
    | [] =>
      match u with
      | VBool true => Some (lit "true")
      | VBool false => Some (lit "false")
      | VNum n => Some [PNumber o n]                     (* bf.Text('g', 10) *)
      | VStr s => Some [PStr o s]                        (* %q *)
      | VList _ l | VSet _ l | VTuple l => Some (count_text (type_of u) (length l))
      | VMap _ l => Some (count_text (type_of u) (length l))
      | VObj [] => Some (lit "object with no attributes")
      | VObj [(k, _)] => Some (lit "object with 1 attribute " ++ [PStr OGot k])
      | VObj l => Some (lit "object with " ++ [PInt (Z.of_nat (length l))] ++ lit " attributes")
      | _ => Some [PLit (friendly_name false (type_of u))]
      end
    end
  end.

(* ---- traversalStr ---------------------------------------------------------------------- *)
Definition step_str (s : step) : option text :=
  match s with
  | SAttr n => Some [PLit (bytes_of "."); PRaw OExpr n]
  | SIndex k =>
      if is_prim (type_of k)
      then match value_str OExpr k with
           | Some t => Some (lit "[" ++ t ++ lit "]")
           | None => None
           end
      else Some (lit "[...]")
  end.

Fixpoint steps_str (l : list step) : option text :=
  match l with
  | [] => Some []
  | s :: r => match step_str s, steps_str r with
              | Some a, Some b => Some (a ++ b)
              | _, _ => None
              end
  end.

Definition traversal_str (t : traversal) : option text :=
  match steps_str (snd t) with
  | Some r => Some (PRaw OExpr (fst t) :: r)
  | None => None
  end.

(* ---- one "with" statement ---------------------------------------------------------------- *)
Inductive stmt_res := NoStmt | Stmt (t : text) | Panic.

Definition stmt_for (c : ctx) (t : traversal) : stmt_res :=
  let '(v, ds) := traverse_abs c (fst t) (snd t) in
  if has_errors ds then NoStmt
  else
  match traversal_str t with
  | None => Panic
  | Some ts =>
      if negb (is_known v) then NoStmt
      else if is_null v then Stmt (ts ++ lit " set to null")
      else if is_marked v then NoStmt          (* "Skip the marked values" *)
      else match value_str (OVal []) v with
           | Some vs => Stmt (ts ++ lit " as " ++ vs)
           | None => Panic
           end
  end.

(* the statements of a diagnostic: one per variable reference of its expression
   (duplicates are dropped and the statements sorted in Go: neither adds text) *)
Definition with_block (c : ctx) (e : expr) : list stmt_res := map (stmt_for c) (variables e).

(* the context a 'for' expression evaluates its body in, for one element (k, v) of
   the collection (Eval/Impl.v EFor [bind]; hclsyntax ForExpr.Value childCtx) *)
Definition for_child_ctx (c : ctx) (kvar vvar : list Z) (k v : val) : ctx :=
  child_ctx c ((if str_eqb kvar [] || str_eqb kvar vvar then [] else [(kvar, k)]) ++ [(vvar, v)]).

(* ---- what a statement may contain ----------------------------------------------------------- *)
(* p is acceptable in the statement about value v: constant text, counts, names
   written in the expression, the single attribute name of an object type, or the
   content of v itself when v is a bare primitive *)
Definition stmt_piece_ok (v : val) (p : piece) : Prop :=
  match p with
  | PLit _ | PInt _ => True
  | PStr OExpr _ | PRaw OExpr _ | PNumber OExpr _ => True
  | PStr (OVal _) s => unmark v = (VStr s, [])
  | PNumber (OVal _) n => unmark v = (VNum n, [])
  | PStr OGot s => exists x, fst (unmark v) = VObj [(s, x)]
  | _ => False
  end.

Ltac inv H := inversion H; subst; clear H.
Ltac one_lit Hin := destruct Hin as [Hin|[]]; subst; exact I.
Ltac counted Hin :=
  unfold count_text in Hin;
  match type of Hin with context [length ?l] => destruct (length l) as [|[|?]] end;
  cbn in Hin; intuition (subst; exact I).

Lemma value_str_pieces : forall v t, value_str (OVal []) v = Some t ->
  forall p, In p t -> stmt_piece_ok v p.
Proof.
  intros v t H p Hin. unfold value_str in H.
  destruct v; cbn in H.
  - inv H. destruct Hin as [Hin|[]]; subst; reflexivity.
  - inv H. destruct Hin as [Hin|[]]; subst; reflexivity.
  - destruct b; inv H; one_lit Hin.
  - inv H. one_lit Hin.
  - inv H. one_lit Hin.
  - inv H. counted Hin.
  - inv H. counted Hin.
  - inv H. counted Hin.
  - inv H. counted Hin.
  - destruct l as [|[k x] [|y r]]; inv H.
    + one_lit Hin.
    + destruct Hin as [Hin|[Hin|[]]]; subst; cbn; eauto.
    + cbn in Hin. intuition (subst; exact I).
  - destruct v; destruct m; try discriminate; inv H;
      try one_lit Hin; try counted Hin;
      try (destruct Hin as [Hin|[]]; subst; reflexivity).
    + destruct b; inv H1; one_lit Hin.
    + destruct l as [|[k x] [|y r]]; inv H1.
      * one_lit Hin.
      * destruct Hin as [Hin|[Hin|[]]]; subst; cbn; eauto.
      * cbn in Hin. intuition (subst; exact I).
Qed.

(* for collections and objects no content of any element is printed, whatever the
   elements are (marked or not) *)
Corollary value_str_no_nested_content : forall v t, value_str (OVal []) v = Some t ->
  (match v with VList _ _ | VSet _ _ | VMap _ _ | VTuple _ | VObj _ => True | _ => False end) ->
  forall p, In p t -> match p with PStr (OVal _) _ | PNumber (OVal _) _ | PRaw (OVal _) _ => False | _ => True end.
Proof.
  intros v t H Hc p Hin. pose proof (value_str_pieces v t H p Hin) as Hp.
  destruct p as [|o s| |o n|o s]; auto; destruct o; auto; cbn in Hp; destruct v; try contradiction; try discriminate.
Qed.

(* valueStr on a top-level marked value that is known and not null panics; the
   writer never gets there *)
Lemma value_str_marked : forall o m v, m <> [] -> is_known (VMark m v) = true -> is_null (VMark m v) = false ->
  value_str o (VMark m v) = None.
Proof.
  intros o m v Hm Hk Hn. unfold value_str. cbn [unmark].
  destruct v; try reflexivity; try (cbn in Hk, Hn; discriminate);
    destruct m; try congruence; reflexivity.
Qed.

Lemma value_str_expr_pieces : forall k t, value_str OExpr k = Some t ->
  forall p, In p t -> match p with PLit _ | PInt _ | PStr OExpr _ | PNumber OExpr _ | PStr OGot _ => True | _ => False end.
Proof.
  intros k t H p Hin. unfold value_str in H.
  destruct (unmark k) as [u m]. destruct u; try (destruct m; try discriminate);
    try (inversion H; subst; clear H; destruct Hin as [Hin|[]]; subst; exact I).
  all: try (inversion H; subst; clear H; unfold count_text in Hin;
            match type of Hin with context [length ?l] => destruct (length l) as [|[|n]] end;
            cbn in Hin; intuition (subst; exact I)).
  - destruct b; inversion H; subst; destruct Hin as [Hin|[]]; subst; exact I.
  - destruct l as [|[k' x] [|y r]]; inversion H; subst; clear H; cbn in Hin; intuition (subst; exact I).
Qed.

Definition expr_piece (p : piece) : Prop :=
  match p with PLit _ | PInt _ | PStr OExpr _ | PRaw OExpr _ | PNumber OExpr _ => True | _ => False end.

Lemma step_str_pieces : forall s t, step_str s = Some t -> forall p, In p t -> expr_piece p.
Proof.
  intros s t H p Hin. destruct s as [n|k]; cbn in H.
  - inversion H; subst. destruct Hin as [Hin|[Hin|[]]]; subst; exact I.
  - destruct (is_prim (type_of k)) eqn:Hp.
    + destruct (value_str OExpr k) as [vs|] eqn:Hv; inversion H; subst; clear H.
      change (lit "[" ++ vs ++ lit "]") with (PLit (bytes_of "[") :: vs ++ lit "]") in Hin.
      destruct Hin as [Hin|Hin]; [subst; exact I|].
      apply in_app_or in Hin. destruct Hin as [Hin|Hin]; [|destruct Hin as [Hin|[]]; subst; exact I].
      pose proof (value_str_expr_pieces k vs Hv p Hin) as Hq.
      destruct p as [|o s| |o n|o s]; auto; destruct o; auto; try contradiction.
      (* an OGot piece would need k to be an object: excluded by is_prim *)
      unfold value_str in Hv. destruct (unmark k) as [u m] eqn:Hu.
      assert (type_of u = type_of k) by (destruct k; inversion Hu; subst; reflexivity).
      destruct u; try (destruct m; try discriminate); inversion Hv; subst;
        try (destruct Hin as [Hin|[]]; discriminate);
        try (rewrite <- H in Hp; discriminate).
      destruct b; inversion H1; subst; destruct Hin as [Hin|[]]; discriminate.
    + inversion H; subst. destruct Hin as [Hin|[]]; subst; exact I.
Qed.

Lemma steps_str_pieces : forall l t, steps_str l = Some t -> forall p, In p t -> expr_piece p.
Proof.
  induction l as [|s r IH]; cbn; intros t H p Hin.
  - inversion H; subst. destruct Hin.
  - destruct (step_str s) as [a|] eqn:Hs; try discriminate.
    destruct (steps_str r) as [b|] eqn:Hr; try discriminate. inversion H; subst.
    apply in_app_or in Hin. destruct Hin; [eapply step_str_pieces; eauto|eapply IH; eauto].
Qed.

Lemma traversal_str_pieces : forall t ts, traversal_str t = Some ts -> forall p, In p ts -> expr_piece p.
Proof.
  intros t ts H p Hin. unfold traversal_str in H. destruct (steps_str (snd t)) as [r|] eqn:Hr; inversion H; subst.
  destruct Hin as [Hin|Hin]; [subst; exact I|eapply steps_str_pieces; eauto].
Qed.

Lemma expr_piece_ok : forall v p, expr_piece p -> stmt_piece_ok v p.
Proof. intros v p H. destruct p as [|o s| |o n|o s]; cbn in *; auto; destruct o; auto; contradiction. Qed.

(* The statement about a variable reference exists only when its value is unmarked
   at top level (or null), and prints content only of that value itself, when it is
   a bare string or number; for collections it prints the kind and the element
   count, for objects the attribute count (the attribute name when there is exactly
   one) — never the content of an element, marked or not. *)
Theorem text_writer_leak_free : forall c t txt,
  stmt_for c t = Stmt txt ->
  let v := fst (traverse_abs c (fst t) (snd t)) in
  (is_marked v = false \/ is_null v = true) /\
  forall p, In p txt -> stmt_piece_ok v p.
Proof.
  intros c t txt H v. unfold stmt_for in H. subst v.
  destruct (traverse_abs c (fst t) (snd t)) as [v ds]. cbn [fst].
  destruct (has_errors ds); try discriminate.
  destruct (traversal_str t) as [ts|] eqn:Ht; try discriminate.
  destruct (negb (is_known v)); try discriminate.
  destruct (is_null v) eqn:Hn.
  - inversion H; subst. split; [auto|]. intros p Hin. apply in_app_or in Hin.
    destruct Hin as [Hin|[Hin|[]]]; [apply expr_piece_ok; eapply traversal_str_pieces; eauto|subst; exact I].
  - destruct (is_marked v) eqn:Hm; try discriminate.
    destruct (value_str (OVal []) v) as [vs|] eqn:Hv; try discriminate. inversion H; subst.
    split; [auto|]. intros p Hin. apply in_app_or in Hin. destruct Hin as [Hin|Hin].
    + apply expr_piece_ok; eapply traversal_str_pieces; eauto.
    + destruct Hin as [Hin|Hin]; [subst; exact I|].
      eapply value_str_pieces; eauto.
Qed.

(* a marked, known, non-null value is skipped *)
Theorem text_writer_skips_marked : forall c t,
  let v := fst (traverse_abs c (fst t) (snd t)) in
  is_marked v = true -> is_null v = false -> forall txt, stmt_for c t <> Stmt txt.
Proof.
  intros c t v Hm Hn txt H. subst v. unfold stmt_for in H.
  destruct (traverse_abs c (fst t) (snd t)) as [v ds]. cbn [fst] in *.
  destruct (has_errors ds); try discriminate.
  destruct (traversal_str t); try discriminate.
  destruct (negb (is_known v)); try discriminate.
  rewrite Hn, Hm in H. discriminate.
Qed.

(* the writer never reaches a panicking valueStr call through a variable's value
   (a panic can only come from a marked literal key inside the traversal itself,
   which the parser never produces) *)
Lemma value_str_unmarked_some : forall o v, is_marked v = false -> exists t, value_str o v = Some t.
Proof.
  intros o v H. destruct v; try discriminate; cbn; eauto.
  - destruct b; eauto.
  - destruct l as [|[k x] [|y r]]; eauto.
Qed.

Theorem text_writer_no_panic : forall c t ts,
  traversal_str t = Some ts -> stmt_for c t <> Panic.
Proof.
  intros c t ts Ht H. unfold stmt_for in H.
  destruct (traverse_abs c (fst t) (snd t)) as [v ds].
  destruct (has_errors ds); try discriminate. rewrite Ht in H.
  destruct (negb (is_known v)) eqn:Hk; try discriminate.
  destruct (is_null v) eqn:Hn; try discriminate.
  destruct (is_marked v) eqn:Hm; try discriminate.
  destruct (value_str_unmarked_some (OVal []) v Hm) as [vs Hv]. rewrite Hv in H. discriminate.
Qed.

(* ---- what the theorem does NOT give ----------------------------------------------------------- *)
(* The statement is about the EvalContext stored in the diagnostic.  A 'for'
   expression stores the per-element child context, in which the iteration
   variables are bound to the elements of the UNMARKED collection: for a collection
   whose marks sit on the collection, the secret content is bound unmarked and the
   writer prints it.  (Go: hclsyntax/expression.go ForExpr.Value, childCtx; the same
   in ext/dynblock for iterator.value / iterator.key.) *)
Definition loop_secret : list Z := bytes_of "SECRET".
Example with_block_prints_loop_variable :
  let coll := VMark [1] (VList TStr [VStr loop_secret]) in        (* the scope's value of l *)
  let c := [mkFrame (Some [(bytes_of "l", coll)]) None] in
  (* [for v in l : v + 1]: the body's diagnostic carries this context ... *)
  let child := for_child_ctx c [] (bytes_of "v") (VNum (nz 0)) (VStr loop_secret) in
  (* ... and the writer's statement for the reference v is  v as "SECRET" *)
  stmt_for child (bytes_of "v", []) =
    Stmt [PRaw OExpr (bytes_of "v"); PLit (bytes_of " as "); PStr (OVal []) loop_secret].
Proof. vm_compute. reflexivity. Qed.

(* and that is the context EFor evaluates the body in: the secret, bound to v
   without any mark, reaches the operator as an unmarked string (the diagnostic of
   v + 1 is produced with the value "SECRET" unmarked: its conversion error is the
   run-time "a number is required") *)
Example for_binds_unmarked_elements :
  let coll := VMark [1] (VList TStr [VStr loop_secret]) in
  let c := [mkFrame (Some [(bytes_of "l", coll)]) None] in
  value c (EFor [] (bytes_of "v") (EScopeTrav (bytes_of "l") []) None
                (EBin OpEq (EScopeTrav (bytes_of "v") []) (ELit (VStr loop_secret))) None false)
  = (VMark [1] (VTuple [VBool true]), []).
Proof. vm_compute. reflexivity. Qed.
