(* Diag/LeakProofs.v — proofs for property C19 over the evaluator model
   (Eval/Impl.v) and the text model (Diag/Leak.v). *)
From Coq Require Import String Ascii QArith.
From HclV Require Import Base.Prelude Cty.Values Cty.Convert Cty.Ops Eval.Impl Diag.Leak.
Open Scope list_scope.
Open Scope Z_scope.

(* ================================================================================= *)
(* I. texts                                                                          *)
(* ================================================================================= *)

(* ---- FriendlyName depends on the name-free skeleton of the type only ------------- *)
Lemma friendly_name_skel : forall c t, friendly_name c t = friendly_name c (ty_skel t).
Proof.
  intros c t. induction t; cbn [friendly_name ty_skel]; try reflexivity.
  all: destruct t; cbn [ty_skel] in *; try rewrite IHt; try reflexivity; destruct c; reflexivity.
Qed.

Lemma ty_skel_no_names : forall t, attr_names (ty_skel t) = [].
Proof. induction t; cbn; auto. Qed.

(* two types that differ only in attribute names / attribute and element lists
   print the same: FriendlyName never prints an attribute name *)
Theorem fty_no_content : forall c t t',
  ty_skel t = ty_skel t' -> friendly_name c t = friendly_name c t'.
Proof. intros c t t' H. rewrite (friendly_name_skel c t), (friendly_name_skel c t'), H. reflexivity. Qed.

Lemma friendly_scalar : forall t, is_scalar t = true ->
  In (friendly_name false t) [bytes_of "string"; bytes_of "number"; bytes_of "bool"; bytes_of "dynamic"].
Proof. destruct t; cbn; intro H; try discriminate; auto. Qed.

(* ---- MismatchMessage: where the quoted names come from --------------------------- *)
Definition piece_origin_ok (got want : ty) (p : piece) : Prop :=
  match p with
  | PLit _ | PInt _ => True
  | PStr OWant s => In s (attr_names want)
  | PStr OGot s => In s (attr_names got)
  | PStr _ _ => False
  | PNumber _ _ => False
  | PRaw _ _ => False
  end.

Lemma in_lit : forall s p, In p (lit s) -> p = PLit (bytes_of s).
Proof. intros s p [H|[]]. auto. Qed.

Lemma origin_ok_lit : forall g w s p, In p (lit s) -> piece_origin_ok g w p.
Proof. intros g w s p H. apply in_lit in H. subst. exact I. Qed.

Lemma assoc_get_in : forall {A} k (l : list (list Z * A)) v,
  assoc_get k l = Some v -> exists k', In (k', v) l.
Proof.
  induction l as [|[k' v'] r IH]; cbn; intros v H; try discriminate.
  destruct (str_eqb k k') eqn:E.
  - inversion H; subst. exists k'. auto.
  - destruct (IH _ H) as [k'' Hin]. exists k''. auto.
Qed.

Lemma find_in : forall {A} (f : A -> bool) l x, find f l = Some x -> In x l.
Proof. intros A f l x H. apply find_some in H. tauto. Qed.

Lemma in_removelast : forall {A} (l : list A) x, In x (removelast l) -> In x l.
Proof.
  induction l as [|a l IH]; intros x H; [destruct H|].
  destruct l as [|b r]; [destruct H|].
  change (removelast (a :: b :: r)) with (a :: removelast (b :: r)) in H.
  destruct H as [H|H]; [left; auto|right; apply IH; auto].
Qed.
Lemma in_last : forall {A} (l : list A) d, l <> [] -> In (last l d) l.
Proof.
  induction l as [|a l IH]; intros d H; [congruence|].
  destruct l as [|b r]; [left; reflexivity|].
  change (last (a :: b :: r) d) with (last (b :: r) d). right. apply IH. discriminate.
Qed.

Lemma missing_text_pieces : forall names p, names <> [] -> In p (missing_text names) ->
  match p with PLit _ => True | PStr OWant n => In n names | _ => False end.
Proof.
  intros names p Hne Hin. unfold missing_text in Hin.
  assert (G : In p (lit "attributes " ++
      flat_map (fun n => [PStr OWant n; PLit (bytes_of ", ")]) (removelast names) ++
      lit "and " ++ [PStr OWant (last names [])] ++ lit " are required") ->
      match p with PLit _ => True | PStr OWant n => In n names | _ => False end).
  { intro H. repeat (apply in_app_or in H; destruct H as [H|H]).
    - apply in_lit in H; subst; exact I.
    - apply in_flat_map in H. destruct H as [n [Hn [H|[H|[]]]]]; subst; auto. apply in_removelast; auto.
    - apply in_lit in H; subst; exact I.
    - destruct H as [H|[]]; subst. apply in_last; auto.
    - apply in_lit in H; subst; exact I. }
  destruct names as [|a [|b [|c r]]]; try congruence.
  - cbn in Hin. intuition (subst; cbn; auto).
  - cbn in Hin. intuition (subst; cbn; auto).
  - apply G. exact Hin.
Qed.

Lemma origin_sub : forall g w g' w' p,
  (forall s, In s (attr_names g') -> In s (attr_names g)) ->
  (forall s, In s (attr_names w') -> In s (attr_names w)) ->
  piece_origin_ok g' w' p -> piece_origin_ok g w p.
Proof. intros g w g' w' p Hg Hw H. destruct p as [|o s| | |]; cbn in *; auto. destruct o; auto. Qed.

Lemma attr_names_obj_name : forall fs n t, In (n, t) fs -> In n (attr_names (TObj fs)).
Proof. intros fs n t H. cbn. apply in_flat_map. exists (n, t). split; auto. cbn. auto. Qed.
Lemma attr_names_obj_sub : forall fs n t s, In (n, t) fs -> In s (attr_names t) -> In s (attr_names (TObj fs)).
Proof. intros fs n t s H Hs. cbn. apply in_flat_map. exists (n, t). split; auto. cbn. auto. Qed.
Lemma attr_names_tuple_sub : forall ts t s, In t ts -> In s (attr_names t) -> In s (attr_names (TTuple ts)).
Proof. intros ts t s H Hs. cbn. apply in_flat_map. exists t. auto. Qed.

Theorem mismatch_names_origin : forall fuel got want p,
  In p (mismatch_message fuel got want) -> piece_origin_ok got want p.
Proof.
  induction fuel as [|f IH]; intros got want p Hin.
  - cbn [mismatch_message] in Hin. eapply origin_ok_lit; eauto.
  - cbn [mismatch_message] in Hin.
    assert (Hreq : forall w q, In q (req w) -> piece_origin_ok got want q).
    { intros w q [H|[H|[]]]; subst; exact I. }
    assert (Hfb : forall q, In q (if negb (likely_confusion got want)
                      then [PLit (friendly_name false want); PLit (bytes_of " required, but have "); PLit (friendly_name false got)]
                      else req want) -> piece_origin_ok got want q).
    { intros q H. destruct (negb (likely_confusion got want)).
      - destruct H as [H|[H|[H|[]]]]; subst; exact I.
      - eapply Hreq; eauto. }
    destruct got as [| | | |ge|ge|ge|gts|gfs]; destruct want as [| | | |we|we|we|wts|wfs];
      try (apply Hfb; exact Hin); try (eapply Hreq; exact Hin).
    (* collection to collection of a compatible kind *)
    1-5: cbn [negb] in Hin;
         repeat (apply in_app_or in Hin; destruct Hin as [Hin|Hin]);
         try (eapply origin_ok_lit; eauto; fail);
         apply IH in Hin; eapply origin_sub; [| |exact Hin]; cbn; auto.
    + (* tuple -> list *)
      assert (G : In p (match find (fun p : Z * ty => negb (ty_eqb (snd p) we) && negb (conv_ok (snd p) we))
                               (combine (map Z.of_nat (seq 0 (Datatypes.length gts))) gts) with
                        | Some (i, gt) => lit "element " ++ [PInt i] ++ lit ": " ++ mismatch_message f gt we
                        | None => [PLit (bytes_of "all elements must be "); PLit (friendly_name true we)] end) ->
                  piece_origin_ok (TTuple gts) (TList we) p).
      { intro H. destruct (find _ _) as [[i gt]|] eqn:Hf.
        - repeat (apply in_app_or in H; destruct H as [H|H]); try (eapply origin_ok_lit; eauto; fail).
          + destruct H as [H|[]]; subst; exact I.
          + apply IH in H. apply find_in in Hf. apply in_combine_r in Hf.
            eapply origin_sub; [| |exact H]; cbn; auto. intros s Hs. apply in_flat_map. exists gt. auto.
        - destruct H as [H|[H|[]]]; subst; exact I. }
      destruct we; try (apply G; exact Hin); eapply origin_ok_lit; eauto.
    + (* tuple -> set *)
      assert (G : In p (match find (fun p : Z * ty => negb (ty_eqb (snd p) we) && negb (conv_ok (snd p) we))
                               (combine (map Z.of_nat (seq 0 (Datatypes.length gts))) gts) with
                        | Some (i, gt) => lit "element " ++ [PInt i] ++ lit ": " ++ mismatch_message f gt we
                        | None => [PLit (bytes_of "all elements must be "); PLit (friendly_name true we)] end) ->
                  piece_origin_ok (TTuple gts) (TSet we) p).
      { intro H. destruct (find _ _) as [[i gt]|] eqn:Hf.
        - repeat (apply in_app_or in H; destruct H as [H|H]); try (eapply origin_ok_lit; eauto; fail).
          + destruct H as [H|[]]; subst; exact I.
          + apply IH in H. apply find_in in Hf. apply in_combine_r in Hf.
            eapply origin_sub; [| |exact H]; cbn; auto. intros s Hs. apply in_flat_map. exists gt. auto.
        - destruct H as [H|[H|[]]]; subst; exact I. }
      destruct we; try (apply G; exact Hin); eapply origin_ok_lit; eauto.
    + (* object -> map: the one place where a name of the GIVEN type is quoted *)
      assert (G : In p (match find (fun p : list Z * ty => negb (ty_eqb (snd p) we) && negb (conv_ok (snd p) we)) gfs with
                        | Some (n, gt) => lit "element " ++ [PStr OGot n] ++ lit ": " ++ mismatch_message f gt we
                        | None => [PLit (bytes_of "all elements must be "); PLit (friendly_name true we)] end) ->
                  piece_origin_ok (TObj gfs) (TMap we) p).
      { intro H. destruct (find _ _) as [[n gt]|] eqn:Hf.
        - apply find_in in Hf.
          repeat (apply in_app_or in H; destruct H as [H|H]); try (eapply origin_ok_lit; eauto; fail).
          + destruct H as [H|[]]; subst. cbn [piece_origin_ok]. eapply attr_names_obj_name; eauto.
          + apply IH in H. eapply origin_sub; [| |exact H]; cbn [attr_names]; auto.
            intros s Hs. eapply attr_names_obj_sub; eauto.
        - destruct H as [H|[H|[]]]; subst; exact I. }
      destruct we; try (apply G; exact Hin); eapply origin_ok_lit; eauto.
    + (* object -> object: names of the WANTED type only *)
      set (missing := filter (fun p0 : list Z * ty => match assoc_get (fst p0) gfs with Some _ => false | None => true end) wfs) in *.
      assert (Hmiss : forall n, In n (map fst missing) -> In n (attr_names (TObj wfs))).
      { intros n Hn. apply in_map_iff in Hn. destruct Hn as [[n' t'] [E Hn]]. cbn in E. subst.
        apply filter_In in Hn. destruct Hn as [Hn _]. eapply attr_names_obj_name; eauto. }
      destruct (map fst missing) as [|a rest] eqn:Hm.
      * destruct (find _ wfs) as [[n wt]|] eqn:Hf; [|eapply origin_ok_lit; eauto].
        pose proof Hf as Hf'. apply find_some in Hf'. destruct Hf' as [Hw Hc]. cbn [fst snd] in Hc.
        repeat (apply in_app_or in Hin; destruct Hin as [Hin|Hin]); try (eapply origin_ok_lit; eauto; fail).
        -- destruct Hin as [Hin|[]]; subst. cbn [piece_origin_ok]. eapply attr_names_obj_name; eauto.
        -- apply IH in Hin. destruct (assoc_get n gfs) as [gt|] eqn:Hg; try discriminate.
           destruct (assoc_get_in _ _ _ Hg) as [k' Hk].
           eapply origin_sub; [| |exact Hin]; intros s Hs.
           ++ eapply attr_names_obj_sub; eauto.
           ++ eapply attr_names_obj_sub; eauto.
      * apply missing_text_pieces in Hin; [|discriminate].
        destruct p as [|o s| | |]; try exact I; try contradiction.
        destruct o; try contradiction. cbn [piece_origin_ok]. apply Hmiss. exact Hin.
Qed.

Definition mismatch_names_origin' got want p :
  In p (mismatch_msg got want) -> piece_origin_ok got want p := mismatch_names_origin _ got want p.

(* a value whose type has no attribute names never has one quoted from it *)
Corollary mismatch_no_got_names : forall got want s,
  attr_names got = [] -> ~ In (PStr OGot s) (mismatch_msg got want).
Proof. intros got want s Hn Hin. apply mismatch_names_origin' in Hin. cbn in Hin. rewrite Hn in Hin. exact Hin. Qed.

(* with a primitive target (the only targets HCL itself chooses: number, bool, string)
   the message consists of constant text and FriendlyNames: nothing is quoted *)
Theorem mismatch_prim_no_dynamic : forall fuel got want p,
  is_prim want = true -> In p (mismatch_message fuel got want) -> piece_dynamic p = false.
Proof.
  intros fuel got want p Hp Hin. destruct fuel as [|f].
  - cbn in Hin. destruct Hin as [H|[]]; subst; reflexivity.
  - destruct want; try discriminate; destruct got; cbn [mismatch_message] in Hin;
      match type of Hin with In _ (if ?b then _ else _) => destruct b end;
      cbn in Hin; intuition (subst; reflexivity).
Qed.

(* ---- the witness: a structural target quotes a name of the given type ------------ *)
Definition secret_name : list Z := bytes_of "SECRET".
Theorem mismatch_got_name_refuted :
  exists got want, In (PStr OGot secret_name) (mismatch_msg got want).
Proof.
  exists (TObj [(secret_name, TTuple [TNum])]), (TMap TNum). vm_compute. auto.
Qed.

(* ---- texts of the conversion errors of prim-target sites --------------------------- *)
Theorem fconv_texts : forall e have t p,
  mismatch_free e = true -> In t (conv_err_texts e have) -> In p t -> piece_dynamic p = false.
Proof.
  intros e have t p Hm Ht Hp. destruct e; try discriminate; cbn [conv_err_texts] in Ht.
  - destruct Ht as [Ht|[Ht|[]]]; subst.
    + destruct Hp as [Hp|[]]; subst; reflexivity.
    + eapply mismatch_prim_no_dynamic; [|exact Hp]; reflexivity.
  - destruct Ht as [Ht|[Ht|[Ht|[Ht|[]]]]]; subst;
      try (destruct Hp as [Hp|[]]; subst; reflexivity).
    eapply mismatch_prim_no_dynamic; [|exact Hp]; reflexivity.
  - destruct Ht as [Ht|[]]; subst. eapply mismatch_prim_no_dynamic; [|exact Hp]; reflexivity.
  - repeat (destruct Ht as [Ht|Ht]; [subst; destruct Hp as [Hp|[]]; subst; reflexivity|]). destruct Ht.
Qed.

(* a structural-target error quotes names of the two types only *)
Theorem fconv_mismatch_names : forall h w have t p,
  In t (conv_err_texts (CETypeMismatch h w) have) -> In p t -> piece_origin_ok h w p.
Proof.
  intros h w have t p [Ht|[]] Hp. subst. apply mismatch_names_origin' in Hp. exact Hp.
Qed.

(* ================================================================================= *)
(* II. the evaluator                                                                 *)
(* ================================================================================= *)

Ltac bm :=
  match goal with
  | |- context [match ?x with _ => _ end] => destruct x eqn:?
  end.

(* conversions to a primitive type never fail with a structural MismatchMessage *)
Lemma convert_prim_mismatch_free : forall fuel v want e,
  is_scalar want = true -> convert fuel v want = CErr e -> mismatch_free e = true.
Proof.
  induction fuel as [|f IH]; intros v want e Hp H; [discriminate|].
  cbn [convert] in H.
  destruct v; try (destruct want; try discriminate Hp;
    repeat match type of H with
           | context [match ?x with _ => _ end] => destruct x eqn:?
           end; try discriminate; inversion H; subst; reflexivity).
  (* VMark *)
  destruct (convert f v want) eqn:E; try discriminate. inversion H; subst. eapply IH; eauto.
Qed.

Lemma conv_prim_mismatch_free : forall v want e,
  is_scalar want = true -> conv v want = CErr e -> mismatch_free e = true.
Proof. intros v want e. apply convert_prim_mismatch_free. Qed.

(* ---- lists of diagnostics ------------------------------------------------------------ *)
Definition all_ok (ds : list diag) : Prop := Forall (fun d => diag_ok d = true) ds.

Lemma all_ok_nil : all_ok []. Proof. constructor. Qed.
Lemma all_ok_app : forall a b, all_ok a -> all_ok b -> all_ok (a ++ b).
Proof. intros. apply Forall_app. auto. Qed.
Lemma all_ok_cons : forall d l, diag_ok d = true -> all_ok l -> all_ok (d :: l).
Proof. intros. constructor; auto. Qed.
Lemma all_ok_concat : forall l, Forall all_ok l -> all_ok (concat l).
Proof. induction 1; cbn; [constructor|apply all_ok_app; auto]. Qed.

Lemma fold_left_inv : forall {A B} (P : A -> Prop) (f : A -> B -> A) l a,
  P a -> (forall a b, P a -> P (f a b)) -> P (fold_left f l a).
Proof. induction l; cbn; intros; auto. Qed.

Lemma dunsupported_ok : diag_ok dunsupported = true.
Proof. reflexivity. Qed.

Lemma can_iterate_false_scalar : forall v, can_iterate v = false -> is_scalar (type_of v) = true.
Proof. unfold can_iterate. intros v. destruct (type_of v); intro H; try discriminate; reflexivity. Qed.
Lemma diag_ok_iter : forall t, is_scalar t = true -> diag_ok (derr S_IterNonIterable [FTy t]) = true.
Proof. destruct t; intro H; try discriminate; reflexivity. Qed.

(* leaf solver: the diagnostics literal of a site *)
Ltac conv_facts :=
  repeat match goal with
  | H : conv ?v ?t = CErr ?e |- _ =>
      first [ assert (mismatch_free e = true)
                by (apply (conv_prim_mismatch_free v t e);
                    [ first [ reflexivity
                            | match goal with |- is_scalar (binop_param ?o) = true => destruct o; reflexivity end
                            | match goal with |- is_scalar (unop_param ?o) = true => destruct o; reflexivity end
                            | match goal with |- is_scalar (match ?x with _ => _ end) = true => destruct x; reflexivity end ]
                    | exact H ])
            | idtac ];
      clear H
  end.

Ltac leaf_diag :=
  first [ exact dunsupported_ok
        | apply diag_ok_iter; apply can_iterate_false_scalar; assumption
        | repeat match goal with
                 | H : mismatch_free ?e = true |- _ => destruct e; try discriminate H; clear H
                 end;
          vm_compute; reflexivity ].

Ltac solve_ok :=
  cbn [snd fst];
  repeat first [ apply all_ok_nil | assumption | apply all_ok_app | apply all_ok_cons ];
  try leaf_diag.

(* ---- hcl.Index, hcl.GetAttr, traversals ------------------------------------------------ *)
Lemma index_ok : forall coll key, all_ok (snd (index coll key)).
Proof.
  intros coll key. unfold index.
  repeat bm; conv_facts; solve_ok.
Qed.

Lemma get_attr_ok : forall obj name, all_ok (snd (get_attr obj name)).
Proof.
  intros obj name. unfold get_attr.
  destruct (is_null obj); [solve_ok|].
  destruct (type_of obj) eqn:Ht; repeat bm; solve_ok.
Qed.

Lemma traverse_rel_ok : forall steps v acc, all_ok acc -> all_ok (snd (traverse_rel steps v acc)).
Proof.
  induction steps as [|s r IH]; intros v acc Hacc; cbn [traverse_rel]; [exact Hacc|].
  assert (Hs : all_ok (snd (match s with SAttr n => get_attr v n | SIndex k => index v k end))).
  { destruct s; [apply get_attr_ok|apply index_ok]. }
  destruct (match s with SAttr n => get_attr v n | SIndex k => index v k end) as [v' ds]. cbn [snd] in Hs.
  destruct (has_errors ds); [solve_ok|]. apply IH. solve_ok.
Qed.

Lemma traverse_abs_ok : forall c root steps, all_ok (snd (traverse_abs c root steps)).
Proof.
  intros. unfold traverse_abs. destruct (lookup_var c root false) as [[v|] [|]].
  1,2: apply traverse_rel_ok; apply all_ok_nil.
  all: solve_ok.
Qed.

(* ---- the evaluator: every diagnostic of every evaluation satisfies diag_ok ---------------- *)
Lemma all_ok_concat_map : forall {A} (g : A -> val * list diag) l,
  (forall x, all_ok (snd (g x))) -> all_ok (concat (map snd (map g l))).
Proof.
  intros A g l H. apply all_ok_concat. rewrite map_map. apply Forall_map. apply Forall_forall. intros x _. apply H.
Qed.

(* a sum both of whose sides end in a list of diagnostics *)
Definition sum_ok {A B} (x : (A * list diag) + (B * list diag)) : Prop :=
  match x with inl p => all_ok (snd p) | inr p => all_ok (snd p) end.

Section EvalOk.
Variable idx : val -> val -> val * list diag.
Hypothesis idx_ok : forall a b, all_ok (snd (idx a b)).

(* destruct one sub-evaluation, remembering that its diagnostics are fine *)
Ltac ev1 IH :=
  match goal with
  | |- context [eval_with idx ?f ?c ?a ?e] =>
      let H := fresh "Hev" in
      pose proof (IH c a e) as H;
      destruct (eval_with idx f c a e) as [? ?];
      cbn [snd fst] in H
  end.

Ltac okscrut x :=
  lazymatch x with
  | context [fold_left] => fail
  | context [eval_with] => fail
  | _ => idtac
  end.

Ltac bm_head :=
  match goal with
  | |- all_ok (snd (match ?x with _ => _ end)) => okscrut x; destruct x eqn:?
  | |- sum_ok (match ?x with _ => _ end) => okscrut x; destruct x eqn:?
  end.

Ltac bm' :=
  match goal with
  | |- context [match ?x with _ => _ end] => okscrut x; destruct x eqn:?
  end.

Ltac hb :=
  repeat match goal with
  | H : (match ?x with _ => _ end) = _ |- _ => destruct x eqn:?; try discriminate H
  | H : Some _ = Some _ |- _ => inversion H; subst; clear H
  | H : inl _ = inl _ |- _ => inversion H; subst; clear H
  | H : inr _ = inr _ |- _ => inversion H; subst; clear H
  | H : (_, _) = (_, _) |- _ => inversion H; subst; clear H
  end.

Ltac map_gen IH :=
  match goal with
  | |- context [map ?g ?l] =>
      lazymatch g with context [eval_with] => idtac end;
      let H := fresh "Hmap" in
      assert (H : all_ok (concat (map snd (map g l)))) by (apply all_ok_concat_map; intro; apply IH);
      generalize dependent (map g l); intros
  end.

Ltac pairs := repeat match goal with x : (_ * _)%type |- _ => destruct x end.

Ltac go IH :=
  repeat first [ progress cbn [snd fst sum_ok] | ev1 IH | map_gen IH | sum_split IH | bm_head | fold_inv IH | bm' ];
  conv_facts; solve_ok; hb; conv_facts; solve_ok
with sum_split IH :=
  match goal with
  | |- context [match ?x with inl _ => _ | inr _ => _ end] =>
      lazymatch x with
      | context [fold_left] => fail
      | context [match _ with _ => _ end] =>
          let H := fresh "Hsum" in
          assert (H : sum_ok x);
          [ go IH | destruct x; pairs; cbn [sum_ok snd fst] in H ]
      end
  end
with fold_inv IH :=
  match goal with
  | |- context [fold_left ?F ?l ?a] =>
      let H := fresh "Hfold" in
      first
      [ assert (H : all_ok (snd (fold_left F l a)));
        [ apply (fold_left_inv (fun st => all_ok (snd st)));
          [ solve_ok
          | let st := fresh "st" in let it := fresh "it" in let Hst := fresh "Hst" in
            intros st it Hst; cbn beta; pairs; cbn [snd fst] in *; go IH ]
        | destruct (fold_left F l a); pairs; cbn [snd fst] in H ]
      | assert (H : sum_ok (fold_left F l a));
        [ apply (fold_left_inv (fun st => sum_ok st));
          [ cbn [sum_ok snd fst]; solve_ok
          | let st := fresh "st" in let it := fresh "it" in let Hst := fresh "Hst" in
            intros st it Hst; cbn beta; destruct st; pairs; cbn [sum_ok snd fst] in *; go IH ]
        | destruct (fold_left F l a); pairs; cbn [sum_ok snd fst] in H ] ]
  end.

Lemma eval_with_ok : forall fuel c anon e, all_ok (snd (eval_with idx fuel c anon e)).
Proof.
  induction fuel as [|f IH]; intros c anon e; [cbn; solve_ok|].
  destruct e; cbn [eval_with].
  - (* ELit *) solve_ok.
  - (* EScopeTrav *) apply traverse_abs_ok.
  - (* ERelTrav *)
    ev1 IH. pose proof (traverse_rel_ok steps v [] all_ok_nil) as Ht.
    destruct (traverse_rel steps v []) as [r ds']. solve_ok.
  - (* ECall *) go IH.
  - (* ECond *) go IH.
  - (* EIndex *)
    ev1 IH. ev1 IH. pose proof (idx_ok v v0) as Hi. destruct (idx v v0) as [r ids]. solve_ok.
  - (* ETuple *) cbn [snd]. apply all_ok_concat_map. intro; apply IH.
  - (* EObj *) go IH.
  - (* EObjKey *) go IH.
  - (* EFor *) go IH. all: apply diag_ok_iter; apply can_iterate_false_scalar; apply negb_true_iff; assumption.
  - (* ESplat *) go IH.
  - (* EAnon *) solve_ok.
  - (* EBin *) go IH.
  - (* EUn *) go IH.
  - (* ETmpl *) go IH.
  - (* EJoin *) go IH.
  - (* EWrap *) apply IH.
  - (* EParen *) apply IH.
Qed.
End EvalOk.

Theorem eval_diags_ok : forall fuel c anon e, all_ok (snd (eval fuel c anon e)).
Proof. intros. apply eval_with_ok. apply index_ok. Qed.

Lemma diag_ok_parts : forall d, diag_ok d = true ->
  forallb frag_unmarked (d_frags d) = true /\
  ((d_sum d =? S_InconsistentCond) ||
   forallb (fun f => match f with FTy t => is_scalar t | _ => true end) (d_frags d)) = true /\
  ((d_sum d =? S_InvalidFuncArg) || (d_sum d =? S_InconsistentCond) ||
   forallb (fun f => match f with FConv e => mismatch_free e | _ => true end) (d_frags d)) = true /\
  site_frags_ok d = true.
Proof.
  intros d H. unfold diag_ok in H. repeat (apply andb_true_iff in H; destruct H as [H ?]). auto.
Qed.

Lemma eval_diag_in : forall fuel c anon e v ds d,
  eval fuel c anon e = (v, ds) -> In d ds -> diag_ok d = true.
Proof.
  intros fuel c anon e v ds d E Hin. pose proof (eval_diags_ok fuel c anon e) as H. rewrite E in H.
  cbn [snd] in H. unfold all_ok in H. rewrite Forall_forall in H. auto.
Qed.

(* 1. no site formats a string taken from a value that carries marks *)
Theorem frags_unmarked : forall fuel c anon e v ds,
  eval fuel c anon e = (v, ds) ->
  forall d s m, In d ds -> In (FStr s m) (d_frags d) -> m = [].
Proof.
  intros fuel c anon e v ds E d s m Hd Hf.
  destruct (diag_ok_parts d (eval_diag_in _ _ _ _ _ _ _ E Hd)) as [H1 _].
  rewrite forallb_forall in H1. specialize (H1 _ Hf). destruct m; [reflexivity|discriminate].
Qed.

(* 2. a formatted type is string/number/bool/dynamic, except in the conditional's
      type-mismatch description *)
Theorem fty_sites : forall fuel c anon e v ds,
  eval fuel c anon e = (v, ds) ->
  forall d t, In d ds -> In (FTy t) (d_frags d) ->
  d_sum d = S_InconsistentCond \/ is_scalar t = true.
Proof.
  intros fuel c anon e v ds E d t Hd Hf.
  destruct (diag_ok_parts d (eval_diag_in _ _ _ _ _ _ _ E Hd)) as [_ [H2 _]].
  apply orb_true_iff in H2. destruct H2 as [H2|H2].
  - left. apply Z.eqb_eq. exact H2.
  - right. rewrite forallb_forall in H2. exact (H2 _ Hf).
Qed.

(* 3. a conversion error with a structural target (the only texts that can quote
      attribute names) occurs only in "Invalid function argument" and "Inconsistent
      conditional result types" *)
Theorem fconv_sites : forall fuel c anon e v ds,
  eval fuel c anon e = (v, ds) ->
  forall d ce, In d ds -> In (FConv ce) (d_frags d) ->
  d_sum d = S_InvalidFuncArg \/ d_sum d = S_InconsistentCond \/ mismatch_free ce = true.
Proof.
  intros fuel c anon e v ds E d ce Hd Hf.
  destruct (diag_ok_parts d (eval_diag_in _ _ _ _ _ _ _ E Hd)) as [_ [_ [H3 _]]].
  apply orb_true_iff in H3. destruct H3 as [H3|H3].
  - apply orb_true_iff in H3. destruct H3 as [H3|H3]; [left|right; left]; apply Z.eqb_eq; exact H3.
  - right; right. rewrite forallb_forall in H3. exact (H3 _ Hf).
Qed.

(* 4. every diagnostic of the model has the frag shape of an audited site *)
Theorem sites_audited : forall fuel c anon e v ds,
  eval fuel c anon e = (v, ds) -> forall d, In d ds -> site_frags_ok d = true.
Proof.
  intros fuel c anon e v ds E d Hd.
  destruct (diag_ok_parts d (eval_diag_in _ _ _ _ _ _ _ E Hd)) as [_ [_ [_ H4]]]. exact H4.
Qed.

(* ================================================================================= *)
(* III. what is NOT true: witnesses                                                  *)
(* ================================================================================= *)
(* One context for the three witnesses: l is a MARKED list holding the secret, s
   is the marked secret itself; the secret occurs nowhere else, and in no
   expression below. *)
Definition nm (s : string) : list Z := bytes_of s.
Definition fn_takesmap : fn :=
  mkFn [mkParam (nm "m") (TMap TNum) false false false false] None
       (fun _ => Some TBool) (fun _ _ => OOk (VBool true)).
Definition leak_ctx : ctx :=
  [mkFrame (Some [(nm "l", VMark [1] (VList TStr [VStr secret_name]));
                  (nm "s", VMark [1] (VStr secret_name))])
           (Some [(nm "takesmap", fn_takesmap)])].

Lemma leak_ctx_secret : secret_of leak_ctx secret_name = true.
Proof. vm_compute. reflexivity. Qed.

Definition var (s : string) : expr := EScopeTrav (nm s) [].
Definition one : expr := ELit (VNum (nz 1)).
Definition two : expr := ELit (VNum (nz 2)).

(* (a)  [for w in l : {for v in [w, w] : v => 1}]
   The for expression binds w to the elements of the UNMARKED collection (the
   collection's marks are re-applied to the result only), so inside the body the
   secret is an unmarked string: the duplicate-key site quotes it, honestly tagged
   "carried no marks". *)
Definition leak_expr_dupkey : expr :=
  EFor [] (nm "w") (var "l") None
       (EFor [] (nm "v") (ETuple [var "w"; var "w"]) (Some (var "v")) one None false)
       None false.

Theorem fstr_content_leak_refuted :
  secret_of leak_ctx secret_name = true /\
  exists d, In d (snd (value leak_ctx leak_expr_dupkey)) /\
            d_sum d = S_DuplicateKey /\ In (FStr secret_name []) (d_frags d).
Proof.
  split; [exact leak_ctx_secret|].
  exists (derr S_DuplicateKey [FStr secret_name []]). vm_compute. auto.
Qed.

(* (b)  [for w in l : true ? {(w) = 1} : {b = [2]}]
   inside the loop the object {(w) = 1} is unmarked, the guard "neither result
   contains marks" passes, and the description names the attribute. *)
Definition leak_expr_cond : expr :=
  EFor [] (nm "w") (var "l") None
       (ECond (ELit (VBool true))
              (EObj [(EObjKey (EParen (var "w")) false, one)])
              (EObj [(EObjKey (var "b") false, ETuple [two])]))
       None false.

Theorem fty_attr_leak_refuted :
  exists d t f, In d (snd (value leak_ctx leak_expr_cond)) /\
                d_sum d = S_InconsistentCond /\ d_frags d = [FTy t; FTy f] /\
                In (PStr OGot secret_name) (describe t f).
Proof.
  exists (derr S_InconsistentCond [FTy (TObj [(secret_name, TNum)]); FTy (TObj [(nm "b", TTuple [TNum])])]),
         (TObj [(secret_name, TNum)]), (TObj [(nm "b", TTuple [TNum])]).
  vm_compute. auto 10.
Qed.

(* (c)  takesmap({(s) = [1]})   with takesmap(m : map of number)
   the conversion error of the argument is MismatchMessage(object, map of number),
   which quotes the attribute name of the GIVEN object: the content of s. *)
Definition leak_expr_conv : expr :=
  ECall (nm "takesmap") [EObj [(EObjKey (EParen (var "s")) false, ETuple [one])]] false.

Theorem fconv_attr_leak_refuted :
  exists d h w, In d (snd (value leak_ctx leak_expr_conv)) /\
                d_sum d = S_InvalidFuncArg /\ In (FConv (CETypeMismatch h w)) (d_frags d) /\
                In (PStr OGot secret_name) (mismatch_msg h w).
Proof.
  exists (derr S_InvalidFuncArg [FStr (nm "m") []; FConv (CETypeMismatch (TObj [(secret_name, TTuple [TNum])]) (TMap TNum))]),
         (TObj [(secret_name, TTuple [TNum])]), (TMap TNum).
  vm_compute. auto 10.
Qed.

(* the repaired sites behave: a marked key is not quoted, an unmarked one is *)
Definition dup_expr : expr :=
  EFor [] (nm "v") (ETuple [var "s"; var "s"]) (Some (var "v")) one None false.
Example dup_marked_not_quoted :
  map d_frags (snd (value leak_ctx dup_expr)) = [[]].
Proof. vm_compute. reflexivity. Qed.
Example dup_unmarked_quoted :
  map d_frags (snd (value [mkFrame (Some [(nm "s", VStr (nm "pub"))]) None] dup_expr)) = [[FStr (nm "pub") []]].
Proof. vm_compute. reflexivity. Qed.
Example cond_marked_not_described :
  map d_frags (snd (value leak_ctx
     (ECond (ELit (VBool true)) (EObj [(EObjKey (EParen (var "s")) false, one)])
            (EObj [(EObjKey (var "b") false, ETuple [two])])))) = [[]].
Proof. vm_compute. reflexivity. Qed.

(* the full statements fail *)
Theorem diags_leak_free_str_refuted : ~ diags_leak_free_str.
Proof.
  intro H. destruct fstr_content_leak_refuted as [Hs [d [Hd [_ Hf]]]].
  apply (H leak_ctx leak_expr_dupkey secret_name Hs (eq_refl _) d [] Hd Hf).
Qed.
Theorem diags_leak_free_ty_refuted : ~ diags_leak_free_ty.
Proof.
  intro H.
  refine (H leak_ctx leak_expr_cond secret_name leak_ctx_secret (eq_refl _)
            (derr S_InconsistentCond [FTy (TObj [(secret_name, TNum)]); FTy (TObj [(nm "b", TTuple [TNum])])])
            (TObj [(secret_name, TNum)]) _ _ _).
  - vm_compute. auto.
  - cbn. auto.
  - cbn. auto.
Qed.
Theorem diags_leak_free_conv_refuted : ~ diags_leak_free_conv.
Proof.
  intro H.
  refine (H leak_ctx leak_expr_conv secret_name leak_ctx_secret (eq_refl _)
            (derr S_InvalidFuncArg [FStr (nm "m") []; FConv (CETypeMismatch (TObj [(secret_name, TTuple [TNum])]) (TMap TNum))])
            (TObj [(secret_name, TTuple [TNum])]) (TMap TNum) _ _ _).
  - vm_compute. auto.
  - cbn. auto.
  - vm_compute. auto 10.
Qed.
