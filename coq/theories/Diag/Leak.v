(* Diag/Leak.v — what the text of a diagnostic is made of (property C19).
   Definitions only.

   Eval/Impl.v attaches to every diagnostic the fragments of DYNAMIC data that
   the Go site formats into Detail: FStr (a %q/%s string, with the marks the
   value carried), FTy (a type), FConv (a go-cty conversion error).  This file
   says what TEXT those fragments stand for:

     friendly_name        cty Type.FriendlyName / FriendlyNameForConstraint
                          (go-cty cty/*_type.go, unknown.go)
     mismatch_message     convert.MismatchMessage (go-cty cty/convert/mismatch_msg.go)
     conv_err_texts       the texts a conv_err of Cty/Convert.v stands for
                          (convert/public.go, conversion_primitive.go,
                           conversion_collection.go)
     describe_mismatch    describeConditionalTypeMismatch (hclsyntax/expression.go)
     site_table           the audit of every hcl.Diagnostic literal of
                          hclsyntax/expression*.go, ops.go, traversal.go against
                          the frags of Eval/Impl.v
     diag_ok              the per-diagnostic invariant proved in LeakProofs.v

   A text is a list of pieces; a piece remembers WHERE its bytes come from, so
   that "prints an attribute name of the given value's type" is a statement about
   pieces and not about bytes. *)
From Coq Require Import String Ascii.
From HclV Require Import Base.Prelude Cty.Values Cty.Convert Cty.Ops Eval.Impl.
Open Scope list_scope.
Open Scope Z_scope.

(* ---- texts ---------------------------------------------------------------------- *)
Inductive origin :=
| OExpr                 (* a name written in the expression / traversal (static) *)
| OFunc                 (* a name from the function table: function or parameter name *)
| OWant                 (* an attribute name of the WANTED type (spec / parameter type) *)
| OGot                  (* an attribute name (or map key) of the type of a VALUE *)
| OVal (m : marks).     (* the content of a value that carried marks m *)

Inductive piece :=
| PLit (s : list Z)                 (* text of the Go / go-cty source *)
| PStr (o : origin) (s : list Z)    (* a string printed with %q or %s *)
| PInt (n : Z)                      (* %d of a count or position *)
| PNumber (o : origin) (n : num)    (* the digits of a number value *)
| PRaw (o : origin) (s : list Z).   (* a string written as it is (buf.WriteString) *)

Definition text := list piece.

Fixpoint bytes_of (s : string) : list Z :=
  match s with
  | EmptyString => []
  | String a r => Z.of_nat (nat_of_ascii a) :: bytes_of r
  end.
Definition lit (s : string) : text := [PLit (bytes_of s)].

(* pieces that carry bytes which are not from the Go sources *)
Definition piece_dynamic (p : piece) : bool :=
  match p with PLit _ | PInt _ => false | _ => true end.
Definition piece_from_value (p : piece) : bool :=
  match p with
  | PStr OGot _ | PStr (OVal _) _ | PNumber OGot _ | PNumber (OVal _) _
  | PRaw OGot _ | PRaw (OVal _) _ => true
  | _ => false
  end.

(* ---- Type.FriendlyName ---------------------------------------------------------- *)
(* constraint = true: FriendlyNameForConstraint *)
Fixpoint friendly_name (constraint : bool) (t : ty) : list Z :=
  let elem (e : ty) :=
    match e, constraint with
    | TDyn, true => bytes_of "any single type"
    | _, _ => friendly_name constraint e
    end in
  match t with
  | TStr => bytes_of "string"
  | TNum => bytes_of "number"
  | TBool => bytes_of "bool"
  | TDyn => if constraint then bytes_of "any type" else bytes_of "dynamic"
  | TList e => bytes_of "list of " ++ elem e
  | TSet e => bytes_of "set of " ++ elem e
  | TMap e => bytes_of "map of " ++ elem e
  | TTuple _ => bytes_of "tuple"
  | TObj _ => bytes_of "object"
  end.

(* the part of a type FriendlyName can depend on: no attribute names, no
   attribute or element lists *)
Fixpoint ty_skel (t : ty) : ty :=
  match t with
  | TList e => TList (ty_skel e)
  | TSet e => TSet (ty_skel e)
  | TMap e => TMap (ty_skel e)
  | TTuple _ => TTuple []
  | TObj _ => TObj []
  | _ => t
  end.

(* every attribute name occurring anywhere in a type *)
Fixpoint attr_names (t : ty) : list (list Z) :=
  match t with
  | TList e | TSet e | TMap e => attr_names e
  | TTuple ts => flat_map attr_names ts
  | TObj fs => flat_map (fun p => fst p :: attr_names (snd p)) fs
  | _ => []
  end.

(* ---- convert.MismatchMessage ----------------------------------------------------- *)
Definition is_coll (t : ty) : bool := is_collection t.
Definition is_tuple (t : ty) : bool := match t with TTuple _ => true | _ => false end.
Definition is_obj (t : ty) : bool := match t with TObj _ => true | _ => false end.
Definition elem_ty (t : ty) : ty := match t with TList e | TSet e | TMap e => e | _ => TDyn end.

(* typesAreLikelyToCauseConfusion *)
Definition likely_confusion (got want : ty) : bool :=
  if negb (Bool.eqb (is_prim got) (is_prim want)) then false
  else if ty_eqb want TStr then false
  else if (ty_eqb want TBool && ty_eqb got TNum) || (ty_eqb got TBool && ty_eqb want TNum) then false
  else if is_coll got && is_coll want && negb (has_dyn (elem_ty got)) && has_dyn (elem_ty want) then false
  else if is_tuple got && is_obj want then false
  else true.

Definition req (want : ty) : text := [PLit (friendly_name true want); PLit (bytes_of " required")].

(* the "attribute(s) ... is/are required" text of mismatchMessageObjects; names non-empty *)
Definition missing_text (names : list (list Z)) : text :=
  match names with
  | [a] => lit "attribute " ++ [PStr OWant a] ++ lit " is required"
  | [a; b] => lit "attributes " ++ [PStr OWant a] ++ lit " and " ++ [PStr OWant b] ++ lit " are required"
  | _ =>
      lit "attributes " ++
      flat_map (fun n => [PStr OWant n; PLit (bytes_of ", ")]) (removelast names) ++
      lit "and " ++ [PStr OWant (last names [])] ++ lit " are required"
  end.

(* MismatchMessage(got, want).  Precondition (as after a failed convert.Convert):
   no unsafe conversion from got to want exists; under it the "safe mismatch"
   branch of mismatchMessageObjects is never the one reported and is left out.
   Where Go ranges over a map of attributes (random order) and reports the first
   offender it meets, the model reports the first in name order. *)
Fixpoint mismatch_message (fuel : nat) (got want : ty) {struct fuel} : text :=
  match fuel with
  | O => lit "?"
  | S f =>
    let mm := mismatch_message f in
    let conv_ok' (a b : ty) := conv_ok a b in
    match got, want with
    | TObj gfs, TObj wfs =>
        (* mismatchMessageObjects *)
        let missing := filter (fun p => match assoc_get (fst p) gfs with None => true | Some _ => false end) wfs in
        match map fst missing with
        | _ :: _ => missing_text (map fst missing)
        | [] =>
            match find (fun p => match assoc_get (fst p) gfs with
                                 | Some gt => negb (ty_eqb gt (snd p)) && negb (conv_ok' gt (snd p))
                                 | None => false end) wfs with
            | Some (n, wt) =>
                lit "attribute " ++ [PStr OWant n] ++ lit ": " ++
                mm (match assoc_get n gfs with Some gt => gt | None => TDyn end) wt
            | None => lit "incorrect object attributes"
            end
        end
    | TTuple _, TList TDyn => lit "all list elements must have the same type"
    | TTuple _, TSet TDyn => lit "all set elements must have the same type"
    | TObj _, TMap TDyn => lit "all map elements must have the same type"
    | TTuple gts, (TList we | TSet we) =>
        (* mismatchMessageCollectionsFromStructural, tuple *)
        let bad := find (fun p => negb (ty_eqb (snd p) we) && negb (conv_ok' (snd p) we))
                        (combine (map Z.of_nat (seq 0 (length gts))) gts) in
        match bad with
        | Some (i, gt) => lit "element " ++ [PInt i] ++ lit ": " ++ mm gt we
        | None => [PLit (bytes_of "all elements must be "); PLit (friendly_name true we)]
        end
    | TTuple _, TMap _ => req want
    | TObj gfs, TMap we =>
        (* mismatchMessageCollectionsFromStructural, object: the element name is an
           ATTRIBUTE NAME OF THE GIVEN VALUE'S TYPE *)
        let bad := find (fun p => negb (ty_eqb (snd p) we) && negb (conv_ok' (snd p) we)) gfs in
        match bad with
        | Some (n, gt) => lit "element " ++ [PStr OGot n] ++ lit ": " ++ mm gt we
        | None => [PLit (bytes_of "all elements must be "); PLit (friendly_name true we)]
        end
    | TObj _, (TList _ | TSet _) => req want
    | (TList ge | TSet ge | TMap ge), (TList we | TSet we | TMap we) =>
        (* mismatchMessageCollectionsFromCollections *)
        let kinds_ok :=
          match got, want with
          | (TList _ | TSet _), (TList _ | TSet _) => true
          | TMap _, TMap _ => true
          | _, _ => false
          end in
        if negb kinds_ok then req want
        else
        let noun := match want with
                    | TList _ => "list element type" | TSet _ => "set element type"
                    | _ => "map element type" end%string in
        lit "incorrect " ++ lit noun ++ lit ": " ++ mm ge we
    | _, _ =>
        if negb (likely_confusion got want)
        then [PLit (friendly_name false want); PLit (bytes_of " required, but have "); PLit (friendly_name false got)]
        else req want
    end
  end.

Definition mismatch_msg (got want : ty) : text :=
  mismatch_message (S (ty_size got + ty_size want)) got want.

(* ---- the texts a conv_err stands for ----------------------------------------------- *)
(* [have] is the type of the value given to convert.Convert; the constructors of
   conv_err that do not record it are ambiguous between a run-time failure
   ("a number is required": the string did not parse) and a type-level one
   (MismatchMessage(have, number) = "number required, but have tuple" ...). *)
Definition conv_err_texts (e : conv_err) (have : ty) : list text :=
  match e with
  | CENumberRequired => [lit "a number is required"; mismatch_msg have TNum]
  | CEBoolRequired =>
      [lit "a bool is required";
       lit "a bool is required; to convert from string, use lowercase ""true""";
       lit "a bool is required; to convert from string, use lowercase ""false""";
       mismatch_msg have TBool]
  | CEStringRequired => [mismatch_msg have TStr]
  | CETypeMismatch h w => [mismatch_msg h w]
  | CEOther =>
      (* run-time failures inside collection / structural conversions
         (conversion_collection.go): constant texts, or texts naming an attribute
         of the WANTED object type *)
      [lit "element types must all match for conversion to list";
       lit "element types must all match for conversion to set";
       lit "element types must all match for conversion to map";
       lit "attribute types must all match for conversion to map";
       lit "cannot find a common base type for all elements"]
  end.

(* the conversion errors whose text is a MismatchMessage with a structural target *)
Definition mismatch_free (e : conv_err) : bool :=
  match e with CETypeMismatch _ _ => false | _ => true end.

(* ---- describeConditionalTypeMismatch (hclsyntax/expression.go) ---------------------- *)
Fixpoint describe_mismatch (fuel : nat) (t f : ty) {struct fuel} : text :=
  match fuel with
  | O => lit "?"
  | S k =>
    let fallback :=
      let tn := friendly_name false t in let fn := friendly_name false f in
      if zlist_eqb tn fn
      then lit "At least one deeply-nested attribute or element is not compatible across both the 'true' and the 'false' value"
      else [PLit (bytes_of "The 'true' value is "); PLit tn; PLit (bytes_of ", but the 'false' value is "); PLit fn] in
    match t, f with
    | TObj tfs, TObj ffs =>
        (* attribute names in sorted order (TObj lists are sorted) *)
        let first_true :=
          find (fun p => match assoc_get (fst p) ffs with
                         | None => true
                         | Some ft => negb (ty_eqb (snd p) ft) end) tfs in
        match first_true with
        | Some (n, tty) =>
            match assoc_get n ffs with
            | None => lit "The 'true' value includes object attribute " ++ [PStr OGot n] ++
                      lit ", which is absent in the 'false' value"
            | Some ft => lit "Type mismatch for object attribute " ++ [PStr OGot n] ++ lit ": " ++
                         describe_mismatch k tty ft
            end
        | None =>
            match find (fun p => match assoc_get (fst p) tfs with None => true | Some _ => false end) ffs with
            | Some (n, _) => lit "The 'false' value includes object attribute " ++ [PStr OGot n] ++
                             lit ", which is absent in the 'true' value"
            | None => fallback
            end
        end
    | TTuple ts, TTuple fs =>
        if negb (length ts =? length fs)%nat
        then lit "The 'true' tuple has length " ++ [PInt (Z.of_nat (length ts))] ++
             lit ", but the 'false' tuple has length " ++ [PInt (Z.of_nat (length fs))]
        else
        match find (fun p => negb (ty_eqb (fst (snd p)) (snd (snd p))))
                   (combine (map Z.of_nat (seq 0 (length ts))) (combine ts fs)) with
        | Some (i, (a, b)) => lit "Type mismatch for tuple element " ++ [PInt i] ++ lit ": " ++ describe_mismatch k a b
        | None => fallback
        end
    | TList a, TList b | TSet a, TSet b | TMap a, TMap b =>
        if (is_obj a && is_obj b) || (is_tuple a && is_tuple b)
        then
          let noun := match t with TList _ => "list" | TSet _ => "set" | _ => "map" end%string in
          lit "Mismatched " ++ lit noun ++ lit " element types: " ++ describe_mismatch k a b
        else fallback
    | _, _ => fallback
    end
  end.

Definition describe (t f : ty) : text := describe_mismatch (S (ty_size t + ty_size f)) t f.

(* ---- rendering to bytes (for the calibration against the Go code) --------------------- *)
(* strconv.Quote for the strings the checker is run on: printable ASCII without
   quote and backslash; None otherwise (the case is skipped) *)
Definition plain_byte (c : Z) : bool := (32 <=? c) && (c <=? 126) && negb (c =? 34) && negb (c =? 92).
Definition quote_q (s : list Z) : option (list Z) :=
  if forallb plain_byte s then Some (34 :: s ++ [34]) else None.

(* big.Float.Text('g', 10) on the domain where it is plain decimal notation with
   at most 10 significant digits: integers below 10^10 and terminating decimals *)
Definition num_g10 (n : num) : option (list Z) :=
  match n with
  | NInf _ => None
  | NQ q =>
      let s := num_to_str (NQ q) in
      let digits := filter is_digit s in
      let q' := Qreduction.Qred q in
      let a := Z.abs (QArith_base.Qnum q') in
      let d := Zpos (QArith_base.Qden q') in
      if (Z.of_nat (length digits) <=? 10) && ((a =? 0) || (d * 1 <=? a * 10000)) && (a / d <? 10000000000)
      then Some s else None
  end.

Definition int_text (n : Z) : list Z := if n <? 0 then 45 :: nat_digits (- n) else nat_digits n.

Fixpoint flatten (t : text) : option (list Z) :=
  match t with
  | [] => Some []
  | p :: r =>
      let here :=
        match p with
        | PLit s => Some s
        | PStr _ s => quote_q s
        | PInt n => Some (int_text n)
        | PNumber _ n => num_g10 n
        | PRaw _ s => Some s
        end in
      match here, flatten r with
      | Some a, Some b => Some (a ++ b)
      | _, _ => None
      end
  end.

(* ---- the site audit -------------------------------------------------------------------- *)
(* One row per hcl.Diagnostic literal: summary id, Go file, the Detail format
   string, the dynamic arguments of fmt.Sprintf, the frags of Eval/Impl.v at the
   site, and whether the frags list EXACTLY the dynamic arguments.  [complete =
   false] rows are reported to the owner of Impl.v (see the notes). *)
Inductive fkind := KStr | KTy | KConv.
Definition kind_of (f : frag) : fkind :=
  match f with FStr _ _ => KStr | FTy _ => KTy | FConv _ => KConv end.
Definition fkind_eqb (a b : fkind) : bool :=
  match a, b with KStr, KStr | KTy, KTy | KConv, KConv => true | _, _ => false end.

Record site := mkSite {
  s_sum : Z; s_file : string; s_format : string; s_args : string;
  s_frags : list fkind; s_complete : bool; s_note : string }.

Open Scope string_scope.
Definition site_table : list site := [
  (* ops.go  hcl.Index *)
  mkSite S_IndexNull "ops.go" "This value is null, so it does not have any indices." "" [] true "";
  mkSite S_InvalidIndex "ops.go" "Can't use a null value as an indexing key." "" [] true "";
  mkSite S_InvalidIndex "ops.go" "The given key does not identify an element in this collection value: %s." "keyErr.Error()" [KConv] true "list/tuple/map and object branches";
  mkSite S_InvalidIndex "ops.go" "...: indexing a sequence requires a whole number, but the given index has a fractional part. | ...: a negative number is not a valid index for a sequence. | ...: the collection has no elements. | ...: the given index is greater than or equal to the length of the collection. | The given key does not identify an element in this collection value.%s" "suggestion (one of two constant texts)" [] true "which constant text is chosen depends on sign / integrality / magnitude of the (possibly marked) key: no content printed";
  mkSite S_InvalidIndex "ops.go" "Elements of a set are identified only by their value ... | This value does not have any indices." "" [] true "";
  (* ops.go  hcl.GetAttr *)
  mkSite S_GetAttrNull "ops.go" "This value is null, so it does not have any attributes." "" [] true "";
  mkSite S_UnsupportedAttr "ops.go" "This object does not have an attribute named %q." "attrName (traversal step, static)" [KStr] true "";
  mkSite S_MissingMapElem "ops.go" "This map does not have an element with the key %q." "attrName (static)" [KStr] true "";
  mkSite S_UnsupportedAttr "ops.go" "Can't access attributes on a list of objects. Did you mean to access attribute %q for a specific element of the list, or across all elements of the list?" "attrName (static)" [KStr] true "";
  mkSite S_UnsupportedAttr "ops.go" "Can't access attributes on a list of objects. ... | Can't access attributes on a set of objects. ... | This value does not have any attributes." "" [] true "";
  mkSite S_UnsupportedAttr "ops.go" "Can't access attributes on a primitive-typed value (%s)." "ty.FriendlyName()" [KTy] true "type is string/number/bool";
  (* traversal.go *)
  mkSite S_VarsNotAllowed "traversal.go" "Variables may not be used here." "" [] true "";
  mkSite S_UnknownVar "traversal.go" "There is no variable named %q.%s" "name, suggestion = "" Did you mean %q?"" of a variable NAME of the scope" [KStr] false "the suggested variable name (a key of EvalContext.Variables, never a value) is not in the frags";
  (* hclsyntax/expression.go  FunctionCallExpr *)
  mkSite S_FuncsNotAllowed "expression.go" "Functions may not be called here." "" [] true "";
  mkSite S_UnknownFunc "expression.go" "There is no function named %q.%s | There are no functions in namespace %q. | There is no function named %q in namespace %s.%s" "e.Name (or its namespace / local part), suggestion = a function NAME of the context" [KStr] false "the suggested function name is not in the frags; the three variants are one frag (pieces of e.Name)";
  mkSite S_InvalidExpand "expression.go" "The expanding argument (indicated by ...) must not be null. (x2) | ... must be of a tuple, list, or set type." "" [] true "";
  mkSite S_NotEnoughArgs "expression.go" "Function %q expects%s %d argument(s). Missing value for %q." "e.Name, qual (constant), len(params), missing.Name" [KStr] false "the name of the first missing parameter (function table) and the count are not in the frags";
  mkSite S_TooManyArgs "expression.go" "Function %q expects only %d argument(s)." "e.Name, len(params)" [KStr] false "the count (function table) is not in the frags";
  mkSite S_InvalidFuncArg "expression.go" "Invalid value for %q parameter: %s." "param.Name, err of convert.Convert(val, param.Type)" [KStr; KConv] true "param.Type is application-chosen: the only site besides the conditional where the conversion target can be structural";
  mkSite S_InvalidFuncArg "expression.go" "Invalid value for %q parameter: %s." "param.Name, err (function.ArgError from f.Call: go-cty's ""argument must not be null"" / conformance error, or the function's own text)" [] false "neither the parameter name nor the error text is in the frags (model: CallArgErr)";
  mkSite S_ErrorInCall "expression.go" "Call to function %q failed: %s." "e.Name, err (from the function's Type or Impl: application text)" [KStr] false "the error text of the function is not in the frags (outside the guarantee, but it is dynamic data)";
  (* ConditionalExpr *)
  mkSite S_InconsistentCond "expression.go" "The true and false result expressions must have consistent types. %s." "describeConditionalTypeMismatch(trueTy, falseTy) when neither result ContainsMarked, else a constant" [KTy; KTy] false "the two FTy are the right inputs, but the text is NOT FriendlyName: it quotes object attribute names (%q), tuple lengths and positions (%d); see describe_mismatch";
  mkSite S_InconsistentCond "expression.go" "The true and false result expressions must have consistent types. The two results have different types." "" [] true "marked results";
  mkSite S_NullCondition "expression.go" "The condition value is null. Conditions must either be true or false." "" [] true "";
  mkSite S_IncorrectCondType "expression.go" "The condition expression must be of type bool." "" [] true "the conversion error is dropped";
  mkSite S_InconsistentCond "expression.go" "The true result value has the wrong type: %s. | The false result value has the wrong type: %s." "err.Error() of the unsafe conversion to the unified type" [KConv] true "";
  (* ObjectConsExpr / ObjectConsKeyExpr *)
  mkSite S_NullKey "expression.go" "Can't use a null value as a key." "" [] true "";
  mkSite S_IncorrectKeyType "expression.go" "Can't use this value as a key: %s." "err.Error() (to string)" [KConv] true "";
  mkSite S_AmbiguousKey "expression.go" "If this expression is intended to be a reference, wrap it in parentheses. ..." "" [] true "";
  (* ForExpr *)
  mkSite S_IterNull "expression.go" "A null value cannot be used as the collection in a 'for' expression." "" [] true "";
  mkSite S_IterNonIterable "expression.go" "A value of type %s cannot be used as the collection in a 'for' expression." "collVal.Type().FriendlyName()" [KTy] true "";
  mkSite S_ConditionIsNull "expression.go" "The value of the 'if' clause must not be null." "" [] true "";
  mkSite S_InvalidForCond "expression.go" "The 'if' clause value is invalid: %s." "err.Error() (to bool); 3 sites" [KConv] true "";
  mkSite S_InvalidForCond "expression.go" "The value of the 'if' clause must not be null." "" [] true "2 sites";
  mkSite S_InvalidObjKey "expression.go" "Key expression in 'for' expression must not produce a null value." "" [] true "";
  mkSite S_InvalidObjKey "expression.go" "The key expression produced an invalid result: %s." "err.Error() (to string)" [KConv] true "";
  mkSite S_DuplicateKey "expression.go" "Two different items produced %s in this 'for' expression. ..." "keyDesc = ""the key %q"" of k when no mark was collected so far, else the constant ""the same key""" [KStr] true "";
  mkSite S_DuplicateKey "expression.go" "Two different items produced the same key in this 'for' expression. ..." "" [] true "";
  (* SplatExpr *)
  mkSite S_SplatNull "expression.go" "Splat expressions (with the * symbol) cannot be applied to null sequences." "" [] true "";
  mkSite S_NestedSplat "expression.go" "The second level of splat expression produced elements of different types, ..." "" [] true "";
  (* expression_ops.go *)
  mkSite S_InvalidOperand "expression_ops.go" "Unsuitable value for left operand: %s. | ... right operand: %s. | ... unary operand: %s." "err (to number / bool)" [KConv] true "";
  mkSite S_OperationFailed "expression_ops.go" "Error during operation: %s." "err of the go-cty stdlib operator implementation (constant texts: ""can't compute sum of opposing infinities"", ...)" [] false "the operator's error text is not in the frags (constant texts of go-cty function/stdlib/number.go)";
  (* expression_template.go *)
  mkSite S_InvalidTemplateInterp "expression_template.go" "The expression result is null. Cannot include a null value in a string template. | An iteration result is null. ..." "" [] true "";
  mkSite S_InvalidTemplateInterp "expression_template.go" "Cannot include the given value in a string template: %s. | Cannot include one of the interpolation results into the string template: %s." "err.Error() (to string)" [KConv] true "";
  (* not a Go diagnostic *)
  mkSite S_Unsupported "" "" "" [] true "model limitation marker"
].
Open Scope list_scope.
Open Scope Z_scope.

(* a diagnostic of the model has the frag shape of one of the audited sites of its summary *)
Definition site_frags_ok (d : diag) : bool :=
  existsb (fun s => (s_sum s =? d_sum d) && list_eqb fkind_eqb (s_frags s) (map kind_of (d_frags d))) site_table.

(* ---- the per-diagnostic invariant ----------------------------------------------------------- *)
Definition frag_unmarked (f : frag) : bool :=
  match f with FStr _ [] => true | FStr _ (_ :: _) => false | _ => true end.

Definition is_scalar (t : ty) : bool := match t with TStr | TNum | TBool | TDyn => true | _ => false end.

Definition diag_ok (d : diag) : bool :=
  (* 1. no string formatted from a value that carried marks *)
  forallb frag_unmarked (d_frags d) &&
  (* 2. outside the conditional's mismatch description a formatted type is scalar *)
  ((d_sum d =? S_InconsistentCond) ||
   forallb (fun f => match f with FTy t => is_scalar t | _ => true end) (d_frags d)) &&
  (* 3. a MismatchMessage with a structural target only at the two sites whose
        conversion target is not fixed by HCL *)
  ((d_sum d =? S_InvalidFuncArg) || (d_sum d =? S_InconsistentCond) ||
   forallb (fun f => match f with FConv e => mismatch_free e | _ => true end) (d_frags d)) &&
  (* 4. the shape is that of an audited site *)
  site_frags_ok d.

(* ---- secrecy: where a string occurs in a value ------------------------------------------------ *)
(* s occurs in v OUTSIDE every mark (as a string, or as a map key / attribute name) *)
Fixpoint exposed_in (s : list Z) (v : val) : bool :=
  match v with
  | VStr x => str_eqb s x
  | VList _ l | VSet _ l | VTuple l => existsb (exposed_in s) l
  | VMap _ l | VObj l => existsb (fun p => str_eqb s (fst p) || exposed_in s (snd p)) l
  | VMark _ _ => false
  | _ => false
  end.
(* s occurs in v at all *)
Fixpoint occurs_in (s : list Z) (v : val) : bool :=
  match v with
  | VStr x => str_eqb s x
  | VList _ l | VSet _ l | VTuple l => existsb (occurs_in s) l
  | VMap _ l | VObj l => existsb (fun p => str_eqb s (fst p) || occurs_in s (snd p)) l
  | VMark _ v' => occurs_in s v'
  | _ => false
  end.
Definition frame_vals (f : frame) : list val :=
  match fvars f with Some vs => map snd vs | None => [] end.
(* s is a secret of the context: it occurs, and only under marks *)
Definition secret_of (c : ctx) (s : list Z) : bool :=
  existsb (fun f => existsb (occurs_in s) (frame_vals f)) c &&
  negb (existsb (fun f => existsb (exposed_in s) (frame_vals f)) c).

(* does the expression text mention the string s (as a literal, a name or a key)? *)
Definition step_mentions (s : list Z) (st : step) : bool :=
  match st with SAttr n => str_eqb s n | SIndex k => occurs_in s k end.
Fixpoint mentions (fuel : nat) (s : list Z) (e : expr) {struct fuel} : bool :=
  match fuel with
  | O => true
  | S f =>
    let go := mentions f s in
    match e with
    | ELit v => occurs_in s v
    | EScopeTrav root steps => str_eqb s root || existsb (step_mentions s) steps
    | ERelTrav src steps => go src || existsb (step_mentions s) steps
    | ECall name args _ => str_eqb s name || existsb go args
    | ECond c t f' => go c || go t || go f'
    | EIndex a b => go a || go b
    | ETuple es => existsb go es
    | EObj items => existsb (fun it => go (fst it) || go (snd it)) items
    | EObjKey w _ => go w
    | EFor kv vv coll key vl cond _ =>
        str_eqb s kv || str_eqb s vv || go coll || go vl ||
        match key with Some k => go k | None => false end ||
        match cond with Some k => go k | None => false end
    | ESplat a b => go a || go b
    | EAnon => false
    | EBin _ a b => go a || go b
    | EUn _ a => go a
    | ETmpl ps => existsb go ps
    | EJoin a | EWrap a | EParen a => go a
    end
  end.
Definition expr_mentions (s : list Z) (e : expr) : bool := mentions (S (expr_size e)) s e.

(* ---- the full statements (refuted in LeakProofs.v) --------------------------------------------- *)
(* "no diagnostic of an evaluation formats a string / names an attribute that is a
   secret of the scope and is not written in the expression" *)
Definition diags_leak_free_str : Prop :=
  forall c e s, secret_of c s = true -> expr_mentions s e = false ->
  forall d m, In d (snd (value c e)) -> ~ In (FStr s m) (d_frags d).
Definition diags_leak_free_ty : Prop :=
  forall c e s, secret_of c s = true -> expr_mentions s e = false ->
  forall d t, In d (snd (value c e)) -> In (FTy t) (d_frags d) -> ~ In s (attr_names t).
Definition diags_leak_free_conv : Prop :=
  forall c e s, secret_of c s = true -> expr_mentions s e = false ->
  forall d h w, In d (snd (value c e)) -> In (FConv (CETypeMismatch h w)) (d_frags d) ->
  ~ In (PStr OGot s) (mismatch_message (S (ty_size h + ty_size w)) h w).
