(* Base/Prelude.v — shared definitions: bytes as Z, hex decoding for case files,
   small list helpers. Definitions only + a few basic lemmas. *)
From Coq Require Export List ZArith Bool Lia.
From Coq Require Import String Ascii.
Export ListNotations.
Open Scope Z_scope.
Open Scope list_scope.

(* Bytes, code points, token type codes, counts: all Z. *)
Notation byte := Z (only parsing).

Definition hexval (c : ascii) : Z :=
  let n := Z.of_nat (nat_of_ascii c) in
  if (48 <=? n) && (n <=? 57) then n - 48
  else if (97 <=? n) && (n <=? 102) then n - 87
  else if (65 <=? n) && (n <=? 70) then n - 55
  else 0.

(* "6869" -> [104; 105] *)
Fixpoint unhex (s : string) : list Z :=
  match s with
  | String a (String b r) => (16 * hexval a + hexval b) :: unhex r
  | _ => []
  end.

Fixpoint list_eqb {A} (eqb : A -> A -> bool) (l1 l2 : list A) : bool :=
  match l1, l2 with
  | [], [] => true
  | a :: r1, b :: r2 => eqb a b && list_eqb eqb r1 r2
  | _, _ => false
  end.

Definition zlist_eqb := list_eqb Z.eqb.

Lemma list_eqb_eq {A} (eqb : A -> A -> bool)
  (H : forall a b, eqb a b = true <-> a = b) :
  forall l1 l2, list_eqb eqb l1 l2 = true <-> l1 = l2.
Proof.
  induction l1 as [|a r1 IH]; destruct l2 as [|b r2]; simpl; split; intro E;
    try reflexivity; try discriminate.
  - apply andb_true_iff in E as [E1 E2]. apply H in E1. apply IH in E2. subst. reflexivity.
  - inversion E; subst. apply andb_true_iff. split; [apply H|apply IH]; reflexivity.
Qed.

Lemma zlist_eqb_eq l1 l2 : zlist_eqb l1 l2 = true <-> l1 = l2.
Proof. apply list_eqb_eq. intros a b. apply Z.eqb_eq. Qed.

Definition sumZ (l : list Z) : Z := fold_right Z.add 0 l.
Definition maxZ0 (l : list Z) : Z := fold_right Z.max 0 l.

Fixpoint repeatZ {A} (x : A) (n : nat) : list A :=
  match n with O => [] | S k => x :: repeatZ x k end.

(* indices (0-based) of the elements of l for which f is false *)
Fixpoint failing_from {A} (f : A -> bool) (i : Z) (l : list A) : list Z :=
  match l with
  | [] => []
  | x :: r => if f x then failing_from f (i + 1) r else i :: failing_from f (i + 1) r
  end.
Definition failing {A} (f : A -> bool) (l : list A) : list Z := failing_from f 0 l.
