(* Base/Utf8.v — Unicode scalar values and their UTF-8 encoding (Go: utf8.RuneLen,
   utf8.EncodeRune as used by hclwrite.appendRune and ParseStringLiteralToken),
   lower-case fixed-width hexadecimal (fmt "%04x" / "%08x") and its inverse
   (strconv.ParseUint base 16). Definitions + basic byte-range lemmas. *)
From HclV Require Import Base.Prelude.

(* utf8.RuneLen r <> -1 *)
Definition valid_scalar_b (r : Z) : bool :=
  ((0 <=? r) && (r <? 55296)) || ((57344 <=? r) && (r <=? 1114111)).
Definition valid_scalar (r : Z) : Prop :=
  (0 <= r < 55296) \/ (57344 <= r <= 1114111).

Lemma valid_scalar_b_spec r : valid_scalar_b r = true <-> valid_scalar r.
Proof. unfold valid_scalar_b, valid_scalar. lia. Qed.

(* utf8.EncodeRune for a valid scalar value *)
Definition utf8_enc (r : Z) : list Z :=
  if r <? 128 then [r]
  else if r <? 2048 then [192 + r / 64; 128 + r mod 64]
  else if r <? 65536 then [224 + r / 4096; 128 + (r / 64) mod 64; 128 + r mod 64]
  else [240 + r / 262144; 128 + (r / 4096) mod 64; 128 + (r / 64) mod 64; 128 + r mod 64].

Definition utf8 (s : list Z) : list Z := flat_map utf8_enc s.

Definition is_cont (b : Z) : bool := (128 <=? b) && (b <=? 191).

(* shape of an encoding: what the scanners' AnyUTF8 pattern looks at *)
Inductive utf8_shape : list Z -> Prop :=
| shape1 b : 0 <= b < 128 -> utf8_shape [b]
| shape2 l c1 : 192 <= l <= 223 -> is_cont c1 = true -> utf8_shape [l; c1]
| shape3 l c1 c2 : 224 <= l <= 239 -> is_cont c1 = true -> is_cont c2 = true -> utf8_shape [l; c1; c2]
| shape4 l c1 c2 c3 : 240 <= l <= 247 -> is_cont c1 = true -> is_cont c2 = true -> is_cont c3 = true ->
    utf8_shape [l; c1; c2; c3].

Lemma cont_mod x : is_cont (128 + x mod 64) = true.
Proof. unfold is_cont. pose proof (Z.mod_pos_bound x 64). lia. Qed.

Lemma utf8_enc_shape r : 0 <= r <= 1114111 -> utf8_shape (utf8_enc r).
Proof.
  intros H. unfold utf8_enc.
  destruct (Z.ltb_spec r 128); [constructor; lia|].
  destruct (Z.ltb_spec r 2048).
  { constructor; [|apply cont_mod].
    assert (2 <= r / 64) by (apply Z.div_le_lower_bound; lia).
    assert (r / 64 < 32) by (apply Z.div_lt_upper_bound; lia). lia. }
  destruct (Z.ltb_spec r 65536).
  { constructor; try apply cont_mod.
    assert (0 <= r / 4096) by (apply Z.div_pos; lia).
    assert (r / 4096 < 16) by (apply Z.div_lt_upper_bound; lia). lia. }
  constructor; try apply cont_mod.
  assert (0 <= r / 262144) by (apply Z.div_pos; lia).
  assert (r / 262144 < 8) by (apply Z.div_lt_upper_bound; lia). lia.
Qed.

(* every byte of a multi-byte encoding is >= 128; the single byte is r itself *)
Lemma utf8_enc_ascii r : r < 128 -> utf8_enc r = [r].
Proof. intros. unfold utf8_enc. destruct (Z.ltb_spec r 128); [reflexivity|lia]. Qed.

Lemma utf8_enc_high r b : 128 <= r <= 1114111 -> In b (utf8_enc r) -> 128 <= b.
Proof.
  intros H Hin. unfold utf8_enc in Hin.
  assert (0 <= r / 64) by (apply Z.div_pos; lia).
  assert (0 <= r / 4096) by (apply Z.div_pos; lia).
  assert (0 <= r / 262144) by (apply Z.div_pos; lia).
  pose proof (Z.mod_pos_bound r 64). pose proof (Z.mod_pos_bound (r / 64) 64).
  pose proof (Z.mod_pos_bound (r / 4096) 64).
  destruct (Z.ltb_spec r 128); [lia|].
  destruct (Z.ltb_spec r 2048); [|destruct (Z.ltb_spec r 65536)]; cbn [In] in Hin;
    repeat (destruct Hin as [<-|Hin]; [lia|]); contradiction.
Qed.

(* ---- fixed-width lower-case hexadecimal -------------------------------------- *)
Definition hex_digit (d : Z) : Z := if d <? 10 then 48 + d else 87 + d.

Definition hex4 (r : Z) : list Z :=
  [hex_digit ((r / 4096) mod 16); hex_digit ((r / 256) mod 16);
   hex_digit ((r / 16) mod 16); hex_digit (r mod 16)].
Definition hex8 (r : Z) : list Z :=
  [hex_digit ((r / 268435456) mod 16); hex_digit ((r / 16777216) mod 16);
   hex_digit ((r / 1048576) mod 16); hex_digit ((r / 65536) mod 16)] ++ hex4 r.

Definition is_hex (b : Z) : bool :=
  ((48 <=? b) && (b <=? 57)) || ((97 <=? b) && (b <=? 102)) || ((65 <=? b) && (b <=? 70)).

Definition hex_val (b : Z) : option Z :=
  if (48 <=? b) && (b <=? 57) then Some (b - 48)
  else if (97 <=? b) && (b <=? 102) then Some (b - 87)
  else if (65 <=? b) && (b <=? 70) then Some (b - 55)
  else None.

(* strconv.ParseUint(s, 16, 32) on a digit string; None = syntax error *)
Fixpoint parse_hex_from (acc : Z) (bs : list Z) : option Z :=
  match bs with
  | [] => Some acc
  | b :: r => match hex_val b with
              | Some d => parse_hex_from (16 * acc + d) r
              | None => None
              end
  end.
Definition parse_hex (bs : list Z) : option Z :=
  match bs with [] => None | _ => parse_hex_from 0 bs end.

Lemma hex_digit_is_hex d : 0 <= d < 16 -> is_hex (hex_digit d) = true.
Proof. intros. unfold is_hex, hex_digit. destruct (Z.ltb_spec d 10); lia. Qed.

Lemma hex_digit_val d : 0 <= d < 16 -> hex_val (hex_digit d) = Some d.
Proof.
  intros. unfold hex_val, hex_digit. destruct (Z.ltb_spec d 10).
  - replace ((48 <=? 48 + d) && (48 + d <=? 57)) with true by lia. f_equal. lia.
  - replace ((48 <=? 87 + d) && (87 + d <=? 57)) with false by lia.
    replace ((97 <=? 87 + d) && (87 + d <=? 102)) with true by lia. f_equal. lia.
Qed.

Lemma divdiv r a b c : 0 < a -> 0 < b -> c = a * b -> r / a / b = r / c.
Proof. intros. subst. apply Z.div_div; lia. Qed.

Lemma hex4_value r : 0 <= r < 65536 -> parse_hex (hex4 r) = Some r.
Proof.
  intros H. unfold parse_hex, hex4. cbn [parse_hex_from].
  rewrite !hex_digit_val by (apply Z.mod_pos_bound; lia). f_equal.
  rewrite <- (divdiv r 16 16 256), <- (divdiv r 256 16 4096), <- (divdiv r 16 16 256) by lia.
  assert (r / 16 / 16 / 16 < 16).
  { rewrite !(divdiv r 16 16 256), (divdiv r 256 16 4096) by lia. apply Z.div_lt_upper_bound; lia. }
  assert (0 <= r / 16 / 16 / 16) by (repeat apply Z.div_pos; lia).
  rewrite (Z.mod_small (r / 16 / 16 / 16)) by lia.
  pose proof (Z.div_mod r 16 ltac:(lia)). pose proof (Z.div_mod (r / 16) 16 ltac:(lia)).
  pose proof (Z.div_mod (r / 16 / 16) 16 ltac:(lia)).
  lia.
Qed.

Lemma hex8_value r : 0 <= r < 4294967296 -> parse_hex (hex8 r) = Some r.
Proof.
  intros H. unfold parse_hex, hex8, hex4. cbn [parse_hex_from app].
  rewrite !hex_digit_val by (apply Z.mod_pos_bound; lia). f_equal.
  set (q1 := r / 16). set (q2 := q1 / 16). set (q3 := q2 / 16). set (q4 := q3 / 16).
  set (q5 := q4 / 16). set (q6 := q5 / 16). set (q7 := q6 / 16).
  assert (E2 : r / 256 = q2) by (unfold q2, q1; symmetry; apply divdiv; lia).
  assert (E3 : r / 4096 = q3) by (unfold q3; rewrite <- E2; symmetry; apply divdiv; lia).
  assert (E4 : r / 65536 = q4) by (unfold q4; rewrite <- E3; symmetry; apply divdiv; lia).
  assert (E5 : r / 1048576 = q5) by (unfold q5; rewrite <- E4; symmetry; apply divdiv; lia).
  assert (E6 : r / 16777216 = q6) by (unfold q6; rewrite <- E5; symmetry; apply divdiv; lia).
  assert (E7 : r / 268435456 = q7) by (unfold q7; rewrite <- E6; symmetry; apply divdiv; lia).
  rewrite E2, E3, E4, E5, E6, E7.
  assert (q7 < 16) by (rewrite <- E7; apply Z.div_lt_upper_bound; lia).
  assert (0 <= q7) by (rewrite <- E7; apply Z.div_pos; lia).
  rewrite (Z.mod_small q7) by lia.
  pose proof (Z.div_mod r 16 ltac:(lia)). pose proof (Z.div_mod q1 16 ltac:(lia)).
  pose proof (Z.div_mod q2 16 ltac:(lia)). pose proof (Z.div_mod q3 16 ltac:(lia)).
  pose proof (Z.div_mod q4 16 ltac:(lia)). pose proof (Z.div_mod q5 16 ltac:(lia)).
  pose proof (Z.div_mod q6 16 ltac:(lia)).
  fold q1 in H2. fold q2 in H3. fold q3 in H4. fold q4 in H5. fold q5 in H6. fold q6 in H7. fold q7 in H8.
  lia.
Qed.
