(* Gohcl/Model.v — gohcl: struct <-> configuration (C16).  Definitions only.

   Go code mirrored (pinned tree /repo):
     gohcl/schema.go   getFieldTags, ImpliedBodySchema
     gohcl/encode.go   EncodeIntoBody, EncodeAsBlock, populateBody
     gohcl/decode.go   DecodeBody, decodeBodyToValue, decodeBodyToStruct,
                       decodeBodyToMap, decodeBlockToValue, DecodeExpression
     hclsyntax/structure.go  Body.Content / PartialContent / JustAttributes
                       (the native instance of the hcl.Body interface)
   Go's reflect and go-cty's gocty/convert packages are REPRESENTED by the
   universe below (modelled, not verified; calibrated by the correspondence
   runs of harness/cmd/c16).

   Strings are byte lists, Go ints are Z (range checked where Go checks it). *)
From Coq Require Import QArith.
From HclV Require Import Base.Prelude Cty.Values Cty.Convert.
Open Scope Z_scope.

(* ---- the universe of struct types ------------------------------------------------ *)
(* tag kinds of `hcl:"name,kind"` (schema.go getFieldTags); `hcl:"name"` = attr *)
Inductive fkind := KAttr | KOptional | KBlock | KLabel | KRemain.

(* Go field types.  A struct is the list of its tagged fields, in index order. *)
Inductive fty :=
| FString | FInt | FBool
| FPtr (t : fty)                 (* *T *)
| FSlice (t : fty)               (* []T *)
| FMap (t : fty)                 (* map[string]T *)
| FStruct (s : list (list Z * fkind * fty)).

Definition field : Type := (list Z * fkind * fty)%type.   (* tag_name, kind, type *)
Definition sschema : Type := list field.
Definition f_name (f : field) : list Z := fst (fst f).
Definition f_kind (f : field) : fkind := snd (fst f).
Definition f_ty (f : field) : fty := snd f.

(* the block field types of the brief, as abbreviations *)
Definition FSliceStruct (s : sschema) : fty := FSlice (FStruct s).
Definition FPtrStruct (s : sschema) : fty := FPtr (FStruct s).
Definition FSlicePtrStruct (s : sschema) : fty := FSlice (FPtr (FStruct s)).

(* nested induction principle *)
Section FtyInd.
  Variable P : fty -> Prop.
  Hypothesis HStr : P FString.
  Hypothesis HInt : P FInt.
  Hypothesis HBool : P FBool.
  Hypothesis HPtr : forall t, P t -> P (FPtr t).
  Hypothesis HSlice : forall t, P t -> P (FSlice t).
  Hypothesis HMap : forall t, P t -> P (FMap t).
  Hypothesis HStruct : forall s, Forall (fun f : field => P (snd f)) s -> P (FStruct s).
  Fixpoint fty_ind' (t : fty) : P t :=
    match t with
    | FString => HStr | FInt => HInt | FBool => HBool
    | FPtr t' => HPtr t' (fty_ind' t')
    | FSlice t' => HSlice t' (fty_ind' t')
    | FMap t' => HMap t' (fty_ind' t')
    | FStruct s =>
        HStruct s ((fix go (l : list field) : Forall (fun f : field => P (snd f)) l :=
                      match l with
                      | [] => Forall_nil _
                      | x :: r => Forall_cons x (fty_ind' (snd x)) (go r)
                      end) s)
    end.
End FtyInd.

(* Go values of those types *)
Inductive sval :=
| SStr (s : list Z)
| SInt (n : Z)
| SBool (b : bool)
| SPtr (o : option sval)                       (* nil | &x *)
| SSlice (o : option (list sval))              (* nil | elements *)
| SMap (o : option (list (list Z * sval)))     (* nil | entries sorted by key, keys unique *)
| SStruct (fs : list sval).                    (* one value per field, in field order *)

Definition in_int64 (n : Z) : bool :=
  (-9223372036854775808 <=? n) && (n <=? 9223372036854775807).

Fixpoint keys_sorted (ks : list (list Z)) : bool :=
  match ks with
  | a :: (b :: _) as r => str_ltb a b && keys_sorted r
  | _ => true
  end.

(* v is a value of Go type t *)
Fixpoint vtyped (t : fty) (v : sval) {struct t} : bool :=
  match t, v with
  | FString, SStr _ => true
  | FInt, SInt n => in_int64 n
  | FBool, SBool _ => true
  | FPtr _, SPtr None => true
  | FPtr t', SPtr (Some x) => vtyped t' x
  | FSlice _, SSlice None => true
  | FSlice t', SSlice (Some l) => forallb (vtyped t') l
  | FMap _, SMap None => true
  | FMap t', SMap (Some kvs) => keys_sorted (map fst kvs) && forallb (fun p => vtyped t' (snd p)) kvs
  | FStruct s, SStruct fs =>
      (fix go (s : sschema) (fs : list sval) : bool :=
         match s, fs with
         | [], [] => true
         | f :: s', x :: fs' => vtyped (snd f) x && go s' fs'
         | _, _ => false
         end) s fs
  | _, _ => false
  end.

(* reflect.Zero *)
Fixpoint zero (t : fty) : sval :=
  match t with
  | FString => SStr [] | FInt => SInt 0 | FBool => SBool false
  | FPtr _ => SPtr None | FSlice _ => SSlice None | FMap _ => SMap None
  | FStruct s => SStruct (map (fun f : field => zero (snd f)) s)
  end.

(* ---- tags (schema.go getFieldTags) ---------------------------------------------------- *)
Definition is_attr_kind (k : fkind) : bool := match k with KAttr | KOptional => true | _ => false end.
Definition is_block_kind (k : fkind) : bool := match k with KBlock => true | _ => false end.
Definition is_label_kind (k : fkind) : bool := match k with KLabel => true | _ => false end.
Definition is_remain_kind (k : fkind) : bool := match k with KRemain => true | _ => false end.

Definition count_remain (s : sschema) : nat := length (filter (fun f => is_remain_kind (f_kind f)) s).
Definition has_remain (s : sschema) : bool := existsb (fun f => is_remain_kind (f_kind f)) s.
Definition label_fields (s : sschema) : list field := filter (fun f => is_label_kind (f_kind f)) s.
Definition label_count (s : sschema) : nat := length (label_fields s).
(* names in tags.Attributes and tags.Blocks *)
Definition item_names (s : sschema) : list (list Z) :=
  map f_name (filter (fun f => is_attr_kind (f_kind f) || is_block_kind (f_kind f)) s).

Definition struct_fields (t : fty) : sschema := match t with FStruct s => s | _ => [] end.
Definition is_ptr (t : fty) : bool := match t with FPtr _ => true | _ => false end.

(* the four shapes a `block` field may have (ImpliedBodySchema: Slice?, Ptr?, Struct) *)
Inductive bshape := BOne | BPtr | BSlice | BSlicePtr.
Definition block_shape (t : fty) : option (bshape * sschema) :=
  match t with
  | FStruct s => Some (BOne, s)
  | FPtr (FStruct s) => Some (BPtr, s)
  | FSlice (FStruct s) => Some (BSlice, s)
  | FSlice (FPtr (FStruct s)) => Some (BSlicePtr, s)
  | _ => None
  end.

(* gocty.ImpliedType succeeds: no struct inside (our structs carry no `cty` tags, so
   impliedStructType fails: "no cty.Type for T (no cty field tags)") *)
Fixpoint attr_ty (t : fty) : bool :=
  match t with
  | FString | FInt | FBool => true
  | FPtr t' | FSlice t' | FMap t' => attr_ty t'
  | FStruct _ => false
  end.

(* gocty.ImpliedType (type_implied.go); TDyn stands for "error" on structs, which
   [attr_ty] rules out before this is used *)
Fixpoint implied (t : fty) : ty :=
  match t with
  | FString => TStr | FInt => TNum | FBool => TBool
  | FPtr t' => implied t'
  | FSlice t' => TList (implied t')
  | FMap t' => TMap (implied t')
  | FStruct _ => TDyn
  end.

(* ---- Go value -> cty value (gocty/in.go ToCtyValue at the implied type) ----------------- *)
(* every pointer is unwrapped (toCtyUnwrapPointer); nil pointer / slice / map = null *)
Fixpoint to_cty (t : fty) (v : sval) {struct t} : val :=
  match t, v with
  | FString, SStr s => VStr s
  | FInt, SInt n => VNum (nz n)
  | FBool, SBool b => VBool b
  | FPtr t', SPtr (Some x) => to_cty t' x
  | FSlice t', SSlice (Some l) => VList (implied t') (map (to_cty t') l)
  | FMap t', SMap (Some kvs) => VMap (implied t') (map (fun p => (fst p, to_cty t' (snd p))) kvs)
  | _, _ => VNull (implied t)
  end.

(* what evaluating the generated source of a value gives (hclwrite/generate.go
   TokensForValue, then hclsyntax): list -> tuple, map -> object, null loses its type *)
Fixpoint reread (v : val) : val :=
  match v with
  | VList _ l | VSet _ l | VTuple l => VTuple (map reread l)
  | VMap _ kvs | VObj kvs => VObj (map (fun p => (fst p, reread (snd p))) kvs)
  | VNull _ => VNull TDyn
  | VMark m v' => VMark m (reread v')
  | _ => v
  end.

(* ---- cty value -> Go value: convert.Convert to the implied type, then
        gocty.FromCtyValue (gocty/out.go), fused ------------------------------------------ *)
Inductive fres := FOk (v : sval) | FErr | FPanic.

(* a null converts whenever a conversion between the types exists *)
Definition null_conv_ok (have want : ty) : bool :=
  match have with TDyn => true | _ => ty_eqb have want || conv_ok have want end.

(* FromCtyValue of a null (fromCtyValue + fromCtyPopulatePtr): all pointer levels are
   allocated down to the LAST one, which is set to nil; list and map types end in a
   nil slice / map; with no pointer level: "null value is not allowed" *)
Fixpoint null_into (t : fty) : option sval :=
  match t with
  | FPtr t' =>
      match t' with
      | FPtr _ | FSlice _ | FMap _ =>
          match null_into t' with Some x => Some (SPtr (Some x)) | None => None end
      | _ => Some (SPtr None)
      end
  | FSlice _ => Some (SSlice None)
  | FMap _ => Some (SMap None)
  | _ => None
  end.

(* fromCtyNumberInt: big.Float.Int64 must be exact and in range *)
Definition num_to_int (n : num) : option Z :=
  match n with
  | NQ q => let d := Zpos (Qden q) in
            if Qnum q mod d =? 0 then
              let z := Qnum q / d in if in_int64 z then Some z else None
            else None
  | NInf _ => None
  end.

Definition s_true : list Z := [116;114;117;101].
Definition s_false : list Z := [102;97;108;115;101].

Fixpoint fres_all (l : list fres) : option (list sval) + bool :=   (* inr true = panic *)
  match l with
  | [] => inl (Some [])
  | FOk x :: r => match fres_all r with inl (Some xs) => inl (Some (x :: xs)) | o => o end
  | FErr :: _ => inr false
  | FPanic :: _ => inr true
  end.

Fixpoint from_val' (t : fty) (v : val) {struct t} : fres :=
  match v with
  | VMark _ _ => FErr                                  (* not reached: [from_val] unmarks first *)
  | VUnk _ _ => FErr                                   (* "value must be known" (or no conversion) *)
  | VNull ty0 =>
      if null_conv_ok ty0 (implied t)
      then match null_into t with Some x => FOk x | None => FErr end
      else FErr
  | _ =>
    match t with
    | FString =>
        match v with
        | VStr s => FOk (SStr s)
        | VNum n => FOk (SStr (num_to_str n))
        | VBool b => FOk (SStr (if b then s_true else s_false))
        | _ => FErr
        end
    | FInt =>
        match v with
        | VNum n => match num_to_int n with Some z => FOk (SInt z) | None => FErr end
        | VStr s => match str_to_num s with
                    | Some n => match num_to_int n with Some z => FOk (SInt z) | None => FErr end
                    | None => FErr end
        | _ => FErr
        end
    | FBool =>
        match v with
        | VBool b => FOk (SBool b)
        | VStr s => if str_eqb s s_true || str_eqb s [49] then FOk (SBool true)
                    else if str_eqb s s_false || str_eqb s [48] then FOk (SBool false)
                    else FErr
        | _ => FErr
        end
    | FPtr t' =>
        match from_val' t' v with FOk x => FOk (SPtr (Some x)) | o => o end
    | FSlice t' =>
        match v with
        | VList _ l | VSet _ l | VTuple l =>
            match fres_all (map (from_val' t') l) with
            | inl (Some xs) => FOk (SSlice (Some xs))
            | inl None => FErr
            | inr p => if p then FPanic else FErr
            end
        | _ => FErr
        end
    | FMap t' =>
        match v with
        | VMap _ kvs | VObj kvs =>
            match fres_all (map (fun p => from_val' t' (snd p)) kvs) with
            | inl (Some xs) => FOk (SMap (Some (combine (map fst kvs) xs)))
            | inl None => FErr
            | inr p => if p then FPanic else FErr
            end
        | _ => FErr
        end
    | FStruct _ => FPanic                               (* ImpliedType fails first *)
    end
  end.

(* Marked values (reachable through an EvalContext with marked variables): convert.Convert
   carries marks through; DecodeExpression then drops them (srcVal.UnmarkDeep(), /repo
   4212bed — before that fix gocty.FromCtyValue panicked: "value is marked, so must be
   unmarked first").  So a marked value decodes exactly like the unmarked one. *)
Definition from_val (t : fty) (v : val) : fres := from_val' t (unmark_deep v).

(* ---- what the writer is asked to write ------------------------------------------------- *)
(* the hclwrite API calls of populateBody: SetAttributeValue, AppendNewline,
   AppendBlock(NewBlock(type, labels) with a populated body) *)
Inductive witem :=
| WAttr (n : list Z) (v : val)
| WNewline
| WBlock (ty : list Z) (labels : list (list Z)) (body : list witem).

(* abstract file: what a hcl.Body exposes — attributes (name, value of the
   expression in a nil EvalContext) and blocks (type, labels, body), each in source order *)
Inductive afile :=
| AFile (attrs : list (list Z * val)) (blocks : list (list Z * list (list Z) * afile)).
Definition ablock : Type := (list Z * list (list Z) * afile)%type.
Definition f_attrs (f : afile) := match f with AFile a _ => a end.
Definition f_blocks (f : afile) : list ablock := match f with AFile _ b => b end.
Definition empty_file : afile := AFile [] [].

Definition item_attr (i : witem) : list (list Z * val) :=
  match i with WAttr n v => [(n, v)] | _ => [] end.
Fixpoint item_blocks (i : witem) : list ablock :=
  match i with
  | WBlock ty ls body => [(ty, ls, AFile (flat_map item_attr body) (flat_map item_blocks body))]
  | _ => []
  end.
(* the body after the calls, for distinct attribute names (SetAttributeValue appends) *)
Definition afile_of (items : list witem) : afile :=
  AFile (flat_map item_attr items) (flat_map item_blocks items).

Fixpoint file_map (g : val -> val) (f : afile) : afile :=
  match f with
  | AFile a b => AFile (map (fun p => (fst p, g (snd p))) a)
                       (map (fun blk : ablock => (fst blk, file_map g (snd blk))) b)
  end.
Fixpoint item_map (g : val -> val) (i : witem) : witem :=
  match i with
  | WAttr n v => WAttr n (g v)
  | WNewline => WNewline
  | WBlock ty ls body => WBlock ty ls (map (item_map g) body)
  end.
Definition reread_file : afile -> afile := file_map reread.

(* ---- encode (encode.go) ---------------------------------------------------------------- *)
(* populateBody: a pointer field is dereferenced ONCE; a nil pointer, or a pointer to a
   nil pointer, is skipped *)
Definition attr_skipped (ft : fty) (x : sval) : bool :=
  match ft, x with
  | FPtr _, SPtr None => true
  | FPtr (FPtr _), SPtr (Some (SPtr None)) => true
  | _, _ => false
  end.

(* EncodeAsBlock: the label fields, in field order, stringified (fmt.Sprintf("%s"); a
   non-string label field — outside wf_schema — would be written as fmt's "%!s(int=7)",
   which is not modelled: [] here) *)
Fixpoint labels_of (s : sschema) (fs : list sval) : list (list Z) :=
  match s, fs with
  | f :: s', x :: fs' =>
      match f_kind f with
      | KLabel => (match x with SStr l => l | _ => [] end) :: labels_of s' fs'
      | _ => labels_of s' fs'
      end
  | _, _ => []
  end.

Definition non_nil (l : list sval) : list sval :=
  flat_map (fun e => match e with SPtr (Some y) => [y] | _ => [] end) l.

Fixpoint opt_all {A} (l : list (option A)) : option (list A) :=
  match l with
  | [] => Some []
  | Some x :: r => match opt_all r with Some xs => Some (x :: xs) | None => None end
  | None :: _ => None
  end.

Section EncFields.
  (* populateBody of a nested struct type; None = panic *)
  Variable rec : fty -> sval -> option (list witem).

  Definition enc_block_of (n : list Z) (t : fty) (v : sval) : option witem :=
    match rec t v with
    | Some items =>
        Some (WBlock n (labels_of (struct_fields t) (match v with SStruct fs => fs | _ => [] end)) items)
    | None => None
    end.

  (* the blocks one `block` field writes (nil pointers skipped).  A field type that is
     not struct / *struct / []struct / []*struct is reported as a panic even when Go
     would get away with it (empty slice) *)
  Definition enc_blocks (n : list Z) (ft : fty) (x : sval) : option (list witem) :=
    match ft with
    | FStruct _ => match enc_block_of n ft x with Some b => Some [b] | None => None end
    | FPtr (FStruct _ as t') =>
        match x with
        | SPtr None => Some []
        | SPtr (Some y) => match enc_block_of n t' y with Some b => Some [b] | None => None end
        | _ => None
        end
    | FSlice (FStruct _ as t') =>
        match x with
        | SSlice None => Some []
        | SSlice (Some l) => opt_all (map (enc_block_of n t') l)
        | _ => None
        end
    | FSlice (FPtr (FStruct _ as t')) =>
        match x with
        | SSlice None => Some []
        | SSlice (Some l) => opt_all (map (enc_block_of n t') (non_nil l))
        | _ => None
        end
    | _ => None
    end.

  (* the loop of populateBody over namesOrder (= attribute and block fields by index);
     prev = prevWasBlock *)
  Fixpoint enc_fields (s : sschema) (fs : list sval) (prev : bool) : option (list witem) :=
    match s, fs with
    | [], [] => Some []
    | f :: s', x :: fs' =>
        match f_kind f with
        | KAttr | KOptional =>
            if attr_skipped (snd f) x then enc_fields s' fs' prev
            else if negb (attr_ty (snd f)) then None          (* gocty.ImpliedType error -> panic *)
            else match enc_fields s' fs' false with
                 | Some r => Some ((if prev then [WNewline] else []) ++ WAttr (f_name f) (to_cty (snd f) x) :: r)
                 | None => None
                 end
        | KBlock =>
            match enc_blocks (f_name f) (snd f) x with
            | None => None
            | Some [] => enc_fields s' fs' false
            | Some bs => match enc_fields s' fs' true with
                         | Some r => Some (WNewline :: bs ++ r)
                         | None => None
                         end
            end
        | KLabel | KRemain => enc_fields s' fs' prev      (* not in namesOrder: ignored *)
        end
    | _, _ => None
    end.
End EncFields.

(* getFieldTags (called by EncodeIntoBody / EncodeAsBlock) panics on a second `remain` tag *)
Fixpoint enc_body (t : fty) (v : sval) {struct t} : option (list witem) :=
  match t, v with
  | FStruct s, SStruct fs =>
      if (1 <? count_remain s)%nat then None else enc_fields enc_body s fs false
  | _, _ => None
  end.

(* EncodeIntoBody(&v, body) on an empty body: the writer calls; None = panic *)
Definition encode_items (s : sschema) (v : sval) : option (list witem) := enc_body (FStruct s) v.
(* ... and the abstract file those calls build *)
Definition encode (s : sschema) (v : sval) : option afile :=
  match encode_items s v with Some items => Some (afile_of items) | None => None end.

(* ---- the destination body (hclwrite ast_body.go, as populateBody uses it) ------------------ *)
(* EncodeIntoBody is given an EXISTING *hclwrite.Body (the root body of a new or a loaded
   file, the body of a block, the target of an earlier EncodeIntoBody) and REPLACES its
   contents: populateBody calls dst.Clear() and then, per field,
     SetAttributeValue(name, v)  — looks the name up among the attributes the body holds NOW:
                                   found -> that attribute gets the new value where it stands,
                                   not found -> a new attribute is appended;
     AppendNewline()             — appended;
     AppendBlock(EncodeAsBlock)  — appended; the block body is built by the same calls on the
                                   empty body of NewBlock.
   A body is the list of the items it holds, in order. *)
Definition wb_clear (b : list witem) : list witem := [].

Fixpoint wb_set_attr (n : list Z) (v : val) (b : list witem) : list witem :=
  match b with
  | [] => [WAttr n v]
  | WAttr n' v' :: r => if str_eqb n n' then WAttr n v :: r else WAttr n' v' :: wb_set_attr n v r
  | i :: r => i :: wb_set_attr n v r
  end.

(* one writer call c on body b *)
Fixpoint wb_call (b : list witem) (c : witem) {struct c} : list witem :=
  match c with
  | WAttr n v => wb_set_attr n v b
  | WNewline => b ++ [WNewline]
  | WBlock ty ls calls => b ++ [WBlock ty ls (fold_left wb_call calls [])]
  end.
Definition wb_run (calls : list witem) (b : list witem) : list witem := fold_left wb_call calls b.

(* EncodeIntoBody(&v, dst): what dst holds afterwards; None = panic *)
Definition encode_into (dst : list witem) (s : sschema) (v : sval) : option (list witem) :=
  match encode_items s v with
  | Some calls => Some (wb_run calls (wb_clear dst))
  | None => None
  end.

(* ---- the hcl.Body interface ------------------------------------------------------------- *)
Record bschema := mkBS {
  bs_attrs : list (list Z * bool);     (* name, required *)
  bs_blocks : list (list Z * nat)      (* type, number of labels *)
}.
Record content (B : Type) := mkContent {
  c_attrs : list (list Z * val);                       (* content.Attributes (a map: only looked up) *)
  c_blocks : list (list Z * list (list Z) * B);        (* content.Blocks, source order *)
  c_left : B;                                          (* PartialContent's remaining body *)
  c_diags : list Z
}.
Arguments mkContent {B}. Arguments c_attrs {B}. Arguments c_blocks {B}.
Arguments c_left {B}. Arguments c_diags {B}.
Record body_ops (B : Type) := mkOps {
  b_content : bschema -> bool -> B -> content B;       (* partial? PartialContent : Content *)
  b_just_attrs : B -> list (list Z * val) * list Z
}.
Arguments b_content {B}. Arguments b_just_attrs {B}.

(* diagnostic codes (all are errors) *)
Definition d_missing_attr : Z := 1.      (* Missing required argument *)
Definition d_unsupported_attr : Z := 2.  (* Unsupported argument *)
Definition d_unsupported_block : Z := 3. (* Unsupported block type *)
Definition d_extra_label : Z := 4.       (* Extraneous label for T *)
Definition d_missing_label : Z := 5.     (* Missing L for T *)
Definition d_dup_block : Z := 6.         (* Duplicate T block *)
Definition d_missing_block : Z := 7.     (* Missing T block *)
Definition d_unsuitable : Z := 8.        (* Unsuitable value type *)
Definition d_unexpected_block : Z := 9.  (* Unexpected "T" block (JustAttributes) *)

Definition name_in (n : list Z) (l : list (list Z)) : bool := existsb (str_eqb n) l.

(* hclsyntax Body.PartialContent / Content on an abstract file *)
Definition native_content (sch : bschema) (partial : bool) (f : afile) : content afile :=
  let A := f_attrs f in
  let Bk := f_blocks f in
  let anames := map fst (bs_attrs sch) in
  let bnames := map fst (bs_blocks sch) in
  let cattrs := filter (fun a => name_in (fst a) anames) A in
  let d1 := flat_map (fun s : list Z * bool =>
              match assoc_get (fst s) A with
              | Some _ => []
              | None => if snd s then [d_missing_attr] else []
              end) (bs_attrs sch) in
  let want (n : list Z) := assoc_get n (bs_blocks sch) in
  let cblocks := filter (fun b : ablock =>
              match want (fst (fst b)) with
              | Some k => Nat.eqb (length (snd (fst b))) k
              | None => false
              end) Bk in
  let d2 := flat_map (fun b : ablock =>
              match want (fst (fst b)) with
              | Some k => if (k <? length (snd (fst b)))%nat then [d_extra_label]
                          else if (length (snd (fst b)) <? k)%nat then [d_missing_label] else []
              | None => []
              end) Bk in
  let left := AFile (filter (fun a => negb (name_in (fst a) anames)) A)
                    (filter (fun b : ablock => negb (name_in (fst (fst b)) bnames)) Bk) in
  let d3 := if partial then []
            else map (fun _ => d_unsupported_attr) (f_attrs left) ++
                 map (fun _ => d_unsupported_block) (f_blocks left) in
  mkContent cattrs cblocks left (d1 ++ d2 ++ d3).

Definition native_just_attrs (f : afile) : list (list Z * val) * list Z :=
  (f_attrs f, match f_blocks f with [] => [] | _ => [d_unexpected_block] end).

Definition native_ops : body_ops afile := mkOps afile native_content native_just_attrs.

(* ---- ImpliedBodySchema (schema.go) ------------------------------------------------------ *)
Definition implied_schema (s : sschema) : bschema :=
  mkBS (flat_map (fun f : field =>
          match f_kind f with
          | KAttr => [(f_name f, negb (is_ptr (snd f)))]
          | KOptional => [(f_name f, false)]
          | _ => []
          end) s)
       (flat_map (fun f : field =>
          match f_kind f with
          | KBlock => match block_shape (snd f) with
                      | Some (_, s') => [(f_name f, label_count s')]
                      | None => []
                      end
          | _ => []
          end) s).

(* ImpliedBodySchema / getFieldTags panic: two `remain` tags; a `block` field that is
   not a struct after stripping one slice and one pointer; two `remain` tags in that
   struct *)
Definition schema_panics (s : sschema) : bool :=
  (1 <? count_remain s)%nat ||
  existsb (fun f : field =>
     match f_kind f with
     | KBlock => match block_shape (snd f) with
                 | Some (_, s') => (1 <? count_remain s')%nat
                 | None => true
                 end
     | _ => false
     end) s.

(* ---- decode (decode.go), generic in the body implementation ----------------------------- *)
Inductive dres := DPanic | DOk (v : sval) (d : list Z).

(* decodeBlockToValue: v.Field(i).Set(reflect.ValueOf(label)) panics on a non-string field *)
Definition label_set_panics (s : sschema) (ls : list (list Z)) : bool :=
  existsb (fun f : field => match snd f with FString => false | _ => true end)
          (firstn (length ls) (label_fields s)).

Fixpoint set_labels (s : sschema) (ls : list (list Z)) (fs : list sval) : list sval :=
  match s, fs with
  | f :: s', x :: fs' =>
      match f_kind f, ls with
      | KLabel, l :: ls' => SStr l :: set_labels s' ls' fs'
      | _, _ => x :: set_labels s' ls fs'
      end
  | _, _ => fs
  end.

Section Decode.
  Context {B : Type} (ops : body_ops B).

  (* DecodeExpression into a field of type ft (o = the attribute's value, if present) *)
  Definition dec_attr (ft : fty) (o : option val) : dres :=
    match o with
    | None => DOk (zero ft) []                               (* `continue`: the fresh zero value stays *)
    | Some v =>
        if negb (attr_ty ft) then DPanic                     (* "unsuitable DecodeExpression target" *)
        else match from_val ft v with
             | FOk x => DOk x []
             | FErr => DOk (zero ft) [d_unsuitable]
             | FPanic => DPanic
             end
    end.

  (* decodeBodyToMap *)
  Definition dec_map (te : fty) (b : B) : dres :=
    let '(attrs, d) := b_just_attrs ops b in
    fold_left (fun (acc : dres) (a : list Z * val) =>
      match acc with
      | DPanic => DPanic
      | DOk (SMap (Some m)) ds =>
          match dec_attr te (Some (snd a)) with
          | DOk x dx => DOk (SMap (Some (assoc_set (fst a) x m))) (ds ++ dx)
          | DPanic => DPanic
          end
      | other => other
      end) attrs (DOk (SMap (Some [])) d).

  Section Fields.
    Variable rec : fty -> B -> dres.        (* decodeBodyToValue at a nested type *)

    (* decodeBlockToValue *)
    Definition dec_block (t : fty) (blk : list Z * list (list Z) * B) : dres :=
      let ls := snd (fst blk) in
      match rec t (snd blk) with
      | DPanic => DPanic
      | DOk v d =>
          if label_set_panics (struct_fields t) ls then DPanic
          else match v with
               | SStruct fs => DOk (SStruct (set_labels (struct_fields t) ls fs)) d
               | _ => DOk v d
               end
      end.

    (* (t is bound outside the fix so that the termination checker sees through it) *)
    Definition dec_block_list (t : fty)
      : list (list Z * list (list Z) * B) -> option (list sval * list Z) :=
      fix go (blks : list (list Z * list (list Z) * B)) : option (list sval * list Z) :=
      match blks with
      | [] => Some ([], [])
      | b :: r =>
          match dec_block t b with
          | DPanic => None
          | DOk v d => match go r with
                       | Some (vs, ds) => Some (v :: vs, d ++ ds)
                       | None => None
                       end
          end
      end.

    (* the block loop of decodeBodyToStruct for one field; the target is fresh *)
    Definition dec_blocks (n : list Z) (ft : fty) (blks : list (list Z * list (list Z) * B)) : dres :=
      let mine := filter (fun b => str_eqb (fst (fst b)) n) blks in
      match ft with
      | FStruct _ =>
          match mine with
          | [] => DOk (zero ft) [d_missing_block]
          | [b] => dec_block ft b
          | _ => DOk (zero ft) [d_dup_block]
          end
      | FPtr (FStruct _ as t') =>
          match mine with
          | [] => DOk (SPtr None) []
          | [b] => match dec_block t' b with
                   | DOk v d => DOk (SPtr (Some v)) d
                   | DPanic => DPanic
                   end
          | _ => DOk (SPtr None) [d_dup_block]
          end
      | FSlice (FStruct _ as t') =>
          match mine with
          | [] => DOk (SSlice None) []
          | _ => match dec_block_list t' mine with
                 | Some (vs, ds) => DOk (SSlice (Some vs)) ds
                 | None => DPanic
                 end
          end
      | FSlice (FPtr (FStruct _ as t')) =>
          match mine with
          | [] => DOk (SSlice None) []
          | _ => match dec_block_list t' mine with
                 | Some (vs, ds) => DOk (SSlice (Some (map (fun v => SPtr (Some v)) vs))) ds
                 | None => DPanic
                 end
          end
      | _ => DPanic
      end.

    Definition dec_field (c : content B) (f : field) : dres :=
      match f_kind f with
      | KAttr | KOptional => dec_attr (snd f) (assoc_get (f_name f) (c_attrs c))
      | KBlock => dec_blocks (f_name f) (snd f) (c_blocks c)
      | KLabel => DOk (zero (snd f)) []                 (* set by the caller (decodeBlockToValue) *)
      | KRemain => rec (snd f) (c_left c)
      end.

    Fixpoint dec_fields (c : content B) (s : sschema) : option (list sval * list Z) :=
      match s with
      | [] => Some ([], [])
      | f :: s' =>
          match dec_field c f with
          | DPanic => None
          | DOk v d => match dec_fields c s' with
                       | Some (vs, ds) => Some (v :: vs, d ++ ds)
                       | None => None
                       end
          end
      end.

    (* decodeBodyToStruct *)
    Definition dec_struct (s : sschema) (b : B) : dres :=
      if schema_panics s then DPanic else
      let c := b_content ops (implied_schema s) (has_remain s) b in
      match dec_fields c s with
      | Some (vs, ds) => DOk (SStruct vs) (c_diags c ++ ds)
      | None => DPanic
      end.
  End Fields.

  (* decodeBodyToValue *)
  Fixpoint gdecode (t : fty) (b : B) {struct t} : dres :=
    match t with
    | FStruct s => dec_struct gdecode s b
    | FMap te => dec_map te b
    | _ => DPanic                      (* "target value must be pointer to struct or map" *)
    end.
End Decode.

(* gohcl.DecodeBody(body, nil, &fresh) for a native-syntax (or any lawful) body *)
Definition decode (s : sschema) (f : afile) : dres := gdecode native_ops (FStruct s) f.

(* ---- well-formed struct types ------------------------------------------------------------ *)
Definition is_id_start (c : Z) : bool :=
  ((65 <=? c) && (c <=? 90)) || ((97 <=? c) && (c <=? 122)) || (c =? 95).
Definition is_id_cont (c : Z) : bool :=
  is_id_start c || ((48 <=? c) && (c <=? 57)) || (c =? 45).
(* an ASCII identifier (a subset of hclsyntax.ValidIdentifier) *)
Definition is_ident (s : list Z) : bool :=
  match s with c :: r => is_id_start c && forallb is_id_cont r | [] => false end.

Fixpoint nodup_names (l : list (list Z)) : bool :=
  match l with [] => true | a :: r => negb (name_in a r) && nodup_names r end.

Section Wf.
  (* strict: `remain` fields are maps (what a round trip needs; encode ignores them) *)
  Variable strict : bool.
  Section F.
    Variable rec : fty -> bool.
    Definition wf_field (f : field) : bool :=
      match f_kind f with
      | KAttr | KOptional => is_ident (f_name f) && attr_ty (snd f)
      | KLabel => match snd f with FString => true | _ => false end
      | KRemain => match snd f with
                   | FMap te => attr_ty te
                   | FStruct _ => negb strict && rec (snd f)
                   | _ => false
                   end
      | KBlock => is_ident (f_name f) &&
                  match snd f with
                  | FStruct _ => rec (snd f)
                  | FPtr (FStruct _ as t') => rec t'
                  | FSlice (FStruct _ as t') => rec t'
                  | FSlice (FPtr (FStruct _ as t')) => rec t'
                  | _ => false
                  end
      end.
  End F.
  Fixpoint wf_ty (t : fty) : bool :=
    match t with
    | FStruct s => (count_remain s <=? 1)%nat && nodup_names (item_names s) && forallb (wf_field wf_ty) s
    | _ => false
    end.
End Wf.

(* what gohcl accepts without panicking (and writes as parseable names) *)
Definition wf_schema (s : sschema) : Prop := wf_ty false (FStruct s) = true.
(* ... and whose `remain` fields are all maps *)
Definition rt_schema (s : sschema) : Prop := wf_ty true (FStruct s) = true.

(* ---- norm: what a round trip cannot preserve ---------------------------------------------- *)
(* does ToCtyValue see a null? *)
Fixpoint is_nullv (v : sval) : bool :=
  match v with
  | SPtr None | SSlice None | SMap None => true
  | SPtr (Some x) => is_nullv x
  | _ => false
  end.

(* attribute values: identity, except that a nil somewhere in a chain of pointers comes
   back as [null_into] says (allocated down to the last pointer level) *)
Fixpoint norm_val (t : fty) (v : sval) {struct t} : sval :=
  if is_nullv v then match null_into t with Some x => x | None => v end else
  match t, v with
  | FPtr t', SPtr (Some x) => SPtr (Some (norm_val t' x))
  | FSlice t', SSlice (Some l) => SSlice (Some (map (norm_val t') l))
  | FMap t', SMap (Some kvs) => SMap (Some (map (fun p => (fst p, norm_val t' (snd p))) kvs))
  | _, _ => v
  end.

Section NormFields.
  Variable rec : fty -> sval -> sval.        (* norm of a block's struct, labels kept *)
  Definition norm_blocks (ft : fty) (x : sval) : sval :=
    match ft with
    | FStruct _ => rec ft x
    | FPtr (FStruct _ as t') =>
        match x with SPtr (Some y) => SPtr (Some (rec t' y)) | _ => SPtr None end
    | FSlice (FStruct _ as t') =>
        match x with
        | SSlice (Some (y :: l)) => SSlice (Some (map (rec t') (y :: l)))
        | _ => SSlice None                                     (* empty slice -> nil *)
        end
    | FSlice (FPtr (FStruct _ as t')) =>
        match x with
        | SSlice (Some l) =>
            match non_nil l with                               (* nil elements dropped *)
            | [] => SSlice None
            | l' => SSlice (Some (map (fun y => SPtr (Some (rec t' y))) l'))
            end
        | _ => SSlice None
        end
    | _ => x
    end.
  Definition norm_field (keep : bool) (f : field) (x : sval) : sval :=
    match f_kind f with
    | KAttr | KOptional => if attr_skipped (snd f) x then zero (snd f) else norm_val (snd f) x
    | KLabel => if keep then x else zero (snd f)
    | KRemain => match snd f with FMap _ => SMap (Some []) | _ => zero (snd f) end
    | KBlock => norm_blocks (snd f) x
    end.
  Fixpoint norm_fields (keep : bool) (s : sschema) (fs : list sval) : list sval :=
    match s, fs with
    | f :: s', x :: fs' => norm_field keep f x :: norm_fields keep s' fs'
    | _, _ => []
    end.
End NormFields.

Fixpoint norm_ty (keep : bool) (t : fty) (v : sval) {struct t} : sval :=
  match t, v with
  | FStruct s, SStruct fs => SStruct (norm_fields (norm_ty true) keep s fs)
  | _, _ => v
  end.

(* top level: EncodeIntoBody ignores the label fields of the value itself *)
Definition norm (s : sschema) (v : sval) : sval := norm_ty false (FStruct s) v.
