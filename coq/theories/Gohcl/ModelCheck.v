(* Gohcl/ModelCheck.v — correspondence checker for C16 (run by vm_compute from the
   case files written by harness/cmd/c16).

   CEnc s v obs : gohcl.EncodeIntoBody of value v of struct type s; obs = the items of
                  the written file as read back by hclsyntax (attribute values evaluated
                  in a nil context, blank lines as WNewline), None = encode panicked.
                  Compared with [map (item_map reread)] of [encode_items].
   CEncInto dst s v obs : the same into a destination body that is NOT fresh (root body of a
                  loaded file, body of a block, target of earlier encodings / hand edits);
                  dst = the items the destination held just before the call (names and
                  structure; values as null), obs = the items it holds afterwards.
                  Compared with [encode_into dst].
   CDec s f obs : gohcl.DecodeBody of the parsed file f into a fresh value of type s;
                  obs = None (panic) | Some (sorted diagnostic codes, value when there
                  were no diagnostics).  Compared with [decode]. *)
From Coq Require Import QArith.
From HclV Require Import Base.Prelude Cty.Values Cty.Convert Gohcl.Model.
Open Scope Z_scope.

Fixpoint sval_eqb (a b : sval) {struct a} : bool :=
  match a, b with
  | SStr x, SStr y => str_eqb x y
  | SInt x, SInt y => x =? y
  | SBool x, SBool y => Bool.eqb x y
  | SPtr None, SPtr None => true
  | SPtr (Some x), SPtr (Some y) => sval_eqb x y
  | SSlice None, SSlice None => true
  | SSlice (Some l), SSlice (Some l') =>
      (fix go (l l' : list sval) : bool :=
         match l, l' with
         | [], [] => true
         | x :: r, y :: r' => sval_eqb x y && go r r'
         | _, _ => false
         end) l l'
  | SMap None, SMap None => true
  | SMap (Some l), SMap (Some l') =>
      (fix go (l l' : list (list Z * sval)) : bool :=
         match l, l' with
         | [], [] => true
         | (k, x) :: r, (k', y) :: r' => str_eqb k k' && sval_eqb x y && go r r'
         | _, _ => false
         end) l l'
  | SStruct l, SStruct l' =>
      (fix go (l l' : list sval) : bool :=
         match l, l' with
         | [], [] => true
         | x :: r, y :: r' => sval_eqb x y && go r r'
         | _, _ => false
         end) l l'
  | _, _ => false
  end.

Fixpoint witem_eqb (a b : witem) {struct a} : bool :=
  match a, b with
  | WAttr n v, WAttr n' v' => str_eqb n n' && val_eqb v v'
  | WNewline, WNewline => true
  | WBlock t ls body, WBlock t' ls' body' =>
      str_eqb t t' && list_eqb str_eqb ls ls' &&
      (fix go (l l' : list witem) : bool :=
         match l, l' with
         | [], [] => true
         | x :: r, y :: r' => witem_eqb x y && go r r'
         | _, _ => false
         end) body body'
  | _, _ => false
  end.

Fixpoint insert_z (x : Z) (l : list Z) : list Z :=
  match l with [] => [x] | y :: r => if x <=? y then x :: l else y :: insert_z x r end.
Definition sort_z (l : list Z) : list Z := fold_right insert_z [] l.

Inductive ccase :=
| CEnc (s : sschema) (v : sval) (obs : option (list witem))
| CEncInto (dst : list witem) (s : sschema) (v : sval) (obs : option (list witem))
| CDec (s : sschema) (f : afile) (obs : option (list Z * option sval)).

Definition check_c16_case (c : ccase) : bool :=
  match c with
  | CEnc s v obs =>
      match encode_items s v, obs with
      | Some items, Some o => list_eqb witem_eqb (map (item_map reread) items) o
      | None, None => true
      | _, _ => false
      end
  | CEncInto dst s v obs =>
      match encode_into dst s v, obs with
      | Some items, Some o => list_eqb witem_eqb (map (item_map reread) items) o
      | None, None => true
      | _, _ => false
      end
  | CDec s f obs =>
      match decode s f, obs with
      | DPanic, None => true
      | DOk v d, Some (codes, ov) =>
          zlist_eqb (sort_z d) codes &&
          match d, ov with
          | [], Some v' => sval_eqb v v'
          | _ :: _, None => true
          | _, _ => false
          end
      | _, _ => false
      end
  end.

Definition check_c16_cases (l : list ccase) : list Z := failing check_c16_case l.
