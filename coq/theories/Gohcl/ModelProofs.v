(* Gohcl/ModelProofs.v — proofs about the gohcl model (C16).
   Main results: [decode_encode], [decode_total], [json_decode_same],
   [pipeline_roundtrip] (Section hypotheses H11 / H02 / H12), and the refutations
   [decode_encode_remain_struct_refuted]. *)
From Coq Require Import QArith.
From HclV Require Import Base.Prelude Cty.Values Cty.Convert Gohcl.Model.
Open Scope Z_scope.

(* ---- basics ------------------------------------------------------------------------ *)
Lemma str_eqb_eq a b : str_eqb a b = true <-> a = b.
Proof. apply zlist_eqb_eq. Qed.
Lemma str_eqb_refl a : str_eqb a a = true.
Proof. apply str_eqb_eq. reflexivity. Qed.
Lemma str_eqb_neq a b : a <> b -> str_eqb a b = false.
Proof.
  intro H. destruct (str_eqb a b) eqn:E; [|reflexivity].
  apply str_eqb_eq in E. contradiction.
Qed.

Lemma name_in_In n l : name_in n l = true <-> In n l.
Proof.
  unfold name_in. rewrite existsb_exists. split.
  - intros [x [Hx E]]. apply str_eqb_eq in E. subst. exact Hx.
  - intro H. exists n. split; [exact H|apply str_eqb_refl].
Qed.
Lemma name_in_false n l : ~ In n l -> name_in n l = false.
Proof.
  intro H. destruct (name_in n l) eqn:E; [|reflexivity].
  apply name_in_In in E. contradiction.
Qed.

Lemma nodup_names_NoDup l : nodup_names l = true -> NoDup l.
Proof.
  induction l as [|a r IH]; simpl; intro H; [constructor|].
  apply andb_true_iff in H as [H1 H2]. constructor.
  - intro Hin. apply name_in_In in Hin. rewrite Hin in H1. discriminate.
  - apply IH. exact H2.
Qed.

Lemma assoc_get_app {A} n (l1 l2 : list (list Z * A)) :
  assoc_get n (l1 ++ l2) = match assoc_get n l1 with Some v => Some v | None => assoc_get n l2 end.
Proof.
  induction l1 as [|[k v] r IH]; simpl; [reflexivity|].
  destruct (str_eqb n k); [reflexivity|exact IH].
Qed.
Lemma assoc_get_none {A} n (l : list (list Z * A)) :
  (forall p, In p l -> fst p <> n) -> assoc_get n l = None.
Proof.
  induction l as [|[k v] r IH]; simpl; intro H; [reflexivity|].
  rewrite str_eqb_neq.
  - apply IH. intros p Hp. apply H. right. exact Hp.
  - intro E. apply (H (k, v)); [left; reflexivity|]. simpl. symmetry. exact E.
Qed.
Lemma assoc_get_map {A C} (g : A -> C) n (l : list (list Z * A)) :
  assoc_get n (map (fun p => (fst p, g (snd p))) l) = option_map g (assoc_get n l).
Proof.
  induction l as [|[k v] r IH]; simpl; [reflexivity|].
  destruct (str_eqb n k); [reflexivity|exact IH].
Qed.
Lemma assoc_get_filter {A} (P : list Z * A -> bool) n (l : list (list Z * A)) :
  (forall a, fst a = n -> P a = true) -> assoc_get n (filter P l) = assoc_get n l.
Proof.
  intro H. induction l as [|[k v] r IH]; simpl; [reflexivity|].
  destruct (str_eqb n k) eqn:E.
  - apply str_eqb_eq in E. subst k. rewrite (H (n, v) eq_refl). simpl.
    rewrite str_eqb_refl. reflexivity.
  - destruct (P (k, v)); simpl; [rewrite E|]; exact IH.
Qed.
Lemma assoc_get_In {A} n (l : list (list Z * A)) v :
  assoc_get n l = Some v -> In (n, v) l.
Proof.
  induction l as [|[k w] r IH]; simpl; [discriminate|].
  destruct (str_eqb n k) eqn:E.
  - intro H. inversion H; subst. apply str_eqb_eq in E. subst. left. reflexivity.
  - intro H. right. apply IH. exact H.
Qed.

Lemma filter_all {A} (P : A -> bool) l : (forall x, In x l -> P x = true) -> filter P l = l.
Proof.
  induction l as [|a r IH]; simpl; intro H; [reflexivity|].
  rewrite (H a (or_introl eq_refl)). f_equal. apply IH. intros x Hx. apply H. right. exact Hx.
Qed.
Lemma filter_none {A} (P : A -> bool) l : (forall x, In x l -> P x = false) -> filter P l = [].
Proof.
  induction l as [|a r IH]; simpl; intro H; [reflexivity|].
  rewrite (H a (or_introl eq_refl)). apply IH. intros x Hx. apply H. right. exact Hx.
Qed.
Lemma flat_map_nil {A C} (g : A -> list C) l : (forall x, In x l -> g x = []) -> flat_map g l = [].
Proof.
  induction l as [|a r IH]; simpl; intro H; [reflexivity|].
  rewrite (H a (or_introl eq_refl)). simpl. apply IH. intros x Hx. apply H. right. exact Hx.
Qed.
Lemma combine_map_fst {A C D} (g : A -> C) (h : A -> D) (l : list A) :
  combine (map g l) (map h l) = map (fun p => (g p, h p)) l.
Proof. induction l as [|a r IH]; simpl; [reflexivity|]. f_equal. exact IH. Qed.

Lemma fres_all_ok (xs : list sval) : fres_all (map FOk xs) = inl (Some xs).
Proof. induction xs as [|x r IH]; simpl; [reflexivity|]. rewrite IH. reflexivity. Qed.

(* ---- attribute values: from_val (reread (to_cty v)) = norm_val v ------------------------ *)
Definition plain (v : val) : bool :=
  match v with VNull _ | VUnk _ _ | VMark _ _ => false | _ => true end.

Lemma norm_val_unfold t v :
  norm_val t v =
  if is_nullv v then match null_into t with Some x => x | None => v end else
  match t, v with
  | FPtr t', SPtr (Some x) => SPtr (Some (norm_val t' x))
  | FSlice t', SSlice (Some l) => SSlice (Some (map (norm_val t') l))
  | FMap t', SMap (Some kvs) => SMap (Some (map (fun p => (fst p, norm_val t' (snd p))) kvs))
  | _, _ => v
  end.
Proof. destruct t; reflexivity. Qed.

Lemma null_into_ptr t : exists x, null_into (FPtr t) = Some x.
Proof.
  induction t; simpl; try (eexists; reflexivity).
  destruct IHt as [x Hx]. simpl in Hx. rewrite Hx. eexists; reflexivity.
Qed.

Lemma null_into_some t v :
  vtyped t v = true -> is_nullv v = true -> exists x, null_into t = Some x.
Proof.
  intros Ht Hn. destruct t; destruct v; simpl in Ht, Hn; try discriminate.
  - apply null_into_ptr.
  - eexists; reflexivity.
  - eexists; reflexivity.
Qed.

Lemma to_cty_null t : forall v,
  vtyped t v = true -> is_nullv v = true -> to_cty t v = VNull (implied t).
Proof.
  induction t; intros v Ht Hn; destruct v; simpl in *; try discriminate; try reflexivity.
  - destruct o as [x|]; [|reflexivity]. apply IHt; assumption.
  - destruct o; [discriminate|reflexivity].
  - destruct o; [discriminate|reflexivity].
Qed.

Lemma to_cty_plain t : forall v,
  attr_ty t = true -> vtyped t v = true -> is_nullv v = false -> plain (to_cty t v) = true.
Proof.
  induction t; intros v Ha Ht Hn; destruct v; simpl in *; try discriminate; try reflexivity.
  - destruct o as [x|]; [|discriminate]. apply IHt; assumption.
  - destruct o; [reflexivity|discriminate].
  - destruct o; [reflexivity|discriminate].
Qed.

Lemma reread_plain v : plain v = true -> plain (reread v) = true.
Proof. destruct v; simpl; intro H; try discriminate; reflexivity. Qed.

Lemma from_val'_ptr t w :
  plain w = true ->
  from_val' (FPtr t) w = match from_val' t w with FOk x => FOk (SPtr (Some x)) | o => o end.
Proof. destruct w; simpl; intro H; try discriminate; reflexivity. Qed.

Lemma num_to_int_nz n : in_int64 n = true -> num_to_int (nz n) = Some n.
Proof.
  intro H. unfold num_to_int, nz, inject_Z. simpl.
  rewrite Z.mod_1_r. simpl. rewrite Z.div_1_r. rewrite H. reflexivity.
Qed.

Lemma from_val'_roundtrip t : forall v,
  attr_ty t = true -> vtyped t v = true ->
  from_val' t (reread (to_cty t v)) = FOk (norm_val t v).
Proof.
  induction t; intros v Ha Ht; rewrite norm_val_unfold; destruct (is_nullv v) eqn:Hn.
  all: try (rewrite (to_cty_null _ _ Ht Hn); destruct (null_into_some _ _ Ht Hn) as [x Hx];
            simpl reread; simpl; simpl in Hx; rewrite ?Hx; reflexivity).
  all: try (destruct v; simpl in Ht, Hn; discriminate).
  - (* string *) destruct v; simpl in *; try discriminate. reflexivity.
  - (* int *) destruct v; simpl in Ht, Hn; try discriminate.
    change (match num_to_int (nz n) with Some z => FOk (SInt z) | None => FErr end = FOk (SInt n)).
    rewrite (num_to_int_nz _ Ht). reflexivity.
  - (* bool *) destruct v; simpl in *; try discriminate. reflexivity.
  - (* ptr *) destruct v; simpl in Ht, Hn; try discriminate.
    destruct o as [x|]; [|discriminate].
    simpl to_cty. rewrite from_val'_ptr.
    + rewrite (IHt x Ha Ht). reflexivity.
    + apply reread_plain. apply to_cty_plain; assumption.
  - (* slice *) destruct v; simpl in Ht, Hn; try discriminate.
    destruct o as [l|]; [|discriminate].
    simpl to_cty. simpl reread. simpl.
    rewrite !map_map.
    assert (E : map (fun x => from_val' t (reread (to_cty t x))) l = map FOk (map (norm_val t) l)).
    { rewrite map_map. apply map_ext_in. intros x Hx. apply IHt; [exact Ha|].
      rewrite forallb_forall in Ht. apply Ht. exact Hx. }
    rewrite E, fres_all_ok. reflexivity.
  - (* map *) destruct v; simpl in Ht, Hn; try discriminate.
    destruct o as [kvs|]; [|discriminate].
    apply andb_true_iff in Ht as [_ Ht].
    simpl to_cty. simpl reread. simpl.
    rewrite !map_map. simpl.
    assert (E : map (fun p : list Z * sval => from_val' t (reread (to_cty t (snd p)))) kvs
                = map FOk (map (fun p => norm_val t (snd p)) kvs)).
    { rewrite map_map. apply map_ext_in. intros p Hp. apply IHt; [exact Ha|].
      rewrite forallb_forall in Ht. apply Ht. exact Hp. }
    rewrite E, fres_all_ok.
    rewrite (combine_map_fst (fun p : list Z * sval => fst p) (fun p => norm_val t (snd p))).
    reflexivity.
Qed.

Lemma existsb_map_false {A} (g : A -> bool) (l : list A) :
  (forall x, In x l -> g x = false) -> existsb g l = false.
Proof.
  induction l as [|a r IH]; simpl; intro H; [reflexivity|].
  rewrite (H a (or_introl eq_refl)). apply IH. intros x Hx. apply H. right. exact Hx.
Qed.

Lemma existsb_map {A C} (g : C -> bool) (h : A -> C) (l : list A) :
  existsb g (map h l) = existsb (fun x => g (h x)) l.
Proof. induction l as [|a r IH]; simpl; [reflexivity|]. rewrite IH. reflexivity. Qed.

Lemma unmark_reread_to_cty t : forall v, unmark_deep (reread (to_cty t v)) = reread (to_cty t v).
Proof.
  induction t; intro v; destruct v; try reflexivity.
  - destruct o; [apply IHt|reflexivity].
  - destruct o as [l|]; [|reflexivity].
    change (VTuple (map unmark_deep (map reread (map (to_cty t) l))) = VTuple (map reread (map (to_cty t) l))).
    f_equal. rewrite !map_map. apply map_ext. intro x. apply IHt.
  - destruct o as [l|]; [|reflexivity].
    change (VObj (map (fun p : list Z * val => (fst p, unmark_deep (snd p)))
              (map (fun p : list Z * val => (fst p, reread (snd p)))
                 (map (fun p : list Z * sval => (fst p, to_cty t (snd p))) l)))
            = VObj (map (fun p : list Z * val => (fst p, reread (snd p)))
                 (map (fun p : list Z * sval => (fst p, to_cty t (snd p))) l))).
    f_equal. rewrite !map_map. apply map_ext. intro x. cbn [fst snd]. rewrite IHt. reflexivity.
Qed.

(* the attribute-level law: what DecodeExpression makes of what populateBody wrote *)
Lemma from_val_roundtrip t v :
  attr_ty t = true -> vtyped t v = true ->
  from_val t (reread (to_cty t v)) = FOk (norm_val t v).
Proof.
  intros Ha Ht. unfold from_val. rewrite unmark_reread_to_cty. apply from_val'_roundtrip; assumption.
Qed.

(* ---- structs: typing and well-formedness, unfolded ------------------------------------- *)
Fixpoint fields_typed (s : sschema) (fs : list sval) : bool :=
  match s, fs with
  | [], [] => true
  | f :: s', x :: fs' => vtyped (snd f) x && fields_typed s' fs'
  | _, _ => false
  end.

Lemma vtyped_struct s fs : vtyped (FStruct s) (SStruct fs) = fields_typed s fs.
Proof.
  revert fs. induction s as [|f s' IH]; destruct fs as [|x fs']; reflexivity.
Qed.

Lemma vtyped_struct_inv s v : vtyped (FStruct s) v = true -> exists fs, v = SStruct fs /\ fields_typed s fs = true.
Proof.
  destruct v; try discriminate. intro H. exists fs. split; [reflexivity|].
  rewrite <- vtyped_struct. exact H.
Qed.

Lemma fields_typed_length s : forall fs, fields_typed s fs = true -> length s = length fs.
Proof.
  induction s as [|f s' IH]; destruct fs as [|x fs']; simpl; try discriminate; intro H; [reflexivity|].
  apply andb_true_iff in H as [_ H]. f_equal. apply IH. exact H.
Qed.

Lemma fields_typed_in s : forall fs f x,
  fields_typed s fs = true -> In (f, x) (combine s fs) -> vtyped (snd f) x = true.
Proof.
  induction s as [|f0 s' IH]; destruct fs as [|x0 fs']; simpl; try discriminate; try contradiction.
  intros f x H [E|Hin]; apply andb_true_iff in H as [H1 H2].
  - inversion E; subst. exact H1.
  - eapply IH; eassumption.
Qed.

Lemma in_combine_exists {A C} (l : list A) (l' : list C) a :
  length l = length l' -> In a l -> exists b, In (a, b) (combine l l').
Proof.
  revert l'. induction l as [|a0 r IH]; destruct l' as [|b0 r']; simpl; try discriminate; try contradiction.
  intros Hl [E|Hin].
  - subst. exists b0. left. reflexivity.
  - destruct (IH r' (f_equal pred Hl) Hin) as [b Hb]. exists b. right. exact Hb.
Qed.

Lemma wf_ty_struct b s :
  wf_ty b (FStruct s) = true ->
  (count_remain s <= 1)%nat /\ NoDup (item_names s) /\
  (forall f, In f s -> wf_field b (wf_ty b) f = true).
Proof.
  simpl. intro H. apply andb_true_iff in H as [H H3]. apply andb_true_iff in H as [H1 H2].
  split; [apply Nat.leb_le; exact H1|]. split; [apply nodup_names_NoDup; exact H2|].
  rewrite forallb_forall in H3. exact H3.
Qed.

Inductive block_ty : fty -> sschema -> Prop :=
| BT_one s : block_ty (FStruct s) s
| BT_ptr s : block_ty (FPtr (FStruct s)) s
| BT_slice s : block_ty (FSlice (FStruct s)) s
| BT_sliceptr s : block_ty (FSlice (FPtr (FStruct s))) s.

Lemma block_ty_shape ft s : block_ty ft s -> exists sh, block_shape ft = Some (sh, s).
Proof. intro H. destruct H; eexists; reflexivity. Qed.

Lemma wf_field_block b f :
  f_kind f = KBlock -> wf_field b (wf_ty b) f = true ->
  is_ident (f_name f) = true /\ exists s, block_ty (snd f) s /\ wf_ty b (FStruct s) = true.
Proof.
  unfold wf_field. intros K H. rewrite K in H. apply andb_true_iff in H as [H1 H2].
  split; [exact H1|].
  destruct (snd f) as [| | |t|t|t|s]; try discriminate.
  - destruct t as [| | |t'|t'|t'|s]; try discriminate. exists s. split; [constructor|exact H2].
  - destruct t as [| | |t'|t'|t'|s]; try discriminate.
    + destruct t' as [| | |t''|t''|t''|s]; try discriminate. exists s. split; [constructor|exact H2].
    + exists s. split; [constructor|exact H2].
  - exists s. split; [constructor|exact H2].
Qed.

Lemma wf_field_attr b f :
  is_attr_kind (f_kind f) = true -> wf_field b (wf_ty b) f = true ->
  is_ident (f_name f) = true /\ attr_ty (snd f) = true.
Proof.
  unfold wf_field. intros K H. destruct (f_kind f); try discriminate; apply andb_true_iff in H; exact H.
Qed.

Lemma wf_field_label b f :
  f_kind f = KLabel -> wf_field b (wf_ty b) f = true -> snd f = FString.
Proof.
  unfold wf_field. intros K H. rewrite K in H. destruct (snd f); try discriminate. reflexivity.
Qed.

Lemma wf_field_remain f :
  f_kind f = KRemain -> wf_field true (wf_ty true) f = true -> exists te, snd f = FMap te.
Proof.
  unfold wf_field. intros K H. rewrite K in H. destruct (snd f); try discriminate.
  eexists; reflexivity.
Qed.

(* ---- the file a struct value is written as --------------------------------------------- *)
Fixpoint zipflat {A} (g : field -> sval -> list A) (s : sschema) (fs : list sval) : list A :=
  match s, fs with
  | f :: s', x :: fs' => g f x ++ zipflat g s' fs'
  | _, _ => []
  end.

Lemma zipflat_in {A} (g : field -> sval -> list A) s : forall fs a,
  In a (zipflat g s fs) -> exists f x, In (f, x) (combine s fs) /\ In a (g f x).
Proof.
  induction s as [|f0 s' IH]; destruct fs as [|x0 fs']; simpl; try contradiction.
  intros a H. apply in_app_or in H as [H|H].
  - exists f0, x0. split; [left; reflexivity|exact H].
  - destruct (IH fs' a H) as [f [x [H1 H2]]]. exists f, x. split; [right; exact H1|exact H2].
Qed.

Lemma zipflat_map {A C} (h : A -> C) (g : field -> sval -> list A) s : forall fs,
  map h (zipflat g s fs) = zipflat (fun f x => map h (g f x)) s fs.
Proof.
  induction s as [|f0 s' IH]; destruct fs as [|x0 fs']; simpl; try reflexivity.
  rewrite map_app, IH. reflexivity.
Qed.

Definition sfields (v : sval) : list sval := match v with SStruct fs => fs | _ => [] end.
Definition items_of (t : fty) (v : sval) : list witem :=
  match enc_body t v with Some i => i | None => [] end.

(* the struct type inside a block field type, and the struct values a field writes *)
Definition bstruct (ft : fty) : fty :=
  match ft with
  | FStruct _ => ft
  | FPtr (FStruct _ as t') => t'
  | FSlice (FStruct _ as t') => t'
  | FSlice (FPtr (FStruct _ as t')) => t'
  | _ => ft
  end.
Definition bvals (ft : fty) (x : sval) : list sval :=
  match ft, x with
  | FStruct _, _ => [x]
  | FPtr (FStruct _), SPtr (Some y) => [y]
  | FSlice (FStruct _), SSlice (Some l) => l
  | FSlice (FPtr (FStruct _)), SSlice (Some l) => non_nil l
  | _, _ => []
  end.

Lemma bstruct_block_ty ft s : block_ty ft s -> bstruct ft = FStruct s.
Proof. intro H. destruct H; reflexivity. Qed.

Lemma in_non_nil y l : In y (non_nil l) -> In (SPtr (Some y)) l.
Proof.
  unfold non_nil. rewrite in_flat_map. intros [e [He Hy]].
  destruct e; try contradiction. destruct o; [|contradiction].
  destruct Hy as [Hy|[]]. subst. exact He.
Qed.

Lemma bvals_typed ft s x :
  block_ty ft s -> vtyped ft x = true -> forall y, In y (bvals ft x) -> vtyped (FStruct s) y = true.
Proof.
  intros Hb Ht y Hy. destruct Hb.
  - simpl in Hy. destruct Hy as [Hy|[]]. subst. exact Ht.
  - destruct x; simpl in Hy; try contradiction. destruct o; [|contradiction].
    destruct Hy as [Hy|[]]. subst. exact Ht.
  - destruct x; simpl in Hy; try contradiction. destruct o as [l|]; [|contradiction].
    change (forallb (vtyped (FStruct s)) l = true) in Ht. rewrite forallb_forall in Ht. apply Ht. exact Hy.
  - destruct x; simpl in Hy; try contradiction. destruct o as [l|]; [|contradiction].
    change (forallb (vtyped (FPtr (FStruct s))) l = true) in Ht. rewrite forallb_forall in Ht.
    apply in_non_nil in Hy. apply Ht in Hy. exact Hy.
Qed.

Definition fld_attrs (f : field) (x : sval) : list (list Z * val) :=
  if is_attr_kind (f_kind f) && negb (attr_skipped (snd f) x)
  then [(f_name f, to_cty (snd f) x)] else [].

Definition mk_ablock (n : list Z) (t' : fty) (y : sval) : ablock :=
  (n, labels_of (struct_fields t') (sfields y), afile_of (items_of t' y)).

Definition fld_ablocks (f : field) (x : sval) : list ablock :=
  if is_block_kind (f_kind f)
  then map (mk_ablock (f_name f) (bstruct (snd f))) (bvals (snd f) x) else [].

Lemma opt_all_map_some {A C} (g : A -> option C) (h : A -> C) l :
  (forall a, In a l -> g a = Some (h a)) -> opt_all (map g l) = Some (map h l).
Proof.
  induction l as [|a r IH]; simpl; intro H; [reflexivity|].
  rewrite (H a (or_introl eq_refl)). rewrite IH; [reflexivity|].
  intros x Hx. apply H. right. exact Hx.
Qed.

Lemma enc_block_of_ok n t y items :
  enc_body t y = Some items ->
  enc_block_of enc_body n t y = Some (WBlock n (labels_of (struct_fields t) (sfields y)) items).
Proof. intro H. unfold enc_block_of. rewrite H. reflexivity. Qed.

(* the blocks of one field *)
Lemma enc_blocks_spec n ft s x :
  block_ty ft s -> vtyped ft x = true ->
  (forall y, In y (bvals ft x) -> enc_body (FStruct s) y <> None) ->
  exists bs, enc_blocks enc_body n ft x = Some bs /\
             flat_map item_attr bs = [] /\
             flat_map item_blocks bs = map (mk_ablock n (FStruct s)) (bvals ft x).
Proof.
  intros Hb Ht Hrec.
  assert (Hone : forall y, In y (bvals ft x) ->
            enc_block_of enc_body n (FStruct s) y
            = Some (WBlock n (labels_of s (sfields y)) (items_of (FStruct s) y))).
  { intros y Hy. specialize (Hrec y Hy). unfold items_of.
    destruct (enc_body (FStruct s) y) as [items|] eqn:E; [|contradiction].
    apply enc_block_of_ok. exact E. }
  assert (Hall : opt_all (map (enc_block_of enc_body n (FStruct s)) (bvals ft x))
                 = Some (map (fun y => WBlock n (labels_of s (sfields y)) (items_of (FStruct s) y)) (bvals ft x))).
  { apply opt_all_map_some. exact Hone. }
  assert (Hattr : forall l : list sval,
            flat_map item_attr (map (fun y => WBlock n (labels_of s (sfields y)) (items_of (FStruct s) y)) l) = []).
  { induction l; simpl; auto. }
  assert (Hblk : forall l : list sval,
            flat_map item_blocks (map (fun y => WBlock n (labels_of s (sfields y)) (items_of (FStruct s) y)) l)
            = map (mk_ablock n (FStruct s)) l).
  { induction l as [|y r IH]; simpl; [reflexivity|]. rewrite IH. reflexivity. }
  destruct Hb.
  - (* struct *)
    simpl. simpl in Hall. destruct (enc_block_of enc_body n (FStruct s) x) as [b|] eqn:E; [|discriminate].
    inversion Hall; subst. eexists. split; [reflexivity|]. split; [apply (Hattr [x])|apply (Hblk [x])].
  - (* *struct *)
    destruct x; try discriminate. destruct o as [y|].
    + simpl. simpl in Hall. destruct (enc_block_of enc_body n (FStruct s) y) as [b|] eqn:E; [|discriminate].
      inversion Hall; subst. eexists. split; [reflexivity|]. split; [apply (Hattr [y])|apply (Hblk [y])].
    + simpl. exists []. repeat split.
  - (* []struct *)
    destruct x; try discriminate. destruct o as [l|].
    + simpl. simpl in Hall. rewrite Hall. eexists. split; [reflexivity|]. split; [apply Hattr|apply Hblk].
    + simpl. exists []. repeat split.
  - (* []*struct *)
    destruct x; try discriminate. destruct o as [l|].
    + simpl. simpl in Hall. rewrite Hall. eexists. split; [reflexivity|]. split; [apply Hattr|apply Hblk].
    + simpl. exists []. repeat split.
Qed.

(* the loop of populateBody, at the level of the abstract file *)
Lemma enc_fields_spec b s : forall fs prev,
  (forall f, In f s -> wf_field b (wf_ty b) f = true) ->
  fields_typed s fs = true ->
  (forall f x, In (f, x) (combine s fs) -> f_kind f = KBlock ->
     forall y, In y (bvals (snd f) x) -> enc_body (bstruct (snd f)) y <> None) ->
  exists items, enc_fields enc_body s fs prev = Some items /\
                flat_map item_attr items = zipflat fld_attrs s fs /\
                flat_map item_blocks items = zipflat fld_ablocks s fs.
Proof.
  induction s as [|f s' IH]; intros fs prev Hwf Ht Hrec; destruct fs as [|x fs']; try discriminate.
  - exists []. repeat split.
  - simpl in Ht. apply andb_true_iff in Ht as [Htx Ht].
    assert (Hwf' : forall f0, In f0 s' -> wf_field b (wf_ty b) f0 = true)
      by (intros; apply Hwf; right; assumption).
    assert (Hrec' : forall f0 x0, In (f0, x0) (combine s' fs') -> f_kind f0 = KBlock ->
               forall y, In y (bvals (snd f0) x0) -> enc_body (bstruct (snd f0)) y <> None)
      by (intros f0 x0 Hin; apply Hrec; right; exact Hin).
    specialize (Hwf f (or_introl eq_refl)).
    simpl enc_fields. simpl zipflat. unfold fld_attrs at 1, fld_ablocks at 1.
    destruct (f_kind f) eqn:K; simpl is_attr_kind; simpl is_block_kind; cbv iota.
    + (* attr *)
      destruct (wf_field_attr b f) as [_ Ha]; [rewrite K; reflexivity|exact Hwf|].
      destruct (attr_skipped (snd f) x); simpl.
      * apply IH; assumption.
      * rewrite Ha. simpl. destruct (IH fs' false Hwf' Ht Hrec') as [r [E [E1 E2]]]. rewrite E.
        eexists. split; [reflexivity|]. rewrite !flat_map_app. simpl.
        split.
        -- destruct prev; simpl; rewrite E1; reflexivity.
        -- destruct prev; simpl; rewrite E2; reflexivity.
    + (* optional *)
      destruct (wf_field_attr b f) as [_ Ha]; [rewrite K; reflexivity|exact Hwf|].
      destruct (attr_skipped (snd f) x); simpl.
      * apply IH; assumption.
      * rewrite Ha. simpl. destruct (IH fs' false Hwf' Ht Hrec') as [r [E [E1 E2]]]. rewrite E.
        eexists. split; [reflexivity|]. rewrite !flat_map_app. simpl.
        split.
        -- destruct prev; simpl; rewrite E1; reflexivity.
        -- destruct prev; simpl; rewrite E2; reflexivity.
    + (* block *)
      destruct (wf_field_block b f K Hwf) as [_ [sb [Hb _]]].
      destruct (enc_blocks_spec (f_name f) (snd f) sb x Hb Htx) as [bs [Eb [Eb1 Eb2]]].
      { intros y Hy. rewrite <- (bstruct_block_ty _ _ Hb). apply (Hrec f x); [left; reflexivity|exact K|exact Hy]. }
      rewrite Eb. rewrite (bstruct_block_ty _ _ Hb). rewrite <- Eb2.
      destruct bs as [|b0 bs'].
      * simpl. apply IH; assumption.
      * destruct (IH fs' true Hwf' Ht Hrec') as [r [E [E1 E2]]]. rewrite E.
        eexists. split; [reflexivity|]. split.
        -- change (flat_map item_attr (WNewline :: (b0 :: bs') ++ r)) with (flat_map item_attr ((b0 :: bs') ++ r)).
           rewrite flat_map_app, Eb1, E1. reflexivity.
        -- change (flat_map item_blocks (WNewline :: (b0 :: bs') ++ r)) with (flat_map item_blocks ((b0 :: bs') ++ r)).
           rewrite flat_map_app, E2. reflexivity.
    + (* label *) simpl. apply IH; assumption.
    + (* remain *) simpl. apply IH; assumption.
Qed.

(* ---- looking items up in the written file (distinct names) --------------------------------- *)
Definition is_item_kind (k : fkind) : bool := is_attr_kind k || is_block_kind k.

Lemma item_names_cons f s :
  item_names (f :: s) = if is_item_kind (f_kind f) then f_name f :: item_names s else item_names s.
Proof. unfold item_names, is_item_kind. simpl. destruct (is_attr_kind (f_kind f) || is_block_kind (f_kind f)); reflexivity. Qed.

Lemma item_names_in f s : In f s -> is_item_kind (f_kind f) = true -> In (f_name f) (item_names s).
Proof.
  intros Hin K. unfold item_names. apply in_map. apply filter_In. split; [exact Hin|exact K].
Qed.

Lemma NoDup_item_names_tail f s : NoDup (item_names (f :: s)) -> NoDup (item_names s).
Proof.
  rewrite item_names_cons. destruct (is_item_kind (f_kind f)); [|auto].
  intro H. inversion H; assumption.
Qed.

Lemma NoDup_item_names_head f s :
  NoDup (item_names (f :: s)) -> is_item_kind (f_kind f) = true -> ~ In (f_name f) (item_names s).
Proof.
  rewrite item_names_cons. intros H K. rewrite K in H. inversion H; assumption.
Qed.

Lemma fld_attrs_in f x p : In p (fld_attrs f x) -> fst p = f_name f /\ is_attr_kind (f_kind f) = true.
Proof.
  unfold fld_attrs. destruct (is_attr_kind (f_kind f)); simpl; [|contradiction].
  destruct (negb (attr_skipped (snd f) x)); simpl; [|contradiction].
  intros [E|[]]. subst. split; reflexivity.
Qed.

Lemma fld_ablocks_in f x bl : In bl (fld_ablocks f x) -> fst (fst bl) = f_name f /\ f_kind f = KBlock.
Proof.
  unfold fld_ablocks. destruct (f_kind f) eqn:K; simpl; try contradiction.
  rewrite in_map_iff. intros [y [E _]]. subst. split; reflexivity.
Qed.

Lemma zipflat_attr_names s fs p : In p (zipflat fld_attrs s fs) -> In (fst p) (item_names s).
Proof.
  intro H. apply zipflat_in in H as [f [x [H1 H2]]]. apply fld_attrs_in in H2 as [E K].
  rewrite E. apply item_names_in; [eapply in_combine_l; exact H1|].
  unfold is_item_kind. rewrite K. reflexivity.
Qed.

Lemma zipflat_block_names s fs bl : In bl (zipflat fld_ablocks s fs) -> In (fst (fst bl)) (item_names s).
Proof.
  intro H. apply zipflat_in in H as [f [x [H1 H2]]]. apply fld_ablocks_in in H2 as [E K].
  rewrite E. apply item_names_in; [eapply in_combine_l; exact H1|].
  unfold is_item_kind. rewrite K. simpl. reflexivity.
Qed.

Lemma zipflat_lookup_attr s : forall fs f x,
  NoDup (item_names s) -> In (f, x) (combine s fs) -> is_attr_kind (f_kind f) = true ->
  assoc_get (f_name f) (zipflat fld_attrs s fs) = assoc_get (f_name f) (fld_attrs f x).
Proof.
  induction s as [|f0 s' IH]; destruct fs as [|x0 fs']; simpl; try contradiction.
  intros f x Hnd [E|Hin] K; rewrite assoc_get_app.
  - inversion E; subst f0 x0. clear E.
    destruct (assoc_get (f_name f) (fld_attrs f x)) eqn:G; [reflexivity|].
    apply assoc_get_none. intros p Hp E. apply zipflat_attr_names in Hp. rewrite E in Hp.
    revert Hp. apply NoDup_item_names_head; [exact Hnd|]. unfold is_item_kind. rewrite K. reflexivity.
  - assert (Hn : In (f_name f) (item_names s')).
    { apply item_names_in; [eapply in_combine_l; exact Hin|]. unfold is_item_kind. rewrite K. reflexivity. }
    rewrite (assoc_get_none (f_name f) (fld_attrs f0 x0)).
    + apply IH; [eapply NoDup_item_names_tail; exact Hnd|exact Hin|exact K].
    + intros p Hp E. apply fld_attrs_in in Hp as [E2 K0]. rewrite E2 in E.
      apply (NoDup_item_names_head f0 s' Hnd); [unfold is_item_kind; rewrite K0; reflexivity|].
      rewrite E. exact Hn.
Qed.

Lemma zipflat_filter_block s : forall fs f x,
  NoDup (item_names s) -> In (f, x) (combine s fs) -> f_kind f = KBlock ->
  filter (fun bl : ablock => str_eqb (fst (fst bl)) (f_name f)) (zipflat fld_ablocks s fs) = fld_ablocks f x.
Proof.
  induction s as [|f0 s' IH]; destruct fs as [|x0 fs']; simpl; try contradiction.
  intros f x Hnd [E|Hin] K; rewrite filter_app.
  - inversion E; subst f0 x0. clear E.
    rewrite filter_all.
    + rewrite filter_none; [apply app_nil_r|].
      intros bl Hbl. apply str_eqb_neq. intro E. apply zipflat_block_names in Hbl. rewrite E in Hbl.
      revert Hbl. apply NoDup_item_names_head; [exact Hnd|]. unfold is_item_kind. rewrite K. reflexivity.
    + intros bl Hbl. apply fld_ablocks_in in Hbl as [E _]. rewrite E. apply str_eqb_refl.
  - assert (Hn : In (f_name f) (item_names s')).
    { apply item_names_in; [eapply in_combine_l; exact Hin|]. unfold is_item_kind. rewrite K. reflexivity. }
    rewrite filter_none.
    + simpl. apply IH; [eapply NoDup_item_names_tail; exact Hnd|exact Hin|exact K].
    + intros bl Hbl. apply fld_ablocks_in in Hbl as [E2 K0]. apply str_eqb_neq. intro E.
      apply (NoDup_item_names_head f0 s' Hnd); [unfold is_item_kind; rewrite K0; reflexivity|].
      rewrite <- E2, E. exact Hn.
Qed.

Lemma filter_map_comm {A} (P : A -> bool) (h : A -> A) l :
  (forall a, P (h a) = P a) -> filter P (map h l) = map h (filter P l).
Proof.
  intro H. induction l as [|a r IH]; simpl; [reflexivity|].
  rewrite H. destruct (P a); simpl; rewrite IH; reflexivity.
Qed.

(* ---- the schema implied by a struct type ------------------------------------------------------ *)
Lemma implied_attr_names_in s f :
  In f s -> is_attr_kind (f_kind f) = true -> In (f_name f) (map fst (bs_attrs (implied_schema s))).
Proof.
  intros Hin K. unfold implied_schema. simpl. rewrite in_map_iff.
  destruct (f_kind f) eqn:Kf; try discriminate.
  - exists (f_name f, negb (is_ptr (snd f))). split; [reflexivity|].
    apply in_flat_map. exists f. split; [exact Hin|]. rewrite Kf. left. reflexivity.
  - exists (f_name f, false). split; [reflexivity|].
    apply in_flat_map. exists f. split; [exact Hin|]. rewrite Kf. left. reflexivity.
Qed.

Lemma implied_attrs_inv s n req :
  In (n, req) (bs_attrs (implied_schema s)) ->
  exists f, In f s /\ is_attr_kind (f_kind f) = true /\ n = f_name f /\
            (req = true -> is_ptr (snd f) = false).
Proof.
  unfold implied_schema. simpl. rewrite in_flat_map. intros [f [Hin H]].
  exists f. destruct (f_kind f) eqn:K; simpl in H; try contradiction; destruct H as [H|[]]; inversion H; subst.
  - repeat split; try assumption. intro E. destruct (is_ptr (snd f)); [discriminate|reflexivity].
  - repeat split; try assumption. discriminate.
Qed.

Lemma implied_block_lookup s : forall f sb,
  NoDup (item_names s) -> In f s -> f_kind f = KBlock -> block_ty (snd f) sb ->
  assoc_get (f_name f) (bs_blocks (implied_schema s)) = Some (label_count sb).
Proof.
  unfold implied_schema. simpl.
  induction s as [|f0 s' IH]; simpl; try contradiction.
  intros f sb Hnd [E|Hin] K Hb; rewrite assoc_get_app.
  - subst f0. rewrite K. destruct (block_ty_shape _ _ Hb) as [sh Hs]. rewrite Hs. simpl.
    rewrite str_eqb_refl. reflexivity.
  - rewrite assoc_get_none.
    + apply IH; [eapply NoDup_item_names_tail; exact Hnd|exact Hin|exact K|exact Hb].
    + intros p Hp E. destruct (f_kind f0) eqn:K0; simpl in Hp; try contradiction.
      destruct (block_shape (snd f0)) as [[sh s0]|]; simpl in Hp; try contradiction.
      destruct Hp as [Hp|[]]. subst p. simpl in E.
      apply (NoDup_item_names_head f0 s' Hnd); [unfold is_item_kind; rewrite K0; reflexivity|].
      rewrite E. apply item_names_in; [exact Hin|]. unfold is_item_kind. rewrite K. reflexivity.
Qed.

Lemma implied_block_names_in s f sb :
  In f s -> f_kind f = KBlock -> block_ty (snd f) sb -> In (f_name f) (map fst (bs_blocks (implied_schema s))).
Proof.
  intros Hin K Hb. unfold implied_schema. simpl. rewrite in_map_iff.
  exists (f_name f, label_count sb). split; [reflexivity|].
  apply in_flat_map. exists f. split; [exact Hin|]. rewrite K.
  destruct (block_ty_shape _ _ Hb) as [sh Hs]. rewrite Hs. left. reflexivity.
Qed.

(* labels *)
Lemma labels_of_length s : forall fs, length s = length fs -> length (labels_of s fs) = label_count s.
Proof.
  unfold label_count, label_fields.
  induction s as [|f s' IH]; destruct fs as [|x fs']; simpl; try discriminate; intro H; [reflexivity|].
  destruct (f_kind f); simpl; try (apply IH; congruence). f_equal. apply IH. congruence.
Qed.

Lemma skipped_is_ptr ft x : attr_skipped ft x = true -> is_ptr ft = true.
Proof. destruct ft; simpl; try discriminate. reflexivity. Qed.

Lemma enc_body_struct b s fs :
  wf_ty b (FStruct s) = true -> forall items,
  enc_fields enc_body s fs false = Some items -> enc_body (FStruct s) (SStruct fs) = Some items.
Proof.
  intros Hw items E. cbn [enc_body]. destruct (wf_ty_struct _ _ Hw) as [Hr _].
  apply Nat.ltb_ge in Hr. rewrite Hr. exact E.
Qed.

(* ---- decoding what was encoded ----------------------------------------------------------------- *)
Definition rrb (bl : ablock) : ablock := (fst bl, reread_file (snd bl)).
Definition rra (p : list Z * val) : list Z * val := (fst p, reread (snd p)).

Lemma reread_file_afile items :
  reread_file (afile_of items) = AFile (map rra (flat_map item_attr items)) (map rrb (flat_map item_blocks items)).
Proof. reflexivity. Qed.

(* the round-trip statement for one struct type *)
Definition RT (t : fty) : Prop :=
  forall v, wf_ty true t = true -> vtyped t v = true ->
  exists items, enc_body t v = Some items /\
    gdecode native_ops t (reread_file (afile_of items)) = DOk (norm_ty false t v) [].
Fixpoint deepRT (t : fty) : Prop :=
  match t with
  | FPtr t' | FSlice t' => deepRT t'
  | FStruct _ => RT t
  | _ => True
  end.
Lemma deepRT_block ft sb : block_ty ft sb -> deepRT ft -> RT (FStruct sb).
Proof. intro H. destruct H; simpl; auto. Qed.

Lemma RT_items t v : RT t -> wf_ty true t = true -> vtyped t v = true ->
  enc_body t v = Some (items_of t v) /\
  gdecode native_ops t (reread_file (afile_of (items_of t v))) = DOk (norm_ty false t v) [].
Proof.
  intros H Hw Ht. destruct (H v Hw Ht) as [items [E D]]. unfold items_of. rewrite E. split; [reflexivity|exact D].
Qed.

Lemma set_labels_norm R s : forall fs,
  (forall f, In f s -> f_kind f = KLabel -> snd f = FString) ->
  fields_typed s fs = true ->
  set_labels s (labels_of s fs) (norm_fields R false s fs) = norm_fields R true s fs.
Proof.
  induction s as [|f s' IH]; destruct fs as [|x fs']; simpl; try discriminate; try reflexivity.
  intros Hl Ht. apply andb_true_iff in Ht as [Htx Ht].
  assert (IH' := IH fs' (fun f0 H0 => Hl f0 (or_intror H0)) Ht).
  unfold norm_field. destruct (f_kind f) eqn:K; simpl; try (rewrite IH'; reflexivity).
  rewrite IH'. f_equal.
  rewrite (Hl f (or_introl eq_refl) K) in Htx. destruct x; simpl in Htx; try discriminate. reflexivity.
Qed.

Lemma in_firstn_in {A} (n : nat) : forall (l : list A) x, In x (firstn n l) -> In x l.
Proof.
  induction n as [|n IH]; intros l x H; [contradiction|].
  destruct l as [|a r]; [contradiction|]. simpl in H. destruct H as [H|H]; [left; exact H|right; apply IH; exact H].
Qed.

Lemma label_set_ok s ls :
  (forall f, In f s -> f_kind f = KLabel -> snd f = FString) -> label_set_panics s ls = false.
Proof.
  intro Hl. unfold label_set_panics. apply existsb_map_false. intros f Hf.
  apply in_firstn_in in Hf. unfold label_fields in Hf. apply filter_In in Hf as [Hin K].
  rewrite (Hl f Hin); [reflexivity|]. destruct (f_kind f); try discriminate. reflexivity.
Qed.

Lemma dec_block_ok n sb y :
  RT (FStruct sb) -> wf_ty true (FStruct sb) = true -> vtyped (FStruct sb) y = true ->
  dec_block (gdecode native_ops) (FStruct sb) (rrb (mk_ablock n (FStruct sb) y))
  = DOk (norm_ty true (FStruct sb) y) [].
Proof.
  intros Hrt Hw Ht. destruct (RT_items _ _ Hrt Hw Ht) as [_ D].
  destruct (vtyped_struct_inv _ _ Ht) as [fsy [Ey Hty]]. subst y.
  destruct (wf_ty_struct _ _ Hw) as [_ [_ Hf]].
  assert (Hl : forall f, In f sb -> f_kind f = KLabel -> snd f = FString).
  { intros f Hin K. apply (wf_field_label true f K). apply Hf. exact Hin. }
  unfold dec_block, rrb, mk_ablock. cbn [fst snd struct_fields sfields].
  rewrite D. rewrite label_set_ok by exact Hl.
  cbn [norm_ty]. rewrite set_labels_norm by assumption. reflexivity.
Qed.

Lemma dec_block_list_ok n sb ys :
  RT (FStruct sb) -> wf_ty true (FStruct sb) = true ->
  (forall y, In y ys -> vtyped (FStruct sb) y = true) ->
  dec_block_list (gdecode native_ops) (FStruct sb) (map rrb (map (mk_ablock n (FStruct sb)) ys))
  = Some (map (norm_ty true (FStruct sb)) ys, []).
Proof.
  intros Hrt Hw. induction ys as [|y r IH]; intro Ht; [reflexivity|].
  cbn [map]. unfold dec_block_list. fold (dec_block_list (gdecode native_ops) (FStruct sb)).
  rewrite dec_block_ok; [|exact Hrt|exact Hw|apply Ht; left; reflexivity].
  rewrite IH; [reflexivity|]. intros y0 H0. apply Ht. right. exact H0.
Qed.

Lemma non_nil_nil_map l : non_nil l = [] -> forall (g : sval -> sval), map g (non_nil l) = [].
Proof. intros H g. rewrite H. reflexivity. Qed.

(* the block loop of decodeBodyToStruct on the blocks one field wrote *)
Lemma dec_blocks_ok n ft sb x :
  block_ty ft sb -> RT (FStruct sb) -> wf_ty true (FStruct sb) = true -> vtyped ft x = true ->
  forall blks,
  filter (fun b : ablock => str_eqb (fst (fst b)) n) blks
    = map rrb (map (mk_ablock n (FStruct sb)) (bvals ft x)) ->
  dec_blocks (gdecode native_ops) n ft blks = DOk (norm_blocks (norm_ty true) ft x) [].
Proof.
  intros Hb Hrt Hw Ht blks Hm.
  assert (Hty := bvals_typed _ _ _ Hb Ht).
  assert (Hl := dec_block_list_ok n sb (bvals ft x) Hrt Hw Hty).
  unfold dec_blocks. cbv zeta.
  match goal with |- context [filter ?p blks] =>
    replace (filter p blks) with (map rrb (map (mk_ablock n (FStruct sb)) (bvals ft x)))
      by (symmetry; exact Hm) end.
  destruct Hb.
  - (* struct *) cbn [bvals map]. apply dec_block_ok; assumption.
  - (* *struct *)
    destruct x; try discriminate. destruct o as [y|]; cbn [bvals map norm_blocks].
    + rewrite dec_block_ok; [reflexivity|exact Hrt|exact Hw|exact Ht].
    + reflexivity.
  - (* []struct *)
    destruct x; try discriminate. destruct o as [l|]; cbn [bvals norm_blocks]; [|reflexivity].
    destruct l as [|y l]; [reflexivity|].
    cbn [bvals] in Hl. cbn [map] in Hl |- *. rewrite Hl. reflexivity.
  - (* []*struct *)
    destruct x; try discriminate. destruct o as [l|]; cbn [bvals norm_blocks]; [|reflexivity].
    cbn [bvals] in Hl.
    destruct (non_nil l) as [|y l'] eqn:En; [reflexivity|].
    cbn [map] in Hl |- *. rewrite Hl. cbn [map]. rewrite map_map. reflexivity.
Qed.

Lemma app_nil2 {A} (a b : list A) : a = [] -> b = [] -> a ++ b = [].
Proof. intros; subst; reflexivity. Qed.

Lemma native_content_diags sch p f :
  c_diags (native_content sch p f) =
  flat_map (fun s : list Z * bool =>
              match assoc_get (fst s) (f_attrs f) with
              | Some _ => []
              | None => if snd s then [d_missing_attr] else []
              end) (bs_attrs sch) ++
  flat_map (fun b : ablock =>
              match assoc_get (fst (fst b)) (bs_blocks sch) with
              | Some k => if (k <? length (snd (fst b)))%nat then [d_extra_label]
                          else if (length (snd (fst b)) <? k)%nat then [d_missing_label] else []
              | None => []
              end) (f_blocks f) ++
  (if p then []
   else map (fun _ => d_unsupported_attr) (f_attrs (c_left (native_content sch p f))) ++
        map (fun _ => d_unsupported_block) (f_blocks (c_left (native_content sch p f)))).
Proof. reflexivity. Qed.

Section Struct.
  Variable s : sschema.
  Variable fs : list sval.
  Hypothesis Hw : wf_ty true (FStruct s) = true.
  Hypothesis Ht : fields_typed s fs = true.
  (* induction hypothesis: the struct types of the block fields *)
  Hypothesis IHs : forall f, In f s -> deepRT (snd f).

  Let Hnd : NoDup (item_names s) := proj1 (proj2 (wf_ty_struct _ _ Hw)).
  Let Hwf : forall f, In f s -> wf_field true (wf_ty true) f = true := proj2 (proj2 (wf_ty_struct _ _ Hw)).

  Let A := zipflat fld_attrs s fs.
  Let Bk := zipflat fld_ablocks s fs.
  Let F := AFile (map rra A) (map rrb Bk).
  Let c := native_content (implied_schema s) (has_remain s) F.

  Lemma block_facts bl : In bl Bk ->
    exists f x sb y, In (f, x) (combine s fs) /\ f_kind f = KBlock /\ block_ty (snd f) sb /\
      In y (bvals (snd f) x) /\ bl = mk_ablock (f_name f) (FStruct sb) y /\
      vtyped (FStruct sb) y = true /\ wf_ty true (FStruct sb) = true.
  Proof.
    intro H. apply zipflat_in in H as [f [x [Hin Hbl]]].
    unfold fld_ablocks in Hbl. destruct (f_kind f) eqn:K; simpl in Hbl; try contradiction.
    rewrite in_map_iff in Hbl. destruct Hbl as [y [E Hy]].
    destruct (wf_field_block true f K (Hwf f (in_combine_l _ _ _ _ Hin))) as [_ [sb [Hb Hwb]]].
    exists f, x, sb, y. rewrite (bstruct_block_ty _ _ Hb) in E.
    repeat split; try assumption; [symmetry; exact E|].
    eapply bvals_typed; [exact Hb| |exact Hy]. eapply fields_typed_in; eassumption.
  Qed.

  Lemma block_accepted bl : In bl Bk ->
    assoc_get (fst (fst bl)) (bs_blocks (implied_schema s)) = Some (length (snd (fst bl))).
  Proof.
    intro H. destruct (block_facts bl H) as [f [x [sb [y [Hin [K [Hb [Hy [E [Hty _]]]]]]]]]]. subst bl.
    unfold mk_ablock. cbn [fst snd struct_fields].
    rewrite (implied_block_lookup s f sb Hnd (in_combine_l _ _ _ _ Hin) K Hb). f_equal. symmetry.
    destruct (vtyped_struct_inv _ _ Hty) as [fsy [Ey Htyy]]. subst y. cbn [sfields].
    apply labels_of_length. apply fields_typed_length. exact Htyy.
  Qed.

  Lemma content_blocks : c_blocks c = map rrb Bk.
  Proof.
    unfold c, native_content, F. cbn [c_blocks f_blocks]. apply filter_all.
    intros bl Hbl. rewrite in_map_iff in Hbl. destruct Hbl as [bl0 [E H0]]. subst bl.
    unfold rrb. cbn [fst snd]. rewrite (block_accepted bl0 H0). apply Nat.eqb_refl.
  Qed.

  Lemma content_attr_lookup f x :
    In (f, x) (combine s fs) -> is_attr_kind (f_kind f) = true ->
    assoc_get (f_name f) (c_attrs c) = option_map reread (assoc_get (f_name f) (fld_attrs f x)).
  Proof.
    intros Hin K. unfold c, native_content, F. cbn [c_attrs f_attrs].
    rewrite assoc_get_filter.
    - unfold rra. rewrite assoc_get_map. unfold A. rewrite (zipflat_lookup_attr s fs f x Hnd Hin K). reflexivity.
    - intros a Ea. rewrite Ea. apply name_in_In. apply implied_attr_names_in; [eapply in_combine_l; exact Hin|exact K].
  Qed.

  Lemma content_left : c_left c = AFile [] [].
  Proof.
    unfold c, native_content, F. cbn [c_left f_attrs f_blocks]. f_equal.
    - apply filter_none. intros a Ha. rewrite in_map_iff in Ha. destruct Ha as [p [E Hp]]. subst a.
      unfold rra. cbn [fst]. apply negb_false_iff. apply name_in_In.
      apply zipflat_in in Hp as [f [x [Hin Hp]]]. apply fld_attrs_in in Hp as [E K]. rewrite E.
      apply implied_attr_names_in; [eapply in_combine_l; exact Hin|exact K].
    - apply filter_none. intros bl Hbl. rewrite in_map_iff in Hbl. destruct Hbl as [bl0 [E H0]]. subst bl.
      unfold rrb. cbn [fst]. apply negb_false_iff. apply name_in_In.
      destruct (block_facts bl0 H0) as [f [x [sb [y [Hin [K [Hb [_ [E _]]]]]]]]]. subst bl0.
      unfold mk_ablock. cbn [fst]. eapply implied_block_names_in; [eapply in_combine_l; exact Hin|exact K|exact Hb].
  Qed.

  Lemma content_diags : c_diags c = [].
  Proof.
    unfold c. rewrite native_content_diags. fold c. rewrite content_left.
    cbn [f_attrs f_blocks map app].
    assert (D3 : (if has_remain s then @nil Z else []) = []) by (destruct (has_remain s); reflexivity).
    rewrite D3, app_nil_r.
    unfold F. cbn [f_attrs f_blocks]. apply app_nil2.
    - (* missing required attributes: none *)
      apply flat_map_nil. intros [n req] He. cbn [fst snd].
      destruct (implied_attrs_inv s n req He) as [f [Hin [K [En Hreq]]]]. subst n.
      destruct (in_combine_exists s fs f (fields_typed_length _ _ Ht) Hin) as [x Hx].
      unfold rra. rewrite (assoc_get_map reread). unfold A.
      rewrite (zipflat_lookup_attr s fs f x Hnd Hx K).
      unfold fld_attrs. rewrite K. cbn [andb].
      destruct (attr_skipped (snd f) x) eqn:Sk; cbn [negb].
      + cbn [assoc_get option_map]. destruct req; [|reflexivity].
        rewrite (skipped_is_ptr _ _ Sk) in Hreq. discriminate (Hreq eq_refl).
      + cbn [assoc_get]. rewrite str_eqb_refl. reflexivity.
    - (* label counts: all right *)
      apply flat_map_nil. intros bl Hbl. rewrite in_map_iff in Hbl. destruct Hbl as [bl0 [E H0]]. subst bl.
      unfold rrb. cbn [fst snd]. rewrite (block_accepted bl0 H0). rewrite !Nat.ltb_irrefl. reflexivity.
  Qed.

  (* every field decodes to its normal form *)
  Lemma dec_field_ok f x :
    In (f, x) (combine s fs) ->
    dec_field (gdecode native_ops) c f = DOk (norm_field (norm_ty true) false f x) [].
  Proof.
    intro Hin.
    assert (Hfin := in_combine_l _ _ _ _ Hin).
    assert (Htx := fields_typed_in _ _ _ _ Ht Hin).
    assert (Hwff := Hwf f Hfin).
    unfold dec_field, norm_field. destruct (f_kind f) eqn:K.
    - (* attr *)
      rewrite (content_attr_lookup f x Hin) by (rewrite K; reflexivity).
      destruct (wf_field_attr true f) as [_ Ha]; [rewrite K; reflexivity|exact Hwff|].
      unfold fld_attrs. rewrite K. cbn [is_attr_kind andb].
      destruct (attr_skipped (snd f) x); cbn [negb assoc_get option_map dec_attr]; [reflexivity|].
      rewrite str_eqb_refl. cbn [option_map dec_attr]. rewrite Ha. cbn [negb].
      rewrite from_val_roundtrip by assumption. reflexivity.
    - (* optional *)
      rewrite (content_attr_lookup f x Hin) by (rewrite K; reflexivity).
      destruct (wf_field_attr true f) as [_ Ha]; [rewrite K; reflexivity|exact Hwff|].
      unfold fld_attrs. rewrite K. cbn [is_attr_kind andb].
      destruct (attr_skipped (snd f) x); cbn [negb assoc_get option_map dec_attr]; [reflexivity|].
      rewrite str_eqb_refl. cbn [option_map dec_attr]. rewrite Ha. cbn [negb].
      rewrite from_val_roundtrip by assumption. reflexivity.
    - (* block *)
      destruct (wf_field_block true f K Hwff) as [_ [sb [Hb Hwb]]].
      apply (dec_blocks_ok (f_name f) (snd f) sb x Hb (deepRT_block _ _ Hb (IHs f Hfin)) Hwb Htx).
      rewrite content_blocks.
      rewrite filter_map_comm by (intro a; reflexivity).
      unfold Bk. rewrite (zipflat_filter_block s fs f x Hnd Hin K).
      unfold fld_ablocks. rewrite K. cbn [is_block_kind]. rewrite (bstruct_block_ty _ _ Hb). reflexivity.
    - (* label *) reflexivity.
    - (* remain *)
      destruct (wf_field_remain f K Hwff) as [te E]. rewrite E. rewrite content_left. reflexivity.
  Qed.

  Lemma dec_fields_ok : forall s' fs',
    (forall f x, In (f, x) (combine s' fs') -> In (f, x) (combine s fs)) ->
    length s' = length fs' ->
    dec_fields (gdecode native_ops) c s' = Some (norm_fields (norm_ty true) false s' fs', []).
  Proof.
    induction s' as [|f s'' IH]; destruct fs' as [|x fs'']; simpl; try discriminate; intros Hsub Hl; [reflexivity|].
    rewrite (dec_field_ok f x) by (apply Hsub; left; reflexivity).
    rewrite (IH fs''); [reflexivity| |congruence].
    intros f0 x0 H0. apply Hsub. right. exact H0.
  Qed.

  Lemma schema_ok : schema_panics s = false.
  Proof.
    unfold schema_panics. pose proof (wf_ty_struct _ _ Hw) as [Hr _].
    apply orb_false_iff. split.
    - apply Nat.ltb_ge. exact Hr.
    - apply existsb_map_false. intros f Hin. destruct (f_kind f) eqn:K; try reflexivity.
      destruct (wf_field_block true f K (Hwf f Hin)) as [_ [sb [Hb Hwb]]].
      destruct (block_ty_shape _ _ Hb) as [sh Hs]. rewrite Hs.
      destruct (wf_ty_struct _ _ Hwb) as [Hr' _]. apply Nat.ltb_ge. exact Hr'.
  Qed.

  Lemma struct_roundtrip :
    exists items, enc_body (FStruct s) (SStruct fs) = Some items /\
      gdecode native_ops (FStruct s) (reread_file (afile_of items))
      = DOk (norm_ty false (FStruct s) (SStruct fs)) [].
  Proof.
    destruct (enc_fields_spec true s fs false Hwf Ht) as [items [E [E1 E2]]].
    { intros f x Hin K y Hy.
      destruct (wf_field_block true f K (Hwf f (in_combine_l _ _ _ _ Hin))) as [_ [sb [Hb Hwb]]].
      rewrite (bstruct_block_ty _ _ Hb).
      assert (Hrt := deepRT_block _ _ Hb (IHs f (in_combine_l _ _ _ _ Hin))).
      assert (Hty : vtyped (FStruct sb) y = true).
      { eapply bvals_typed; [exact Hb| |exact Hy]. eapply fields_typed_in; eassumption. }
      destruct (Hrt y Hwb Hty) as [it [Ei _]]. rewrite Ei. discriminate. }
    exists items. split; [exact (enc_body_struct true s fs Hw items E)|].
    rewrite reread_file_afile, E1, E2. fold A Bk F.
    cbn [gdecode]. unfold dec_struct. rewrite schema_ok. cbn [b_content native_ops]. fold c.
    rewrite (dec_fields_ok s fs (fun _ _ H => H) (fields_typed_length _ _ Ht)).
    rewrite content_diags. reflexivity.
  Qed.
End Struct.

Lemma all_deepRT : forall t, deepRT t.
Proof.
  apply fty_ind'; simpl; auto.
  intros s IH v Hw Hv.
  destruct (vtyped_struct_inv _ _ Hv) as [fs [E Ht]]. subst v.
  apply struct_roundtrip; [exact Hw|exact Ht|].
  intros f Hin. rewrite Forall_forall in IH. apply IH. exact Hin.
Qed.


(* ---- the main law ------------------------------------------------------------------------ *)
(* For every struct type gohcl accepts whose `remain` fields are maps, and every value v of
   it: EncodeIntoBody succeeds, and DecodeBody of the written file — as the parser sees it:
   lists as tuples, maps as objects, untyped nulls — into a fresh value gives norm v and no
   diagnostics. *)
Theorem decode_encode : forall s v,
  rt_schema s -> vtyped (FStruct s) v = true ->
  exists f, encode s v = Some f /\ decode s (reread_file f) = DOk (norm s v) [].
Proof.
  intros s v Hw Ht. destruct (all_deepRT (FStruct s) v Hw Ht) as [items [E D]].
  exists (afile_of items). unfold encode, encode_items. rewrite E. split; [reflexivity|exact D].
Qed.

Lemma deep_wf_weaken : forall t, wf_ty true t = true -> wf_ty false t = true.
Proof.
  set (Q := fun t => wf_ty true t = true -> wf_ty false t = true).
  set (deepQ := fix deepQ (t : fty) : Prop :=
         match t with FPtr t' | FSlice t' => deepQ t' | FStruct _ => Q t | _ => True end).
  assert (G : forall t, deepQ t).
  { apply fty_ind'; simpl; auto.
    intros s IH H. rewrite Forall_forall in IH.
    cbn [wf_ty] in *. apply andb_true_iff in H as [H12 H3]. rewrite H12. cbn [andb].
    rewrite forallb_forall in *. intros f Hin. specialize (H3 f Hin). specialize (IH f Hin).
    unfold wf_field in *. destruct (f_kind f); try exact H3.
    - (* block *)
      apply andb_true_iff in H3 as [Hi H3]. rewrite Hi. cbn [andb].
      destruct (snd f) as [| | |t|t|t|s1]; try discriminate.
      + destruct t as [| | |t'|t'|t'|s1]; try discriminate. apply IH. exact H3.
      + destruct t as [| | |t'|t'|t'|s1]; try discriminate.
        * destruct t' as [| | |t''|t''|t''|s1]; try discriminate. apply IH. exact H3.
        * apply IH. exact H3.
      + apply IH. exact H3.
    - (* remain *)
      destruct (snd f); try discriminate; try exact H3. }
  intros t. destruct t; try discriminate. apply (G (FStruct s)).
Qed.

Lemma rt_schema_wf s : rt_schema s -> wf_schema s.
Proof. apply deep_wf_weaken. Qed.

(* Without the restriction on `remain` the law fails: encode ignores the field, and
   decoding the (empty) remaining body into a struct with a required attribute reports it
   missing.  (Documented behaviour of EncodeIntoBody, not a defect.) *)
Theorem decode_encode_remain_struct_refuted :
  exists s v f, wf_schema s /\ vtyped (FStruct s) v = true /\ encode s v = Some f /\
                decode s (reread_file f) = DOk (SStruct [SStruct [SStr []]]) [d_missing_attr].
Proof.
  exists [([], KRemain, FStruct [([97], KAttr, FString)])], (SStruct [SStruct [SStr [120]]]), (AFile [] []).
  vm_compute. repeat split; reflexivity.
Qed.

(* ---- totality: diagnostics, never a panic -------------------------------------------------- *)
Lemma fres_all_no_panic l : (forall r, In r l -> r <> FPanic) -> fres_all l <> inr true.
Proof.
  induction l as [|r l' IH]; simpl; intro H; [discriminate|].
  destruct r.
  - destruct (fres_all l') as [[xs|]|p] eqn:E; try discriminate.
    apply IH. intros r Hr. apply H. right. exact Hr.
  - discriminate.
  - exfalso. apply (H FPanic); [left; reflexivity|reflexivity].
Qed.

(* the conversion never panics at a type gocty has an implied type for — marked or not *)
Lemma from_val'_no_panic t : forall v, attr_ty t = true -> from_val' t v <> FPanic.
Proof.
  induction t; intros v Ha.
  all: try (destruct v; simpl in *; try discriminate;
            repeat match goal with |- context [match ?e with _ => _ end] => destruct e end; discriminate).
  - (* ptr *)
    destruct v; simpl in *; try discriminate;
      try (destruct (null_conv_ok t0 (implied t)); [|discriminate];
           match goal with |- context [match ?e with _ => _ end] => destruct e end; discriminate);
      match goal with |- context [from_val' t ?w] =>
        assert (G := IHt w Ha); destruct (from_val' t w); try discriminate; try contradiction end.
  - (* slice *)
    destruct v; simpl in *; try discriminate;
      try (destruct (null_conv_ok t0 (TList (implied t))); discriminate).
    all: match goal with |- context [fres_all ?l] =>
           assert (G : fres_all l <> inr true);
           [apply fres_all_no_panic; intros r Hr; rewrite in_map_iff in Hr; destruct Hr as [w [E Hw]]; subst r;
            apply IHt; exact Ha
           |destruct (fres_all l) as [[xs|]|[|]]; try discriminate; contradiction] end.
  - (* map *)
    destruct v; simpl in *; try discriminate;
      try (destruct (null_conv_ok t0 (TMap (implied t))); discriminate).
    all: match goal with |- context [fres_all ?l] =>
           assert (G : fres_all l <> inr true);
           [apply fres_all_no_panic; intros r Hr; rewrite in_map_iff in Hr; destruct Hr as [w [E Hw]]; subst r;
            apply IHt; exact Ha
           |destruct (fres_all l) as [[xs|]|[|]]; try discriminate; contradiction] end.
Qed.

Lemma dec_attr_no_panic ft o : attr_ty ft = true -> dec_attr ft o <> DPanic.
Proof.
  intros Ha. unfold dec_attr. destruct o as [v|]; [|discriminate].
  rewrite Ha. cbn [negb]. unfold from_val.
  assert (G := from_val'_no_panic ft (unmark_deep v) Ha).
  destruct (from_val' ft (unmark_deep v)); try discriminate. contradiction.
Qed.

Lemma dec_map_no_panic te (f : afile) : attr_ty te = true -> dec_map native_ops te f <> DPanic.
Proof.
  intros Ha. unfold dec_map. cbn [b_just_attrs native_ops native_just_attrs].
  generalize (match f_blocks f with [] => [] | _ :: _ => [d_unexpected_block] end) as d0.
  generalize (@nil (list Z * sval)) as m0.
  induction (f_attrs f) as [|a r IH]; intros m0 d0; cbn [fold_left]; [discriminate|].
  assert (G := dec_attr_no_panic te (Some (snd a)) Ha).
  destruct (dec_attr te (Some (snd a))) as [|x dx] eqn:E; [contradiction|]. apply IH.
Qed.

Definition NP (t : fty) : Prop :=
  forall f, wf_ty false t = true -> gdecode native_ops t f <> DPanic.
Fixpoint deepNP (t : fty) : Prop :=
  match t with
  | FPtr t' | FSlice t' => deepNP t'
  | FStruct _ => NP t
  | _ => True
  end.
Lemma deepNP_block ft sb : block_ty ft sb -> deepNP ft -> NP (FStruct sb).
Proof. intro H. destruct H; simpl; auto. Qed.

Lemma schema_ok_b b s : wf_ty b (FStruct s) = true -> schema_panics s = false.
Proof.
  intro Hw. unfold schema_panics. destruct (wf_ty_struct _ _ Hw) as [Hr [_ Hwf]].
  apply orb_false_iff. split.
  - apply Nat.ltb_ge. exact Hr.
  - apply existsb_map_false. intros f Hin. destruct (f_kind f) eqn:K; try reflexivity.
    destruct (wf_field_block b f K (Hwf f Hin)) as [_ [sb [Hb Hwb]]].
    destruct (block_ty_shape _ _ Hb) as [sh Hs]. rewrite Hs.
    destruct (wf_ty_struct _ _ Hwb) as [Hr' _]. apply Nat.ltb_ge. exact Hr'.
Qed.

Lemma dec_block_no_panic sb (bl : ablock) :
  NP (FStruct sb) -> wf_ty false (FStruct sb) = true ->
  dec_block (gdecode native_ops) (FStruct sb) bl <> DPanic.
Proof.
  intros Hnp Hw. unfold dec_block. specialize (Hnp (snd bl) Hw).
  destruct (gdecode native_ops (FStruct sb) (snd bl)) as [|v d]; [contradiction|].
  destruct (wf_ty_struct _ _ Hw) as [_ [_ Hf]].
  rewrite label_set_ok.
  - destruct v; discriminate.
  - intros f Hin K. apply (wf_field_label false f K). apply Hf. exact Hin.
Qed.

Lemma dec_block_list_no_panic sb (bls : list ablock) :
  NP (FStruct sb) -> wf_ty false (FStruct sb) = true ->
  dec_block_list (gdecode native_ops) (FStruct sb) bls <> None.
Proof.
  intros Hnp Hw. induction bls as [|bl r IH]; [discriminate|].
  unfold dec_block_list. fold (dec_block_list (gdecode native_ops) (FStruct sb)).
  assert (G := dec_block_no_panic sb bl Hnp Hw).
  destruct (dec_block (gdecode native_ops) (FStruct sb) bl); [contradiction|].
  destruct (dec_block_list (gdecode native_ops) (FStruct sb) r) as [[vs ds]|]; [discriminate|contradiction].
Qed.

Lemma dec_blocks_no_panic n ft sb (blks : list ablock) :
  block_ty ft sb -> NP (FStruct sb) -> wf_ty false (FStruct sb) = true ->
  dec_blocks (gdecode native_ops) n ft blks <> DPanic.
Proof.
  intros Hb Hnp Hw. unfold dec_blocks. cbv zeta.
  match goal with |- context [filter ?p blks] => set (mine := filter p blks) end.
  assert (L := dec_block_list_no_panic sb mine Hnp Hw).
  clearbody mine.
  destruct Hb.
  - destruct mine as [|b0 [|b1 r]]; try discriminate.
    apply dec_block_no_panic; [exact Hnp|exact Hw].
  - destruct mine as [|b0 [|b1 r]]; try discriminate.
    assert (G := dec_block_no_panic s b0 Hnp Hw).
    destruct (dec_block (gdecode native_ops) (FStruct s) b0); [contradiction|discriminate].
  - destruct mine as [|b0 r]; [discriminate|].
    destruct (dec_block_list (gdecode native_ops) (FStruct s) (b0 :: r)) as [[vs ds]|]; [discriminate|contradiction].
  - destruct mine as [|b0 r]; [discriminate|].
    destruct (dec_block_list (gdecode native_ops) (FStruct s) (b0 :: r)) as [[vs ds]|]; [discriminate|contradiction].
Qed.

Lemma dec_fields_no_panic {B} (rec : fty -> B -> dres) c s :
  (forall f, In f s -> dec_field rec c f <> DPanic) -> dec_fields rec c s <> None.
Proof.
  induction s as [|f s' IH]; intro H; simpl; [discriminate|].
  assert (G := H f (or_introl eq_refl)).
  destruct (dec_field rec c f); [contradiction|].
  assert (G2 := IH (fun f0 H0 => H f0 (or_intror H0))).
  destruct (dec_fields rec c s') as [[vs ds]|]; [discriminate|contradiction].
Qed.

Lemma all_deepNP : forall t, deepNP t.
Proof.
  apply fty_ind'; simpl; auto.
  intros s IH F Hw. rewrite Forall_forall in IH.
  destruct (wf_ty_struct _ _ Hw) as [_ [_ Hwf]].
  cbn [gdecode]. unfold dec_struct. rewrite (schema_ok_b false s Hw).
  cbn [b_content native_ops].
  set (c := native_content (implied_schema s) (has_remain s) F).
  assert (G : dec_fields (gdecode native_ops) c s <> None).
  { apply dec_fields_no_panic. intros f Hin. specialize (Hwf f Hin). specialize (IH f Hin).
    unfold dec_field. destruct (f_kind f) eqn:K.
    - destruct (wf_field_attr false f) as [_ Ha]; [rewrite K; reflexivity|exact Hwf|].
      apply dec_attr_no_panic. exact Ha.
    - destruct (wf_field_attr false f) as [_ Ha]; [rewrite K; reflexivity|exact Hwf|].
      apply dec_attr_no_panic. exact Ha.
    - destruct (wf_field_block false f K Hwf) as [_ [sb [Hb Hwb]]].
      apply (dec_blocks_no_panic (f_name f) (snd f) sb (c_blocks c) Hb (deepNP_block _ _ Hb IH) Hwb).
    - discriminate.
    - unfold wf_field in Hwf. rewrite K in Hwf. destruct (snd f) eqn:Ef; try discriminate.
      + cbn [gdecode]. apply dec_map_no_panic. exact Hwf.
      + cbn [negb andb] in Hwf. cbn [deepNP] in IH. apply IH. exact Hwf. }
  destruct (dec_fields (gdecode native_ops) c s) as [[vs ds]|]; [discriminate|contradiction].
Qed.

(* For every struct type gohcl accepts and EVERY abstract file (well- or ill-formed: missing,
   extra, duplicated, mistyped items, wrong label counts, unknown, null and MARKED values),
   decoding returns a value and diagnostics — never Panic. *)
Theorem decode_total : forall s f, wf_schema s -> decode s f <> DPanic.
Proof. intros s f Hw. apply (all_deepNP (FStruct s)). exact Hw. Qed.

(* marks are dropped (DecodeExpression: UnmarkDeep): a marked value converts exactly as the
   unmarked one *)
Lemma from_val_unmark t v : from_val t (unmark_deep v) = from_val t v.
Proof.
  unfold from_val. f_equal.
  revert v. fix IH 1. intro v. destruct v; try reflexivity.
  - simpl. f_equal. induction l as [|x r IHr]; [reflexivity|]. simpl. rewrite IH, IHr. reflexivity.
  - simpl. f_equal. induction l as [|x r IHr]; [reflexivity|]. simpl. rewrite IH, IHr. reflexivity.
  - simpl. f_equal. induction l as [|[k x] r IHr]; [reflexivity|]. simpl. rewrite IH, IHr. reflexivity.
  - simpl. f_equal. induction l as [|x r IHr]; [reflexivity|]. simpl. rewrite IH, IHr. reflexivity.
  - simpl. f_equal. induction l as [|[k x] r IHr]; [reflexivity|]. simpl. rewrite IH, IHr. reflexivity.
  - simpl. apply IH.
Qed.

(* ---- decoding depends on a body only through the hcl.Body interface ------------------------- *)
Definition same_err (d1 d2 : list Z) : Prop := d1 = [] <-> d2 = [].
Lemma same_err_refl d : same_err d d.
Proof. unfold same_err. tauto. Qed.
Lemma same_err_app a b c d : same_err a b -> same_err c d -> same_err (a ++ c) (b ++ d).
Proof.
  unfold same_err. intros [H1 H2] [H3 H4]. split; intro H; apply app_eq_nil in H as [Ha Hc]; apply app_nil2; auto.
Qed.

Definition dres_rel (r1 r2 : dres) : Prop :=
  match r1, r2 with
  | DPanic, DPanic => True
  | DOk v1 d1, DOk v2 d2 => v1 = v2 /\ same_err d1 d2
  | _, _ => False
  end.
Definition orel (o1 o2 : option (list sval * list Z)) : Prop :=
  match o1, o2 with
  | None, None => True
  | Some (v1, d1), Some (v2, d2) => v1 = v2 /\ same_err d1 d2
  | _, _ => False
  end.

Lemma Forall2_filter {A C} (rel : A -> C -> Prop) (P : A -> bool) (Q : C -> bool) l1 l2 :
  Forall2 rel l1 l2 -> (forall a b, rel a b -> P a = Q b) -> Forall2 rel (filter P l1) (filter Q l2).
Proof.
  intros H HPQ. induction H as [|a b l1 l2 Hab H IH]; simpl; [constructor|].
  rewrite (HPQ a b Hab). destruct (Q b); [constructor; assumption|assumption].
Qed.

Section Related.
  Context {B1 B2 : Type} (ops1 : body_ops B1) (ops2 : body_ops B2).
  Variable R : B1 -> B2 -> Prop.     (* "the two bodies denote the same configuration" *)

  Definition block_rel (b1 : list Z * list (list Z) * B1) (b2 : list Z * list (list Z) * B2) : Prop :=
    fst b1 = fst b2 /\ R (snd b1) (snd b2).
  Definition content_rel (c1 : content B1) (c2 : content B2) : Prop :=
    (forall n, assoc_get n (c_attrs c1) = assoc_get n (c_attrs c2)) /\
    Forall2 block_rel (c_blocks c1) (c_blocks c2) /\
    R (c_left c1) (c_left c2) /\
    same_err (c_diags c1) (c_diags c2).

  (* what C03 provides: related bodies give related content under every schema, and the
     same attributes to JustAttributes *)
  Hypothesis HC : forall sch p b1 b2, R b1 b2 ->
    content_rel (b_content ops1 sch p b1) (b_content ops2 sch p b2).
  Hypothesis HJ : forall b1 b2, R b1 b2 ->
    fst (b_just_attrs ops1 b1) = fst (b_just_attrs ops2 b2) /\
    same_err (snd (b_just_attrs ops1 b1)) (snd (b_just_attrs ops2 b2)).

  Definition PR (t : fty) : Prop :=
    forall b1 b2, R b1 b2 -> dres_rel (gdecode ops1 t b1) (gdecode ops2 t b2).
  Fixpoint deepPR (t : fty) : Prop :=
    PR t /\ match t with FPtr t' | FSlice t' => deepPR t' | _ => True end.
  Lemma deepPR_PR t : deepPR t -> PR t.
  Proof. destruct t; simpl; tauto. Qed.

  Lemma dec_map_rel te b1 b2 : R b1 b2 -> dres_rel (dec_map ops1 te b1) (dec_map ops2 te b2).
  Proof.
    intro H. destruct (HJ b1 b2 H) as [E1 E2]. unfold dec_map.
    destruct (b_just_attrs ops1 b1) as [a1 d1]. destruct (b_just_attrs ops2 b2) as [a2 d2].
    simpl in E1, E2. subst a2.
    assert (G : dres_rel (DOk (SMap (Some [])) d1) (DOk (SMap (Some [])) d2)) by (split; [reflexivity|exact E2]).
    revert G. generalize (DOk (SMap (Some [])) d1) (DOk (SMap (Some [])) d2).
    induction a1 as [|a r IH]; intros r1 r2 G; [exact G|].
    cbn [fold_left]. apply IH.
    destruct r1 as [|v1 e1], r2 as [|v2 e2]; simpl in G; try contradiction; [exact I|].
    destruct G as [Ev Ee]. subst v2.
    destruct v1; try (split; [reflexivity|exact Ee]).
    destruct o; try (split; [reflexivity|exact Ee]).
    destruct (dec_attr te (Some (snd a))); [exact I|].
    split; [reflexivity|]. apply same_err_app; [exact Ee|apply same_err_refl].
  Qed.

  Lemma dec_block_rel t bl1 bl2 :
    PR t -> block_rel bl1 bl2 ->
    dres_rel (dec_block (gdecode ops1) t bl1) (dec_block (gdecode ops2) t bl2).
  Proof.
    intros Hp [E HR]. unfold dec_block. specialize (Hp _ _ HR). rewrite E.
    destruct (gdecode ops1 t (snd bl1)) as [|v1 d1], (gdecode ops2 t (snd bl2)) as [|v2 d2]; simpl in Hp; try contradiction; [exact I|].
    destruct Hp as [Ev Ed]. subst v2.
    destruct (label_set_panics (struct_fields t) (snd (fst bl2))); [exact I|].
    destruct v1; split; try reflexivity; exact Ed.
  Qed.

  Lemma dec_block_list_rel t l1 l2 :
    PR t -> Forall2 block_rel l1 l2 ->
    orel (dec_block_list (gdecode ops1) t l1) (dec_block_list (gdecode ops2) t l2).
  Proof.
    intros Hp H. induction H as [|a b l1 l2 Hab H IH]; [simpl; split; [reflexivity|apply same_err_refl]|].
    unfold dec_block_list. fold (dec_block_list (gdecode ops1) t). fold (dec_block_list (gdecode ops2) t).
    assert (G := dec_block_rel t a b Hp Hab).
    destruct (dec_block (gdecode ops1) t a) as [|v1 d1], (dec_block (gdecode ops2) t b) as [|v2 d2]; simpl in G; try contradiction; [exact I|].
    destruct G as [Ev Ed]. subst v2.
    destruct (dec_block_list (gdecode ops1) t l1) as [[vs1 ds1]|], (dec_block_list (gdecode ops2) t l2) as [[vs2 ds2]|];
      simpl in IH; try contradiction; [|exact I].
    destruct IH as [Evs Eds]. subst vs2. split; [reflexivity|apply same_err_app; assumption].
  Qed.

  Lemma dec_blocks_rel n ft blks1 blks2 :
    deepPR ft -> Forall2 block_rel blks1 blks2 ->
    dres_rel (dec_blocks (gdecode ops1) n ft blks1) (dec_blocks (gdecode ops2) n ft blks2).
  Proof.
    intros Hd HF. unfold dec_blocks. cbv zeta.
    match goal with |- context [filter ?p blks1] => set (m1 := filter p blks1) end.
    match goal with |- context [filter ?p blks2] => set (m2 := filter p blks2) end.
    assert (HM : Forall2 block_rel m1 m2).
    { apply Forall2_filter; [exact HF|]. intros a b [E _]. rewrite E. reflexivity. }
    clearbody m1 m2.
    assert (Ok0 : forall v, dres_rel (DOk v []) (DOk v [])) by (intro; split; [reflexivity|apply same_err_refl]).
    assert (Ok1 : forall v z, dres_rel (DOk v [z]) (DOk v [z])) by (intros; split; [reflexivity|apply same_err_refl]).
    destruct ft as [| | |t|t|t|s]; try exact I.
    - (* *T *)
      destruct t as [| | |t'|t'|t'|s]; try exact I.
      simpl in Hd. destruct Hd as [_ [Hp _]].
      inversion HM as [|a b l1 l2 Hab HM']; subst; [apply Ok0|].
      inversion HM' as [|a' b' l1' l2' Hab' HM'']; subst; [|apply Ok1].
      assert (G := dec_block_rel (FStruct s) a b Hp Hab).
      destruct (dec_block (gdecode ops1) (FStruct s) a), (dec_block (gdecode ops2) (FStruct s) b); simpl in G; try contradiction; [exact I|].
      destruct G as [Ev Ed]. subst. split; [reflexivity|exact Ed].
    - (* []T *)
      destruct t as [| | |t'|t'|t'|s]; try exact I.
      + destruct t' as [| | |t''|t''|t''|s]; try exact I.
        simpl in Hd. destruct Hd as [_ [_ [Hp _]]].
        assert (G := dec_block_list_rel (FStruct s) m1 m2 Hp HM).
        inversion HM as [|a b l1 l2 Hab HM']; subst; [apply Ok0|].
        destruct (dec_block_list (gdecode ops1) (FStruct s) (a :: l1)) as [[vs1 ds1]|],
                 (dec_block_list (gdecode ops2) (FStruct s) (b :: l2)) as [[vs2 ds2]|]; simpl in G; try contradiction; [|exact I].
        destruct G as [Ev Ed]. subst. split; [reflexivity|exact Ed].
      + simpl in Hd. destruct Hd as [_ [Hp _]].
        assert (G := dec_block_list_rel (FStruct s) m1 m2 Hp HM).
        inversion HM as [|a b l1 l2 Hab HM']; subst; [apply Ok0|].
        destruct (dec_block_list (gdecode ops1) (FStruct s) (a :: l1)) as [[vs1 ds1]|],
                 (dec_block_list (gdecode ops2) (FStruct s) (b :: l2)) as [[vs2 ds2]|]; simpl in G; try contradiction; [|exact I].
        destruct G as [Ev Ed]. subst. split; [reflexivity|exact Ed].
    - (* T *)
      simpl in Hd. destruct Hd as [Hp _].
      inversion HM as [|a b l1 l2 Hab HM']; subst; [apply Ok1|].
      inversion HM' as [|a' b' l1' l2' Hab' HM'']; subst; [|apply Ok1].
      apply dec_block_rel; assumption.
  Qed.

  Lemma dec_field_rel c1 c2 f :
    content_rel c1 c2 -> deepPR (snd f) ->
    dres_rel (dec_field (gdecode ops1) c1 f) (dec_field (gdecode ops2) c2 f).
  Proof.
    intros [HA [HB [HL _]]] Hd. unfold dec_field. destruct (f_kind f).
    - rewrite HA. destruct (dec_attr (snd f) (assoc_get (f_name f) (c_attrs c2))); [exact I|split; [reflexivity|apply same_err_refl]].
    - rewrite HA. destruct (dec_attr (snd f) (assoc_get (f_name f) (c_attrs c2))); [exact I|split; [reflexivity|apply same_err_refl]].
    - apply dec_blocks_rel; assumption.
    - split; [reflexivity|apply same_err_refl].
    - apply (deepPR_PR _ Hd). exact HL.
  Qed.

  Lemma dec_fields_rel c1 c2 s :
    content_rel c1 c2 -> (forall f, In f s -> deepPR (snd f)) ->
    orel (dec_fields (gdecode ops1) c1 s) (dec_fields (gdecode ops2) c2 s).
  Proof.
    intros Hc. induction s as [|f s' IH]; intro Hd; [simpl; split; [reflexivity|apply same_err_refl]|].
    cbn [dec_fields].
    assert (G := dec_field_rel c1 c2 f Hc (Hd f (or_introl eq_refl))).
    destruct (dec_field (gdecode ops1) c1 f) as [|v1 d1], (dec_field (gdecode ops2) c2 f) as [|v2 d2]; simpl in G; try contradiction; [exact I|].
    destruct G as [Ev Ed]. subst v2.
    specialize (IH (fun f0 H0 => Hd f0 (or_intror H0))).
    destruct (dec_fields (gdecode ops1) c1 s') as [[vs1 ds1]|], (dec_fields (gdecode ops2) c2 s') as [[vs2 ds2]|];
      simpl in IH; try contradiction; [|exact I].
    destruct IH as [Evs Eds]. subst vs2. split; [reflexivity|apply same_err_app; assumption].
  Qed.

  Lemma all_deepPR : forall t, deepPR t.
  Proof.
    apply fty_ind'; try (simpl; repeat split; try assumption; intros b1 b2 H; exact I).
    - (* map *) intros t _. simpl. split; [|exact I]. intros b1 b2 H. apply dec_map_rel. exact H.
    - (* struct *)
      intros s IH. rewrite Forall_forall in IH. simpl. split; [|exact I].
      intros b1 b2 H. cbn [gdecode]. unfold dec_struct.
      destruct (schema_panics s); [exact I|].
      assert (Hc := HC (implied_schema s) (has_remain s) b1 b2 H).
      assert (G := dec_fields_rel _ _ s Hc IH).
      destruct (dec_fields (gdecode ops1) (b_content ops1 (implied_schema s) (has_remain s) b1) s) as [[vs1 ds1]|],
               (dec_fields (gdecode ops2) (b_content ops2 (implied_schema s) (has_remain s) b2) s) as [[vs2 ds2]|];
        simpl in G; try contradiction; [|exact I].
      destruct G as [Ev Ed]. subst vs2. split; [reflexivity|].
      apply same_err_app; [|exact Ed]. destruct Hc as [_ [_ [_ Hd]]]. exact Hd.
  Qed.

  (* Bodies that the interface cannot tell apart decode alike: same panic behaviour, same
     value, diagnostics present in one iff present in the other. *)
  Theorem gdecode_related : forall t b1 b2, R b1 b2 -> dres_rel (gdecode ops1 t b1) (gdecode ops2 t b2).
  Proof. intros t. apply deepPR_PR. apply all_deepPR. Qed.
End Related.

(* JSON: the dependency on C03 is the hypothesis HC03 — a JSON body that denotes the
   abstract file f answers Content / PartialContent / JustAttributes as the native body of f
   does, under every schema, recursively for block bodies and remaining bodies. *)
Section Json.
  Variable J : Type.                           (* a parsed JSON body (json.body) *)
  Variable jops : body_ops J.                  (* its hcl.Body methods *)
  Variable denotes : J -> afile -> Prop.       (* C03: json_encodes / content_equiv *)
  Hypothesis HC03_content : forall sch p j f, denotes j f ->
    content_rel denotes (b_content jops sch p j) (native_content sch p f).
  Hypothesis HC03_attrs : forall j f, denotes j f ->
    fst (b_just_attrs jops j) = fst (native_just_attrs f) /\
    same_err (snd (b_just_attrs jops j)) (snd (native_just_attrs f)).

  Theorem json_decode_same : forall s j f,
    denotes j f -> dres_rel (gdecode jops (FStruct s) j) (decode s f).
  Proof.
    intros s j f H. unfold decode.
    apply (gdecode_related jops native_ops denotes); [exact HC03_content|exact HC03_attrs|exact H].
  Qed.

  (* with the main law: the JSON document denoting what was encoded decodes to norm v,
     without diagnostics *)
  Corollary json_decode_encode : forall s v j,
    rt_schema s -> vtyped (FStruct s) v = true ->
    (forall f, encode s v = Some f -> denotes j (reread_file f)) ->
    gdecode jops (FStruct s) j = DOk (norm s v) [].
  Proof.
    intros s v j Hw Ht Hd. destruct (decode_encode s v Hw Ht) as [f [E D]].
    assert (G := json_decode_same s j _ (Hd f E)). rewrite D in G.
    destruct (gdecode jops (FStruct s) j) as [|v1 d1]; simpl in G; [contradiction|].
    destruct G as [Ev [_ Ed]]. subst v1. rewrite (Ed eq_refl). reflexivity.
  Qed.
End Json.

(* ---- encode never panics, and writes well-formed names ----------------------------------- *)
Section AfileInd.
  Variable P : afile -> Prop.
  Hypothesis H : forall a b, Forall (fun bl : ablock => P (snd bl)) b -> P (AFile a b).
  Fixpoint afile_ind' (f : afile) : P f :=
    match f with
    | AFile a b =>
        H a b ((fix go (l : list ablock) : Forall (fun bl : ablock => P (snd bl)) l :=
                  match l with
                  | [] => Forall_nil _
                  | x :: r => Forall_cons x (afile_ind' (snd x)) (go r)
                  end) b)
    end.
End AfileInd.

(* attribute names and block types are identifiers; attribute names are distinct per body *)
Fixpoint file_names_ok (f : afile) : Prop :=
  match f with
  | AFile a b =>
      NoDup (map fst a) /\ (forall p, In p a -> is_ident (fst p) = true) /\
      (fix all (l : list ablock) : Prop :=
         match l with
         | [] => True
         | bl :: r => (is_ident (fst (fst bl)) = true /\ file_names_ok (snd bl)) /\ all r
         end) b
  end.

Lemma file_names_ok_blocks (Q : ablock -> Prop) (b : list ablock) :
  (forall bl, In bl b -> Q bl) ->
  (fix all (l : list ablock) : Prop :=
     match l with [] => True | bl :: r => Q bl /\ all r end) b.
Proof.
  induction b as [|bl r IH]; intro H; [exact I|]. split; [apply H; left; reflexivity|].
  apply IH. intros x Hx. apply H. right. exact Hx.
Qed.

Lemma blocks_all_in (Q : ablock -> Prop) (b : list ablock) :
  (fix all (l : list ablock) : Prop :=
     match l with [] => True | bl :: r => Q bl /\ all r end) b ->
  forall bl, In bl b -> Q bl.
Proof.
  induction b as [|bl0 r IH]; intros H bl Hin; [contradiction|].
  destruct H as [H0 Hr]. destruct Hin as [E|Hin]; [subst; exact H0|apply IH; assumption].
Qed.

Lemma NoDup_attr_names s : forall fs,
  NoDup (item_names s) -> NoDup (map fst (zipflat fld_attrs s fs)).
Proof.
  induction s as [|f s' IH]; destruct fs as [|x fs']; simpl; try (intros; constructor).
  intro Hnd. rewrite map_app. unfold fld_attrs at 1.
  destruct (is_attr_kind (f_kind f)) eqn:K; cbn [andb]; [|apply IH; eapply NoDup_item_names_tail; exact Hnd].
  destruct (negb (attr_skipped (snd f) x)); cbn [map app]; [|apply IH; eapply NoDup_item_names_tail; exact Hnd].
  constructor; [|apply IH; eapply NoDup_item_names_tail; exact Hnd].
  intro Hin. rewrite in_map_iff in Hin. destruct Hin as [p [E Hp]].
  apply zipflat_attr_names in Hp. rewrite E in Hp. revert Hp.
  apply NoDup_item_names_head; [exact Hnd|]. unfold is_item_kind. rewrite K. reflexivity.
Qed.

Definition EOK (t : fty) : Prop :=
  forall v, wf_ty false t = true -> vtyped t v = true ->
  exists items, enc_body t v = Some items /\ file_names_ok (afile_of items).
Fixpoint deepEOK (t : fty) : Prop :=
  match t with
  | FPtr t' | FSlice t' => deepEOK t'
  | FStruct _ => EOK t
  | _ => True
  end.
Lemma deepEOK_block ft sb : block_ty ft sb -> deepEOK ft -> EOK (FStruct sb).
Proof. intro H. destruct H; simpl; auto. Qed.

Lemma all_deepEOK : forall t, deepEOK t.
Proof.
  apply fty_ind'; simpl; auto.
  intros s IH v Hw Hv. rewrite Forall_forall in IH.
  destruct (vtyped_struct_inv _ _ Hv) as [fs [E Ht]]. subst v.
  destruct (wf_ty_struct _ _ Hw) as [_ [Hnd Hwf]].
  assert (Hnest : forall f x, In (f, x) (combine s fs) -> f_kind f = KBlock ->
            forall y, In y (bvals (snd f) x) ->
            exists sb, block_ty (snd f) sb /\ is_ident (f_name f) = true /\
                       enc_body (FStruct sb) y = Some (items_of (FStruct sb) y) /\
                       file_names_ok (afile_of (items_of (FStruct sb) y))).
  { intros f x Hin K y Hy.
    assert (Hfin := in_combine_l _ _ _ _ Hin).
    destruct (wf_field_block false f K (Hwf f Hfin)) as [Hid [sb [Hb Hwb]]].
    exists sb. split; [exact Hb|]. split; [exact Hid|].
    assert (Hty : vtyped (FStruct sb) y = true).
    { eapply bvals_typed; [exact Hb| |exact Hy]. eapply fields_typed_in; eassumption. }
    destruct (deepEOK_block _ _ Hb (IH f Hfin) y Hwb Hty) as [it [Ei Hok]].
    unfold items_of. rewrite Ei. split; [reflexivity|exact Hok]. }
  destruct (enc_fields_spec false s fs false Hwf Ht) as [items [E [E1 E2]]].
  { intros f x Hin K y Hy. destruct (Hnest f x Hin K y Hy) as [sb [Hb [_ [Ei _]]]].
    rewrite (bstruct_block_ty _ _ Hb), Ei. discriminate. }
  exists items. split; [exact (enc_body_struct false s fs Hw items E)|].
  unfold afile_of. rewrite E1, E2. cbn [file_names_ok]. split; [apply NoDup_attr_names; exact Hnd|]. split.
  - intros p Hp. apply zipflat_in in Hp as [f [x [Hin Hp]]]. apply fld_attrs_in in Hp as [En K]. rewrite En.
    destruct (wf_field_attr false f K (Hwf f (in_combine_l _ _ _ _ Hin))) as [Hid _]. exact Hid.
  - apply (file_names_ok_blocks (fun bl => is_ident (fst (fst bl)) = true /\ file_names_ok (snd bl))).
    intros bl Hbl. apply zipflat_in in Hbl as [f [x [Hin Hbl]]].
    unfold fld_ablocks in Hbl. destruct (f_kind f) eqn:K; simpl in Hbl; try contradiction.
    rewrite in_map_iff in Hbl. destruct Hbl as [y [Ebl Hy]].
    destruct (Hnest f x Hin K y Hy) as [sb [Hb [Hid [_ Hok]]]].
    rewrite (bstruct_block_ty _ _ Hb) in Ebl. subst bl. unfold mk_ablock. cbn [fst snd].
    split; [exact Hid|exact Hok].
Qed.

(* EncodeIntoBody does not panic on a value of a well-formed type, and the file it builds
   has identifier names, pairwise distinct among the attributes of each body *)
Theorem encode_total : forall s v,
  wf_schema s -> vtyped (FStruct s) v = true ->
  exists items, encode_items s v = Some items /\ file_names_ok (afile_of items).
Proof. intros s v Hw Ht. apply (all_deepEOK (FStruct s)); assumption. Qed.

(* ---- the destination body: EncodeIntoBody REPLACES, whatever the body held ------------------ *)
Section WitemInd.
  Variable P : witem -> Prop.
  Hypothesis Ha : forall n v, P (WAttr n v).
  Hypothesis Hn : P WNewline.
  Hypothesis Hb : forall ty ls body, Forall P body -> P (WBlock ty ls body).
  Fixpoint witem_ind' (i : witem) : P i :=
    match i with
    | WAttr n v => Ha n v
    | WNewline => Hn
    | WBlock ty ls body =>
        Hb ty ls body ((fix go (l : list witem) : Forall P l :=
                          match l with
                          | [] => Forall_nil _
                          | x :: r => Forall_cons x (witem_ind' x) (go r)
                          end) body)
    end.
End WitemInd.

Definition wattr_names (b : list witem) : list (list Z) := map fst (flat_map item_attr b).

Lemma NoDup_app_tail {A} (l l' : list A) : NoDup (l ++ l') -> NoDup l'.
Proof. induction l as [|a l IH]; cbn; [auto|]. intro H. inversion H; subst. auto. Qed.

Lemma wattr_names_app a b : wattr_names (a ++ b) = wattr_names a ++ wattr_names b.
Proof. unfold wattr_names. rewrite flat_map_app, map_app. reflexivity. Qed.

(* SetAttributeValue of a name the body does not hold appends *)
Lemma wb_set_attr_fresh n v : forall b, ~ In n (wattr_names b) -> wb_set_attr n v b = b ++ [WAttr n v].
Proof.
  induction b as [|i r IH]; intro Hn; [reflexivity|].
  destruct i as [n' v'| |ty ls body]; cbn [wb_set_attr app].
  - destruct (str_eqb n n') eqn:E.
    + apply str_eqb_eq in E. subst n'. exfalso. apply Hn. left. reflexivity.
    + rewrite IH; [reflexivity|]. intro H. apply Hn. right. exact H.
  - rewrite IH; [reflexivity|exact Hn].
  - rewrite IH; [reflexivity|exact Hn].
Qed.

(* the file of the calls has distinct attribute names in every body (what encode_total gives) *)
Definition calls_ok (calls : list witem) : Prop := file_names_ok (afile_of calls).

Lemma calls_ok_nodup calls : calls_ok calls -> NoDup (wattr_names calls).
Proof. unfold calls_ok, afile_of. cbn [file_names_ok]. intros [H _]. exact H. Qed.

Lemma calls_ok_block calls ty ls body :
  calls_ok calls -> In (WBlock ty ls body) calls -> calls_ok body.
Proof.
  unfold calls_ok at 1, afile_of. cbn [file_names_ok]. intros [_ [_ Hb]] Hin.
  assert (Hbl : In (ty, ls, afile_of body) (flat_map item_blocks calls)).
  { apply in_flat_map. exists (WBlock ty ls body). split; [exact Hin|]. left. reflexivity. }
  destruct (blocks_all_in (fun bl => is_ident (fst (fst bl)) = true /\ file_names_ok (snd bl)) _ Hb _ Hbl) as [_ H].
  exact H.
Qed.

Definition run_fresh (c : witem) : Prop :=
  match c with
  | WBlock ty ls body => calls_ok body -> fold_left wb_call body [] = body
  | _ => True
  end.

Lemma wb_run_app : forall calls, Forall run_fresh calls -> calls_ok calls ->
  forall keep : list witem, (forall c, In c calls -> In c keep) -> calls_ok keep ->
  forall pre, NoDup (wattr_names pre ++ wattr_names calls) ->
  fold_left wb_call calls pre = pre ++ calls.
Proof.
  induction calls as [|c r IH]; intros HF Hok keep Hsub Hkeep pre Hnd; [cbn; rewrite app_nil_r; reflexivity|].
  inversion HF as [|c0 r0 Hc Hr]; subst c0 r0.
  cbn [fold_left].
  assert (Hok_r : calls_ok r).
  { clear - Hok. unfold calls_ok, afile_of in *. cbn [file_names_ok flat_map] in *.
    destruct Hok as [H1 [H2 H3]]. split; [|split].
    - rewrite map_app in H1. eapply NoDup_app_tail. exact H1.
    - intros p Hp. apply H2. apply in_or_app. right. exact Hp.
    - apply (file_names_ok_blocks (fun bl => is_ident (fst (fst bl)) = true /\ file_names_ok (snd bl))).
      intros bl Hbl. apply (blocks_all_in _ _ H3). apply in_or_app. right. exact Hbl. }
  assert (Hsub_r : forall c', In c' r -> In c' keep) by (intros c' H'; apply Hsub; right; exact H').
  destruct c as [n v| |ty ls body].
  - (* attribute: its name is held neither by pre nor by the rest *)
    assert (Hn : ~ In n (wattr_names pre)).
    { intro Hin. unfold wattr_names at 2 in Hnd. cbn [flat_map item_attr app map fst] in Hnd.
      apply NoDup_remove_2 in Hnd. apply Hnd. apply in_or_app. left. exact Hin. }
    cbn [wb_call]. rewrite (wb_set_attr_fresh n v pre Hn).
    rewrite (IH Hr Hok_r keep Hsub_r Hkeep).
    + rewrite <- app_assoc. reflexivity.
    + rewrite wattr_names_app. unfold wattr_names at 2. cbn [flat_map item_attr app map fst].
      rewrite <- app_assoc. cbn [app].
      unfold wattr_names at 2 in Hnd. cbn [flat_map item_attr app map fst] in Hnd. exact Hnd.
  - cbn [wb_call]. rewrite (IH Hr Hok_r keep Hsub_r Hkeep).
    + rewrite <- app_assoc. reflexivity.
    + rewrite wattr_names_app. unfold wattr_names at 2. cbn [flat_map item_attr app map]. rewrite app_nil_r. exact Hnd.
  - cbn [wb_call]. cbn [run_fresh] in Hc.
    rewrite Hc; [|apply (calls_ok_block keep ty ls body Hkeep); apply Hsub; left; reflexivity].
    rewrite (IH Hr Hok_r keep Hsub_r Hkeep).
    + rewrite <- app_assoc. reflexivity.
    + rewrite wattr_names_app. unfold wattr_names at 2. cbn [flat_map item_attr app map]. rewrite app_nil_r. exact Hnd.
Qed.

Lemma all_run_fresh : forall c, run_fresh c.
Proof.
  apply witem_ind'; cbn [run_fresh]; auto.
  intros ty ls body HF Hok.
  rewrite (wb_run_app body HF Hok body (fun c H => H) Hok []); [reflexivity|].
  cbn [wattr_names flat_map map app]. apply calls_ok_nodup. exact Hok.
Qed.

(* on an empty body the calls of populateBody leave exactly the items they name: no
   SetAttributeValue finds an attribute to replace *)
Lemma wb_run_fresh calls : calls_ok calls -> wb_run calls [] = calls.
Proof.
  intro Hok. unfold wb_run.
  rewrite (wb_run_app calls (proj2 (Forall_forall _ _) (fun c _ => all_run_fresh c)) Hok calls (fun c H => H) Hok []);
    [reflexivity|].
  cbn [wattr_names flat_map map app]. apply calls_ok_nodup. exact Hok.
Qed.

(* EncodeIntoBody into ANY destination body — whatever items it held before: the result is
   the body a fresh destination gets, item for item; nothing of dst survives, nothing is
   replaced in place, nothing is left out. *)
Theorem encode_into_any_dest : forall dst s v,
  wf_schema s -> vtyped (FStruct s) v = true ->
  exists items, encode_items s v = Some items /\ encode_into dst s v = Some items.
Proof.
  intros dst s v Hw Ht. destruct (encode_total s v Hw Ht) as [items [E Hok]].
  exists items. split; [exact E|]. unfold encode_into. rewrite E. unfold wb_clear.
  rewrite (wb_run_fresh items Hok). reflexivity.
Qed.

Corollary encode_into_dest_irrelevant : forall dst1 dst2 s v, encode_into dst1 s v = encode_into dst2 s v.
Proof. intros. reflexivity. Qed.

(* ---- from the abstract file to source text and back: C12, C02, C11 as hypotheses ---------- *)
Section Pipeline.
  Variable src : Type.                          (* source text *)

  (* C11: the value generator and the expression reader *)
  Variable value_src : val -> src.              (* hclwrite.TokensForValue(v) as bytes *)
  Variable read_value : src -> option val.      (* hclsyntax parse + Value(nil); None on diagnostics *)
  Variable gen_ok : val -> Prop.                (* the values C11's law covers (valid NFC strings,
                                                   no mapping whose first key is `for`, ...) *)
  Variable label_ok : list Z -> Prop.           (* the label strings C11's label law covers *)

  (* a parsed body: attributes with the source of their expression, blocks *)
  Inductive pbody := PBody (attrs : list (list Z * src)) (blocks : list (list Z * list (list Z) * pbody)).

  (* C12: the writer and the text its specification predicts for a sequence of calls *)
  Variable write : list witem -> src.           (* SetAttributeValue / AppendNewline / AppendBlock on an
                                                   empty file, then Bytes() *)
  Variable layout : list witem -> src.          (* predicted text; attribute expressions by value_src *)
  (* C02: the structure parser *)
  Variable read_body : src -> option pbody.     (* hclsyntax.ParseConfig; None on diagnostics *)

  (* all attribute values and labels of a file are in the domain of C11's laws *)
  Fixpoint file_vals_ok (f : afile) : Prop :=
    match f with
    | AFile a b =>
        (forall p, In p a -> gen_ok (snd p)) /\
        (fix all (l : list ablock) : Prop :=
           match l with
           | [] => True
           | bl :: r => ((forall l0, In l0 (snd (fst bl)) -> label_ok l0) /\ file_vals_ok (snd bl)) /\ all r
           end) b
    end.
  Definition file_dom (f : afile) : Prop := file_names_ok f /\ file_vals_ok f.

  Fixpoint pfile_of (f : afile) : pbody :=
    match f with
    | AFile a b => PBody (map (fun p => (fst p, value_src (snd p))) a)
                         (map (fun bl : ablock => (fst bl, pfile_of (snd bl))) b)
    end.

  (* H12 (C12 output_in_grammar / model agreement): the calls produce the predicted text *)
  Hypothesis H12 : forall items, file_dom (afile_of items) -> write items = layout items.
  (* H02 (C02 body_roundtrip): the predicted text parses, without diagnostics, to exactly the
     written attributes (with the generated expression sources) and blocks (with the labels) *)
  Hypothesis H02 : forall items, file_dom (afile_of items) ->
    read_body (layout items) = Some (pfile_of (afile_of items)).
  (* H11 (C11 value_roundtrip): generated value source evaluates to the value, as the parser
     types it (lists as tuples, maps as objects, null untyped) *)
  Hypothesis H11 : forall v, gen_ok v -> read_value (value_src v) = Some (reread v).

  (* evaluating every attribute of a parsed body in a nil context *)
  Fixpoint eval_pbody (p : pbody) : option afile :=
    match p with
    | PBody a b =>
        match opt_all (map (fun kv : list Z * src =>
                              match read_value (snd kv) with Some v => Some (fst kv, v) | None => None end) a),
              opt_all (map (fun bl : list Z * list (list Z) * pbody =>
                              match eval_pbody (snd bl) with Some f => Some (fst bl, f) | None => None end) b)
        with
        | Some a', Some b' => Some (AFile a' b')
        | _, _ => None
        end
    end.

  (* bytes -> abstract file: hclsyntax.ParseConfig, then every attribute evaluated *)
  Definition read_file (s : src) : option afile :=
    match read_body s with Some p => eval_pbody p | None => None end.

  Lemma eval_pfile : forall f, file_vals_ok f -> eval_pbody (pfile_of f) = Some (reread_file f).
  Proof.
    apply (afile_ind' (fun f => file_vals_ok f -> eval_pbody (pfile_of f) = Some (reread_file f))).
    intros a b IH [Ha Hb]. cbn [pfile_of eval_pbody].
    assert (Ea : opt_all (map (fun kv : list Z * src =>
                    match read_value (snd kv) with Some v => Some (fst kv, v) | None => None end)
                    (map (fun p : list Z * val => (fst p, value_src (snd p))) a))
                 = Some (map (fun p => (fst p, reread (snd p))) a)).
    { rewrite map_map. apply opt_all_map_some. intros p Hp. cbn [fst snd]. rewrite (H11 _ (Ha p Hp)). reflexivity. }
    rewrite Ea.
    assert (Eb : opt_all (map (fun bl : list Z * list (list Z) * pbody =>
                    match eval_pbody (snd bl) with Some f => Some (fst bl, f) | None => None end)
                    (map (fun bl : ablock => (fst bl, pfile_of (snd bl))) b))
                 = Some (map (fun bl : ablock => (fst bl, reread_file (snd bl))) b)).
    { rewrite map_map. apply opt_all_map_some. intros bl Hbl. cbn [fst snd].
      rewrite Forall_forall in IH.
      assert (Hq := blocks_all_in (fun bl : ablock =>
                      (forall l0, In l0 (snd (fst bl)) -> label_ok l0) /\ file_vals_ok (snd bl)) b Hb bl Hbl).
      rewrite (IH bl Hbl (proj2 Hq)). reflexivity. }
    rewrite Eb. reflexivity.
  Qed.

  (* what the writer wrote reads back as the abstract file, as the parser types it *)
  Theorem pipeline_roundtrip : forall items,
    file_dom (afile_of items) -> read_file (write items) = Some (reread_file (afile_of items)).
  Proof.
    intros items Hd. unfold read_file. rewrite (H12 _ Hd), (H02 _ Hd). apply eval_pfile. apply Hd.
  Qed.

  (* C16, at the level of source text: encode, write, read, decode *)
  Theorem text_roundtrip : forall s v,
    rt_schema s -> vtyped (FStruct s) v = true ->
    exists items, encode_items s v = Some items /\
      (file_vals_ok (afile_of items) ->
       exists f, read_file (write items) = Some f /\ decode s f = DOk (norm s v) []).
  Proof.
    intros s v Hw Ht.
    destruct (encode_total s v (rt_schema_wf s Hw) Ht) as [items [E Hn]].
    exists items. split; [exact E|]. intro Hv.
    exists (reread_file (afile_of items)). split; [apply pipeline_roundtrip; split; assumption|].
    destruct (decode_encode s v Hw Ht) as [f [Ef D]]. unfold encode in Ef. rewrite E in Ef.
    inversion Ef; subst f. exact D.
  Qed.
End Pipeline.

(* the hypotheses of [json_decode_same] are satisfiable: a body denotes itself *)
Lemma content_rel_refl (c : content afile) : content_rel (@eq afile) c c.
Proof.
  unfold content_rel. split; [reflexivity|]. split.
  - induction (c_blocks c) as [|b r IH]; constructor; [split; reflexivity|exact IH].
  - split; [reflexivity|apply same_err_refl].
Qed.
