(* Eval/Impl.v — executable model of the HCL native-syntax evaluator, mirroring the
   Value methods of hclsyntax/expression.go, expression_ops.go,
   expression_template.go and hcl.Index / hcl.GetAttr (ops.go), Traversal
   (traversal.go).  One Gallina function per Go function, same order of checks,
   diagnostics appended in the same order.  Definitions only.

   eval returns the value and the diagnostics.  A diagnostic carries the summary
   (as an id, table below) and the *fragments* of dynamic data formatted into its
   detail text (used by C19).  DUnsupported is not a Go diagnostic: it marks a
   situation whose go-cty result the model does not reproduce; the comparison
   skips such cases and counts them. *)
From Coq Require Import QArith.
From HclV Require Import Base.Prelude Cty.Values Cty.Convert Cty.Ops.
Open Scope Z_scope.

(* ---- diagnostics ----------------------------------------------------------------- *)
Inductive frag :=
| FStr (s : list Z) (m : marks)   (* a string formatted with %q / %s; m = marks the value carried *)
| FTy (t : ty)                    (* a type's friendly name *)
| FConv (e : conv_err).           (* text of a conversion error *)

Record diag := mkDiag { d_err : bool; d_sum : Z; d_frags : list frag }.
Definition derr (sum : Z) (fr : list frag) : diag := mkDiag true sum fr.

(* summary ids (the harness maps hcl.Diagnostic.Summary to the same ids) *)
Definition S_IndexNull := 1.         (* Attempt to index null value *)
Definition S_InvalidIndex := 2.
Definition S_GetAttrNull := 3.       (* Attempt to get attribute from null value *)
Definition S_UnsupportedAttr := 4.
Definition S_MissingMapElem := 5.
Definition S_VarsNotAllowed := 6.
Definition S_UnknownVar := 7.
Definition S_FuncsNotAllowed := 8.
Definition S_UnknownFunc := 9.
Definition S_InvalidExpand := 10.
Definition S_NotEnoughArgs := 11.
Definition S_TooManyArgs := 12.
Definition S_InvalidFuncArg := 13.
Definition S_ErrorInCall := 14.
Definition S_InconsistentCond := 15.
Definition S_NullCondition := 16.
Definition S_IncorrectCondType := 17.
Definition S_NullKey := 18.
Definition S_IncorrectKeyType := 19.
Definition S_AmbiguousKey := 20.
Definition S_IterNull := 21.
Definition S_IterNonIterable := 22.
Definition S_ConditionIsNull := 23.
Definition S_InvalidForCond := 24.
Definition S_InvalidObjKey := 25.
Definition S_DuplicateKey := 26.
Definition S_SplatNull := 27.
Definition S_NestedSplat := 28.
Definition S_InvalidOperand := 29.
Definition S_OperationFailed := 30.
Definition S_InvalidTemplateInterp := 31.
Definition S_Unsupported := 900.     (* model limitation, not a Go diagnostic *)

Definition dunsupported : diag := mkDiag false S_Unsupported [].
Definition has_errors (ds : list diag) : bool := existsb d_err ds.
Definition has_unsupported (ds : list diag) : bool := existsb (fun d => d_sum d =? S_Unsupported) ds.

(* ---- expressions (one constructor per hclsyntax node type) -------------------------- *)
Inductive step := SAttr (name : list Z) | SIndex (key : val).

(* functions available to expressions: the fixed table of the harness *)
Record fparam := mkParam { p_name : list Z; p_ty : ty; p_null : bool; p_unknown : bool; p_dyn : bool; p_marked : bool }.
Record fn := mkFn {
  f_params : list fparam;
  f_varparam : option fparam;
  f_rettype : list val -> option ty;      (* None = type error from the function *)
  f_impl : list val -> ty -> ores
}.

Inductive expr :=
| ELit (v : val)
| EScopeTrav (root : list Z) (steps : list step)
| ERelTrav (src : expr) (steps : list step)
| ECall (name : list Z) (args : list expr) (expand : bool)
| ECond (c t f : expr)
| EIndex (coll key : expr)
| ETuple (es : list expr)
| EObj (items : list (expr * expr))
| EObjKey (wrapped : expr) (force : bool)
| EFor (kv vv : list Z) (coll : expr) (key : option expr) (vl : expr) (cond : option expr) (group : bool)
| ESplat (src each : expr)
| EAnon
| EBin (op : binop) (l r : expr)
| EUn (op : unop) (e : expr)
| ETmpl (parts : list expr)
| EJoin (tuple : expr)
| EWrap (e : expr)
| EParen (e : expr).

(* evaluation context: frames innermost first; None = nil map *)
Record frame := mkFrame { fvars : option (list (list Z * val)); ffuncs : option (list (list Z * fn)) }.
Definition ctx := list frame.
Definition child_ctx (c : ctx) (vars : list (list Z * val)) : ctx := mkFrame (Some vars) None :: c.

(* ---- hcl.Index (ops.go) -------------------------------------------------------------- *)
Definition index (coll key : val) : val * list diag :=
  if is_null coll then (dyn_val, [derr S_IndexNull []])
  else if is_null key then (dyn_val, [derr S_InvalidIndex []])
  else
  let ty := type_of coll in
  let kty := type_of key in
  if ty_eqb kty TDyn || ty_eqb ty TDyn then (with_same_marks (with_same_marks dyn_val coll) key, [])
  else
  match ty with
  | TList _ | TTuple _ | TMap _ =>
      let want := match ty with TMap _ => TStr | _ => TNum end in
      match conv key want with
      | CUnsupported => (dyn_val, [dunsupported])
      | CErr e => (dyn_val, [derr S_InvalidIndex [FConv e]])
      | COk key' =>
          let '(cu, cm) := unmark coll in
          let '(ku, km) := unmark key' in
          match has_index cu ku with
          | HUnknown =>
              match ty with
              | TTuple _ => (with_marks (with_same_marks dyn_val coll) km, [])
              | TList et | TMap et => (with_marks (with_same_marks (VUnk et rf_none) coll) km, [])
              | _ => (dyn_val, [dunsupported])
              end
          | HFalse => (dyn_val, [derr S_InvalidIndex []])
          | HTrue =>
              match index_known cu ku with
              | Some v => (with_marks (with_marks v cm) km, [])
              | None => (dyn_val, [dunsupported])
              end
          end
      end
  | TObj fs =>
      match conv key TStr with
      | CUnsupported => (dyn_val, [dunsupported])
      | CErr e => (dyn_val, [derr S_InvalidIndex [FConv e]])
      | COk key' =>
          if negb (is_known key') then (with_same_marks (with_same_marks dyn_val coll) key', [])   (* fix dd4fa25 *)
          else
          match fst (unmark key') with
          | VStr name =>
              match assoc_get name fs with
              | None => (dyn_val, [derr S_InvalidIndex []])
              | Some at_ =>
                  if negb (is_known coll) then (with_same_marks (VUnk at_ rf_none) coll, [])
                  else
                  let '(cu, cm) := unmark coll in
                  match cu with
                  | VObj kvs => match assoc_get name kvs with
                                | Some v => (with_marks v cm, [])
                                | None => (dyn_val, [dunsupported]) end
                  | _ => (dyn_val, [dunsupported])
                  end
              end
          | _ => (dyn_val, [dunsupported])
          end
      end
  | TSet _ => (dyn_val, [derr S_InvalidIndex []])
  | _ => (dyn_val, [derr S_InvalidIndex []])
  end.

(* ---- hcl.GetAttr (ops.go) -------------------------------------------------------------- *)
Definition get_attr (obj : val) (name : list Z) : val * list diag :=
  if is_null obj then (dyn_val, [derr S_GetAttrNull []])
  else
  match type_of obj with
  | TObj fs =>
      match assoc_get name fs with
      | None => (dyn_val, [derr S_UnsupportedAttr [FStr name []]])
      | Some at_ =>
          if negb (is_known obj) then (with_same_marks (VUnk at_ rf_none) obj, [])
          else
          let '(ou, om) := unmark obj in
          match ou with
          | VObj kvs => match assoc_get name kvs with
                        | Some v => (with_marks v om, [])
                        | None => (dyn_val, [dunsupported]) end
          | _ => (dyn_val, [dunsupported])
          end
      end
  | TMap et =>
      if negb (is_known obj) then (with_same_marks (VUnk et rf_none) obj, [])
      else
      let '(ou, om) := unmark obj in
      match ou with
      | VMap _ kvs =>
          match assoc_get name kvs with
          | None => (dyn_val, [derr S_MissingMapElem [FStr name []]])
          | Some v => (with_marks v om, [])
          end
      | _ => (dyn_val, [dunsupported])
      end
  | TDyn => (with_same_marks dyn_val obj, [])
  | TList (TObj fs) =>
      (dyn_val, [derr S_UnsupportedAttr (match assoc_get name fs with Some _ => [FStr name []] | None => [] end)])
  | TSet (TObj _) => (dyn_val, [derr S_UnsupportedAttr []])
  | TStr | TNum | TBool => (dyn_val, [derr S_UnsupportedAttr [FTy (type_of obj)]])
  | _ => (dyn_val, [derr S_UnsupportedAttr []])
  end.

(* Traversal.TraverseRel *)
Fixpoint traverse_rel (steps : list step) (v : val) (acc : list diag) : val * list diag :=
  match steps with
  | [] => (v, acc)
  | s :: r =>
      let '(v', ds) := match s with SAttr n => get_attr v n | SIndex k => index v k end in
      if has_errors ds then (dyn_val, acc ++ ds) else traverse_rel r v' (acc ++ ds)
  end.

(* Traversal.TraverseAbs: walk the context chain *)
Fixpoint lookup_var (c : ctx) (name : list Z) (seen_map : bool) : option val * bool :=
  match c with
  | [] => (None, seen_map)
  | f :: r =>
      match fvars f with
      | None => lookup_var r name seen_map
      | Some vs => match assoc_get name vs with
                   | Some v => (Some v, true)
                   | None => lookup_var r name true end
      end
  end.

Definition traverse_abs (c : ctx) (root : list Z) (steps : list step) : val * list diag :=
  match lookup_var c root false with
  | (Some v, _) => traverse_rel steps v []
  | (None, false) => (dyn_val, [derr S_VarsNotAllowed []])
  | (None, true) => (dyn_val, [derr S_UnknownVar [FStr root []]])
  end.

Fixpoint lookup_fn (c : ctx) (name : list Z) (seen_map : bool) : option fn * bool :=
  match c with
  | [] => (None, seen_map)
  | f :: r =>
      match ffuncs f with
      | None => lookup_fn r name seen_map
      | Some fs => match assoc_get name fs with
                   | Some x => (Some x, true)
                   | None => lookup_fn r name true end
      end
  end.

(* ---- function.Function.Call ----------------------------------------------------------- *)
Definition param_for (f : fn) (i : nat) : option fparam :=
  match nth_opt (f_params f) i with Some p => Some p | None => f_varparam f end.

(* conformance of a value's type with a parameter type (TestConformance) *)
Fixpoint conforms (fuel : nat) (have want : ty) : bool :=
  match fuel with
  | O => false
  | S f =>
      match want with
      | TDyn => true
      | _ =>
          match have, want with
          | TList a, TList b | TSet a, TSet b | TMap a, TMap b => conforms f a b
          | TTuple xs, TTuple ys => (length xs =? length ys)%nat && forallb (fun p => conforms f (fst p) (snd p)) (combine xs ys)
          | TObj xs, TObj ys => (length xs =? length ys)%nat &&
              forallb (fun p => str_eqb (fst (fst p)) (fst (snd p)) && conforms f (snd (fst p)) (snd (snd p))) (combine xs ys)
          | _, _ => ty_eqb have want
          end
      end
  end.

Inductive call_res := CallOk (v : val) | CallArgErr (i : nat) | CallErr | CallUnsupported.

Fixpoint call_check (f : fn) (i : nat) (args : list val) : option call_res * bool (* dyn-typed arg *) :=
  match args with
  | [] => (None, false)
  | a :: r =>
      match param_for f i with
      | None => (Some CallErr, false)
      | Some p =>
          if is_null a && negb (p_null p) then (Some (CallArgErr i), false)
          else if ty_eqb (type_of a) TDyn then
            (if negb (p_dyn p) then (None, true)   (* returns DynamicPseudoType, dynTypeArgs *)
             else call_check f (S i) r)
          else if negb (conforms (S (ty_size (type_of a))) (type_of a) (p_ty p)) then (Some (CallArgErr i), false)
          else call_check f (S i) r
      end
  end.

Definition fn_call (f : fn) (args : list val) : call_res :=
  match call_check f 0 args with
  | (Some r, _) => r
  | (None, dynarg) =>
      (* marks: parameters without AllowMarked get deeply unmarked arguments, marks go to the result *)
      let prep := map (fun ia => match param_for f (fst ia) with
                                 | Some p => if p_marked p then (snd ia, []) else (unmark_deep (snd ia), deep_marks (snd ia))
                                 | None => (snd ia, []) end)
                      (combine (seq 0 (length args)) args) in
      let args' := map fst prep in
      let rmarks := marks_unions (map snd prep) in
      let unknown_arg := existsb (fun ia => match param_for f (fst ia) with
                                            | Some p => negb (is_known (snd ia)) && negb (p_unknown p)
                                            | None => false end)
                                 (combine (seq 0 (length args)) args) in
      if dynarg then CallOk (with_marks dyn_val rmarks)
      else
      match f_rettype f args' with
      | None => CallErr
      | Some rt =>
          if unknown_arg then CallOk (with_marks (VUnk rt rf_none) rmarks)
          else match f_impl f args' rt with
               | OOk v => CallOk (with_marks v rmarks)
               | OErr _ => CallErr
               | OUnsupported => CallUnsupported
               end
      end
  end.

(* ---- helpers for conditionals ---------------------------------------------------------- *)
Definition is_dyn_null (v : val) : bool := match v with VNull TDyn => true | _ => false end.

Definition rf_of (v : val) : option refn :=
  match v with VUnk _ (RExact r) => Some r | _ => None end.
(* Range().DefinitelyNotNull() of an unmarked value *)
Definition definitely_not_null (v : val) : option bool :=
  match v with
  | VNull _ => Some false
  | VUnk _ RWild => None
  | VUnk _ (RExact r) => Some (r_notnull r)
  | _ => Some true
  end.
(* numeric bounds of the range of an unmarked number value *)
Definition num_lo (v : val) : option (option (num * bool)) :=
  match v with
  | VNum n => Some (Some (n, true))
  | VUnk _ (RExact r) => Some (r_lo r)
  | VNull _ => Some None
  | _ => None
  end.
Definition num_hi (v : val) : option (option (num * bool)) :=
  match v with
  | VNum n => Some (Some (n, true))
  | VUnk _ (RExact r) => Some (r_hi r)
  | VNull _ => Some None
  | _ => None
  end.
Definition len_lo (v : val) : option Z :=
  match v with
  | VUnk _ (RExact r) => Some (r_lenlo r)
  | VUnk _ RWild => None
  | VNull _ => Some 0
  | VSet _ l => if wholly_known v then Some (Z.of_nat (length l)) else None
  | _ => Some (length_int v)
  end.
Definition len_hi (v : val) : option (option Z) :=
  match v with
  | VUnk _ (RExact r) => Some (r_lenhi r)
  | VUnk _ RWild => None
  | VNull _ => Some None
  | VSet _ l => if wholly_known v then Some (Some (Z.of_nat (length l))) else None
  | _ => Some (Some (length_int v))
  end.

(* ---- the evaluator ---------------------------------------------------------------------- *)
(* literalName of ObjectConsKeyExpr = hcl.ExprAsKeyword(wrapped) *)
Definition literal_name (e : expr) : option (list Z) :=
  match e with
  | EScopeTrav root [] => Some root
  | ELit (VNull _) => Some [110;117;108;108]
  | ELit (VBool true) => Some [116;114;117;101]
  | ELit (VBool false) => Some [102;97;108;115;101]
  | _ => None
  end.

Definition bool_of (v : val) : option bool := match v with VBool b => Some b | _ => None end.

(* eval_with idx: the evaluator, parametric in the function used for IndexExpr (hcl.Index).
   The implementation is [eval := eval_with index]; the parameter exists so that theorems can
   say precisely which property of hcl.Index they depend on. *)
Fixpoint eval_with (idx : val -> val -> val * list diag)
         (fuel : nat) (c : ctx) (anon : option val) (e : expr) {struct fuel} : val * list diag :=
  match fuel with
  | O => (dyn_val, [dunsupported])
  | S f =>
  let ev := eval_with idx f in
  match e with
  | ELit v => (v, [])
  | EParen e' => ev c anon e'
  | EWrap e' => ev c anon e'
  | EAnon => (match anon with Some v => v | None => dyn_val end, [])
  | EScopeTrav root steps => traverse_abs c root steps
  | ERelTrav src steps =>
      let '(v, ds) := ev c anon src in
      let '(r, ds') := traverse_rel steps v [] in
      (r, ds ++ ds')

  | EIndex coll key =>
      let '(cv, cds) := ev c anon coll in
      let '(kv, kds) := ev c anon key in
      let '(r, ids) := idx cv kv in
      (r, cds ++ kds ++ ids)

  | ETuple es =>
      let rs := map (ev c anon) es in
      (VTuple (map fst rs), concat (map snd rs))

  | EObjKey wrapped force =>
      if negb force then
        match wrapped with
        | EScopeTrav _ (_ :: _) => (dyn_val, [derr S_AmbiguousKey []])
        | _ => match literal_name wrapped with
               | Some n => (VStr n, [])
               | None => ev c anon wrapped
               end
        end
      else ev c anon wrapped

  | EObj items =>
      (* returns (vals, marks, known, diags) folded left to right *)
      let step_item (st : list (list Z * val) * list marks * bool * list diag) (it : expr * expr) :=
        let '(vals, mks, known, ds) := st in
        let '(k, kds) := ev c anon (fst it) in
        let '(v, vds) := ev c anon (snd it) in
        let ds := ds ++ kds ++ vds in
        if has_errors kds then (vals, mks, false, ds)
        else if is_null k then (vals, mks, false, ds ++ [derr S_NullKey []])
        else
        let '(ku, km) := unmark k in
        let mks := mks ++ [km] in
        match conv ku TStr with
        | CUnsupported => (vals, mks, false, ds ++ [dunsupported])
        | CErr ce => (vals, mks, false, ds ++ [derr S_IncorrectKeyType [FConv ce]])
        | COk ks =>
            match ks with
            | VStr s => (assoc_set s v vals, mks, known, ds)
            | _ => (vals, mks, false, ds)         (* unknown key *)
            end
        end in
      let '(vals, mks, known, ds) := fold_left step_item items ([], [], true, []) in
      if negb known then (with_marks dyn_val (marks_unions mks), ds)
      else (with_marks (VObj vals) (marks_unions mks), ds)

  | EUn op e' =>
      let '(gv, ds) := ev c anon e' in
      match conv gv (unop_param op) with
      | CUnsupported => (VUnk (unop_type op) rf_none, ds ++ [dunsupported])
      | CErr ce => (VUnk (unop_type op) rf_none, ds ++ [derr S_InvalidOperand [FConv ce]])
      | COk v =>
          if has_errors ds then (VUnk (unop_type op) rf_none, ds)
          else
          let '(vu, vm) := unmark v in
          match call_unop op vu with
               | OOk r => (with_marks r vm, ds)
               | OErr _ => (VUnk (unop_type op) rf_none, ds ++ [derr S_OperationFailed []])
               | OUnsupported => (VUnk (unop_type op) rf_none, ds ++ [dunsupported])
               end
      end

  | EBin op l r =>
      let '(glv, lds) := ev c anon l in
      let lc := conv glv (binop_param op) in
      let ds1 := match lc with CErr ce => [derr S_InvalidOperand [FConv ce]] | CUnsupported => [dunsupported] | _ => [] end in
      let '(grv, rds) := ev c anon r in
      let rc := conv grv (binop_param op) in
      let ds2 := ds1 ++ match rc with CErr ce => [derr S_InvalidOperand [FConv ce]] | CUnsupported => [dunsupported] | _ => [] end in
      if has_unsupported lds || has_unsupported rds then (dyn_val, [dunsupported]) else
      match lc, rc with
      | COk lv, COk rv =>
          let '(lu, lm) := unmark lv in
          let '(ru, rm) := unmark rv in
          let mk := marks_union lm rm in
          (* Operation.ShortCircuit *)
          let sc : option (val * list diag) :=
            match op with
            | OpOr | OpAnd =>
                (* cty's True() on a known value: null counts as not true, hence as False() *)
                let tru (v : val) := match v with VBool true => true | _ => false end in
                let fls (v : val) := negb (tru v) in
                let lk := is_known lu in let rk := is_known ru in
                if negb lk && negb rk then
                  (if negb (has_errors lds) then Some (unk_bool_nn, lds) else None)
                else
                match op with
                | OpOr =>
                    if lk && tru lu then Some (VBool true, lds)
                    else if rk && tru ru then Some (VBool true, rds)
                    else if negb lk && fls ru then Some (unk_bool_nn, lds)
                    else if negb rk && fls lu then Some (unk_bool_nn, rds)
                    else None
                | _ =>
                    if lk && fls lu then Some (VBool false, lds)
                    else if rk && fls ru then Some (VBool false, rds)
                    else if negb lk && tru ru then Some (unk_bool_nn, lds)
                    else if negb rk && tru lu then Some (unk_bool_nn, rds)
                    else None
                end
            | _ => None
            end in
          match sc with
          | Some (v, ds) => (with_marks v mk, ds)
          | None =>
              let ds := lds ++ rds in
              if has_errors ds then (with_marks (VUnk (binop_type op) rf_none) mk, ds)
              else match call_binop op lu ru with
                   | OOk res => (with_marks res mk, ds)
                   | OErr _ => (VUnk (binop_type op) rf_none, ds ++ [derr S_OperationFailed []])
                   | OUnsupported => (VUnk (binop_type op) rf_none, ds ++ [dunsupported])
                   end
          end
      | _, _ => (VUnk (binop_type op) rf_none, ds2 ++ lds ++ rds)
      end

  | ECond ce te fe =>
      let '(tv, tds) := ev c anon te in
      let '(fv, fds) := ev c anon fe in
      if has_unsupported tds || has_unsupported fds then (dyn_val, [dunsupported]) else
      (* result type and which branch needs a conversion *)
      let uni : option (ty * bool * bool) + bool (* inr true = unsupported, inr false = mismatch *) :=
        if is_dyn_null tv then inl (Some (type_of fv, true, false))
        else if is_dyn_null fv then inl (Some (type_of tv, false, true))
        else if ty_eqb (type_of tv) TDyn || ty_eqb (type_of fv) TDyn then inl (Some (TDyn, false, false))
        else match unify (type_of tv) (type_of fv) with
             | UOk t => inl (Some (t, negb (ty_eqb (type_of tv) t), negb (ty_eqb (type_of fv) t)))
             | UNone => inr false
             | UUnsupported => inr true
             end in
      match uni with
      | inr true => (dyn_val, [dunsupported])
      | inr false | inl None =>
          (dyn_val, [derr S_InconsistentCond (if contains_marked tv || contains_marked fv then []
                                              else [FTy (type_of tv); FTy (type_of fv)])])
      | inl (Some (rt, tconv, fconv)) =>
          let '(cv, cds) := ev c anon ce in
          if is_null cv then (VUnk rt rf_none, cds ++ [derr S_NullCondition []])
          else
          let '(cu, cm) := unmark cv in
          let '(tu, tm) := unmark tv in
          let '(fu, fm) := unmark fv in
          let mk := marks_unions [cm; tm; fm] in
          if negb (is_known cu) then
            (* unknown condition: refined unknown from both branches; the marks anywhere inside the
               two results apply to it (fix 6fe1fc7) *)
            let mk := marks_unions [mk; deep_marks tu; deep_marks fu] in
            let nn := match definitely_not_null tu, definitely_not_null fu with
                      | Some a, Some b => Some (a && b) | _, _ => None end in
            match tu, fu with
            | VNull _, VNull _ => (with_marks (VNull rt) mk, cds)
            | _, _ =>
              match nn with
              | None => (with_marks (VUnk rt RWild) mk, cds)
              | Some nnb =>
                if ty_eqb (type_of tu) TNum && ty_eqb (type_of fu) TNum then
                  match num_lo tu, num_lo fu, num_hi tu, num_hi fu with
                  | Some tlo, Some flo, Some thi, Some fhi =>
                      let lo := match tlo, flo with
                                | Some (a, ai), Some (b, bi) =>
                                    if num_ltb a b then Some (a, ai)
                                    else if num_eqb a b then Some (b, ai || bi) else Some (b, bi)
                                | _, _ => None end in
                      let hi := match thi, fhi with
                                | Some (a, ai), Some (b, bi) =>
                                    if num_ltb b a then Some (a, ai)
                                    else if num_eqb a b then Some (b, ai || bi) else Some (b, bi)
                                | _, _ => None end in
                      (* an infinite bound is no bound (RefinementBuilder drops it) *)
                      let lo := match lo with Some (NInf false, _) => None | o => o end in
                      let hi := match hi with Some (NInf true, _) => None | o => o end in
                      (with_marks (finish_unknown TNum (mkRefn nnb [] lo hi 0 None)) mk, cds)
                  | _, _, _, _ => (with_marks (VUnk TNum RWild) mk, cds)
                  end
                else if is_collection (type_of tu) && is_collection (type_of fu) && ty_eqb (type_of tu) (type_of fu) then
                  match len_lo tu, len_lo fu, len_hi tu, len_hi fu with
                  | Some tl, Some fl, Some th, Some fh =>
                      let lo := Z.min tl fl in
                      let hi := match th, fh with Some a, Some b => Some (Z.max a b) | _, _ => None end in
                      (with_marks (finish_unknown rt (mkRefn nnb [] None None lo hi)) mk, cds)
                  | _, _, _, _ => (with_marks (VUnk rt RWild) mk, cds)
                  end
                else (with_marks (VUnk rt (RExact (mkRefn nnb [] None None 0 None))) mk, cds)
              end
            end
          else
          match conv cu TBool with
          | CUnsupported => (VUnk rt rf_none, cds ++ [dunsupported])
          | CErr _ => (VUnk rt rf_none, cds ++ [derr S_IncorrectCondType []])
          | COk cb =>
              (* the unselected result's type took part in choosing rt: the marks anywhere inside it
                 are kept although its value is discarded (fix a618c7a) *)
              let pick (bv : val) (bds : list diag) (needconv : bool) (other : val) :=
                let mk := marks_union mk (deep_marks other) in
                if needconv then
                  match conv bv rt with
                  | COk r => (with_marks r mk, cds ++ bds)
                  | CErr ce => (with_marks (VUnk rt rf_none) mk, cds ++ bds ++ [derr S_InconsistentCond [FConv ce]])
                  | CUnsupported => (dyn_val, cds ++ bds ++ [dunsupported])
                  end
                else (with_marks bv mk, cds ++ bds) in
              match cb with
              | VBool true => pick tu tds tconv fu
              | VBool false => pick fu fds fconv tu
              | _ => (dyn_val, cds ++ [dunsupported])
              end
          end
      end

  | ETmpl parts =>
      (* state: buffer, known, marks, diags *)
      let step_part (st : list Z * bool * marks * list diag) (p : expr) :=
        let '(buf, known, mk, ds) := st in
        let '(pv, pds) := ev c anon p in
        let ds := ds ++ pds in
        if is_null pv then (buf, known, mk, ds ++ [derr S_InvalidTemplateInterp []])
        else
        let '(pu, pm) := unmark pv in
        let mk := marks_union mk pm in
        if negb (is_known pv) then (buf, false, mk, ds)
        else match conv pu TStr with
             | CUnsupported => (buf, known, mk, ds ++ [dunsupported])
             | CErr ce => (buf, known, mk, ds ++ [derr S_InvalidTemplateInterp [FConv ce]])
             | COk (VStr s) => if known && negb (has_errors ds) then (buf ++ s, known, mk, ds) else (buf, known, mk, ds)
             | COk _ => (buf, known, mk, ds ++ [dunsupported])
             end in
      let '(buf, known, mk, ds) := fold_left step_part parts ([], true, [], []) in
      let ret :=
        if negb known then
          (if negb (has_errors ds) && negb (str_eqb buf [])
           then VUnk TStr (RExact (mkRefn true (firstn 128 buf) None None 0 None))
           else VUnk TStr rf_notnull)
        else VStr buf in
      (with_marks ret mk, ds)

  | EJoin te =>
      let '(tv, ds) := ev c anon te in
      if ty_eqb (type_of tv) TDyn then (with_same_marks (VUnk TStr rf_none) tv, ds)
      else if negb (is_known tv) then (with_same_marks (VUnk TStr rf_none) tv, ds)
      else
      let '(tu, tm) := unmark tv in
      match tu with
      | VTuple vs =>
          (* fold with early return: state = inl (buf, allmarks, diags) | inr result *)
          let step_el (st : (list Z * marks * list diag) + (val * list diag)) (v : val) :=
            match st with
            | inr r => inr r
            | inl (buf, am, ds) =>
                if is_null v then inl (buf, am, ds ++ [derr S_InvalidTemplateInterp []])
                else if ty_eqb (type_of v) TDyn then inr (with_same_marks (with_marks (VUnk TStr rf_none) am) v, ds)
                else match conv v TStr with
                     | CUnsupported => inl (buf, am, ds ++ [dunsupported])
                     | CErr ce => inl (buf, am, ds ++ [derr S_InvalidTemplateInterp [FConv ce]])
                     | COk sv =>
                         if negb (is_known v) then inr (with_same_marks (with_marks (VUnk TStr rf_none) am) v, ds)
                         else let '(su, sm) := unmark sv in
                              match su with
                              | VStr s => inl (buf ++ s, marks_union am sm, ds)
                              | _ => inl (buf, am, ds ++ [dunsupported])
                              end
                     end
            end in
          match fold_left step_el vs (inl ([], tm, ds)) with
          | inr r => r
          | inl (buf, am, ds) => (with_marks (VStr buf) am, ds)
          end
      | _ => (dyn_val, ds ++ [dunsupported])     (* Go panics: parser never builds this *)
      end

  | ECall name args expand =>
      match lookup_fn c name false with
      | (None, false) => (dyn_val, [derr S_FuncsNotAllowed []])
      | (None, true) => (dyn_val, [derr S_UnknownFunc [FStr name []]])
      | (Some fnv, _) =>
          (* argument expansion *)
          (* third component: marks of an EMPTY expansion collection, applied to the result (fix 663246c) *)
          let expanded : (list expr * list diag * marks) + (val * list diag) :=
            if expand then
              match rev args with
              | [] => inr (dyn_val, [dunsupported])     (* Go panics; the parser never builds this *)
              | last :: init_rev =>
                  let '(xv, xds) := ev c anon last in
                  if has_errors xds then inr (dyn_val, xds)
                  else
                  match type_of xv with
                  | TDyn => if is_null xv then inr (dyn_val, xds ++ [derr S_InvalidExpand []]) else inr (with_same_marks dyn_val xv, xds)
                  | TTuple _ | TList _ | TSet _ =>
                      if is_null xv then inr (dyn_val, xds ++ [derr S_InvalidExpand []])
                      else if negb (is_known xv) then inr (with_same_marks dyn_val xv, xds)
                      else
                      let '(xu, xm) := unmark xv in
                      inl (rev init_rev ++ map (fun kv => ELit (with_marks (snd kv) xm)) (elements xu), xds,
                           match elements xu with [] => xm | _ => [] end)
                  | _ => inr (dyn_val, xds ++ [derr S_InvalidExpand []])
                  end
              end
            else inl (args, [], []) in
          match expanded with
          | inr r => r
          | inl (args', ds0, emk) =>
              let np := length (f_params fnv) in
              if (length args' <? np)%nat then (dyn_val, [derr S_NotEnoughArgs [FStr name []]])
              else if (match f_varparam fnv with None => true | Some _ => false end) && (np <? length args')%nat
              then (dyn_val, [derr S_TooManyArgs [FStr name []]])
              else
              let step_arg (st : list val * list diag) (ia : nat * expr) :=
                let '(vals, ds) := st in
                let '(v, ads) := ev c anon (snd ia) in
                let ds := ds ++ ads in
                match param_for fnv (fst ia) with
                | None => (vals ++ [v], ds ++ [dunsupported])
                | Some p =>
                    match conv v (p_ty p) with
                    | COk v' => (vals ++ [v'], ds)
                    | CErr ce => (vals ++ [v], ds ++ [derr S_InvalidFuncArg [FStr (p_name p) []; FConv ce]])
                    | CUnsupported => (vals ++ [v], ds ++ [dunsupported])
                    end
                end in
              let '(argvals, ds) := fold_left step_arg (combine (seq 0 (length args')) args') ([], ds0) in
              if has_errors ds then (dyn_val, ds)
              else if has_unsupported ds then (dyn_val, ds)
              else match fn_call fnv argvals with
                   | CallOk v => (with_marks v emk, ds)
                   | CallArgErr i => (dyn_val, ds ++ [derr S_InvalidFuncArg []])
                   | CallErr => (dyn_val, ds ++ [derr S_ErrorInCall [FStr name []]])
                   | CallUnsupported => (dyn_val, ds ++ [dunsupported])
                   end
          end
      end

  | EFor kvar vvar coll keye vale conde group =>
      let '(cv0, ds0) := ev c anon coll in
      if is_null cv0 then (dyn_val, ds0 ++ [derr S_IterNull []])
      else if ty_eqb (type_of cv0) TDyn then (with_same_marks dyn_val cv0, ds0)
      else
      let '(cv, cmk) := unmark cv0 in
      if negb (can_iterate cv) then (dyn_val, ds0 ++ [derr S_IterNonIterable [FTy (type_of cv)]])
      else
      let bind (k v : val) : ctx :=
        child_ctx c ((if str_eqb kvar [] || str_eqb kvar vvar then [] else [(kvar, k)]) ++
                     (* a later binding of the same name wins, as in a Go map *)
                     [(vvar, v)]) in
      (* probe of the condition with dynamic placeholders *)
      let probe : (marks * list diag) + (val * list diag) :=
        match conde with
        | None => inl ([], ds0)
        | Some ce =>
            let '(r, cds) := ev (bind dyn_val dyn_val) anon ce in
            let ds := ds0 ++ cds in
            if is_null r then inr (dyn_val, ds ++ [derr S_ConditionIsNull []])
            else match conv r TBool with
                 | CErr cer => inr (dyn_val, ds ++ [derr S_InvalidForCond [FConv cer]])
                 | CUnsupported => inr (dyn_val, ds ++ [dunsupported])
                 | COk _ => if has_errors cds then inr (dyn_val, ds) else inl (marks_of r, ds)
                 end
        end in
      match probe with
      | inr r => r
      | inl (condmk, ds1) =>
          if negb (is_known cv) then (with_marks dyn_val (marks_union cmk condmk), ds1)
          else
          match keye with
          | Some ke =>
              (* object for: state (vals, groups, marks, known, diags) *)
              let step_el (st : list (list Z * val) * list (list Z * list val) * list marks * bool * list diag) (kv : val * val) :=
                let '(vals, groups, mks, known, ds) := st in
                let cc := bind (fst kv) (snd kv) in
                (* condition: inl (continue with marks) | inr skip-state *)
                let after_cond : (list marks * list diag) + (list marks * bool * list diag) :=
                  match conde with
                  | None => inl (mks, ds)
                  | Some ce =>
                      let '(inc, cds) := ev cc anon ce in
                      let ds := ds ++ cds in
                      if is_null inc then inr (mks, false, if known then ds ++ [derr S_InvalidForCond []] else ds)
                      else
                      let im := marks_of inc in
                      let mks := mks ++ [im] in
                      match conv inc TBool with
                      | CErr cer => inr (mks, false, if known then ds ++ [derr S_InvalidForCond [FConv cer]] else ds)
                      | CUnsupported => inr (mks, false, ds ++ [dunsupported])
                      | COk b =>
                          if negb (is_known b) then inr (mks, false, ds)
                          else match fst (unmark b) with
                               | VBool false => inr (mks ++ [im], known, ds)
                               | _ => inl (mks ++ [im], ds)
                               end
                      end
                  end in
                match after_cond with
                | inr (mks, known', ds) => (vals, groups, mks, known', ds)
                | inl (mks, ds) =>
                    let '(kraw, kds) := ev cc anon ke in
                    let ds := ds ++ kds in
                    if is_null kraw then (vals, groups, mks, false, if known then ds ++ [derr S_InvalidObjKey []] else ds)
                    else
                    let mks := mks ++ [marks_of kraw] in
                    if negb (is_known kraw) then (vals, groups, mks, false, ds)
                    else
                    match conv kraw TStr with
                    | CErr cer => (vals, groups, mks, false, if known then ds ++ [derr S_InvalidObjKey [FConv cer]] else ds)
                    | CUnsupported => (vals, groups, mks, false, ds ++ [dunsupported])
                    | COk kc =>
                        match fst (unmark kc) with
                        | VStr ks =>
                            let '(v, vds) := ev cc anon vale in
                            let ds := ds ++ vds in
                            if group then
                              let old := match assoc_get ks groups with Some l => l | None => [] end in
                              (vals, assoc_set ks (old ++ [v]) groups, mks, known, ds)
                            else
                              match assoc_get ks vals with
                              | Some _ =>
                                  (* the key is quoted only when no mark was seen so far *)
                                  (vals, groups, mks, known,
                                   ds ++ [derr S_DuplicateKey (if existsb (fun m => negb (zlist_eqb m [])) mks then [] else [FStr ks []])])
                              | None => (assoc_set ks v vals, groups, mks, known, ds)
                              end
                        | _ => (vals, groups, mks, false, ds ++ [dunsupported])
                        end
                    end
                end in
              let '(vals, groups, mks, known, ds) := fold_left step_el (elements cv) ([], [], [cmk], true, ds1) in
              if negb known then (with_marks dyn_val (marks_unions mks), ds)
              else
              let vals' := if group then map (fun p => (fst p, VTuple (snd p))) groups else vals in
              (with_marks (VObj vals') (marks_unions mks), ds)
          | None =>
              let step_el (st : list val * list marks * bool * list diag) (kv : val * val) :=
                let '(vals, mks, known, ds) := st in
                let cc := bind (fst kv) (snd kv) in
                let after_cond : (list marks * list diag) + (list marks * bool * list diag) :=
                  match conde with
                  | None => inl (mks, ds)
                  | Some ce =>
                      let '(inc, cds) := ev cc anon ce in
                      let ds := ds ++ cds in
                      if is_null inc then inr (mks, false, if known then ds ++ [derr S_InvalidForCond []] else ds)
                      else
                      let mks := mks ++ [marks_of inc] in
                      if negb (is_known inc) then inr (mks, false, ds)
                      else
                      match conv inc TBool with
                      | CErr cer => inr (mks, false, if known then ds ++ [derr S_InvalidForCond [FConv cer]] else ds)
                      | CUnsupported => inr (mks, false, ds ++ [dunsupported])
                      | COk b => match fst (unmark b) with
                                 | VBool false => inr (mks, known, ds)
                                 | _ => inl (mks, ds)
                                 end
                      end
                  end in
                match after_cond with
                | inr (mks, known', ds) => (vals, mks, known', ds)
                | inl (mks, ds) =>
                    let '(v, vds) := ev cc anon vale in
                    (vals ++ [v], mks, known, ds ++ vds)
                end in
              let '(vals, mks, known, ds) := fold_left step_el (elements cv) ([], [cmk], true, ds1) in
              if negb known then (with_marks dyn_val (marks_unions mks), ds)
              else (with_marks (VTuple vals) (marks_unions mks), ds)
          end
      end

  | ESplat src each =>
      let '(sv0, ds) := ev c anon src in
      if has_errors ds then (dyn_val, ds)       (* Item.Value(ctx) adds no diagnostics *)
      else
      let sty0 := type_of sv0 in
      let auto := negb (match sty0 with TTuple _ | TList _ | TSet _ => true | _ => false end) in
      if is_null sv0 then
        (if auto then (with_same_marks (VTuple []) sv0, ds) else (dyn_val, ds ++ [derr S_SplatNull []]))
      else if ty_eqb sty0 TDyn then (with_same_marks dyn_val sv0, ds)
      else
      let upgraded_unknown : option bool :=
        if auto && negb (is_known sv0) then
          match fst (unmark sv0) with
          | VUnk _ (RExact r) => Some (negb (r_notnull r))
          | VUnk _ RWild => None
          | _ => Some false
          end
        else Some false in
      let sv := if auto then with_same_marks (VTuple [sv0]) sv0 else sv0 in
      let sty := type_of sv in
      (* resultTy(): probe Each with unknown items in a child context *)
      let result_ty : ty * list diag :=
        match sty with
        | TList et | TSet et =>
            let '(v, ids) := ev (mkFrame None None :: c) (Some (VUnk et rf_none)) each in
            (TList (type_of v), ids)
        | TTuple ets =>
            let rs := map (fun et => ev (mkFrame None None :: c) (Some (VUnk et rf_none)) each) ets in
            (TTuple (map (fun r => type_of (fst r)) rs), concat (map snd rs))
        | _ => (TDyn, [])
        end in
      if negb (is_known sv) then
        let '(rt, tds) := result_ty in
        let ds := ds ++ tds in
        let base := if ty_eqb rt TDyn then VUnk rt rf_none else VUnk rt rf_notnull in
        let ret :=
          match rt, sty with
          | TList _, (TList _ | TSet _ | TMap _) =>
              match fst (unmark sv) with
              | VUnk _ (RExact r) => finish_unknown rt (mkRefn true [] None None (r_lenlo r) (r_lenhi r))
              | _ => VUnk rt RWild
              end
          | _, _ => base
          end in
        (with_same_marks ret sv, ds)
      else
      let '(su, sm) := unmark sv in
      let rs := map (fun kv => ev c (Some (snd kv)) each) (elements su) in
      let vals := map fst rs in
      let ds := ds ++ concat (map snd rs) in
      let is_known_all := negb (existsb (fun r => has_errors (snd r)) rs) in
      match upgraded_unknown with
      | None => (dyn_val, ds ++ [dunsupported])
      | Some true => (with_marks dyn_val sm, ds)
      | Some false =>
          if negb is_known_all then (with_marks (VUnk (fst result_ty) rf_none) sm, ds)
          else
          match sty with
          | TList _ | TSet _ =>
              match vals with
              | [] => let '(rt, tds) := result_ty in
                      (with_marks (VList (match rt with TList t => t | _ => TDyn end) []) sm, ds ++ tds)
              | v0 :: rest =>
                  if forallb (fun v => ty_eqb (type_of v) (type_of v0)) rest
                  then (with_marks (VList (type_of v0) vals) sm, ds)
                  else (dyn_val, ds ++ [derr S_NestedSplat []])
              end
          | _ => (with_marks (VTuple vals) sm, ds)
          end
      end
  end
  end.

Definition eval := eval_with index.

Fixpoint expr_size (e : expr) : nat :=
  match e with
  | ELit _ | EScopeTrav _ _ | EAnon => 1
  | ERelTrav s _ => S (expr_size s)
  | ECall _ args _ => S (fold_right (fun a n => expr_size a + n)%nat O args)
  | ECond a b c => S (expr_size a + expr_size b + expr_size c)
  | EIndex a b => S (expr_size a + expr_size b)
  | ETuple es => S (fold_right (fun a n => expr_size a + n)%nat O es)
  | EObj items => S (fold_right (fun p n => expr_size (fst p) + expr_size (snd p) + n)%nat O items)
  | EObjKey w _ => S (expr_size w)
  | EFor _ _ c k v cd _ =>
      S (expr_size c + match k with Some x => expr_size x | None => O end + expr_size v
         + match cd with Some x => expr_size x | None => O end)
  | ESplat a b => S (expr_size a + expr_size b)
  | EBin _ a b => S (expr_size a + expr_size b)
  | EUn _ a => S (expr_size a)
  | ETmpl ps => S (fold_right (fun a n => expr_size a + n)%nat O ps)
  | EJoin a | EWrap a | EParen a => S (expr_size a)
  end.

(* hcl.Expression.Value *)
Definition value (c : ctx) (e : expr) : val * list diag := eval (S (expr_size e)) c None e.
