(* Eval/MarksNI_Conv.v — C06: convert.Convert respects low-equivalence for ALL target types
   (element-wise for list / set / map / tuple / object targets).  Uses the one-step inversion
   [convert_inv] of Eval/UnknownSound_Base.v. *)
From Coq Require Import QArith.
From HclV Require Import Base.Prelude Cty.Values Cty.Convert Cty.Ops Eval.Impl Eval.UnknownSound_Base
     Eval.MarksNI Eval.MarksNI_Ops Eval.MarksNI_Index.
Open Scope Z_scope.

(* no object type anywhere inside *)
Fixpoint noobj (t : ty) : bool :=
  match t with
  | TObj _ => false
  | TList x | TSet x | TMap x => noobj x
  | TTuple xs => forallb noobj xs
  | _ => true
  end.

Lemma with_marks_nonmark u ms : ms <> [] -> is_mark u = false -> with_marks u ms = VMark ms u.
Proof. destruct ms; [congruence|]. destruct u; try discriminate; reflexivity. Qed.

Lemma wf_tuple_elems' l : wf (VTuple l) -> Forall wf l.
Proof. unfold wf. cbn [wfb]. intro H. apply Forall_forall. rewrite forallb_forall in H. exact H. Qed.

(* a conversion to the value's own type, or to the dynamic type, is the identity *)
Lemma conv_step_same f v want r : conv_step f v want r -> is_marked v = false -> type_of v = want -> r = v.
Proof.
  intros S Hm T. destruct S; try reflexivity; try discriminate Hm; try discriminate T;
    try (exfalso; match goal with P : conv_pre _ _ |- _ => destruct P as [P _]; rewrite T, ty_eqb_refl in P; discriminate P end).
Qed.
Lemma conv_step_dyn f v r : conv_step f v TDyn r -> is_marked v = false -> r = v.
Proof.
  intros S Hm. remember TDyn as w eqn:Hw. destruct S; try reflexivity; try discriminate Hm; try discriminate Hw;
    exfalso; match goal with P : conv_pre _ _ |- _ => destruct P as (_ & P & _); apply P; exact Hw end.
Qed.

Lemma Forall2_imp {A B} (R Q : A -> B -> Prop) : (forall a b, R a b -> Q a b) ->
  forall l1 l2, Forall2 R l1 l2 -> Forall2 Q l1 l2.
Proof. intros H l1 l2. induction 1; constructor; auto. Qed.

Section Conv.
  Variable m : Z.

  (* converting a value to the type its low-equal twin already has changes nothing visible *)
  Lemma convert_same_type : forall f x1 x2 w y,
    leq m x1 x2 -> wf x1 -> type_of x1 = w -> noobj w = true -> convert f x2 w = COk y -> leq m x1 y.
  Proof.
    induction f as [|f IH]; intros x1 x2 w y L W T No E; [discriminate E|].
    apply convert_inv in E.
    destruct E as [m0 v want r' E|v want Hm Et|v Hm|t0 rf want P|t0 want P|n|b|s n En|s b Eb
                   |t0 l w vs P Hd F|t0 l w vs P Hd F|l w vs P Hd F|l ws vs P F
                   |t0 kvs w vs P Hd F|kvs w vs P Hd F|kvs ws vs P F];
      try exact L.
    - (* mark *)
      destruct x1 as [s|n|b|t|t r|t l|t l|t l|l|l|ms1 u1];
        try (exfalso; unfold leq in L; cbn [erase] in L; destruct (mark_mem m m0); discriminate L).
      unfold leq in L. cbn [erase] in L.
      destruct (mark_mem m ms1) eqn:S1, (mark_mem m m0) eqn:S2; try discriminate L.
      + apply stars_leq; [cbn [is_star]; assumption|apply with_marks_star; assumption].
      + injection L as -> L. apply wf_mark_inv in W as (Nn & Nu & Wu).
        rewrite <- (with_marks_nonmark u1 m0 Nn Nu). apply with_marks_leq; [|apply marks_rel_refl].
        eapply IH; [exact L|exact Wu|exact T|exact No|exact E].
    - (* unknown: the values are equal, so no conversion is needed *)
      exfalso. assert (x1 = VUnk t0 rf) by (symmetry; apply (leq_prim_eq m); [apply leq_sym, L|exact I]). subst.
      destruct P as [P _]. cbn [type_of] in P. rewrite ty_eqb_refl in P. discriminate P.
    - exfalso. assert (x1 = VNull t0) by (symmetry; apply (leq_prim_eq m); [apply leq_sym, L|exact I]). subst.
      destruct P as [P _]. cbn [type_of] in P. rewrite ty_eqb_refl in P. discriminate P.
    - exfalso. assert (x1 = VNum n) by (symmetry; apply (leq_prim_eq m); [apply leq_sym, L|exact I]). subst. discriminate T.
    - exfalso. assert (x1 = VBool b) by (symmetry; apply (leq_prim_eq m); [apply leq_sym, L|exact I]). subst. discriminate T.
    - exfalso. assert (x1 = VStr s) by (symmetry; apply (leq_prim_eq m); [apply leq_sym, L|exact I]). subst. discriminate T.
    - exfalso. assert (x1 = VStr s) by (symmetry; apply (leq_prim_eq m); [apply leq_sym, L|exact I]). subst. discriminate T.
    - (* list -> list *) exfalso. leq_heads L. injection L as -> _. cbn [type_of] in T. injection T as ->.
      destruct P as [P _]. cbn [type_of] in P. rewrite ty_eqb_refl in P. discriminate P.
    - exfalso. leq_heads L. discriminate T.
    - exfalso. leq_heads L. discriminate T.
    - (* tuple -> tuple *)
      leq_heads L. injection L as L. apply map_erase_Forall2 in L. cbn [type_of] in T. injection T as <-.
      cbn [noobj] in No. apply wf_tuple_elems' in W.
      apply leq_tuple. clear P. revert vs F. induction L as [|a b r s Lab _ IHl]; intros vs F; cbn [map combine] in F.
      + inversion F. constructor.
      + inversion F as [|? y0 ? ys Hy Hys]; subst. inversion W as [|? ? Wa Wr]; subst.
        cbn [map forallb] in No. apply andb_true_iff in No as [Na Nr]. constructor.
        * cbn [fst snd] in Hy. eapply IH; [exact Lab|exact Wa|reflexivity|exact Na|exact Hy].
        * apply IHl; assumption.
    - (* map -> map *) exfalso. leq_heads L. injection L as -> _. cbn [type_of] in T. injection T as ->.
      destruct P as [P _]. cbn [type_of] in P. rewrite ty_eqb_refl in P. discriminate P.
    - exfalso. leq_heads L. discriminate T.
    - exfalso. discriminate No.
  Qed.
  Definition cinv (v1 v2 : val) (w : ty) : Prop := type_of v1 = type_of v2 \/ noobj w = true.

  Ltac kill L := exfalso; unfold leq in L; cbn [erase] in L;
                 repeat match type of L with context [mark_mem m ?x] => destruct (mark_mem m x) end; discriminate L.

  Lemma leq_unmarked a b : leq m a b -> is_marked a = false -> is_marked b = false.
  Proof. intros L H. leq_heads L; try discriminate H; reflexivity. Qed.

  Definition erel (w : ty) (a b : val) : Prop := leq m a b /\ wf a /\ wf b /\ cinv a b w.

  (* element-wise conversion of low-equal sequences *)
  Lemma conv_elems {A} (pv : A -> val) (pw : A -> ty) f1 f2
        (IH : forall x1 x2 w r1 r2, erel w x1 x2 ->
                convert f1 x1 w = COk r1 -> convert f2 x2 w = COk r2 -> leq m r1 r2) :
    forall l1 l2 vs1 vs2,
      Forall2 (fun a b => erel (pw a) (pv a) (pv b) /\ pw a = pw b) l1 l2 ->
      Forall2 (fun a v => convert f1 (pv a) (pw a) = COk v) l1 vs1 ->
      Forall2 (fun a v => convert f2 (pv a) (pw a) = COk v) l2 vs2 ->
      Forall2 (leq m) vs1 vs2.
  Proof.
    induction l1 as [|a r IHl]; intros l2 vs1 vs2 H F1 F2; inversion H as [|? b ? s [Ra Pw] Hr]; subst;
      inversion F1; subst; inversion F2; subst; constructor.
    - eapply IH; [exact Ra|eassumption|]. rewrite Pw. eassumption.
    - eapply IHl; eassumption.
  Qed.


  Lemma typed_pairs t w l1 l2 :
    Forall2 (leq m) l1 l2 ->
    forallb (fun x => ty_eqb (type_of x) t && wfb x) l1 = true ->
    forallb (fun x => ty_eqb (type_of x) t && wfb x) l2 = true ->
    Forall2 (erel w) l1 l2.
  Proof.
    induction 1 as [|a b r s Lab _ IHl]; cbn [forallb]; intros H1 H2; constructor.
    - apply andb_true_iff in H1 as [A1 _]. apply andb_true_iff in H2 as [A2 _].
      apply andb_true_iff in A1 as [T1 Wa]. apply andb_true_iff in A2 as [T2 Wb].
      apply ty_eqb_eq in T1, T2. repeat split; try assumption. left. congruence.
    - apply andb_true_iff in H1 as [_ B1]. apply andb_true_iff in H2 as [_ B2]. apply IHl; assumption.
  Qed.
  Lemma typed_pairs_kv t w (l1 l2 : list (list Z * val)) :
    Forall2 (leq_kv m) l1 l2 ->
    forallb (fun p => ty_eqb (type_of (snd p)) t && wfb (snd p)) l1 = true ->
    forallb (fun p => ty_eqb (type_of (snd p)) t && wfb (snd p)) l2 = true ->
    Forall2 (fun p q => erel w (snd p) (snd q)) l1 l2.
  Proof.
    induction 1 as [|a b r s [_ Lab] _ IHl]; cbn [forallb]; intros H1 H2; constructor.
    - apply andb_true_iff in H1 as [A1 _]. apply andb_true_iff in H2 as [A2 _].
      apply andb_true_iff in A1 as [T1 Wa]. apply andb_true_iff in A2 as [T2 Wb].
      apply ty_eqb_eq in T1, T2. repeat split; try assumption. left. congruence.
    - apply andb_true_iff in H1 as [_ B1]. apply andb_true_iff in H2 as [_ B2]. apply IHl; assumption.
  Qed.

  (* untyped sequences: the element types are equal when the sequence types are *)
  Lemma untyped_pairs (ws : list ty) l1 l2 :
    Forall2 (leq m) l1 l2 -> forallb wfb l1 = true -> forallb wfb l2 = true ->
    (map type_of l1 = map type_of l2 \/ forallb noobj ws = true) -> length ws = length l1 ->
    Forall2 (fun p q => erel (snd p) (fst p) (fst q) /\ snd p = snd q) (combine l1 ws) (combine l2 ws).
  Proof.
    intros H. revert ws. induction H as [|a b r s Lab _ IHl]; intros ws H1 H2 Inv Len; destruct ws as [|w ws];
      try discriminate Len; cbn [combine forallb map] in *; constructor.
    - apply andb_true_iff in H1 as [Wa _]. apply andb_true_iff in H2 as [Wb _].
      split; [|reflexivity]. repeat split; try assumption.
      destruct Inv as [Ty|No]; [left; injection Ty; auto|right; apply andb_true_iff in No as [No _]; exact No].
    - apply andb_true_iff in H1 as [_ B1]. apply andb_true_iff in H2 as [_ B2]. apply IHl; try assumption.
      + destruct Inv as [Ty|No]; [left; injection Ty; auto|right; apply andb_true_iff in No as [_ No]; exact No].
      + injection Len; auto.
  Qed.
  Lemma untyped_pairs_w w l1 l2 :
    Forall2 (leq m) l1 l2 -> forallb wfb l1 = true -> forallb wfb l2 = true ->
    (map type_of l1 = map type_of l2 \/ noobj w = true) -> Forall2 (erel w) l1 l2.
  Proof.
    induction 1 as [|a b r s Lab _ IHl]; cbn [forallb map]; intros H1 H2 Inv; constructor.
    - apply andb_true_iff in H1 as [Wa _]. apply andb_true_iff in H2 as [Wb _]. repeat split; try assumption.
      destruct Inv as [Ty|No]; [left; injection Ty; auto|right; exact No].
    - apply andb_true_iff in H1 as [_ B1]. apply andb_true_iff in H2 as [_ B2]. apply IHl; try assumption.
      destruct Inv as [Ty|No]; [left; injection Ty; auto|right; exact No].
  Qed.
  Lemma untyped_pairs_kv w (l1 l2 : list (list Z * val)) :
    Forall2 (leq_kv m) l1 l2 ->
    forallb (fun p => wfb (snd p)) l1 = true -> forallb (fun p => wfb (snd p)) l2 = true ->
    (map (fun p => (fst p, type_of (snd p))) l1 = map (fun p => (fst p, type_of (snd p))) l2 \/ noobj w = true) ->
    Forall2 (fun p q => fst p = fst q /\ erel w (snd p) (snd q)) l1 l2.
  Proof.
    induction 1 as [|a b r s [Kab Lab] _ IHl]; cbn [forallb map]; intros H1 H2 Inv; constructor.
    - apply andb_true_iff in H1 as [Wa _]. apply andb_true_iff in H2 as [Wb _]. split; [exact Kab|].
      repeat split; try assumption. destruct Inv as [Ty|No]; [left; injection Ty; auto|right; exact No].
    - apply andb_true_iff in H1 as [_ B1]. apply andb_true_iff in H2 as [_ B2]. apply IHl; try assumption.
      destruct Inv as [Ty|No]; [left; injection Ty; auto|right; exact No].
  Qed.

  Lemma typed_obj_pairs (l1 l2 : list (list Z * val)) :
    Forall2 (leq_kv m) l1 l2 ->
    forallb (fun p => wfb (snd p)) l1 = true -> forallb (fun p => wfb (snd p)) l2 = true ->
    map (fun p => (fst p, type_of (snd p))) l1 = map (fun p => (fst p, type_of (snd p))) l2 ->
    Forall2 (fun p q => fst p = fst q /\ leq m (snd p) (snd q) /\ wf (snd p) /\ wf (snd q) /\
                        type_of (snd p) = type_of (snd q)) l1 l2.
  Proof.
    induction 1 as [|a b r s [Kab Lab] _ IHl]; cbn [forallb map]; intros H1 H2 Ty; constructor.
    - apply andb_true_iff in H1 as [Wa _]. apply andb_true_iff in H2 as [Wb _]. injection Ty as _ T _.
      repeat split; assumption.
    - apply andb_true_iff in H1 as [_ B1]. apply andb_true_iff in H2 as [_ B2]. apply IHl; try assumption.
      injection Ty; auto.
  Qed.

  Lemma leq_kv_combine (l1 l2 : list (list Z * val)) vs1 vs2 :
    map fst l1 = map fst l2 -> Forall2 (leq m) vs1 vs2 ->
    Forall2 (leq_kv m) (combine (map fst l1) vs1) (combine (map fst l2) vs2).
  Proof.
    intros <- H. generalize (map fst l1) as ks. induction H as [|a b r s Lab _ IHl]; intros ks; destruct ks;
      cbn [combine]; constructor; [split; [reflexivity|exact Lab]|apply IHl].
  Qed.
  Lemma leq_kv_keys (l1 l2 : list (list Z * val)) : Forall2 (leq_kv m) l1 l2 -> map fst l1 = map fst l2.
  Proof. induction 1 as [|a b r s [K _] _ IHl]; cbn [map]; congruence. Qed.

  Lemma convert_leq : forall f1 f2 v1 v2 w r1 r2,
    leq m v1 v2 -> wf v1 -> wf v2 -> cinv v1 v2 w ->
    convert f1 v1 w = COk r1 -> convert f2 v2 w = COk r2 -> leq m r1 r2.
  Proof.
    induction f1 as [|f1 IH]; intros f2 v1 v2 w r1 r2 L W1 W2 Inv E1 E2; [discriminate E1|].
    destruct f2 as [|f2]; [discriminate E2|].
    destruct (prim_head v1) eqn:P1.
    { assert (v1 = v2) by (apply (leq_prim_eq m); [exact L|destruct v1; try discriminate P1; exact I]). subst v2.
      rewrite convert_prim_head in E1, E2 by exact P1. rewrite E1 in E2. injection E2 as <-. apply leq_refl. }
    pose proof (convert_inv _ _ _ _ E1) as S1. pose proof (convert_inv _ _ _ _ E2) as S2.
    (* run 1 is the identity *)
    assert (IdL : is_marked v1 = false -> type_of v1 = w \/ w = TDyn -> r1 = v1 -> leq m r1 r2).
    { intros Hm Hw ->. pose proof (leq_unmarked _ _ L Hm) as Hm2.
      destruct Hw as [Hw| ->]; [|rewrite (conv_step_dyn _ _ _ S2 Hm2); exact L].
      destruct Inv as [Ty|No].
      - rewrite (conv_step_same _ _ _ _ S2 Hm2); [exact L|congruence].
      - eapply convert_same_type; [exact L|exact W1|exact Hw|exact No|exact E2]. }
    assert (IdR : is_marked v2 = false -> type_of v2 = w \/ w = TDyn -> r2 = v2 -> leq m r1 r2).
    { intros Hm Hw ->. assert (Hm1 : is_marked v1 = false) by (apply (leq_unmarked v2 v1); [apply leq_sym, L|exact Hm]).
      destruct Hw as [Hw| ->]; [|rewrite (conv_step_dyn _ _ _ S1 Hm1); exact L].
      destruct Inv as [Ty|No].
      - rewrite (conv_step_same _ _ _ _ S1 Hm1); [exact L|congruence].
      - apply leq_sym. eapply convert_same_type; [apply leq_sym, L|exact W2|exact Hw|exact No|exact E1]. }
    destruct S1 as [m0 u1 want r1' C1|u1 want Hm Et|u1 Hm|t0 rf want P|t0 want P|n|b|s n En|s b Eb
                   |t0 l1 w0 vs1 P Hd F1|t0 l1 w0 vs1 P Hd F1|l1 w0 vs1 P Hd F1|l1 ws vs1 P F1
                   |t0 kvs1 w0 vs1 P Hd F1|kvs1 w0 vs1 P Hd F1|kvs1 ws vs1 P F1];
      try discriminate P1.
    - (* mark *)
      destruct v2 as [| | | | | | | | | |m2 u2]; try (kill L).
      inversion S2 as [? ? ? r2' C2| | | | | | | | | | | | | | |]; subst; try discriminate.
      apply wf_mark_inv in W1 as (_ & _ & Wu1). apply wf_mark_inv in W2 as (_ & _ & Wu2).
      unfold leq in L. cbn [erase] in L.
      destruct (mark_mem m m0) eqn:Z1, (mark_mem m m2) eqn:Z2; try discriminate L.
      + apply stars_leq; apply with_marks_star; assumption.
      + injection L as -> L. apply with_marks_leq; [|apply marks_rel_refl].
        eapply IH; [exact L|exact Wu1|exact Wu2|exact Inv|exact C1|exact C2].
    - apply IdL; [exact Hm|left; apply ty_eqb_eq, Et|reflexivity].
    - apply IdL; [exact Hm|right; reflexivity|reflexivity].
    - (* list -> list *)
      destruct v2 as [| | | | |t2 l2| | | | |]; try (kill L).
      unfold leq in L. cbn [erase] in L. injection L as -> L. apply map_erase_Forall2 in L.
      inversion S2 as [|? ? Hm2 Et2| | | | | | | |? ? ? vs2 P2 Hd2 F2| | | | | |]; subst.
      + apply IdR; [reflexivity|left; apply ty_eqb_eq, Et2|reflexivity].
      + apply leq_list. unfold wf in W1, W2. cbn [wfb] in W1, W2.
        eapply (conv_elems (fun x => x) (fun _ => w0) f1 f2); [|
          eapply Forall2_imp; [|exact (typed_pairs t2 w0 _ _ L W1 W2)]; intros a b H; split; [exact H|reflexivity]
          |exact F1|exact F2].
        intros x1 x2 w r1 r2 (Lx & Wx1 & Wx2 & Cx) A1 A2. eapply IH; eassumption.
    - (* set -> list *)
      destruct v2 as [| | | | | |t2 l2| | | |]; try (kill L).
      unfold leq in L. cbn [erase] in L. injection L as -> L. apply map_erase_Forall2 in L.
      inversion S2 as [|? ? Hm2 Et2| | | | | | | | |? ? ? vs2 P2 Hd2 F2| | | | |]; subst.
      + discriminate Et2.
      + apply leq_list. unfold wf in W1, W2. cbn [wfb] in W1, W2.
        eapply (conv_elems (fun x => x) (fun _ => w0) f1 f2); [|
          eapply Forall2_imp; [|exact (typed_pairs t2 w0 _ _ L W1 W2)]; intros a b H; split; [exact H|reflexivity]
          |exact F1|exact F2].
        intros x1 x2 w r1 r2 (Lx & Wx1 & Wx2 & Cx) A1 A2. eapply IH; eassumption.
    - (* tuple -> list *)
      destruct v2 as [| | | | | | | |l2| |]; try (kill L).
      unfold leq in L. cbn [erase] in L. injection L as L. apply map_erase_Forall2 in L.
      inversion S2 as [|? ? Hm2 Et2| | | | | | | | | |? ? vs2 P2 Hd2 F2| | | |]; subst.
      + discriminate Et2.
      + apply leq_list. unfold wf in W1, W2. cbn [wfb] in W1, W2.
        assert (Ci : map type_of l1 = map type_of l2 \/ noobj w0 = true).
        { destruct Inv as [Ty|No]; [left; cbn [type_of] in Ty; injection Ty; auto|right; exact No]. }
        eapply (conv_elems (fun x => x) (fun _ => w0) f1 f2); [|
          eapply Forall2_imp; [|exact (untyped_pairs_w w0 _ _ L W1 W2 Ci)]; intros a b H; split; [exact H|reflexivity]
          |exact F1|exact F2].
        intros x1 x2 w r1 r2 (Lx & Wx1 & Wx2 & Cx) A1 A2. eapply IH; eassumption.
    - (* tuple -> tuple *)
      destruct v2 as [| | | | | | | |l2| |]; try (kill L).
      pose proof L as L0. unfold leq in L. cbn [erase] in L. injection L as L. apply map_erase_Forall2 in L.
      inversion S2 as [|? ? Hm2 Et2| | | | | | | | | | |? ? vs2 P2 F2| | |]; subst.
      + apply IdR; [reflexivity|left; apply ty_eqb_eq, Et2|reflexivity].
      + apply leq_tuple. unfold wf in W1, W2. cbn [wfb] in W1, W2.
        assert (Ci : map type_of l1 = map type_of l2 \/ forallb noobj ws = true).
        { destruct Inv as [Ty|No]; [left; cbn [type_of] in Ty; injection Ty; auto|right; exact No]. }
        pose proof (conv_pre_tuple_len _ _ P) as Len.
        eapply (conv_elems fst snd f1 f2); [|exact (untyped_pairs ws _ _ L W1 W2 Ci (eq_sym Len))|exact F1|exact F2].
        intros x1 x2 w r1 r2 (Lx & Wx1 & Wx2 & Cx) A1 A2. eapply IH; eassumption.
    - (* map -> map *)
      destruct v2 as [| | | | | | |t2 kvs2| | |]; try (kill L).
      unfold leq in L. cbn [erase] in L. injection L as -> L. apply map_erase_kv_Forall2 in L.
      inversion S2 as [|? ? Hm2 Et2| | | | | | | | | | | |? ? ? vs2 P2 Hd2 F2| |]; subst.
      + apply IdR; [reflexivity|left; apply ty_eqb_eq, Et2|reflexivity].
      + unfold wf in W1, W2. cbn [wfb] in W1, W2.
        assert (Lv : Forall2 (leq m) vs1 vs2).
        { eapply (conv_elems snd (fun _ => w0) f1 f2); [|
            eapply Forall2_imp; [|exact (typed_pairs_kv t2 w0 _ _ L W1 W2)]; intros a b H; split; [exact H|reflexivity]
            |exact F1|exact F2].
          intros x1 x2 w r1 r2 (Lx & Wx1 & Wx2 & Cx) A1 A2. eapply IH; eassumption. }
        unfold leq. cbn [erase]. f_equal. apply map_erase_kv_Forall2.
        apply leq_kv_combine; [apply leq_kv_keys, L|exact Lv].
    - (* object -> map *)
      destruct v2 as [| | | | | | | | |kvs2|]; try (kill L).
      unfold leq in L. cbn [erase] in L. injection L as L. apply map_erase_kv_Forall2 in L.
      inversion S2 as [|? ? Hm2 Et2| | | | | | | | | | | | |? ? vs2 P2 Hd2 F2|]; subst.
      + discriminate Et2.
      + unfold wf in W1, W2. cbn [wfb] in W1, W2.
        assert (Ci : map (fun p => (fst p, type_of (snd p))) kvs1 = map (fun p => (fst p, type_of (snd p))) kvs2 \/ noobj w0 = true).
        { destruct Inv as [Ty|No]; [left; cbn [type_of] in Ty; injection Ty; auto|right; exact No]. }
        assert (Lv : Forall2 (leq m) vs1 vs2).
        { eapply (conv_elems snd (fun _ => w0) f1 f2); [|
            eapply Forall2_imp; [|exact (untyped_pairs_kv w0 _ _ L W1 W2 Ci)]; intros a b [_ H]; split; [exact H|reflexivity]
            |exact F1|exact F2].
          intros x1 x2 w r1 r2 (Lx & Wx1 & Wx2 & Cx) A1 A2. eapply IH; eassumption. }
        unfold leq. cbn [erase]. f_equal. apply map_erase_kv_Forall2.
        apply leq_kv_combine; [apply leq_kv_keys, L|exact Lv].
    - (* object -> object *)
      destruct v2 as [| | | | | | | | |kvs2|]; try (kill L).
      pose proof L as L0. unfold leq in L. cbn [erase] in L. injection L as L. apply map_erase_kv_Forall2 in L.
      inversion S2 as [|? ? Hm2 Et2| | | | | | | | | | | | | |? ? vs2 P2 F2]; subst.
      + apply IdR; [reflexivity|left; apply ty_eqb_eq, Et2|reflexivity].
      + unfold wf in W1, W2. cbn [wfb] in W1, W2.
        destruct Inv as [Ty|No]; [|discriminate No]. cbn [type_of] in Ty. injection Ty as Ty.
        pose proof (typed_obj_pairs _ _ L W1 W2 Ty) as R.
        assert (Lv : Forall2 (leq m) vs1 vs2).
        { clear -IH R F1 F2. revert vs1 vs2 F1 F2. induction ws as [|p ws IHw]; intros vs1 vs2 F1 F2;
            inversion F1 as [|? y1 ? ys1 H1 Hs1]; subst; inversion F2 as [|? y2 ? ys2 H2 Hs2]; subst; constructor.
          - assert (G : match assoc_get (fst p) kvs1, assoc_get (fst p) kvs2 with
                        | Some a, Some b => leq m a b /\ wf a /\ wf b /\ type_of a = type_of b
                        | None, None => True | _, _ => False end).
            { clear -R. induction R as [|[k1 a] [k2 b] r s [K E] _ IHr]; cbn [assoc_get]; [exact I|].
              cbn [fst snd] in *. subst k2. destruct (str_eqb (fst p) k1); [exact E|exact IHr]. }
            destruct (assoc_get (fst p) kvs1) as [a|], (assoc_get (fst p) kvs2) as [b|]; try contradiction; try discriminate H1.
            destruct G as (La & Wa & Wb & Tab).
            eapply IH; [exact La|exact Wa|exact Wb|left; exact Tab|exact H1|exact H2].
          - apply IHw; assumption. }
        unfold leq. cbn [erase]. f_equal. apply map_erase_kv_Forall2.
        generalize (map fst ws) as ks. clear -Lv. induction Lv as [|a b r s Lab _ IHl]; intros ks; destruct ks;
          cbn [combine]; constructor; [split; [reflexivity|exact Lab]|apply IHl].
  Qed.

  Lemma conv_leq v1 v2 w r1 r2 :
    leq m v1 v2 -> wf v1 -> wf v2 -> (type_of v1 = type_of v2 \/ noobj w = true) ->
    conv v1 w = COk r1 -> conv v2 w = COk r2 -> leq m r1 r2.
  Proof. unfold conv. intros. eapply convert_leq; eassumption. Qed.

End Conv.
