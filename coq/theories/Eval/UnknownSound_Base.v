(* Eval/UnknownSound_Base.v — C05 groundwork: induction principles for types and
   values, decidable-equality lemmas, mark normal form, the predicate [good]
   (wholly known and mark-normal) and its preservation by conversion.
   Nothing here changes the model; Eval/Impl.v, Cty/*.v are imported as they are. *)
From Coq Require Import QArith Qreduction.
From HclV Require Import Base.Prelude Cty.Values Cty.Convert Cty.Ops Eval.Impl.
Open Scope Z_scope.

(* ---- induction principles for the nested datatypes ------------------------------ *)
Section TyInd.
  Variable P : ty -> Prop.
  Hypothesis HStr : P TStr.
  Hypothesis HNum : P TNum.
  Hypothesis HBool : P TBool.
  Hypothesis HDyn : P TDyn.
  Hypothesis HList : forall t, P t -> P (TList t).
  Hypothesis HSet : forall t, P t -> P (TSet t).
  Hypothesis HMap : forall t, P t -> P (TMap t).
  Hypothesis HTuple : forall ts, Forall P ts -> P (TTuple ts).
  Hypothesis HObj : forall fs, Forall (fun p => P (snd p)) fs -> P (TObj fs).
  Fixpoint ty_ind' (t : ty) : P t :=
    match t with
    | TStr => HStr | TNum => HNum | TBool => HBool | TDyn => HDyn
    | TList x => HList x (ty_ind' x)
    | TSet x => HSet x (ty_ind' x)
    | TMap x => HMap x (ty_ind' x)
    | TTuple ts =>
        HTuple ts ((fix go (l : list ty) : Forall P l :=
                      match l with
                      | [] => Forall_nil _
                      | x :: r => Forall_cons x (ty_ind' x) (go r)
                      end) ts)
    | TObj fs =>
        HObj fs ((fix go (l : list (list Z * ty)) : Forall (fun p => P (snd p)) l :=
                    match l with
                    | [] => Forall_nil _
                    | (k, x) :: r => Forall_cons (k, x) (ty_ind' x) (go r)
                    end) fs)
    end.
End TyInd.

Section ValInd.
  Variable P : val -> Prop.
  Hypothesis HStr : forall s, P (VStr s).
  Hypothesis HNum : forall n, P (VNum n).
  Hypothesis HBool : forall b, P (VBool b).
  Hypothesis HNull : forall t, P (VNull t).
  Hypothesis HUnk : forall t r, P (VUnk t r).
  Hypothesis HList : forall t l, Forall P l -> P (VList t l).
  Hypothesis HSet : forall t l, Forall P l -> P (VSet t l).
  Hypothesis HMap : forall t l, Forall (fun p => P (snd p)) l -> P (VMap t l).
  Hypothesis HTuple : forall l, Forall P l -> P (VTuple l).
  Hypothesis HObj : forall l, Forall (fun p => P (snd p)) l -> P (VObj l).
  Hypothesis HMark : forall m v, P v -> P (VMark m v).
  Fixpoint val_ind' (v : val) : P v :=
    let fl := (fix go (l : list val) : Forall P l :=
                 match l with
                 | [] => Forall_nil _
                 | x :: r => Forall_cons x (val_ind' x) (go r)
                 end) in
    let fm := (fix go (l : list (list Z * val)) : Forall (fun p => P (snd p)) l :=
                 match l with
                 | [] => Forall_nil _
                 | (k, x) :: r => Forall_cons (k, x) (val_ind' x) (go r)
                 end) in
    match v with
    | VStr s => HStr s | VNum n => HNum n | VBool b => HBool b
    | VNull t => HNull t | VUnk t r => HUnk t r
    | VList t l => HList t l (fl l)
    | VSet t l => HSet t l (fl l)
    | VMap t l => HMap t l (fm l)
    | VTuple l => HTuple l (fl l)
    | VObj l => HObj l (fm l)
    | VMark m v' => HMark m v' (val_ind' v')
    end.
End ValInd.

(* ---- small boolean helpers ---------------------------------------------------------- *)
Lemma str_eqb_eq a b : str_eqb a b = true <-> a = b.
Proof. apply zlist_eqb_eq. Qed.
Lemma str_eqb_refl a : str_eqb a a = true.
Proof. apply str_eqb_eq. reflexivity. Qed.

Lemma forallb_Forall {A} (f : A -> bool) l : forallb f l = true <-> Forall (fun x => f x = true) l.
Proof.
  induction l as [|x r IH]; simpl.
  - split; [constructor|reflexivity].
  - rewrite andb_true_iff, IH. split.
    + intros [H1 H2]. constructor; assumption.
    + intros H. inversion H; subst. split; assumption.
Qed.

Lemma ty_eqb_eq : forall a b, ty_eqb a b = true <-> a = b.
Proof.
  induction a as [| | | |x IH|x IH|x IH|ts IH|fs IH] using ty_ind'; intros b; destruct b;
    simpl; try (split; [reflexivity || discriminate | reflexivity || discriminate]).
  - rewrite IH. split; congruence.
  - rewrite IH. split; congruence.
  - rewrite IH. split; congruence.
  - revert ts0. induction IH as [|x r Hx _ IHr]; intros [|y ys]; simpl;
      try (split; [reflexivity || discriminate | reflexivity || discriminate]).
    rewrite andb_true_iff, Hx. specialize (IHr ys). split.
    + intros [E1 E2]. apply IHr in E2. congruence.
    + intros E. injection E as E1 E2. split; [assumption|]. apply IHr. congruence.
  - revert fs0. induction IH as [|[k x] r Hx _ IHr]; intros [|[k' y] ys]; simpl;
      try (split; [reflexivity || discriminate | reflexivity || discriminate]).
    simpl in Hx. rewrite !andb_true_iff, Hx, str_eqb_eq. specialize (IHr ys). split.
    + intros [[E0 E1] E2]. apply IHr in E2. congruence.
    + intros E. injection E as E0 E1 E2. split; [split; assumption|]. apply IHr. congruence.
Qed.
Lemma ty_eqb_refl a : ty_eqb a a = true.
Proof. apply ty_eqb_eq. reflexivity. Qed.
Lemma ty_eqb_neq a b : ty_eqb a b = false <-> a <> b.
Proof.
  split.
  - intros H E. apply ty_eqb_eq in E. congruence.
  - intros H. destruct (ty_eqb a b) eqn:E; [|reflexivity]. apply ty_eqb_eq in E. contradiction.
Qed.

(* ---- diagnostics ------------------------------------------------------------------------ *)
Lemma has_errors_app a b : has_errors (a ++ b) = has_errors a || has_errors b.
Proof. apply existsb_app. Qed.
Lemma has_unsupported_app a b : has_unsupported (a ++ b) = has_unsupported a || has_unsupported b.
Proof. apply existsb_app. Qed.

(* "no error and nothing outside the model" *)
Definition diag_ok (ds : list diag) : bool := negb (has_errors ds) && negb (has_unsupported ds).
Lemma diag_ok_app a b : diag_ok (a ++ b) = diag_ok a && diag_ok b.
Proof.
  unfold diag_ok. rewrite has_errors_app, has_unsupported_app.
  destruct (has_errors a), (has_errors b), (has_unsupported a), (has_unsupported b); reflexivity.
Qed.
Lemma diag_ok_nil : diag_ok [] = true. Proof. reflexivity. Qed.
Lemma diag_ok_err s fr : diag_ok [derr s fr] = false. Proof. reflexivity. Qed.
Lemma diag_ok_unsup : diag_ok [dunsupported] = false. Proof. reflexivity. Qed.
Lemma diag_ok_intro ds : has_errors ds = false -> has_unsupported ds = false -> diag_ok ds = true.
Proof. unfold diag_ok. intros -> ->. reflexivity. Qed.
Lemma diag_ok_elim ds : diag_ok ds = true -> has_errors ds = false /\ has_unsupported ds = false.
Proof. unfold diag_ok. destruct (has_errors ds), (has_unsupported ds); simpl; intuition discriminate. Qed.
Lemma diag_ok_concat l : diag_ok (concat l) = forallb diag_ok l.
Proof. induction l as [|x r IH]; simpl; [reflexivity|]. rewrite diag_ok_app, IH. reflexivity. Qed.

(* ---- marks: normal form ------------------------------------------------------------------ *)
(* [mwf v]: no VMark directly inside a VMark, at any depth (the data-structure invariant of
   Values.v: "v not itself a VMark"). *)
Fixpoint mwf (v : val) : bool :=
  match v with
  | VMark _ v' => negb (is_marked v') && mwf v'
  | VList _ l | VSet _ l | VTuple l => forallb mwf l
  | VMap _ l | VObj l => forallb (fun p => mwf (snd p)) l
  | _ => true
  end.

(* wholly known and mark-normal *)
Definition good (v : val) : bool := wholly_known v && mwf v.

Lemma good_iff v : good v = true <-> wholly_known v = true /\ mwf v = true.
Proof. unfold good. apply andb_true_iff. Qed.

Lemma good_unmark v u m : good v = true -> unmark v = (u, m) -> good u = true /\ is_marked u = false.
Proof.
  unfold good. intros H E. destruct v; simpl in E; inversion E; subst; try (split; [assumption|reflexivity]).
  simpl in H. apply andb_true_iff in H as [H1 H2]. apply andb_true_iff in H2 as [H2 H3].
  split; [apply andb_true_iff; split; assumption|]. apply negb_true_iff in H2. assumption.
Qed.

Lemma good_with_marks v m : good v = true -> good (with_marks v m) = true.
Proof.
  unfold good. intros H. destruct m as [|x m]; [assumption|].
  destruct (is_marked v) eqn:Em.
  - destruct v; try discriminate. simpl in *. exact H.
  - assert (E : with_marks v (x :: m) = VMark (x :: m) v) by (destruct v; try reflexivity; discriminate).
    rewrite E. simpl. rewrite Em. simpl. exact H.
Qed.

Lemma good_with_same_marks v src : good v = true -> good (with_same_marks v src) = true.
Proof. apply good_with_marks. Qed.

Lemma good_is_known v : good v = true -> is_known v = true.
Proof.
  unfold good, is_known. destruct v; simpl; try reflexivity; try discriminate.
  intros H. apply andb_true_iff in H as [H1 H2]. destruct v; simpl in *; try reflexivity; discriminate.
Qed.

Lemma wk_is_known v : wholly_known v = true -> mwf v = true -> is_known v = true.
Proof. intros H1 H2. apply good_is_known. unfold good. rewrite H1, H2. reflexivity. Qed.

(* A good value of dynamic type is a null. *)
Lemma good_dyn_is_null v : good v = true -> type_of v = TDyn -> is_null v = true.
Proof.
  unfold good, is_null. intros H T. destruct v; simpl in *; try discriminate; try reflexivity.
  apply andb_true_iff in H as [H1 H2]. apply andb_true_iff in H2 as [H2 H3].
  destruct v; simpl in *; try discriminate; reflexivity.
Qed.

Lemma good_list_elems t l : good (VList t l) = true -> Forall (fun x => good x = true) l.
Proof.
  unfold good. simpl. intros H. apply andb_true_iff in H as [H1 H2].
  rewrite forallb_Forall in H1, H2. rewrite Forall_forall in *. intros x Hx.
  rewrite (H1 x Hx), (H2 x Hx). reflexivity.
Qed.

Lemma good_forall_intro (l : list val) :
  Forall (fun x => good x = true) l -> forallb wholly_known l = true /\ forallb mwf l = true.
Proof.
  intros H. split; apply forallb_Forall; eapply Forall_impl; try exact H;
    intros x Hx; apply good_iff in Hx; tauto.
Qed.
Lemma good_forall_elim (l : list val) :
  forallb wholly_known l = true -> forallb mwf l = true -> Forall (fun x => good x = true) l.
Proof.
  intros H1 H2. rewrite forallb_Forall in H1, H2. rewrite Forall_forall in *. intros x Hx.
  apply good_iff. split; auto.
Qed.
Lemma good_forall_intro2 (l : list (list Z * val)) :
  Forall (fun p => good (snd p) = true) l ->
  forallb (fun p => wholly_known (snd p)) l = true /\ forallb (fun p => mwf (snd p)) l = true.
Proof.
  intros H. split; apply forallb_Forall; eapply Forall_impl; try exact H;
    intros x Hx; apply good_iff in Hx; tauto.
Qed.
Lemma good_forall_elim2 (l : list (list Z * val)) :
  forallb (fun p => wholly_known (snd p)) l = true -> forallb (fun p => mwf (snd p)) l = true ->
  Forall (fun p => good (snd p) = true) l.
Proof.
  intros H1 H2. rewrite forallb_Forall in H1, H2. rewrite Forall_forall in *. intros x Hx.
  apply good_iff. split; [apply (H1 x Hx)|apply (H2 x Hx)].
Qed.

Lemma good_VList t l : good (VList t l) = true <-> Forall (fun x => good x = true) l.
Proof.
  split.
  - apply good_list_elems.
  - intros H. apply good_forall_intro in H as [H1 H2]. unfold good. simpl. rewrite H1, H2. reflexivity.
Qed.
Lemma good_VSet t l : good (VSet t l) = true <-> Forall (fun x => good x = true) l.
Proof. apply (good_VList t l). Qed.
Lemma good_VTuple l : good (VTuple l) = true <-> Forall (fun x => good x = true) l.
Proof. apply (good_VList TDyn l). Qed.
Lemma good_VMap t l : good (VMap t l) = true <-> Forall (fun p => good (snd p) = true) l.
Proof.
  split.
  - unfold good. simpl. intros H. apply andb_true_iff in H as [H1 H2]. apply good_forall_elim2; assumption.
  - intros H. apply good_forall_intro2 in H as [H1 H2]. unfold good. simpl. rewrite H1, H2. reflexivity.
Qed.
Lemma good_VObj l : good (VObj l) = true <-> Forall (fun p => good (snd p) = true) l.
Proof. apply (good_VMap TDyn l). Qed.

(* deep unmarking of a good value *)
Lemma unmark_deep_good : forall v, good v = true -> good (unmark_deep v) = true.
Proof.
  induction v as [s|n|b|t|t r|t l IH|t l IH|t l IH|l IH|l IH|m v IH] using val_ind'; intros H;
    try exact H.
  - simpl. apply good_VList in H. apply good_VList. rewrite Forall_forall in *.
    intros x Hx. apply in_map_iff in Hx as [y [<- Hy]]. auto.
  - simpl. apply good_VSet in H. apply good_VSet. rewrite Forall_forall in *.
    intros x Hx. apply in_map_iff in Hx as [y [<- Hy]]. auto.
  - simpl. apply good_VMap in H. apply good_VMap. rewrite Forall_forall in *.
    intros x Hx. apply in_map_iff in Hx as [y [<- Hy]]. simpl. auto.
  - simpl. apply good_VTuple in H. apply good_VTuple. rewrite Forall_forall in *.
    intros x Hx. apply in_map_iff in Hx as [y [<- Hy]]. auto.
  - simpl. apply good_VObj in H. apply good_VObj. rewrite Forall_forall in *.
    intros x Hx. apply in_map_iff in Hx as [y [<- Hy]]. simpl. auto.
  - simpl. apply IH. unfold good in *. simpl in H.
    apply andb_true_iff in H as [H1 H2]. apply andb_true_iff in H2 as [H2 H3].
    rewrite H1, H3. reflexivity.
Qed.

Lemma unmark_deep_not_marked : forall v, is_marked (unmark_deep v) = false.
Proof.
  induction v as [s|n|b|t|t r|t l IH|t l IH|t l IH|l IH|l IH|m v IH] using val_ind'; simpl; auto.
Qed.

(* ---- all_ok ----------------------------------------------------------------------------- *)
Lemma all_ok_never_none l : all_ok l <> inl None.
Proof.
  induction l as [|c r IH]; simpl; [discriminate|].
  fold (all_ok r). destruct (all_ok r) as [[vs|]|e]; [|contradiction|discriminate].
  destruct c; discriminate.
Qed.

Lemma all_ok_inr_not_ok l v : all_ok l <> inr (COk v).
Proof.
  induction l as [|c r IH]; simpl; [discriminate|].
  fold (all_ok r). destruct (all_ok r) as [[vs|]|e]; try discriminate.
  - destruct c; discriminate.
  - exact IH.
Qed.

Lemma all_ok_Forall2 l vs : all_ok l = inl (Some vs) -> Forall2 (fun c v => c = COk v) l vs.
Proof.
  revert vs. induction l as [|c r IH]; simpl; intros vs H.
  - inversion H. constructor.
  - fold (all_ok r) in H. destruct (all_ok r) as [[vs'|]|e]; try discriminate.
    destruct c; try discriminate. inversion H; subst. constructor; auto.
Qed.

Lemma all_ok_map_Forall2 {A} (g : A -> cres) l vs :
  all_ok (map g l) = inl (Some vs) -> Forall2 (fun x v => g x = COk v) l vs.
Proof.
  intros H. apply all_ok_Forall2 in H. revert vs H.
  induction l as [|x r IH]; intros vs H; inversion H; subst; constructor; auto.
Qed.

Lemma Forall2_transfer {A B} (R : A -> B -> Prop) (Q : B -> Prop) l vs :
  Forall2 R l vs -> (forall x v, In x l -> R x v -> Q v) -> Forall Q vs.
Proof.
  induction 1 as [|x v l vs Hxv _ IH]; intros H; constructor.
  - apply (H x v); [left; reflexivity|assumption].
  - apply IH. intros x' v' Hin. apply H. right. assumption.
Qed.

Lemma Forall2_length {A B} (R : A -> B -> Prop) l vs : Forall2 R l vs -> length l = length vs.
Proof. induction 1; simpl; congruence. Qed.

Lemma assoc_get_In {A} k (l : list (list Z * A)) v : assoc_get k l = Some v -> exists k', In (k', v) l.
Proof.
  induction l as [|[k' v'] r IH]; simpl; [discriminate|].
  destruct (str_eqb k k').
  - intros E. inversion E; subst. exists k'. left. reflexivity.
  - intros E. destruct (IH E) as [k'' Hin]. exists k''. right. assumption.
Qed.

Lemma Forall_snd_combine {A B} (Q : B -> Prop) (ks : list A) (vs : list B) :
  Forall Q vs -> Forall (fun p => Q (snd p)) (combine ks vs).
Proof.
  intros H. apply Forall_forall. intros [k v] Hin. apply in_combine_r in Hin.
  rewrite Forall_forall in H. simpl. auto.
Qed.

(* ---- conversion preserves [good] ---------------------------------------------------------- *)

(* ---- conversion: one inversion lemma used by every later proof about [convert] ------------- *)
Definition conv_pre (v : val) (want : ty) : Prop :=
  ty_eqb (type_of v) want = false /\ want <> TDyn /\
  conv_exists (ty_size (type_of v) + ty_size want) (type_of v) want = true.

Definition str_true : list Z := [116;114;117;101].
Definition str_false : list Z := [102;97;108;115;101].

Inductive conv_step (f : nat) : val -> ty -> val -> Prop :=
| CS_mark m v want r' : convert f v want = COk r' -> conv_step f (VMark m v) want (with_marks r' m)
| CS_same v want : is_marked v = false -> ty_eqb (type_of v) want = true -> conv_step f v want v
| CS_dyn v : is_marked v = false -> conv_step f v TDyn v
| CS_unk t rf want : conv_pre (VUnk t rf) want ->
    conv_step f (VUnk t rf) want
      (match conv_unknown_rf t rf want with
       | RWild => VUnk (dynamic_replace (ty_size want) t want) RWild
       | RExact x => finish_unknown (dynamic_replace (ty_size want) t want) x end)
| CS_null t want : conv_pre (VNull t) want ->
    conv_step f (VNull t) want (VNull (dynamic_replace (ty_size want) t want))
| CS_num n : conv_step f (VNum n) TStr (VStr (num_to_str n))
| CS_bool b : conv_step f (VBool b) TStr (VStr (if b then str_true else str_false))
| CS_str_num s n : str_to_num s = Some n -> conv_step f (VStr s) TNum (VNum n)
| CS_str_bool s b :
    (if str_eqb s str_true || str_eqb s [49] then Some true
     else if str_eqb s str_false || str_eqb s [48] then Some false else None) = Some b ->
    conv_step f (VStr s) TBool (VBool b)
| CS_list t l w vs : conv_pre (VList t l) (TList w) -> has_dyn w = false ->
    Forall2 (fun x v => convert f x w = COk v) l vs -> conv_step f (VList t l) (TList w) (VList w vs)
| CS_set t l w vs : conv_pre (VSet t l) (TList w) -> has_dyn w = false ->
    Forall2 (fun x v => convert f x w = COk v) l vs -> conv_step f (VSet t l) (TList w) (VList w vs)
| CS_tuple_list l w vs : conv_pre (VTuple l) (TList w) -> has_dyn w = false ->
    Forall2 (fun x v => convert f x w = COk v) l vs -> conv_step f (VTuple l) (TList w) (VList w vs)
| CS_tuple l ws vs : conv_pre (VTuple l) (TTuple ws) ->
    Forall2 (fun p v => convert f (fst p) (snd p) = COk v) (combine l ws) vs ->
    conv_step f (VTuple l) (TTuple ws) (VTuple vs)
| CS_map t kvs w vs : conv_pre (VMap t kvs) (TMap w) -> has_dyn w = false ->
    Forall2 (fun p v => convert f (snd p) w = COk v) kvs vs ->
    conv_step f (VMap t kvs) (TMap w) (VMap w (combine (map fst kvs) vs))
| CS_obj_map kvs w vs : conv_pre (VObj kvs) (TMap w) -> has_dyn w = false ->
    Forall2 (fun p v => convert f (snd p) w = COk v) kvs vs ->
    conv_step f (VObj kvs) (TMap w) (VMap w (combine (map fst kvs) vs))
| CS_obj kvs ws vs : conv_pre (VObj kvs) (TObj ws) ->
    Forall2 (fun p v => match assoc_get (fst p) kvs with
                        | Some x => convert f x (snd p)
                        | None => CErr CEOther end = COk v) ws vs ->
    conv_step f (VObj kvs) (TObj ws) (VObj (combine (map fst ws) vs)).

Ltac conv_head E :=
  cbn [convert] in E;
  match type of E with
  | (if ty_eqb ?a ?b then _ else _) = _ =>
      let Et := fresh "Et" in
      destruct (ty_eqb a b) eqn:Et;
      [inversion E; subst; apply CS_same; [reflexivity|exact Et]|]
  end.

Lemma convert_inv f v want r : convert (S f) v want = COk r -> conv_step f v want r.
Proof.
  intros E. destruct v as [s|n|b|t|t rf|t l|t l|t kvs|l|kvs|m v].
  - (* VStr *) conv_head E.
    destruct want; try (inversion E; subst; apply CS_dyn; reflexivity);
      match type of E with (if negb ?c then _ else _) = _ => destruct c eqn:Ec; cbn [negb] in E end;
      try discriminate.
    + destruct (str_to_num s) eqn:En; [|discriminate]. inversion E; subst. apply CS_str_num. assumption.
    + change [116;114;117;101] with str_true in E. change [102;97;108;115;101] with str_false in E.
      destruct (str_eqb s str_true || str_eqb s [49]) eqn:E1.
      { inversion E; subst. apply CS_str_bool. rewrite E1. reflexivity. }
      destruct (str_eqb s str_false || str_eqb s [48]) eqn:E2; [|discriminate].
      inversion E; subst. apply CS_str_bool. rewrite E1, E2. reflexivity.
  - (* VNum *) conv_head E.
    destruct want; try (inversion E; subst; apply CS_dyn; reflexivity);
      match type of E with (if negb ?c then _ else _) = _ => destruct c eqn:Ec; cbn [negb] in E end;
      try discriminate.
    inversion E; subst. apply CS_num.
  - (* VBool *) conv_head E.
    destruct want; try (inversion E; subst; apply CS_dyn; reflexivity);
      match type of E with (if negb ?c then _ else _) = _ => destruct c eqn:Ec; cbn [negb] in E end;
      try discriminate.
    inversion E; subst. apply (CS_bool f b).
  - (* VNull *) conv_head E.
    assert (P : want = TDyn \/ conv_pre (VNull t) want /\
                COk (VNull (dynamic_replace (ty_size want) t want)) = COk r).
    { destruct want; try (left; reflexivity);
        match type of E with (if negb ?c then _ else _) = _ => destruct c eqn:Ec; cbn [negb] in E end;
        try discriminate; right; (split; [split; [exact Et|split; [discriminate|exact Ec]]|exact E]). }
    destruct P as [->|[P1 P2]].
    + inversion E; subst. apply CS_dyn. reflexivity.
    + inversion P2; subst. apply CS_null. exact P1.
  - (* VUnk *) conv_head E.
    assert (P : want = TDyn \/ conv_pre (VUnk t rf) want /\
                match conv_unknown_rf t rf want with
                | RWild => COk (VUnk (dynamic_replace (ty_size want) t want) RWild)
                | RExact x => COk (finish_unknown (dynamic_replace (ty_size want) t want) x) end = COk r).
    { destruct want; try (left; reflexivity);
        match type of E with (if negb ?c then _ else _) = _ => destruct c eqn:Ec; cbn [negb] in E end;
        try discriminate; right; (split; [split; [exact Et|split; [discriminate|exact Ec]]|exact E]). }
    destruct P as [->|[P1 P2]].
    + inversion E; subst. apply CS_dyn. reflexivity.
    + pose proof (CS_unk f t rf want P1) as Q.
      destruct (conv_unknown_rf t rf want); inversion P2; subst; exact Q.
  - (* VList *) conv_head E.
    destruct want; try (inversion E; subst; apply CS_dyn; reflexivity);
      match type of E with (if negb ?c then _ else _) = _ => destruct c eqn:Ec; cbn [negb] in E end;
      try discriminate.
    destruct (all_ok (map (fun x => convert f x want) l)) as [[vs|]|e] eqn:Ea; try discriminate.
    + destruct (has_dyn want) eqn:Ed; [discriminate|]. inversion E; subst.
      apply CS_list; [split; [exact Et|split; [discriminate|exact Ec]]|exact Ed|].
      apply all_ok_map_Forall2. exact Ea.
    + subst e. exfalso. exact (all_ok_inr_not_ok _ _ Ea).
  - (* VSet *) conv_head E.
    destruct want; try (inversion E; subst; apply CS_dyn; reflexivity);
      match type of E with (if negb ?c then _ else _) = _ => destruct c eqn:Ec; cbn [negb] in E end;
      try discriminate.
    destruct (all_ok (map (fun x => convert f x want) l)) as [[vs|]|e] eqn:Ea; try discriminate.
    + destruct (has_dyn want) eqn:Ed; [discriminate|]. inversion E; subst.
      apply CS_set; [split; [exact Et|split; [discriminate|exact Ec]]|exact Ed|].
      apply all_ok_map_Forall2. exact Ea.
    + subst e. exfalso. exact (all_ok_inr_not_ok _ _ Ea).
  - (* VMap *) conv_head E.
    destruct want; try (inversion E; subst; apply CS_dyn; reflexivity);
      match type of E with (if negb ?c then _ else _) = _ => destruct c eqn:Ec; cbn [negb] in E end;
      try discriminate.
    destruct (all_ok (map (fun p => convert f (snd p) want) kvs)) as [[vs|]|e] eqn:Ea; try discriminate.
    + destruct (has_dyn want) eqn:Ed; [discriminate|]. inversion E; subst.
      apply CS_map; [split; [exact Et|split; [discriminate|exact Ec]]|exact Ed|].
      apply all_ok_map_Forall2. exact Ea.
    + subst e. exfalso. exact (all_ok_inr_not_ok _ _ Ea).
  - (* VTuple *) conv_head E.
    destruct want; try (inversion E; subst; apply CS_dyn; reflexivity);
      match type of E with (if negb ?c then _ else _) = _ => destruct c eqn:Ec; cbn [negb] in E end;
      try discriminate.
    + destruct (all_ok (map (fun x => convert f x want) l)) as [[vs|]|e] eqn:Ea; try discriminate.
      * destruct (has_dyn want) eqn:Ed; [discriminate|]. inversion E; subst.
        apply CS_tuple_list; [split; [exact Et|split; [discriminate|exact Ec]]|exact Ed|].
        apply all_ok_map_Forall2. exact Ea.
      * subst e. exfalso. exact (all_ok_inr_not_ok _ _ Ea).
    + destruct (all_ok (map (fun p => convert f (fst p) (snd p)) (combine l ts))) as [[vs|]|e] eqn:Ea;
        try discriminate.
      * inversion E; subst.
        apply CS_tuple; [split; [exact Et|split; [discriminate|exact Ec]]|].
        apply all_ok_map_Forall2. exact Ea.
      * subst e. exfalso. exact (all_ok_inr_not_ok _ _ Ea).
  - (* VObj *) conv_head E.
    destruct want; try (inversion E; subst; apply CS_dyn; reflexivity);
      match type of E with (if negb ?c then _ else _) = _ => destruct c eqn:Ec; cbn [negb] in E end;
      try discriminate.
    + destruct (all_ok (map (fun p => convert f (snd p) want) kvs)) as [[vs|]|e] eqn:Ea; try discriminate.
      * destruct (has_dyn want) eqn:Ed; [discriminate|]. inversion E; subst.
        apply CS_obj_map; [split; [exact Et|split; [discriminate|exact Ec]]|exact Ed|].
        apply all_ok_map_Forall2. exact Ea.
      * subst e. exfalso. exact (all_ok_inr_not_ok _ _ Ea).
    + match type of E with
      | match all_ok (map ?g fs) with _ => _ end = _ =>
          destruct (all_ok (map g fs)) as [[vs|]|e] eqn:Ea; try discriminate
      end.
      * inversion E; subst.
        apply CS_obj; [split; [exact Et|split; [discriminate|exact Ec]]|].
        apply all_ok_map_Forall2 in Ea. exact Ea.
      * subst e. exfalso. exact (all_ok_inr_not_ok _ _ Ea).
  - (* VMark *) cbn [convert] in E. destruct (convert f v want) eqn:Ev; try discriminate.
    inversion E; subst. apply CS_mark. exact Ev.
Qed.

Lemma good_VMark_inv m v : good (VMark m v) = true -> good v = true.
Proof.
  unfold good. simpl. intros H. apply andb_true_iff in H as [H1 H2].
  apply andb_true_iff in H2 as [H2 H3]. rewrite H1, H3. reflexivity.
Qed.

Lemma convert_good : forall f v t r, good v = true -> convert f v t = COk r -> good r = true.
Proof.
  induction f as [|f IH]; intros v t r G E; [discriminate|].
  apply convert_inv in E.
  destruct E as [m v want r' E|v want Hm Et|v Hm|t0 rf want P|t0 want P|n|b|s n En|s b Eb
                 |t0 l w vs P Hd F|t0 l w vs P Hd F|l w vs P Hd F|l ws vs P F
                 |t0 kvs w vs P Hd F|kvs w vs P Hd F|kvs ws vs P F];
    try exact G; try reflexivity; try discriminate.
  - apply good_with_marks. apply (IH v want r'); [apply (good_VMark_inv m v G)|exact E].
  - apply good_VList in G. apply good_VList.
    apply (Forall2_transfer _ _ _ _ F). intros x v Hin Hc.
    rewrite Forall_forall in G. apply (IH x w v); auto.
  - apply good_VSet in G. apply good_VList.
    apply (Forall2_transfer _ _ _ _ F). intros x v Hin Hc.
    rewrite Forall_forall in G. apply (IH x w v); auto.
  - apply good_VTuple in G. apply good_VList.
    apply (Forall2_transfer _ _ _ _ F). intros x v Hin Hc.
    rewrite Forall_forall in G. apply (IH x w v); auto.
  - apply good_VTuple in G. apply good_VTuple.
    apply (Forall2_transfer _ _ _ _ F). intros [x w] v Hin Hc. simpl in Hc.
    apply in_combine_l in Hin. rewrite Forall_forall in G. apply (IH x w v); auto.
  - apply good_VMap in G. apply good_VMap. apply (Forall_snd_combine (fun v => good v = true)).
    apply (Forall2_transfer _ _ _ _ F). intros x v Hin Hc.
    rewrite Forall_forall in G. apply (IH (snd x) w v); auto.
  - apply good_VObj in G. apply good_VMap. apply (Forall_snd_combine (fun v => good v = true)).
    apply (Forall2_transfer _ _ _ _ F). intros x v Hin Hc.
    rewrite Forall_forall in G. apply (IH (snd x) w v); auto.
  - apply good_VObj in G. apply good_VObj. apply (Forall_snd_combine (fun v => good v = true)).
    apply (Forall2_transfer _ _ _ _ F). intros [k w] v Hin Hc. simpl in Hc.
    destruct (assoc_get k kvs) as [x|] eqn:Ex; [|discriminate].
    apply assoc_get_In in Ex as [k' Hk]. rewrite Forall_forall in G.
    apply (IH x w v); [apply (G (k', x) Hk)|exact Hc].
Qed.

Lemma conv_good v t r : good v = true -> conv v t = COk r -> good r = true.
Proof. unfold conv. apply convert_good. Qed.

(* an equation between pairs whose diagnostics are visibly not ok *)
Ltac pair_bad E :=
  lazymatch type of E with
  | (_, _) = (_, _) => injection E as ? ?; subst; discriminate
  end.

(* ---- the type of a converted value ---------------------------------------------------------- *)
Lemma type_of_with_marks v m : type_of (with_marks v m) = type_of v.
Proof. destruct m; [reflexivity|]. destruct v; reflexivity. Qed.

Lemma type_of_finish_unknown t x : type_of (finish_unknown t x) = t.
Proof.
  unfold finish_unknown. destruct (negb (r_notnull x)); [reflexivity|].
  destruct t; try reflexivity.
  - destruct (r_lo x) as [[a [|]]|]; try reflexivity. destruct (r_hi x) as [[b [|]]|]; try reflexivity.
    destruct (num_eqb a b); reflexivity.
  - destruct (r_lenhi x); [|reflexivity]. destruct (r_lenlo x =? z); reflexivity.
  - destruct (r_lenhi x); [|reflexivity]. destruct (r_lenlo x =? z); [|reflexivity].
    destruct (z =? 0); [reflexivity|]. destruct (z =? 1); reflexivity.
  - destruct (r_lenhi x); [|reflexivity]. destruct ((r_lenlo x =? z) && (z =? 0)); reflexivity.
Qed.

Lemma map_snd_combine {A B} (a : list A) (b : list B) : length a = length b -> map snd (combine a b) = b.
Proof.
  revert b. induction a as [|x a IH]; intros [|y b]; simpl; try discriminate; try reflexivity.
  intros E. f_equal. apply IH. congruence.
Qed.
Lemma map_fst_combine {A B} (a : list A) (b : list B) : length a = length b -> map fst (combine a b) = a.
Proof.
  revert b. induction a as [|x a IH]; intros [|y b]; simpl; try discriminate; try reflexivity.
  intros E. f_equal. apply IH. congruence.
Qed.

Lemma existsb_false_Forall {A} (f : A -> bool) l : existsb f l = false <-> Forall (fun x => f x = false) l.
Proof.
  induction l as [|x r IH]; simpl.
  - split; [constructor|reflexivity].
  - rewrite orb_false_iff, IH. split.
    + intros [H1 H2]. constructor; assumption.
    + intros H. inversion H; subst. split; assumption.
Qed.

Lemma dynamic_replace_nodyn : forall k have want, has_dyn want = false -> dynamic_replace k have want = want.
Proof.
  induction k as [|k IH]; intros have want H; [reflexivity|].
  destruct want as [| | | |w|w|w|ws|ws]; simpl in *; try reflexivity; try discriminate.
  - destruct have; try reflexivity; rewrite IH; auto.
  - destruct have; try reflexivity; rewrite IH; auto.
  - destruct have; try reflexivity; rewrite IH; auto.
  - destruct have as [| | | | | | |hs|]; try reflexivity.
    destruct (length hs =? length ws)%nat eqn:El; [|reflexivity].
    apply Nat.eqb_eq in El. f_equal.
    apply existsb_false_Forall in H.
    transitivity (map snd (combine hs ws)); [|apply map_snd_combine; assumption].
    apply map_ext_in. intros [h w] Hin. simpl. apply IH.
    apply in_combine_r in Hin. rewrite Forall_forall in H. auto.
  - destruct have as [| | | | | | | |hs]; try reflexivity.
    f_equal. apply existsb_false_Forall in H.
    transitivity (map (fun p : list Z * ty => p) ws); [|apply map_id].
    apply map_ext_in. intros [k' w] Hin. simpl.
    rewrite Forall_forall in H. specialize (H _ Hin). simpl in H.
    destruct (assoc_get k' hs); [rewrite IH; auto|reflexivity].
Qed.

Lemma conv_pre_tuple_len l ws : conv_pre (VTuple l) (TTuple ws) -> length l = length ws.
Proof.
  intros [Et [_ Ec]]. cbn [type_of] in Et, Ec.
  remember (TTuple (map type_of l)) as a eqn:Ha. remember (TTuple ws) as b eqn:Hb.
  assert (K : exists k, (ty_size a + ty_size b = S k)%nat) by (subst; simpl; eauto).
  destruct K as [k Hk]. rewrite Hk in Ec. cbn [conv_exists] in Ec. rewrite Et in Ec. subst a b.
  apply andb_true_iff in Ec as [Ec _]. apply Nat.eqb_eq in Ec. rewrite map_length in Ec. exact Ec.
Qed.

Lemma Forall2_map_eq {A B C} (g : A -> C) (h : B -> C) l vs :
  Forall2 (fun x v => h v = g x) l vs -> map h vs = map g l.
Proof. induction 1; simpl; congruence. Qed.

Lemma Forall2_impl_In {A B} (R Q : A -> B -> Prop) l vs :
  (forall x v, In x l -> In v vs -> R x v -> Q x v) -> Forall2 R l vs -> Forall2 Q l vs.
Proof.
  intros H F. induction F as [|x v l vs Hxv F IH]; constructor.
  - apply H; [left; reflexivity|left; reflexivity|assumption].
  - apply IH. intros x' v' Hx Hv. apply H; right; assumption.
Qed.

Lemma convert_type : forall f v want r,
  convert f v want = COk r -> has_dyn want = false -> type_of r = want.
Proof.
  induction f as [|f IH]; intros v want r E Hd; [discriminate|].
  apply convert_inv in E.
  destruct E as [m v want r' E|v want Hm Et|v Hm|t0 rf want P|t0 want P|n|b|s n En|s b Eb
                 |t0 l w vs P Hd' F|t0 l w vs P Hd' F|l w vs P Hd' F|l ws vs P F
                 |t0 kvs w vs P Hd' F|kvs w vs P Hd' F|kvs ws vs P F];
    try reflexivity; try discriminate.
  - rewrite type_of_with_marks. apply (IH v want r' E Hd).
  - apply ty_eqb_eq. exact Et.
  - rewrite (dynamic_replace_nodyn _ _ _ Hd).
    destruct (conv_unknown_rf t0 rf want); [reflexivity|apply type_of_finish_unknown].
  - simpl. rewrite (dynamic_replace_nodyn _ _ _ Hd). reflexivity.
  - (* tuple -> tuple *)
    simpl. f_equal. pose proof (conv_pre_tuple_len _ _ P) as Len.
    simpl in Hd. apply existsb_false_Forall in Hd.
    transitivity (map snd (combine l ws)); [|apply map_snd_combine; exact Len].
    apply Forall2_map_eq. eapply Forall2_impl_In; [|exact F].
    intros [x w] v Hin _ Hc. simpl in *. apply (IH x w v Hc).
    apply in_combine_r in Hin. rewrite Forall_forall in Hd. auto.
  - (* object -> object *)
    simpl. f_equal. pose proof (Forall2_length _ _ _ F) as Len.
    simpl in Hd. apply existsb_false_Forall in Hd.
    assert (Q : forall ws vs, Forall2 (fun (p : list Z * ty) v => type_of v = snd p) ws vs ->
                map (fun p : list Z * val => (fst p, type_of (snd p))) (combine (map fst ws) vs) = ws).
    { clear. induction 1 as [|[k w] v ws vs H _ IHF]; simpl; [reflexivity|].
      simpl in H. rewrite H, IHF. reflexivity. }
    apply Q. eapply Forall2_impl_In; [|exact F].
    intros [k w] v Hin _ Hc. simpl in *.
    destruct (assoc_get k kvs) as [x|]; [|discriminate].
    apply (IH x w v Hc). rewrite Forall_forall in Hd. apply (Hd _ Hin).
Qed.

Lemma conv_type v want r : conv v want = COk r -> has_dyn want = false -> type_of r = want.
Proof. unfold conv. apply convert_type. Qed.

(* shapes of good unmarked values of primitive type *)
Lemma good_bool_shape u : good u = true -> is_marked u = false -> type_of u = TBool ->
  (exists b, u = VBool b) \/ u = VNull TBool.
Proof.
  intros G M T. destruct u; simpl in *; try discriminate.
  - left. eexists. reflexivity.
  - right. congruence.
Qed.
Lemma good_num_shape u : good u = true -> is_marked u = false -> type_of u = TNum ->
  (exists n, u = VNum n) \/ u = VNull TNum.
Proof.
  intros G M T. destruct u; simpl in *; try discriminate.
  - left. eexists. reflexivity.
  - right. congruence.
Qed.
Lemma good_str_shape u : good u = true -> is_marked u = false -> type_of u = TStr ->
  (exists s, u = VStr s) \/ u = VNull TStr.
Proof.
  intros G M T. destruct u; simpl in *; try discriminate.
  - left. eexists. reflexivity.
  - right. congruence.
Qed.

Lemma unmark_type v : type_of (fst (unmark v)) = type_of v.
Proof. destruct v; reflexivity. Qed.
Lemma unmark_is_null v : is_null (fst (unmark v)) = is_null v \/ is_marked (fst (unmark v)) = true.
Proof. destruct v; try (left; reflexivity). simpl. destruct v; try (left; reflexivity). right. reflexivity. Qed.

Lemma good_VBool b : good (VBool b) = true. Proof. reflexivity. Qed.
Lemma good_VNum n : good (VNum n) = true. Proof. reflexivity. Qed.
Lemma good_VStr s : good (VStr s) = true. Proof. reflexivity. Qed.
Lemma good_VUnk t r : good (VUnk t r) = false. Proof. reflexivity. Qed.

Lemma diag_ok_cons_err s fr l : diag_ok (derr s fr :: l) = false.
Proof. reflexivity. Qed.
Lemma diag_ok_cons_unsup l : diag_ok (dunsupported :: l) = false.
Proof. unfold diag_ok. simpl. apply andb_false_r. Qed.

(* [E : (x, diags) = (v, ds)] and [D : diag_ok ds = true] where diags visibly contain an error *)
Ltac dead E D :=
  injection E as <- <-;
  repeat rewrite diag_ok_app in D;
  rewrite ?diag_ok_cons_err, ?diag_ok_cons_unsup in D;
  rewrite ?andb_false_r, ?andb_false_l in D; discriminate D.

Lemma diag_ok_has_errors ds : has_errors ds = true -> diag_ok ds = false.
Proof. unfold diag_ok. intros ->. reflexivity. Qed.
Lemma diag_ok_has_unsupported ds : has_unsupported ds = true -> diag_ok ds = false.
Proof. unfold diag_ok. intros ->. apply andb_false_r. Qed.

(* ---- the unknown-condition branch of ConditionalExpr.Value, as a function -------------------- *)
(* verbatim copy of the corresponding part of [eval_with] (Impl.v, ECond, [negb (is_known cu)]);
   [eval_cond_unknown_eq] in the files using it checks by conversion that it IS that part. *)
Definition cond_unk (rt : ty) (cds : list diag) (mk : marks) (tu fu : val) : val * list diag :=
  let nn := match definitely_not_null tu, definitely_not_null fu with
            | Some a, Some b => Some (a && b) | _, _ => None end in
  match tu, fu with
  | VNull _, VNull _ => (with_marks (VNull rt) mk, cds)
  | _, _ =>
    match nn with
    | None => (with_marks (VUnk rt RWild) mk, cds)
    | Some nnb =>
      if ty_eqb (type_of tu) TNum && ty_eqb (type_of fu) TNum then
        match num_lo tu, num_lo fu, num_hi tu, num_hi fu with
        | Some tlo, Some flo, Some thi, Some fhi =>
            let lo := match tlo, flo with
                      | Some (a, ai), Some (b, bi) =>
                          if num_ltb a b then Some (a, ai)
                          else if num_eqb a b then Some (b, ai || bi) else Some (b, bi)
                      | _, _ => None end in
            let hi := match thi, fhi with
                      | Some (a, ai), Some (b, bi) =>
                          if num_ltb b a then Some (a, ai)
                          else if num_eqb a b then Some (b, ai || bi) else Some (b, bi)
                      | _, _ => None end in
            let lo := match lo with Some (NInf false, _) => None | o => o end in
            let hi := match hi with Some (NInf true, _) => None | o => o end in
            (with_marks (finish_unknown TNum (mkRefn nnb [] lo hi 0 None)) mk, cds)
        | _, _, _, _ => (with_marks (VUnk TNum RWild) mk, cds)
        end
      else if is_collection (type_of tu) && is_collection (type_of fu) && ty_eqb (type_of tu) (type_of fu) then
        match len_lo tu, len_lo fu, len_hi tu, len_hi fu with
        | Some tl, Some fl, Some th, Some fh =>
            let lo := Z.min tl fl in
            let hi := match th, fh with Some a, Some b => Some (Z.max a b) | _, _ => None end in
            (with_marks (finish_unknown rt (mkRefn nnb [] None None lo hi)) mk, cds)
        | _, _, _, _ => (with_marks (VUnk rt RWild) mk, cds)
        end
      else (with_marks (VUnk rt (RExact (mkRefn nnb [] None None 0 None))) mk, cds)
    end
  end.

Lemma cond_unk_snd rt cds mk tu fu : snd (cond_unk rt cds mk tu fu) = cds.
Proof.
  unfold cond_unk.
  repeat match goal with
         | |- context [match ?x with _ => _ end] => destruct x
         end; reflexivity.
Qed.

(* ---- nullness through conversion ------------------------------------------------------------- *)
Definition null_shape (v : val) : bool := match v with VNull _ => true | _ => false end.

Lemma finish_unknown_not_null t x : null_shape (finish_unknown t x) = false.
Proof.
  unfold finish_unknown. destruct (negb (r_notnull x)); [reflexivity|].
  destruct t; try reflexivity.
  - destruct (r_lo x) as [[a [|]]|]; try reflexivity. destruct (r_hi x) as [[b [|]]|]; try reflexivity.
    destruct (num_eqb a b); reflexivity.
  - destruct (r_lenhi x); [|reflexivity]. destruct (r_lenlo x =? z); reflexivity.
  - destruct (r_lenhi x); [|reflexivity]. destruct (r_lenlo x =? z); [|reflexivity].
    destruct (z =? 0); [reflexivity|]. destruct (z =? 1); reflexivity.
  - destruct (r_lenhi x); [|reflexivity]. destruct ((r_lenlo x =? z) && (z =? 0)); reflexivity.
Qed.

(* for an unmarked source: the result is a null only if the source is *)
Lemma convert_null_inv f v t r :
  convert (S f) v t = COk r -> is_marked v = false -> null_shape r = true -> null_shape v = true.
Proof.
  intros E M N. apply convert_inv in E.
  destruct E; try exact N; try discriminate; try reflexivity.
  destruct (conv_unknown_rf t rf want); [discriminate|].
  rewrite finish_unknown_not_null in N. discriminate.
Qed.

Lemma conv_null_inv v t r :
  conv v t = COk r -> is_marked v = false -> null_shape r = true -> null_shape v = true.
Proof. unfold conv. apply convert_null_inv. Qed.

Lemma is_null_unmarked v : is_marked v = false -> is_null v = null_shape v.
Proof. destruct v; try reflexivity. discriminate. Qed.
Lemma is_null_unmark v u m : unmark v = (u, m) -> is_null v = null_shape u.
Proof. unfold is_null. intros ->. reflexivity. Qed.

Lemma is_known_with_marks v m : is_known (with_marks v m) = is_known v.
Proof. destruct m; [reflexivity|]. destruct v; reflexivity. Qed.
Lemma is_null_with_marks v m : is_null (with_marks v m) = is_null v.
Proof. destruct m; [reflexivity|]. destruct v; reflexivity. Qed.
Lemma is_known_with_same_marks v s : is_known (with_same_marks v s) = is_known v.
Proof. apply is_known_with_marks. Qed.
Lemma type_of_with_same_marks v s : type_of (with_same_marks v s) = type_of v.
Proof. apply type_of_with_marks. Qed.

(* destruct the innermost scrutinee at the head of [E : match ... end = _] *)
Ltac destruct_scrut x :=
  lazymatch x with
  | match ?y with _ => _ end => destruct_scrut y
  | _ => destruct x
  end.
Ltac destruct_head E :=
  match type of E with
  | match ?x with _ => _ end = _ => destruct_scrut x
  end.

Lemma mwf_VMark_inv m v : mwf (VMark m v) = true -> is_marked v = false /\ mwf v = true.
Proof. simpl. intros H. apply andb_true_iff in H as [H1 H2]. apply negb_true_iff in H1. split; assumption. Qed.

Lemma convert_is_null : forall f v t r,
  mwf v = true -> convert f v t = COk r -> is_null r = true -> is_null v = true.
Proof.
  induction f as [|f IH]; intros v t r W E N; [discriminate|].
  destruct (is_marked v) eqn:M.
  - destruct v; try discriminate. apply mwf_VMark_inv in W as [Mv Wv].
    cbn [convert] in E. destruct (convert f v t) as [r'| |] eqn:E'; try discriminate.
    injection E as <-. rewrite is_null_with_marks in N.
    pose proof (IH v t r' Wv E' N) as Nv. rewrite (is_null_unmarked _ Mv) in Nv.
    unfold is_null. simpl. destruct v; try discriminate; reflexivity.
  - rewrite (is_null_unmarked _ M).
    assert (Mr : is_marked r = false).
    { apply convert_inv in E. inversion E; subst; try reflexivity; try discriminate; try assumption.
      destruct (conv_unknown_rf t0 rf t) as [|x]; [reflexivity|].
      unfold finish_unknown. repeat match goal with |- context [match ?y with _ => _ end] => destruct y end;
        reflexivity. }
    rewrite (is_null_unmarked _ Mr) in N. apply (convert_null_inv f v t r E M N).
Qed.

Lemma dynamic_replace_dyn want have : dynamic_replace (ty_size want) have want = TDyn -> want = TDyn.
Proof.
  destruct want; simpl; try discriminate; try reflexivity.
  - destruct have; discriminate.
  - destruct have; discriminate.
  - destruct have; discriminate.
  - destruct have; try discriminate. destruct (length ts0 =? length ts)%nat; discriminate.
  - destruct have; discriminate.
Qed.

Lemma convert_dyn_type : forall f v t r, convert f v t = COk r -> type_of r = TDyn -> t = TDyn.
Proof.
  induction f as [|f IH]; intros v t r E T; [discriminate|].
  apply convert_inv in E.
  destruct E as [m v want r' E|v want Hm Et|v Hm|t0 rf want P|t0 want P|n|b|s n En|s b Eb
                 |t0 l w vs P Hd' F|t0 l w vs P Hd' F|l w vs P Hd' F|l ws vs P F
                 |t0 kvs w vs P Hd' F|kvs w vs P Hd' F|kvs ws vs P F];
    try reflexivity; try discriminate.
  - rewrite type_of_with_marks in T. apply (IH v want r' E T).
  - apply ty_eqb_eq in Et. congruence.
  - destruct (conv_unknown_rf t0 rf want); [simpl in T|rewrite type_of_finish_unknown in T];
      apply dynamic_replace_dyn in T; exact T.
  - simpl in T. apply dynamic_replace_dyn in T. exact T.
Qed.
