(* Eval/MarksNI_Ops.v — C06: low-equivalence is respected by the value operations the
   evaluator uses (conversion to primitive / dynamic targets, operators, GetAttr, Index
   with an unmarked key, traversals, variable lookup, function calls). *)
From Coq Require Import QArith.
From HclV Require Import Base.Prelude Cty.Values Cty.Convert Cty.Ops Eval.Impl Eval.MarksNI.
Open Scope Z_scope.

(* ---- heads --------------------------------------------------------------------------------- *)
(* [leq_heads H]: H : leq m a b; case analysis on the head constructors of a and b, keeping
   only the consistent cases. *)
Ltac leq_heads H :=
  match type of H with
  | leq ?m ?a ?b =>
      unfold leq in H; (tryif is_var a then destruct a else idtac); (tryif is_var b then destruct b else idtac);
      cbn [erase] in H;
      repeat match type of H with context [mark_mem m ?x] => destruct (mark_mem m x) eqn:? end;
      try discriminate H
  end.

(* the primitive view of a value: everything an operator looks at *)
Definition pv (v : val) : val :=
  match v with
  | VStr _ | VNum _ | VBool _ | VNull _ | VUnk _ _ => v
  | VMark _ _ => VMark [] (VTuple [])
  | _ => VTuple []
  end.

Lemma pv_leq m a b : leq m a b -> pv a = pv b.
Proof. intro H. leq_heads H; cbn [pv]; try congruence; reflexivity. Qed.

Lemma leq_prim_eq m a b :
  leq m a b -> (match a with VStr _ | VNum _ | VBool _ | VNull _ | VUnk _ _ => True | _ => False end) -> a = b.
Proof. intros H Hp. leq_heads H; try contradiction; congruence. Qed.

(* ---- deep marks ------------------------------------------------------------------------------ *)
Section Deep.
  Variable m : Z.
  Let P (a1 : val) : Prop :=
    forall a2, leq m a1 a2 ->
      mark_mem m (deep_marks a1) = mark_mem m (deep_marks a2) /\
      (mark_mem m (deep_marks a1) = false -> a1 = a2).

  Lemma deep_list l :
    Forall P l -> forall l', Forall2 (leq m) l l' ->
      existsb (mark_mem m) (map deep_marks l) = existsb (mark_mem m) (map deep_marks l') /\
      (existsb (mark_mem m) (map deep_marks l) = false -> l = l').
  Proof.
    induction 1 as [|x r Hx _ IH]; intros l' H2; inversion H2 as [|? y ? s Hxy Hrs]; subst; cbn [map existsb].
    - split; reflexivity.
    - destruct (Hx _ Hxy) as [A B]. destruct (IH _ Hrs) as [C D]. split.
      + rewrite A, C. reflexivity.
      + intro E. apply orb_false_iff in E as [E1 E2]. rewrite (B E1), (D E2). reflexivity.
  Qed.

  Lemma deep_kv (l : list (list Z * val)) :
    Forall (fun p => P (snd p)) l -> forall l', Forall2 (leq_kv m) l l' ->
      existsb (mark_mem m) (map (fun p => deep_marks (snd p)) l)
      = existsb (mark_mem m) (map (fun p => deep_marks (snd p)) l') /\
      (existsb (mark_mem m) (map (fun p => deep_marks (snd p)) l) = false -> l = l').
  Proof.
    induction 1 as [|[k x] r Hx _ IH]; intros l' H2; inversion H2 as [|? [k' y] ? s [Hk Hxy] Hrs]; subst;
      cbn [map existsb fst snd] in *.
    - split; reflexivity.
    - destruct (Hx _ Hxy) as [A B]. destruct (IH _ Hrs) as [C D]. subst k'. split.
      + rewrite A, C. reflexivity.
      + intro E. apply orb_false_iff in E as [E1 E2]. rewrite (B E1), (D E2). reflexivity.
  Qed.

  Lemma leq_deep_all : forall a1, P a1.
  Proof.
    apply val_ind'; unfold P.
    - intros s a2 H. leq_heads H. injection H as ->. split; reflexivity.
    - intros n a2 H. leq_heads H. injection H as ->. split; reflexivity.
    - intros b a2 H. leq_heads H. injection H as ->. split; reflexivity.
    - intros t a2 H. leq_heads H. injection H as ->. split; reflexivity.
    - intros t r a2 H. leq_heads H. injection H as -> ->. split; reflexivity.
    - intros t l Hl a2 H. leq_heads H. injection H as -> H. apply map_erase_Forall2 in H.
      cbn [deep_marks]. rewrite !mark_mem_unions. destruct (deep_list l Hl _ H) as [A B].
      split; [exact A|intro E; rewrite (B E); reflexivity].
    - intros t l Hl a2 H. leq_heads H. injection H as -> H. apply map_erase_Forall2 in H.
      cbn [deep_marks]. rewrite !mark_mem_unions. destruct (deep_list l Hl _ H) as [A B].
      split; [exact A|intro E; rewrite (B E); reflexivity].
    - intros t l Hl a2 H. leq_heads H. injection H as -> H. apply map_erase_kv_Forall2 in H.
      cbn [deep_marks]. rewrite !mark_mem_unions. destruct (deep_kv l Hl _ H) as [A B].
      split; [exact A|intro E; rewrite (B E); reflexivity].
    - intros l Hl a2 H. leq_heads H. injection H as H. apply map_erase_Forall2 in H.
      cbn [deep_marks]. rewrite !mark_mem_unions. destruct (deep_list l Hl _ H) as [A B].
      split; [exact A|intro E; rewrite (B E); reflexivity].
    - intros l Hl a2 H. leq_heads H. injection H as H. apply map_erase_kv_Forall2 in H.
      cbn [deep_marks]. rewrite !mark_mem_unions. destruct (deep_kv l Hl _ H) as [A B].
      split; [exact A|intro E; rewrite (B E); reflexivity].
    - intros ms v IH a2 H. leq_heads H; cbn [deep_marks]; rewrite !mark_mem_union.
      + split; [|intro E]; rewrite Heqb in *; rewrite ?Heqb0; cbn in *; congruence.
      + injection H as -> H. destruct (IH _ H) as [A B]. split.
        * rewrite A. reflexivity.
        * intro E. apply orb_false_iff in E as [_ E]. rewrite (B E). reflexivity.
  Qed.

  Lemma leq_deep_mem a1 a2 : leq m a1 a2 -> mark_mem m (deep_marks a1) = mark_mem m (deep_marks a2).
  Proof. intro H. apply (leq_deep_all a1 a2 H). Qed.
  Lemma leq_deep_eq a1 a2 : leq m a1 a2 -> mark_mem m (deep_marks a1) = false -> a1 = a2.
  Proof. intro H. apply (leq_deep_all a1 a2 H). Qed.
End Deep.

(* ---- conversion to primitive or dynamic targets ------------------------------------------ *)
Definition pd_ty (t : ty) : bool := match t with TStr | TNum | TBool | TDyn => true | _ => false end.
Definition prim_head (v : val) : bool :=
  match v with VStr _ | VNum _ | VBool _ | VNull _ | VUnk _ _ => true | _ => false end.
Definition cont_head (v : val) : bool :=
  match v with VList _ _ | VSet _ _ | VMap _ _ | VTuple _ | VObj _ => true | _ => false end.

Lemma convert_prim_head f v want : prim_head v = true -> convert (S f) v want = convert 1 v want.
Proof. destruct v; try discriminate; reflexivity. Qed.

Lemma convert_cont_head f v want :
  cont_head v = true -> pd_ty want = true ->
  convert (S f) v want = if is_dyn want then COk v else convert 1 v want.
Proof. destruct v; try discriminate; destruct want; try discriminate; reflexivity. Qed.

Lemma convert_cont_head_err v want r :
  cont_head v = true -> pd_ty want = true -> is_dyn want = false -> convert 1 v want <> COk r.
Proof.
  intros Hc Hp Hd.
  assert (E : exists e, convert 1 v want = CErr e).
  { destruct v; try discriminate; destruct want; try discriminate; eexists; lazy; reflexivity. }
  destruct E as [e ->]. discriminate.
Qed.

Lemma convert_mark f ms v want :
  convert (S f) (VMark ms v) want =
  match convert f v want with COk r => COk (with_marks r ms) | other => other end.
Proof. reflexivity. Qed.

Lemma convert_leq_pd m want :
  pd_ty want = true ->
  forall f1 f2 v1 v2 r1 r2, leq m v1 v2 ->
    convert f1 v1 want = COk r1 -> convert f2 v2 want = COk r2 -> leq m r1 r2.
Proof.
  intro Hpd. induction f1 as [|f1 IH]; intros f2 v1 v2 r1 r2 H E1 E2; [discriminate E1|].
  destruct f2 as [|f2]; [discriminate E2|].
  leq_heads H;
    try (rewrite convert_prim_head in E1, E2 by reflexivity; injection H; intros; subst; congruence);
    try (rewrite convert_cont_head in E1, E2 by (reflexivity || exact Hpd);
         destruct (is_dyn want) eqn:Ed;
         [injection E1 as <-; injection E2 as <-; exact H
         |exfalso; revert E1; apply convert_cont_head_err; (reflexivity || assumption)]).
  - (* both starred *)
    rewrite convert_mark in E1, E2.
    destruct (convert f1 v1 want); try discriminate E1. destruct (convert f2 v2 want); try discriminate E2.
    injection E1 as <-. injection E2 as <-. apply stars_leq; apply with_marks_star; assumption.
  - injection H as -> H. rewrite convert_mark in E1, E2.
    destruct (convert f1 v1 want) eqn:C1; try discriminate E1.
    destruct (convert f2 v2 want) eqn:C2; try discriminate E2.
    injection E1 as <-. injection E2 as <-. apply with_marks_leq; [|apply marks_rel_refl].
    eapply IH; eassumption.
Qed.

Lemma conv_leq_pd m want v1 v2 r1 r2 :
  pd_ty want = true -> leq m v1 v2 -> conv v1 want = COk r1 -> conv v2 want = COk r2 -> leq m r1 r2.
Proof. unfold conv. intros. eapply convert_leq_pd; eassumption. Qed.

(* ---- operators ------------------------------------------------------------------------------ *)
Lemma lift_marks_ok ms r v : lift_marks ms r = OOk v -> exists v', r = OOk v' /\ v = with_marks v' ms.
Proof. destruct r; cbn; intro H; try discriminate. injection H as <-. eauto. Qed.

Definition is_eqop (o : binop) : bool := match o with OpEq | OpNe => true | _ => false end.

Lemma call_binop_pv o a b : is_eqop o = false -> call_binop o a b = call_binop o (pv a) (pv b).
Proof. destruct o; try discriminate; intros _; destruct a, b; reflexivity. Qed.

Definition eq_core (o : binop) (a b : val) : ores :=
  let a' := unmark_deep a in let b' := unmark_deep b in
  let r := equals (S (val_size a' + val_size b')) a' b' in
  match o, r with
  | OpNe, OOk (VBool x) => OOk (VBool (negb x))
  | _, _ => r
  end.
Lemma call_binop_eqop o a b :
  is_eqop o = true ->
  call_binop o a b = lift_marks (marks_union (deep_marks a) (deep_marks b)) (eq_core o a b).
Proof. destruct o; try discriminate; intros _; cbv beta iota delta [call_binop eq_core]; reflexivity. Qed.

Lemma call_binop_leq m o a1 a2 b1 b2 r1 r2 :
  leq m a1 a2 -> leq m b1 b2 ->
  call_binop o a1 b1 = OOk r1 -> call_binop o a2 b2 = OOk r2 -> leq m r1 r2.
Proof.
  intros Ha Hb E1 E2. destruct (is_eqop o) eqn:Eo.
  - assert (E1' : exists x, r1 = with_marks x (marks_union (deep_marks a1) (deep_marks b1))).
    { rewrite call_binop_eqop in E1 by exact Eo. apply lift_marks_ok in E1 as (x & _ & ->); eauto. }
    assert (E2' : exists x, r2 = with_marks x (marks_union (deep_marks a2) (deep_marks b2))).
    { rewrite call_binop_eqop in E2 by exact Eo. apply lift_marks_ok in E2 as (x & _ & ->); eauto. }
    destruct E1' as [x1 ->]. destruct E2' as [x2 ->].
    destruct (mark_mem m (marks_union (deep_marks a1) (deep_marks b1))) eqn:Em.
    + apply stars_leq; apply with_marks_star; [exact Em|].
      rewrite mark_mem_union in *. rewrite <- (leq_deep_mem m _ _ Ha), <- (leq_deep_mem m _ _ Hb). exact Em.
    + rewrite mark_mem_union in Em. apply orb_false_iff in Em as [Em1 Em2].
      apply (leq_deep_eq m _ _ Ha) in Em1. apply (leq_deep_eq m _ _ Hb) in Em2. subst.
      rewrite E1 in E2. injection E2 as <-. apply leq_refl.
  - rewrite call_binop_pv in E1, E2 by exact Eo.
    rewrite (pv_leq _ _ _ Ha), (pv_leq _ _ _ Hb) in E1. rewrite E1 in E2. injection E2 as <-. apply leq_refl.
Qed.

Lemma call_unop_leq m o a1 a2 r1 r2 :
  leq m a1 a2 -> call_unop o a1 = OOk r1 -> call_unop o a2 = OOk r2 -> leq m r1 r2.
Proof.
  intros Ha E1 E2. destruct o; cbn [call_unop] in E1, E2.
  - destruct (unmark a1) as [u1 ms1] eqn:U1. destruct (unmark a2) as [u2 ms2] eqn:U2.
    apply lift_marks_ok in E1 as (x1 & X1 & ->). apply lift_marks_ok in E2 as (x2 & X2 & ->).
    destruct (unmark_leq _ _ _ Ha) as [[A B]|(A & B & C)]; rewrite U1, U2 in *; cbn [fst snd] in *.
    + apply stars_leq; apply with_marks_star; assumption.
    + subst ms2. apply with_marks_leq; [|apply marks_rel_refl].
      leq_heads C; try (injection C; intros; subst); try congruence;
        try (injection X1 as <-; injection X2 as <-; apply leq_refl).
  - apply lift_marks_ok in E1 as (x1 & X1 & ->). apply lift_marks_ok in E2 as (x2 & X2 & ->).
    destruct (mark_mem m (deep_marks a1)) eqn:Em.
    + apply stars_leq; apply with_marks_star; [exact Em|]. rewrite <- (leq_deep_mem m _ _ Ha). exact Em.
    + apply (leq_deep_eq m _ _ Ha) in Em. subst. rewrite X1 in X2. injection X2 as <-. apply leq_refl.
Qed.

(* ---- GetAttr and Index on an unmarked head + explicit marks ---------------------------------- *)
Definition hd_null (x : val) : bool := match x with VNull _ => true | _ => false end.
Definition hd_known (x : val) : bool := match x with VUnk _ _ => false | _ => true end.

(* get_attr with the collection given as (unmarked head, marks) *)
Definition get_attr_u (x : val) (om : marks) (name : list Z) : val * list diag :=
  if hd_null x then (dyn_val, [derr S_GetAttrNull []])
  else
  match type_of x with
  | TObj fs =>
      match assoc_get name fs with
      | None => (dyn_val, [derr S_UnsupportedAttr [FStr name []]])
      | Some at_ =>
          if negb (hd_known x) then (with_marks (VUnk at_ rf_none) om, [])
          else
          match x with
          | VObj kvs => match assoc_get name kvs with
                        | Some v => (with_marks v om, [])
                        | None => (dyn_val, [dunsupported]) end
          | _ => (dyn_val, [dunsupported])
          end
      end
  | TMap et =>
      if negb (hd_known x) then (with_marks (VUnk et rf_none) om, [])
      else
      match x with
      | VMap _ kvs =>
          match assoc_get name kvs with
          | None => (dyn_val, [derr S_MissingMapElem [FStr name []]])
          | Some v => (with_marks v om, [])
          end
      | _ => (dyn_val, [dunsupported])
      end
  | TDyn => (with_marks dyn_val om, [])
  | TList (TObj fs) =>
      (dyn_val, [derr S_UnsupportedAttr (match assoc_get name fs with Some _ => [FStr name []] | None => [] end)])
  | TSet (TObj _) => (dyn_val, [derr S_UnsupportedAttr []])
  | TStr | TNum | TBool => (dyn_val, [derr S_UnsupportedAttr [FTy (type_of x)]])
  | _ => (dyn_val, [derr S_UnsupportedAttr []])
  end.

Lemma get_attr_unfold o n : get_attr o n = get_attr_u (fst (unmark o)) (snd (unmark o)) n.
Proof. destruct o; reflexivity. Qed.

Definition index_u (x : val) (cm : marks) (key : val) : val * list diag :=
  if hd_null x then (dyn_val, [derr S_IndexNull []])
  else if is_null key then (dyn_val, [derr S_InvalidIndex []])
  else
  let ty := type_of x in
  let kty := type_of key in
  if ty_eqb kty TDyn || ty_eqb ty TDyn then (with_marks (with_marks dyn_val cm) (marks_of key), [])
  else
  match ty with
  | TList _ | TTuple _ | TMap _ =>
      let want := match ty with TMap _ => TStr | _ => TNum end in
      match conv key want with
      | CUnsupported => (dyn_val, [dunsupported])
      | CErr e => (dyn_val, [derr S_InvalidIndex [FConv e]])
      | COk key' =>
          let '(ku, km) := unmark key' in
          match has_index x ku with
          | HUnknown =>
              match ty with
              | TTuple _ => (with_marks (with_marks dyn_val cm) km, [])
              | TList et | TMap et => (with_marks (with_marks (VUnk et rf_none) cm) km, [])
              | _ => (dyn_val, [dunsupported])
              end
          | HFalse => (dyn_val, [derr S_InvalidIndex []])
          | HTrue =>
              match index_known x ku with
              | Some v => (with_marks (with_marks v cm) km, [])
              | None => (dyn_val, [dunsupported])
              end
          end
      end
  | TObj fs =>
      match conv key TStr with
      | CUnsupported => (dyn_val, [dunsupported])
      | CErr e => (dyn_val, [derr S_InvalidIndex [FConv e]])
      | COk key' =>
          if negb (is_known key') then (with_marks (with_marks dyn_val cm) (marks_of key'), [])
          else
          match fst (unmark key') with
          | VStr name =>
              match assoc_get name fs with
              | None => (dyn_val, [derr S_InvalidIndex []])
              | Some at_ =>
                  if negb (hd_known x) then (with_marks (VUnk at_ rf_none) cm, [])
                  else
                  match x with
                  | VObj kvs => match assoc_get name kvs with
                                | Some v => (with_marks v cm, [])
                                | None => (dyn_val, [dunsupported]) end
                  | _ => (dyn_val, [dunsupported])
                  end
              end
          | _ => (dyn_val, [dunsupported])
          end
      end
  | TSet _ => (dyn_val, [derr S_InvalidIndex []])
  | _ => (dyn_val, [derr S_InvalidIndex []])
  end.

Lemma index_unfold c k : index c k = index_u (fst (unmark c)) (snd (unmark c)) k.
Proof. destruct c; reflexivity. Qed.

(* case analysis helpers *)
Ltac bm E :=
  match type of E with
  | context [match ?x with _ => _ end] => destruct x eqn:?
  | context [if ?x then _ else _] => destruct x eqn:?
  end.

Ltac unclean Hc :=
  exfalso; let A := fresh "UA" in let B := fresh "UB" in
  destruct Hc as [A B]; cbn in A, B; congruence.

Lemma get_attr_u_star m x om n r ds :
  mark_mem m om = true -> get_attr_u x om n = (r, ds) -> clean ds -> is_star m r = true.
Proof.
  intros Hs E Hc. unfold get_attr_u in E.
  repeat bm E; injection E as <- <-; try (unclean Hc); apply with_marks_star; exact Hs.
Qed.

Lemma index_u_star m x cm k r ds :
  mark_mem m cm = true -> index_u x cm k = (r, ds) -> clean ds -> is_star m r = true.
Proof.
  intros Hs E Hc. unfold index_u in E.
  repeat bm E; injection E as <- <-; try (unclean Hc);
    rewrite ?is_star_with_marks, Hs, ?orb_true_r; reflexivity.
Qed.
