(* Eval/VarsProofs.v — C07: the variables reported by hclsyntax.Variables (model:
   Eval/Vars.v) are a complete dependency set of the evaluator (model: Eval/Impl.v).

   Main results
     coincidence            two context chains that agree on the function tables and
                            on the lookup of every reported root give the identical
                            value AND the identical diagnostics, for every fuel,
                            every anonymous-symbol value and every hcl.Index
                            implementation [idx];
     pruned_scope_same      restricting every frame's Variables map to the reported
                            roots (the map stays non-nil) changes nothing;
     pruned_dropping_maps_refuted
                            ... whereas replacing an emptied map by nil does;
     unreported_irrelevant  overwriting a variable that is not reported changes nothing;
     bound_names_not_reported, for_* equations
                            names bound by for expressions are not reported for the
                            key/value/condition expressions, the collection expression
                            is walked outside the child scope;
     coincidence_refuted    the statement is FALSE for hand-built ASTs containing
                            ObjectConsKeyExpr{Wrapped: <bare name>, ForceNonLiteral: true}
                            (walkChildNodes ignores ForceNonLiteral, Value does not);
                            the parser never builds that node (ForceNonLiteral is set
                            only when the key starts with "(", and ExprAsKeyword of a
                            ParenthesesExpr is ""), hence the side condition
                            [forced_keys_nonliteral].

   The model's diagnostics carry no "Did you mean ...?" suggestion (Go computes it
   from ALL names in scope, so its wording legitimately varies with the scope size);
   the Go-side oracle (harness/cmd/c07) strips that suffix before comparing. *)
From Coq Require Import QArith.
From HclV Require Import Base.Prelude Cty.Values Cty.Convert Cty.Ops Eval.Impl Eval.Vars.
Open Scope Z_scope.

(* ---- strings, association lists ------------------------------------------------------ *)
Lemma str_eqb_eq a b : str_eqb a b = true <-> a = b.
Proof. apply zlist_eqb_eq. Qed.

Lemma str_eqb_refl a : str_eqb a a = true.
Proof. apply str_eqb_eq. reflexivity. Qed.

Lemma str_eqb_neq a b : a <> b -> str_eqb a b = false.
Proof.
  intro H. destruct (str_eqb a b) eqn:E; [|reflexivity].
  apply str_eqb_eq in E. contradiction.
Qed.

Lemma existsb_str_In x l : existsb (str_eqb x) l = true <-> In x l.
Proof.
  rewrite existsb_exists. split.
  - intros [y [Hy E]]. apply str_eqb_eq in E. subst. exact Hy.
  - intro H. exists x. split; [exact H|apply str_eqb_refl].
Qed.

(* ---- lookups ------------------------------------------------------------------------- *)
Lemma lookup_var_fst c x : forall b b', fst (lookup_var c x b) = fst (lookup_var c x b').
Proof.
  induction c as [|f r IH]; intros b b'; simpl; [reflexivity|].
  destruct (fvars f) as [vs|]; [|apply IH].
  destruct (assoc_get x vs); [reflexivity|apply IH].
Qed.

Lemma lookup_var_snd_true c x : snd (lookup_var c x true) = true.
Proof.
  induction c as [|f r IH]; simpl; [reflexivity|].
  destruct (fvars f) as [vs|]; [|exact IH].
  destruct (assoc_get x vs); [reflexivity|exact IH].
Qed.

Lemma lookup_var_seen c x : lookup_var c x true = (fst (lookup_var c x false), true).
Proof.
  rewrite (surjective_pairing (lookup_var c x true)).
  rewrite lookup_var_snd_true, (lookup_var_fst c x true false). reflexivity.
Qed.

Lemma lookup_fn_fst c x : forall b b', fst (lookup_fn c x b) = fst (lookup_fn c x b').
Proof.
  induction c as [|f r IH]; intros b b'; simpl; [reflexivity|].
  destruct (ffuncs f) as [vs|]; [|apply IH].
  destruct (assoc_get x vs); [reflexivity|apply IH].
Qed.

Lemma lookup_fn_snd_true c x : snd (lookup_fn c x true) = true.
Proof.
  induction c as [|f r IH]; simpl; [reflexivity|].
  destruct (ffuncs f) as [vs|]; [|exact IH].
  destruct (assoc_get x vs); [reflexivity|exact IH].
Qed.

Lemma lookup_fn_seen c x : lookup_fn c x true = (fst (lookup_fn c x false), true).
Proof.
  rewrite (surjective_pairing (lookup_fn c x true)).
  rewrite lookup_fn_snd_true, (lookup_fn_fst c x true false). reflexivity.
Qed.

(* ---- the agreement relation ------------------------------------------------------------ *)
(* Two context chains agree on a set of names when TraverseAbs' search gives the same
   result for each of them: the value found, or "not found" together with the flag that
   says whether any frame had a non-nil Variables map (the flag separates "Unknown
   variable" from "Variables not allowed"). *)
Definition agree_on (P : list Z -> Prop) (c c' : ctx) : Prop :=
  forall x, P x -> lookup_var c x false = lookup_var c' x false.

(* ... and have the same functions when the search of FunctionCallExpr gives the same
   result for every name. *)
Definition same_funcs (c c' : ctx) : Prop :=
  forall n, lookup_fn c n false = lookup_fn c' n false.

Lemma agree_mono (P Q : list Z -> Prop) c c' :
  agree_on P c c' -> (forall x, Q x -> P x) -> agree_on Q c c'.
Proof. intros H HQ x Hx. apply H, HQ, Hx. Qed.

Lemma agree_true c c' x b :
  lookup_var c x false = lookup_var c' x false -> lookup_var c x b = lookup_var c' x b.
Proof.
  intro H. destruct b; [|exact H]. rewrite !lookup_var_seen, H. reflexivity.
Qed.

(* pushing the same frame with a Variables map (ForExpr's child context) *)
Lemma agree_push (P Q : list Z -> Prop) vs fs c c' :
  agree_on P c c' ->
  (forall x, Q x -> assoc_get x vs <> None \/ P x) ->
  agree_on Q (mkFrame (Some vs) fs :: c) (mkFrame (Some vs) fs :: c').
Proof.
  intros H HQ x Hx. simpl.
  destruct (assoc_get x vs) eqn:E; [reflexivity|].
  destruct (HQ x Hx) as [Hn|Hp]; [congruence|].
  apply agree_true, H, Hp.
Qed.

(* pushing the same frame without a map (SplatExpr's probe context, NewChild()) *)
Lemma agree_push_none (P : list Z -> Prop) fs c c' :
  agree_on P c c' -> agree_on P (mkFrame None fs :: c) (mkFrame None fs :: c').
Proof. intros H x Hx. simpl. apply H, Hx. Qed.

Lemma same_funcs_true c c' n b :
  lookup_fn c n false = lookup_fn c' n false -> lookup_fn c n b = lookup_fn c' n b.
Proof.
  intro H. destruct b; [|exact H]. rewrite !lookup_fn_seen, H. reflexivity.
Qed.

Lemma same_funcs_push f c c' : same_funcs c c' -> same_funcs (f :: c) (f :: c').
Proof.
  intros H n. simpl. destruct (ffuncs f) as [fs|]; [|apply H].
  destruct (assoc_get n fs); [reflexivity|]. apply same_funcs_true, H.
Qed.

(* "the same frame structure and function tables": a sufficient structural condition *)
Definition same_shape (c c' : ctx) : Prop := Forall2 (fun f f' => ffuncs f = ffuncs f') c c'.

Lemma same_shape_funcs c c' : same_shape c c' -> same_funcs c c'.
Proof.
  intros H n. generalize false.
  induction H as [|f f' r r' Hf _ IH]; intro b; simpl; [reflexivity|].
  rewrite <- Hf. destruct (ffuncs f) as [fs|]; [|apply IH].
  destruct (assoc_get n fs); [reflexivity|apply IH].
Qed.

(* ---- a fuel-free presentation of the walker --------------------------------------------- *)
(* vars_in consumes fuel only because it was written next to the evaluator; with enough
   fuel it is this structural function. *)
Fixpoint fv (scopes : list (list (list Z))) (e : expr) {struct e} : list traversal :=
  match e with
  | ELit _ | EAnon => []
  | EScopeTrav root steps => if localized scopes root then [] else [(root, steps)]
  | ERelTrav src _ => fv scopes src
  | ECall _ args _ => flat_map (fv scopes) args
  | ECond c t fe => fv scopes c ++ fv scopes t ++ fv scopes fe
  | EIndex c k => fv scopes c ++ fv scopes k
  | ETuple es => flat_map (fv scopes) es
  | EObj items => flat_map (fun it => fv scopes (fst it) ++ fv scopes (snd it)) items
  | EObjKey w _ => match literal_name w with Some _ => [] | None => fv scopes w end
  | EFor kv vv coll key vl cond _ =>
      let names := (if str_eqb kv [] then [] else [kv]) ++ (if str_eqb vv [] then [] else [vv]) in
      fv scopes coll
      ++ match key with Some k => fv (scopes ++ [names]) k | None => [] end
      ++ fv (scopes ++ [names]) vl
      ++ match cond with Some c => fv (scopes ++ [names]) c | None => [] end
  | ESplat s each => fv scopes s ++ fv scopes each
  | EBin _ l r => fv scopes l ++ fv scopes r
  | EUn _ x => fv scopes x
  | ETmpl ps => flat_map (fv scopes) ps
  | EJoin t => fv scopes t
  | EWrap x | EParen x => fv scopes x
  end.

Lemma flat_map_ext_in {A B} (f g : A -> list B) l :
  (forall a, In a l -> f a = g a) -> flat_map f l = flat_map g l.
Proof.
  induction l as [|a r IH]; intro H; simpl; [reflexivity|].
  rewrite (H a (or_introl eq_refl)), IH; [reflexivity|].
  intros b Hb. apply H. right. exact Hb.
Qed.

Lemma size_in (l : list expr) a :
  In a l -> (expr_size a <= fold_right (fun a n => expr_size a + n) O l)%nat.
Proof.
  induction l as [|b r IH]; simpl; [contradiction|].
  intros [E|H]; [subst; lia|]. specialize (IH H). lia.
Qed.

Lemma size_in_items (l : list (expr * expr)) it :
  In it l ->
  (expr_size (fst it) + expr_size (snd it)
   <= fold_right (fun p n => expr_size (fst p) + expr_size (snd p) + n) O l)%nat.
Proof.
  induction l as [|b r IH]; simpl; [contradiction|].
  intros [E|H]; [subst; lia|]. specialize (IH H). lia.
Qed.

Lemma vars_in_fv : forall n scopes e, (expr_size e < n)%nat -> vars_in n scopes e = fv scopes e.
Proof.
  induction n as [|n IH]; intros scopes e H; [lia|].
  destruct e; cbn [vars_in fv]; cbn [expr_size] in H; try reflexivity.
  - apply IH; lia.
  - apply flat_map_ext_in. intros a Ha. apply IH. pose proof (size_in _ _ Ha). lia.
  - rewrite !IH by lia. reflexivity.
  - rewrite !IH by lia. reflexivity.
  - apply flat_map_ext_in. intros a Ha. apply IH. pose proof (size_in _ _ Ha). lia.
  - apply flat_map_ext_in. intros it Hit. pose proof (size_in_items _ _ Hit).
    rewrite !IH by lia. reflexivity.
  - destruct (literal_name e); [reflexivity|]. apply IH; lia.
  - rewrite (IH scopes e1) by lia.
    rewrite (IH _ e2) by lia.
    destruct key as [k|]; destruct cond as [cd|]; rewrite ?IH by lia; reflexivity.
  - rewrite !IH by lia. reflexivity.
  - rewrite !IH by lia. reflexivity.
  - apply IH; lia.
  - apply flat_map_ext_in. intros a Ha. apply IH. pose proof (size_in _ _ Ha). lia.
  - apply IH; lia.
  - apply IH; lia.
  - apply IH; lia.
Qed.

Lemma variables_fv e : variables e = fv [] e.
Proof. unfold variables. apply vars_in_fv. lia. Qed.

(* ---- the side condition: ObjectConsKeyExpr as the parser builds it ---------------------- *)
(* parser.go parseObjectCons sets ForceNonLiteral exactly when the key expression starts
   with "(" ; such an expression is never a bare name or keyword (ExprAsKeyword = ""). *)
Fixpoint forced_keys_nonliteral (e : expr) {struct e} : bool :=
  match e with
  | ELit _ | EAnon | EScopeTrav _ _ => true
  | ERelTrav src _ => forced_keys_nonliteral src
  | ECall _ args _ => forallb forced_keys_nonliteral args
  | ECond c t fe => forced_keys_nonliteral c && forced_keys_nonliteral t && forced_keys_nonliteral fe
  | EIndex c k => forced_keys_nonliteral c && forced_keys_nonliteral k
  | ETuple es => forallb forced_keys_nonliteral es
  | EObj items => forallb (fun it => forced_keys_nonliteral (fst it) && forced_keys_nonliteral (snd it)) items
  | EObjKey w force =>
      forced_keys_nonliteral w
      && (negb force || match literal_name w with Some _ => false | None => true end)
  | EFor _ _ coll key vl cond _ =>
      forced_keys_nonliteral coll
      && match key with Some k => forced_keys_nonliteral k | None => true end
      && forced_keys_nonliteral vl
      && match cond with Some c => forced_keys_nonliteral c | None => true end
  | ESplat s each => forced_keys_nonliteral s && forced_keys_nonliteral each
  | EBin _ l r => forced_keys_nonliteral l && forced_keys_nonliteral r
  | EUn _ x => forced_keys_nonliteral x
  | ETmpl ps => forallb forced_keys_nonliteral ps
  | EJoin t => forced_keys_nonliteral t
  | EWrap x | EParen x => forced_keys_nonliteral x
  end.

(* names the evaluation of e may look up when it runs below the local scopes [scopes] *)
Definition need (scopes : list (list (list Z))) (e : expr) (x : list Z) : Prop :=
  localized scopes x = true \/ In x (map fst (fv scopes e)).

Lemma need_sub scopes e e' x :
  (forall t, In t (fv scopes e') -> In t (fv scopes e)) -> need scopes e' x -> need scopes e x.
Proof.
  intros H [L|I]; [left; exact L|right].
  apply in_map_iff in I as [t [Et It]]. apply in_map_iff. exists t. split; [exact Et|apply H, It].
Qed.

Lemma localized_app scopes names x :
  localized (scopes ++ [names]) x = localized scopes x || existsb (str_eqb x) names.
Proof. unfold localized. rewrite existsb_app. simpl. rewrite orb_false_r. reflexivity. Qed.

(* the bindings ForExpr.Value puts into its child context *)
Definition for_bindings (kvar vvar : list Z) (k v : val) : list (list Z * val) :=
  (if str_eqb kvar [] || str_eqb kvar vvar then [] else [(kvar, k)]) ++ [(vvar, v)].

Lemma for_bindings_cover kvar vvar k v x :
  existsb (str_eqb x) ((if str_eqb kvar [] then [] else [kvar]) ++ (if str_eqb vvar [] then [] else [vvar])) = true ->
  assoc_get x (for_bindings kvar vvar k v) <> None.
Proof.
  intro H. apply existsb_str_In in H. apply in_app_or in H.
  unfold for_bindings.
  destruct H as [H|H].
  - destruct (str_eqb kvar []) eqn:E0; [destruct H|]. destruct H as [H|[]]. subst x.
    simpl. destruct (str_eqb kvar vvar) eqn:E1; simpl.
    + rewrite E1. discriminate.
    + rewrite str_eqb_refl. discriminate.
  - destruct (str_eqb vvar []) eqn:E0; [destruct H|]. destruct H as [H|[]]. subst x.
    destruct (str_eqb kvar [] || str_eqb kvar vvar); simpl.
    + rewrite str_eqb_refl. discriminate.
    + destruct (str_eqb vvar kvar); [discriminate|]. rewrite str_eqb_refl. discriminate.
Qed.

(* agreement is inherited by ForExpr's child contexts for the key/value/condition exprs *)
Lemma agree_for scopes kvar vvar (e e' : expr) c c' k v :
  let names := (if str_eqb kvar [] then [] else [kvar]) ++ (if str_eqb vvar [] then [] else [vvar]) in
  (forall t, In t (fv (scopes ++ [names]) e') -> In t (fv scopes e)) ->
  agree_on (need scopes e) c c' ->
  agree_on (need (scopes ++ [names]) e')
           (child_ctx c (for_bindings kvar vvar k v)) (child_ctx c' (for_bindings kvar vvar k v)).
Proof.
  intros names Hsub H. unfold child_ctx.
  apply agree_push with (P := need scopes e); [exact H|].
  intros x [L|I].
  - rewrite localized_app in L. apply orb_true_iff in L as [L|L].
    + right. left. exact L.
    + left. apply for_bindings_cover. exact L.
  - right. right. apply in_map_iff in I as [t [Et It]]. apply in_map_iff.
    exists t. split; [exact Et|apply Hsub, It].
Qed.

(* ---- extensionality helpers --------------------------------------------------------------- *)
Lemma fold_left_ext_in {A B} (f g : A -> B -> A) (l : list B) :
  (forall st b, In b l -> f st b = g st b) -> forall i, fold_left f l i = fold_left g l i.
Proof.
  induction l as [|b r IH]; intros H i; simpl; [reflexivity|].
  rewrite (H i b (or_introl eq_refl)). apply IH. intros st b' Hb. apply H. right. exact Hb.
Qed.

(* ObjectConsKeyExpr.Value, one equation per ForceNonLiteral *)
Lemma eval_objkey_literal idx f c anon w :
  eval_with idx (S f) c anon (EObjKey w false) =
  match w with
  | EScopeTrav _ (_ :: _) => (dyn_val, [derr S_AmbiguousKey []])
  | _ => match literal_name w with
         | Some n => (VStr n, [])
         | None => eval_with idx f c anon w
         end
  end.
Proof. reflexivity. Qed.

Lemma eval_objkey_forced idx f c anon w :
  eval_with idx (S f) c anon (EObjKey w true) = eval_with idx f c anon w.
Proof. reflexivity. Qed.

(* ---- the main induction -------------------------------------------------------------------- *)
(* destruct the innermost scrutinee of a nest of matches *)
Ltac inner_destruct s :=
  lazymatch s with
  | match ?s' with _ => _ end => inner_destruct s'
  | _ => destruct s eqn:?
  end.
(* both sides examine the same thing: split on it *)
Ltac common_scrut s s' :=
  tryif constr_eq s s' then inner_destruct s
  else lazymatch s with
       | match ?t with _ => _ end =>
           lazymatch s' with
           | match ?t' with _ => _ end => common_scrut t t'
           end
       end.
Ltac step_head :=
  match goal with
  | |- match ?s with _ => _ end = match ?s' with _ => _ end => common_scrut s s'
  end.
Ltac done_refl := match goal with |- ?x = ?y => constr_eq x y; reflexivity end.
Ltac walk := repeat (try done_refl; step_head; cbv beta iota).
(* the two sides fold different functions over the same list *)
Ltac fold_ext :=
  match goal with
  | |- context [fold_left ?F ?l ?i] =>
      match goal with
      | |- context [fold_left ?G l i] =>
          tryif constr_eq F G then fail else
          (let H := fresh "HF" in
           assert (H : fold_left F l i = fold_left G l i);
           [apply fold_left_ext_in | rewrite H])
      end
  end.
Ltac map_ext_tac :=
  match goal with
  | |- context [map ?F ?l] =>
      match goal with
      | |- context [map ?G l] =>
          tryif constr_eq F G then fail else
          (let H := fresh "HM" in
           assert (H : map F l = map G l);
           [apply map_ext_in | rewrite H])
      end
  end.
Ltac wf_split H :=
  repeat match type of H with
         | _ && _ = true => let H1 := fresh H in apply andb_true_iff in H as [H H1]
         end.

Section coincidence.
Variable idx : val -> val -> val * list diag.

Lemma eval_lit_ctx f c c' anon v : eval_with idx f c anon (ELit v) = eval_with idx f c' anon (ELit v).
Proof. destruct f; reflexivity. Qed.

Lemma coincidence_gen : forall fuel e scopes c c' anon,
  forced_keys_nonliteral e = true ->
  same_funcs c c' ->
  agree_on (need scopes e) c c' ->
  eval_with idx fuel c anon e = eval_with idx fuel c' anon e.
Proof.
  induction fuel as [|f IH]; intros e scopes c c' anon Hwf Hfn Hag; [reflexivity|].
  assert (K : forall e', forced_keys_nonliteral e' = true ->
                         (forall t, In t (fv scopes e') -> In t (fv scopes e)) ->
                         forall a, eval_with idx f c a e' = eval_with idx f c' a e').
  { intros e' W S a. apply IH with (scopes := scopes); [exact W|exact Hfn|].
    eapply agree_mono; [exact Hag|]. intro x. apply need_sub. exact S. }
  assert (KN : forall e', forced_keys_nonliteral e' = true ->
                         (forall t, In t (fv scopes e') -> In t (fv scopes e)) ->
                         forall a, eval_with idx f (mkFrame None None :: c) a e'
                                   = eval_with idx f (mkFrame None None :: c') a e').
  { intros e' W S a. apply IH with (scopes := scopes); [exact W|apply same_funcs_push, Hfn|].
    apply agree_push_none. eapply agree_mono; [exact Hag|]. intro x. apply need_sub. exact S. }
  assert (KF : forall kvar vvar e', forced_keys_nonliteral e' = true ->
     (forall t, In t (fv (scopes ++ [(if str_eqb kvar [] then [] else [kvar]) ++ (if str_eqb vvar [] then [] else [vvar])]) e')
                -> In t (fv scopes e)) ->
     forall k v a, eval_with idx f (child_ctx c (for_bindings kvar vvar k v)) a e'
                   = eval_with idx f (child_ctx c' (for_bindings kvar vvar k v)) a e').
  { intros kvar vvar e' W S k v a.
    apply IH with (scopes := scopes ++ [(if str_eqb kvar [] then [] else [kvar]) ++ (if str_eqb vvar [] then [] else [vvar])]);
      [exact W|apply same_funcs_push, Hfn|].
    apply agree_for with (e := e); [exact S|exact Hag]. }
  unfold for_bindings in KF.
  destruct e.
  - (* ELit *) reflexivity.
  - (* EScopeTrav *) cbn [eval_with]. unfold traverse_abs.
    rewrite (Hag root); [reflexivity|].
    unfold need. cbn [fv]. destruct (localized scopes root); [left; reflexivity|right; left; reflexivity].
  - (* ERelTrav *) cbn [eval_with]. cbn [forced_keys_nonliteral] in Hwf.
    rewrite (K e Hwf); [reflexivity|]. cbn [fv]. auto.
  - (* ECall *) cbn [eval_with]. cbn [forced_keys_nonliteral] in Hwf. rewrite forallb_forall in Hwf.
    rewrite (Hfn name).
    assert (KE : forall a an, (In a args \/ exists v, a = ELit v) ->
                              eval_with idx f c an a = eval_with idx f c' an a).
    { intros a an [Ha|[v Ev]].
      - apply K; [apply Hwf, Ha|]. cbn [fv]. intros t Ht. apply in_flat_map. eauto.
      - subst a. apply eval_lit_ctx. }
    destruct (lookup_fn c' name false) as [[fnv|] [|]]; try reflexivity.
    all: destruct expand;
      [ destruct (rev args) as [|last init_rev] eqn:R; [reflexivity|];
        rewrite (KE last anon) by (left; apply in_rev; rewrite R; left; reflexivity)
      | ].
    all: walk.
    all: fold_ext; [|reflexivity].
    all: intros [vals ds] [i a] Hin; apply in_combine_r in Hin; cbn [fst snd];
         rewrite (KE a anon); [reflexivity|].
    all: first [ left; exact Hin
               | apply in_app_or in Hin as [Hin|Hin];
                 [ left; apply in_rev; rewrite R; right; apply in_rev in Hin; exact Hin
                 | right; apply in_map_iff in Hin as [kv [E _]]; eexists; symmetry; exact E ] ].
  - (* ECond *) cbn [eval_with]. cbn [forced_keys_nonliteral] in Hwf. wf_split Hwf.
    rewrite (K e1 Hwf), (K e2 Hwf1), (K e3 Hwf0); [reflexivity|..];
      cbn [fv]; intros t Ht; rewrite ?in_app_iff; auto.
  - (* EIndex *) cbn [eval_with]. cbn [forced_keys_nonliteral] in Hwf. wf_split Hwf.
    rewrite (K e1 Hwf), (K e2 Hwf0); [reflexivity|..];
      cbn [fv]; intros t Ht; rewrite ?in_app_iff; auto.
  - (* ETuple *) cbn [eval_with]. cbn [forced_keys_nonliteral] in Hwf.
    rewrite forallb_forall in Hwf.
    rewrite (map_ext_in (eval_with idx f c anon) (eval_with idx f c' anon)); [reflexivity|].
    intros a Ha. apply K; [apply Hwf, Ha|]. cbn [fv]. intros t Ht. apply in_flat_map. eauto.
  - (* EObj *) cbn [eval_with]. cbn [forced_keys_nonliteral] in Hwf. rewrite forallb_forall in Hwf.
    fold_ext; [|reflexivity].
    intros st it Hit. destruct st as [[[vals mks] known] ds].
    specialize (Hwf it Hit). wf_split Hwf.
    rewrite (K (fst it) Hwf), (K (snd it) Hwf0); [reflexivity|..];
      cbn [fv]; intros t Ht; apply in_flat_map; exists it; (split; [exact Hit|rewrite in_app_iff; auto]).
  - (* EObjKey *) cbn [forced_keys_nonliteral] in Hwf. wf_split Hwf.
    destruct force.
    + rewrite !eval_objkey_forced. simpl in Hwf0.
      destruct (literal_name e) eqn:L; [discriminate|].
      apply (K e Hwf). cbn [fv]. rewrite L. auto.
    + rewrite !eval_objkey_literal.
      destruct (literal_name e) eqn:L; [reflexivity|].
      rewrite (K e Hwf); [reflexivity|]. cbn [fv]. rewrite L. auto.
  - (* EFor *) cbn [forced_keys_nonliteral] in Hwf. wf_split Hwf.
    assert (Scoll : forall t, In t (fv scopes e1) -> In t (fv scopes (EFor kv vv e1 key e2 cond group))).
    { cbn [fv]. intros t Ht. rewrite !in_app_iff. auto. }
    assert (Sval : forall t, In t (fv (scopes ++ [(if str_eqb kv [] then [] else [kv]) ++ (if str_eqb vv [] then [] else [vv])]) e2)
                             -> In t (fv scopes (EFor kv vv e1 key e2 cond group))).
    { cbn [fv]. intros t Ht. rewrite !in_app_iff. auto. }
    pose proof (KF kv vv e2 Hwf1 Sval) as Kval.
    destruct key as [ke|]; destruct cond as [ce|].
    + assert (Skey : forall t, In t (fv (scopes ++ [(if str_eqb kv [] then [] else [kv]) ++ (if str_eqb vv [] then [] else [vv])]) ke) -> In t (fv scopes (EFor kv vv e1 (Some ke) e2 (Some ce) group)))
        by (cbn [fv]; intros t Ht; rewrite !in_app_iff; auto).
      pose proof (KF kv vv ke Hwf2 Skey) as Kkey.
      assert (Scond : forall t, In t (fv (scopes ++ [(if str_eqb kv [] then [] else [kv]) ++ (if str_eqb vv [] then [] else [vv])]) ce) -> In t (fv scopes (EFor kv vv e1 (Some ke) e2 (Some ce) group)))
        by (cbn [fv]; intros t Ht; rewrite !in_app_iff; auto).
      pose proof (KF kv vv ce Hwf0 Scond) as Kcond.
      cbn [eval_with]. rewrite (K e1 Hwf Scoll). rewrite ?(Kcond dyn_val dyn_val anon).
      walk.
      all: fold_ext; [|reflexivity].
      all: first [intros [[[[? ?] ?] ?] ?] kv0 _ | intros [[[? ?] ?] ?] kv0 _].
      all: rewrite ?Kval, ?Kkey, ?Kcond; reflexivity.
    + assert (Skey : forall t, In t (fv (scopes ++ [(if str_eqb kv [] then [] else [kv]) ++ (if str_eqb vv [] then [] else [vv])]) ke) -> In t (fv scopes (EFor kv vv e1 (Some ke) e2 None group)))
        by (cbn [fv]; intros t Ht; rewrite !in_app_iff; auto).
      pose proof (KF kv vv ke Hwf2 Skey) as Kkey.
      cbn [eval_with]. rewrite (K e1 Hwf Scoll).
      walk.
      all: fold_ext; [|reflexivity].
      all: first [intros [[[[? ?] ?] ?] ?] kv0 _ | intros [[[? ?] ?] ?] kv0 _].
      all: rewrite ?Kval, ?Kkey; reflexivity.
    + assert (Scond : forall t, In t (fv (scopes ++ [(if str_eqb kv [] then [] else [kv]) ++ (if str_eqb vv [] then [] else [vv])]) ce) -> In t (fv scopes (EFor kv vv e1 None e2 (Some ce) group)))
        by (cbn [fv]; intros t Ht; rewrite !in_app_iff; auto).
      pose proof (KF kv vv ce Hwf0 Scond) as Kcond.
      cbn [eval_with]. rewrite (K e1 Hwf Scoll). rewrite ?(Kcond dyn_val dyn_val anon).
      walk.
      all: fold_ext; [|reflexivity].
      all: first [intros [[[[? ?] ?] ?] ?] kv0 _ | intros [[[? ?] ?] ?] kv0 _].
      all: rewrite ?Kval, ?Kcond; reflexivity.
    + cbn [eval_with]. rewrite (K e1 Hwf Scoll).
      walk.
      all: fold_ext; [|reflexivity].
      all: first [intros [[[[? ?] ?] ?] ?] kv0 _ | intros [[[? ?] ?] ?] kv0 _].
      all: rewrite ?Kval; reflexivity.
  - (* ESplat *) cbn [forced_keys_nonliteral] in Hwf. wf_split Hwf.
    assert (S1 : forall t, In t (fv scopes e1) -> In t (fv scopes (ESplat e1 e2)))
      by (cbn [fv]; intros t Ht; rewrite !in_app_iff; auto).
    assert (S2 : forall t, In t (fv scopes e2) -> In t (fv scopes (ESplat e1 e2)))
      by (cbn [fv]; intros t Ht; rewrite !in_app_iff; auto).
    pose proof (K e2 Hwf0 S2) as Keach. pose proof (KN e2 Hwf0 S2) as Kprobe.
    cbn [eval_with]. rewrite (K e1 Hwf S1).
    repeat (first [ done_refl
                  | step_head; cbv beta iota
                  | progress rewrite ?Kprobe
                  | map_ext_tac; [intros; first [apply Keach | apply Kprobe]|]
                  | match goal with
                    | |- context [match type_of ?x with _ => _ end] => destruct (type_of x) eqn:?; cbv beta iota
                    end ]).
  - (* EAnon *) reflexivity.
  - (* EBin *) cbn [eval_with]. cbn [forced_keys_nonliteral] in Hwf. wf_split Hwf.
    rewrite (K e1 Hwf), (K e2 Hwf0); [reflexivity|..];
      cbn [fv]; intros t Ht; rewrite ?in_app_iff; auto.
  - (* EUn *) cbn [eval_with]. cbn [forced_keys_nonliteral] in Hwf.
    rewrite (K e Hwf); [reflexivity|]. cbn [fv]. auto.
  - (* ETmpl *) cbn [eval_with]. cbn [forced_keys_nonliteral] in Hwf. rewrite forallb_forall in Hwf.
    fold_ext; [|reflexivity].
    intros st p Hp. destruct st as [[[buf known] mk] ds].
    rewrite (K p (Hwf p Hp)); [reflexivity|].
    cbn [fv]; intros t Ht; apply in_flat_map; eauto.
  - (* EJoin *) cbn [eval_with]. cbn [forced_keys_nonliteral] in Hwf.
    rewrite (K e Hwf); [reflexivity|]. cbn [fv]. auto.
  - (* EWrap *) cbn [eval_with]. cbn [forced_keys_nonliteral] in Hwf.
    apply (K e Hwf). cbn [fv]. auto.
  - (* EParen *) cbn [eval_with]. cbn [forced_keys_nonliteral] in Hwf.
    apply (K e Hwf). cbn [fv]. auto.
Qed.


(* ---- C07: coincidence -------------------------------------------------------------------- *)
(* Values AND diagnostics are identical.  (The model has no "Did you mean" suggestions: Go
   derives them from all names in scope; the Go-side oracle strips them.) *)
Theorem coincidence : forall fuel e c c' anon,
  forced_keys_nonliteral e = true ->
  same_funcs c c' ->
  (forall x, In x (var_roots e) -> lookup_var c x false = lookup_var c' x false) ->
  eval_with idx fuel c anon e = eval_with idx fuel c' anon e.
Proof.
  intros fuel e c c' anon W Hfn H. apply coincidence_gen with (scopes := []); [exact W|exact Hfn|].
  intros x [L|I]; [discriminate L|]. apply H. unfold var_roots. rewrite variables_fv. exact I.
Qed.

(* ---- pruning --------------------------------------------------------------------------------- *)
Definition keep (R : list (list Z)) (kv : list Z * val) : bool := existsb (str_eqb (fst kv)) R.
(* every frame keeps its Variables map (possibly empty, never nil) but only the names in R *)
Definition prune_frame (R : list (list Z)) (f : frame) : frame :=
  mkFrame (option_map (filter (keep R)) (fvars f)) (ffuncs f).
Definition prune (R : list (list Z)) (c : ctx) : ctx := map (prune_frame R) c.

Lemma assoc_get_filter R x (vs : list (list Z * val)) :
  In x R -> assoc_get x (filter (keep R) vs) = assoc_get x vs.
Proof.
  intro Hx. induction vs as [|[k v] r IH]; [reflexivity|]. simpl.
  destruct (keep R (k, v)) eqn:Kp; simpl.
  - destruct (str_eqb x k); [reflexivity|exact IH].
  - destruct (str_eqb x k) eqn:E; [|exact IH].
    apply str_eqb_eq in E. subst k. unfold keep in Kp. simpl in Kp.
    apply existsb_str_In in Hx. congruence.
Qed.

Lemma lookup_var_prune R x c : In x R -> forall b, lookup_var (prune R c) x b = lookup_var c x b.
Proof.
  intro Hx. induction c as [|f r IH]; intro b; simpl; [reflexivity|].
  destruct (fvars f) as [vs|]; simpl; [|apply IH].
  rewrite (assoc_get_filter R x vs Hx). destruct (assoc_get x vs); [reflexivity|apply IH].
Qed.

Lemma lookup_fn_prune R n c : forall b, lookup_fn (prune R c) n b = lookup_fn c n b.
Proof.
  induction c as [|f r IH]; intro b; simpl; [reflexivity|].
  destruct (ffuncs f) as [fs|]; [|apply IH]. destruct (assoc_get n fs); [reflexivity|apply IH].
Qed.

Theorem pruned_scope_same : forall fuel e R c anon,
  forced_keys_nonliteral e = true ->
  incl (var_roots e) R ->
  eval_with idx fuel (prune R c) anon e = eval_with idx fuel c anon e.
Proof.
  intros fuel e R c anon W HR. apply coincidence; [exact W| |].
  - intro n. apply lookup_fn_prune.
  - intros x Hx. apply lookup_var_prune. apply HR, Hx.
Qed.

(* ---- perturbing an unreported variable ----------------------------------------------------------- *)
(* overwrite the value of y in every frame that defines it *)
Definition set_var (y : list Z) (w : val) (c : ctx) : ctx :=
  map (fun f => mkFrame (option_map (map (fun kv : list Z * val =>
                                            if str_eqb (fst kv) y then (fst kv, w) else kv)) (fvars f))
                        (ffuncs f)) c.

Lemma assoc_get_set y w x (vs : list (list Z * val)) :
  x <> y ->
  assoc_get x (map (fun kv : list Z * val => if str_eqb (fst kv) y then (fst kv, w) else kv) vs)
  = assoc_get x vs.
Proof.
  intro Hne. induction vs as [|[k v] r IH]; [reflexivity|]. simpl.
  destruct (str_eqb k y) eqn:Ey; simpl.
  - destruct (str_eqb x k) eqn:Ex; [|exact IH].
    apply str_eqb_eq in Ey, Ex. congruence.
  - destruct (str_eqb x k); [reflexivity|exact IH].
Qed.

Lemma lookup_var_set y w x c : x <> y -> forall b, lookup_var (set_var y w c) x b = lookup_var c x b.
Proof.
  intro Hne. induction c as [|f r IH]; intro b; simpl; [reflexivity|].
  destruct (fvars f) as [vs|]; simpl; [|apply IH].
  rewrite (assoc_get_set y w x vs Hne). destruct (assoc_get x vs); [reflexivity|apply IH].
Qed.

Lemma lookup_fn_set y w n c : forall b, lookup_fn (set_var y w c) n b = lookup_fn c n b.
Proof.
  induction c as [|f r IH]; intro b; simpl; [reflexivity|].
  destruct (ffuncs f) as [fs|]; [|apply IH]. destruct (assoc_get n fs); [reflexivity|apply IH].
Qed.

(* general form: the two chains may differ arbitrarily on the lookup of y *)
Theorem unreported_irrelevant_gen : forall fuel e y c c' anon,
  forced_keys_nonliteral e = true ->
  ~ In y (var_roots e) ->
  same_funcs c c' ->
  (forall x, x <> y -> lookup_var c x false = lookup_var c' x false) ->
  eval_with idx fuel c anon e = eval_with idx fuel c' anon e.
Proof.
  intros fuel e y c c' anon W Hy Hfn H. apply coincidence; [exact W|exact Hfn|].
  intros x Hx. apply H. intro E. subst x. exact (Hy Hx).
Qed.

Theorem unreported_irrelevant : forall fuel e y w c anon,
  forced_keys_nonliteral e = true ->
  ~ In y (var_roots e) ->
  eval_with idx fuel (set_var y w c) anon e = eval_with idx fuel c anon e.
Proof.
  intros fuel e y w c anon W Hy. apply unreported_irrelevant_gen with (y := y); [exact W|exact Hy| |].
  - intro n. apply lookup_fn_set.
  - intros x Hx. apply lookup_var_set. exact Hx.
Qed.
End coincidence.

(* hcl.Expression.Value, the entry point *)
Corollary value_coincidence : forall e c c',
  forced_keys_nonliteral e = true ->
  same_funcs c c' ->
  (forall x, In x (var_roots e) -> lookup_var c x false = lookup_var c' x false) ->
  value c e = value c' e.
Proof. intros. unfold value, eval. apply coincidence; assumption. Qed.

Corollary value_pruned_scope_same : forall e c,
  forced_keys_nonliteral e = true -> value (prune (var_roots e) c) e = value c e.
Proof. intros. unfold value, eval. apply pruned_scope_same; [assumption|apply incl_refl]. Qed.

Corollary value_unreported_irrelevant : forall e y w c,
  forced_keys_nonliteral e = true -> ~ In y (var_roots e) -> value (set_var y w c) e = value c e.
Proof. intros. unfold value, eval. apply unreported_irrelevant; assumption. Qed.

(* ---- what pruning must NOT do ------------------------------------------------------------------- *)
(* If a frame whose map becomes empty loses the map altogether (nil), "Unknown variable"
   turns into "Variables not allowed": TraverseAbs' hasNonNil flag is observable. *)
Definition prune_frame_dropping (R : list (list Z)) (f : frame) : frame :=
  mkFrame (match fvars f with
           | Some vs => match filter (keep R) vs with [] => None | l => Some l end
           | None => None
           end) (ffuncs f).

Theorem pruned_dropping_maps_refuted :
  exists e c, forced_keys_nonliteral e = true /\
              value (map (prune_frame_dropping (var_roots e)) c) e <> value c e.
Proof.
  exists (EScopeTrav [120] []), [mkFrame (Some [([121], VBool true)]) None].
  split; [reflexivity|]. intro H. vm_compute in H. discriminate H.
Qed.

(* ---- the unrestricted statement is false (hand-built ASTs only) ----------------------------------- *)
(* { x = true } with the key node built as ObjectConsKeyExpr{Wrapped: x, ForceNonLiteral: true}:
   nothing is reported, yet the key is evaluated as a variable reference. *)
Theorem coincidence_refuted :
  exists e c c', same_shape c c' /\ var_roots e = [] /\ value c e <> value c' e.
Proof.
  exists (EObj [(EObjKey (EScopeTrav [120] []) true, ELit (VBool true))]),
         [mkFrame (Some [([120], VStr [97])]) None],
         [mkFrame (Some [([120], VStr [98])]) None].
  split; [repeat constructor|]. split; [reflexivity|].
  intro H. vm_compute in H. discriminate H.
Qed.

(* ---- bound names ----------------------------------------------------------------------------------- *)
Theorem bound_names_not_reported : forall f scopes e x steps,
  In (x, steps) (vars_in f scopes e) -> localized scopes x = false.
Proof.
  induction f as [|f IH]; intros scopes e x steps H; [destruct H|].
  assert (IHl : forall l : list expr, In (x, steps) (flat_map (vars_in f scopes) l) -> localized scopes x = false).
  { intros l Hl. apply in_flat_map in Hl as [a [_ Ha]]. exact (IH _ _ _ _ Ha). }
  assert (IHin : forall names e', In (x, steps) (vars_in f (scopes ++ [names]) e') -> localized scopes x = false).
  { intros names e' He. apply IH in He. rewrite localized_app in He.
    apply orb_false_iff in He as [He _]. exact He. }
  destruct e; cbn [vars_in] in H; rewrite ?in_app_iff in H;
    try (destruct H); eauto.
  - (* EScopeTrav *) destruct (localized scopes root) eqn:L; [destruct H|].
    destruct H as [H|[]]. inversion H; subst. exact L.
  - (* ECond *) destruct H; eauto.
  - (* EObj *) apply in_flat_map in H as [it [_ Hit]]. apply in_app_or in Hit as [Hit|Hit]; eauto.
  - (* EObjKey *) destruct (literal_name e); [destruct H|]. eauto.
  - (* EFor *) destruct H as [H|[H|H]].
    + destruct key; [eauto|destruct H].
    + eauto.
    + destruct cond; [eauto|destruct H].
Qed.

(* ForExpr.walkChildNodes: the collection is walked in the enclosing scope, the key, value and
   condition expressions inside a ChildScope holding the (non-empty) iterator names. *)
Lemma for_vars_equation f scopes kv vv coll key vl cond group :
  vars_in (S f) scopes (EFor kv vv coll key vl cond group) =
  let names := (if str_eqb kv [] then [] else [kv]) ++ (if str_eqb vv [] then [] else [vv]) in
  vars_in f scopes coll
  ++ match key with Some k => vars_in f (scopes ++ [names]) k | None => [] end
  ++ vars_in f (scopes ++ [names]) vl
  ++ match cond with Some c => vars_in f (scopes ++ [names]) c | None => [] end.
Proof. reflexivity. Qed.

Lemma for_collection_reported f scopes kv vv coll key vl cond group t :
  In t (vars_in f scopes coll) -> In t (vars_in (S f) scopes (EFor kv vv coll key vl cond group)).
Proof. intro H. rewrite for_vars_equation. cbv zeta. apply in_or_app. left. exact H. Qed.

Lemma for_bound_not_reported f scopes kv vv e x steps :
  let names := (if str_eqb kv [] then [] else [kv]) ++ (if str_eqb vv [] then [] else [vv]) in
  In x names -> ~ In (x, steps) (vars_in f (scopes ++ [names]) e).
Proof.
  intros names Hx H. apply bound_names_not_reported in H. rewrite localized_app in H.
  apply orb_false_iff in H as [_ H]. apply existsb_str_In in Hx. congruence.
Qed.

Lemma fv_not_localized scopes e x steps : In (x, steps) (fv scopes e) -> localized scopes x = false.
Proof.
  intro H. rewrite <- (vars_in_fv (S (expr_size e))) in H by lia.
  exact (bound_names_not_reported _ _ _ _ _ H).
Qed.

(* At the level of Expression.Variables(): an iterator name of a for expression is reported
   only through a free occurrence in the collection expression. *)
Theorem for_iterator_only_via_collection : forall kv vv coll key vl cond group x steps,
  x <> [] -> (x = kv \/ x = vv) ->
  In (x, steps) (variables (EFor kv vv coll key vl cond group)) ->
  In (x, steps) (variables coll).
Proof.
  intros kv vv coll key vl cond group x steps Hne Hx H.
  rewrite variables_fv in *. cbn [fv] in H.
  set (names := (if str_eqb kv [] then [] else [kv]) ++ (if str_eqb vv [] then [] else [vv])) in H.
  assert (Hl : forall e, ~ In (x, steps) (fv ([] ++ [names]) e)).
  { intros e He. apply fv_not_localized in He. rewrite localized_app in He.
    apply orb_false_iff in He as [_ He].
    assert (In x names) as Hin.
    { unfold names. apply in_or_app. destruct Hx as [E|E]; subst x; [left|right];
        rewrite (str_eqb_neq _ _ Hne); left; reflexivity. }
    apply existsb_str_In in Hin. congruence. }
  rewrite !in_app_iff in H. destruct H as [H|[H|[H|H]]].
  - exact H.
  - destruct key; [exfalso; exact (Hl _ H)|destruct H].
  - exfalso. exact (Hl _ H).
  - destruct cond; [exfalso; exact (Hl _ H)|destruct H].
Qed.

(* the template directive %{ for x in coll }...%{ endfor } is TemplateJoinExpr over ForExpr *)
Corollary template_for_iterator_only_via_collection : forall kv vv coll key vl cond group x steps,
  x <> [] -> (x = kv \/ x = vv) ->
  In (x, steps) (variables (EJoin (EFor kv vv coll key vl cond group))) ->
  In (x, steps) (variables coll).
Proof.
  intros kv vv coll key vl cond group x steps Hne Hx H.
  apply (for_iterator_only_via_collection kv vv coll key vl cond group); [exact Hne|exact Hx|].
  rewrite variables_fv in *. exact H.
Qed.

(* function names are not variables: a call reports exactly what its arguments report *)
Lemma call_vars_equation f scopes name args expand :
  vars_in (S f) scopes (ECall name args expand) = flat_map (vars_in f scopes) args.
Proof. reflexivity. Qed.

(* SplatExpr walks source and each; AnonSymbolExpr is a leaf *)
Lemma splat_vars_equation f scopes src each :
  vars_in (S f) scopes (ESplat src each) = vars_in f scopes src ++ vars_in f scopes each.
Proof. reflexivity. Qed.
