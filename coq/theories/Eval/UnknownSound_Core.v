(* Eval/UnknownSound_Core.v — C05: soundness lemmas for the constructs of the expression core. *)
From Coq Require Import QArith Qreduction.
From HclV Require Import Base.Prelude Cty.Values Cty.Convert Cty.Ops Eval.Impl Eval.Funcs
                         Eval.UnknownSound_Base Eval.UnknownSound_Known Eval.UnknownSound_Gamma
                         Eval.UnknownSound_Conv Eval.UnknownSound_Conv2 Eval.UnknownSound_Ops
                         Eval.UnknownSound_Num Eval.UnknownSound_Cond Eval.UnknownSound_Eq Eval.UnknownSound_Fn
                         Eval.UnknownSound_Frag
                         Eval.UnknownSound_Inv.
Open Scope Z_scope.
Local Strategy opaque [equals val_size unmark_deep deep_marks unify_n convert].
Notation ev_ := (eval_with index).

Lemma sub_facts f e cA cC anA anC vA dA vC dC :
  SI f -> in_fragment e -> ctx_rel cA cC -> anon_rel anA anC ->
  clean f cA anA e = true -> clean f cC anC e = true ->
  ev_ f cA anA e = (vA, dA) -> ev_ f cC anC e = (vC, dC) ->
  inv vA = true /\ inv vC = true /\ gsb vA vC = true /\ diag_ok dA = true /\ diag_ok dC = true.
Proof.
  intros IH Fr R Ra KA KC EA EC.
  destruct (ctx_rel_inv _ _ R) as [CiA CiC]. destruct (anon_rel_inv _ _ Ra) as [AiA AiC].
  pose proof (iv_all f cA anA e Fr CiA AiA) as IA. pose proof (iv_all f cC anC e Fr CiC AiC) as IC.
  pose proof (IH e cA cC anA anC Fr R Ra KA KC) as G.
  pose proof (clean_diag_ok _ _ _ _ KA) as DA. pose proof (clean_diag_ok _ _ _ _ KC) as DC.
  rewrite EA in IA, G, DA. rewrite EC in IC, G, DC. simpl in *. auto.
Qed.

Lemma si_un f op e' : SI f -> forall cA cC anA anC,
  in_fragment (EUn op e') -> ctx_rel cA cC -> anon_rel anA anC ->
  clean (S f) cA anA (EUn op e') = true -> clean (S f) cC anC (EUn op e') = true ->
  gsb (fst (ev_ (S f) cA anA (EUn op e'))) (fst (ev_ (S f) cC anC (EUn op e'))) = true.
Proof.
  intros IH cA cC anA anC Fr R Ra KA KC. pose proof (frag_un _ _ Fr) as H0.
  apply clean_S in KA as [DA KA']. apply clean_S in KC as [DC KC'].
  cbn [eval_with] in *.
  destruct (ev_ f cA anA e') as [gA dsA] eqn:EA. destruct (ev_ f cC anC e') as [gC dsC] eqn:EC.
  destruct (sub_facts f e' cA cC anA anC gA dsA gC dsC IH H0 R Ra KA' KC' EA EC) as [IA [IC [G [DsA DsC]]]].
  destruct (conv gA (unop_param op)) as [vA| |] eqn:EcA; try (exfalso; cbn [snd] in DA; rewrite diag_ok_app, andb_false_r in DA; discriminate).
  destruct (conv gC (unop_param op)) as [vC| |] eqn:EcC; try (exfalso; cbn [snd] in DC; rewrite diag_ok_app, andb_false_r in DC; discriminate).
  apply diag_ok_elim in DsA as [HeA _]. apply diag_ok_elim in DsC as [HeC _]. rewrite HeA in *. rewrite HeC in *.
  pose proof (conv_inv_pres _ _ _ IA EcA) as IvA. pose proof (conv_inv_pres _ _ _ IC EcC) as IvC.
  rewrite (inv_unmark vA IvA) in *. rewrite (inv_unmark vC IvC) in *.
  assert (Hp : is_prim (unop_param op) = true) by (destruct op; reflexivity).
  pose proof (conv_gs_prim gA gC _ vA vC Hp IA IC G EcA EcC) as Gv.
  assert (Tv : type_of vA = unop_param op) by (apply (conv_type _ _ _ EcA); destruct op; reflexivity).
  destruct (call_unop op vA) as [rA| |] eqn:EoA; try (exfalso; cbn [snd] in DA; rewrite diag_ok_app, andb_false_r in DA; discriminate).
  destruct (call_unop op vC) as [rC| |] eqn:EoC; try (exfalso; cbn [snd] in DC; rewrite diag_ok_app, andb_false_r in DC; discriminate).
  cbn [fst with_marks]. apply (call_unop_gs op vA vC rA rC IvA IvC Gv Tv EoA EoC).
Qed.

Lemma si_index f a b : SI f -> forall cA cC anA anC,
  in_fragment (EIndex a b) -> ctx_rel cA cC -> anon_rel anA anC ->
  clean (S f) cA anA (EIndex a b) = true -> clean (S f) cC anC (EIndex a b) = true ->
  gsb (fst (ev_ (S f) cA anA (EIndex a b))) (fst (ev_ (S f) cC anC (EIndex a b))) = true.
Proof.
  intros IH cA cC anA anC Fr R Ra KA KC. destruct (frag_index _ _ Fr) as [Fa Fb].
  apply clean_S in KA as [DA [KAa KAb]]. apply clean_S in KC as [DC [KCa KCb]].
  cbn [eval_with] in *.
  destruct (ev_ f cA anA a) as [cvA cdA] eqn:EAa. destruct (ev_ f cC anC a) as [cvC cdC] eqn:ECa.
  destruct (ev_ f cA anA b) as [kvA kdA] eqn:EAb. destruct (ev_ f cC anC b) as [kvC kdC] eqn:ECb.
  destruct (sub_facts f a cA cC anA anC _ _ _ _ IH Fa R Ra KAa KCa EAa ECa) as [IcA [IcC [Gc _]]].
  destruct (sub_facts f b cA cC anA anC _ _ _ _ IH Fb R Ra KAb KCb EAb ECb) as [IkA [IkC [Gk _]]].
  destruct (index cvA kvA) as [rA idA] eqn:EiA. destruct (index cvC kvC) as [rC idC] eqn:EiC.
  cbn [fst snd] in *. rewrite !diag_ok_app in DA, DC.
  apply andb_true_iff in DA as [_ DA]. apply andb_true_iff in DA as [_ DA].
  apply andb_true_iff in DC as [_ DC]. apply andb_true_iff in DC as [_ DC].
  apply (index_gs cvA kvA cvC kvC rA idA rC idC IcA IkA IcC IkC Gc Gk EiA EiC DA DC).
Qed.

Lemma si_reltrav f src steps : SI f -> forall cA cC anA anC,
  in_fragment (ERelTrav src steps) -> ctx_rel cA cC -> anon_rel anA anC ->
  clean (S f) cA anA (ERelTrav src steps) = true -> clean (S f) cC anC (ERelTrav src steps) = true ->
  gsb (fst (ev_ (S f) cA anA (ERelTrav src steps))) (fst (ev_ (S f) cC anC (ERelTrav src steps))) = true.
Proof.
  intros IH cA cC anA anC Fr R Ra KA KC. destruct (frag_rel _ _ Fr) as [Fs Fst].
  apply clean_S in KA as [DA KA']. apply clean_S in KC as [DC KC'].
  cbn [eval_with] in *.
  destruct (ev_ f cA anA src) as [vA dsA] eqn:EA. destruct (ev_ f cC anC src) as [vC dsC] eqn:EC.
  destruct (sub_facts f src cA cC anA anC _ _ _ _ IH Fs R Ra KA' KC' EA EC) as [IA [IC [G _]]].
  destruct (traverse_rel steps vA []) as [rA tdA] eqn:EtA. destruct (traverse_rel steps vC []) as [rC tdC] eqn:EtC.
  cbn [fst snd] in *. rewrite diag_ok_app in DA, DC.
  apply andb_true_iff in DA as [_ DA]. apply andb_true_iff in DC as [_ DC].
  apply (traverse_rel_gs steps vA vC [] [] rA tdA rC tdC Fst IA IC G EtA EtC DA DC).
Qed.

Lemma si_scope root steps cA cC : forallb step_inv steps = true -> ctx_rel cA cC ->
  diag_ok (snd (traverse_abs cA root steps)) = true -> diag_ok (snd (traverse_abs cC root steps)) = true ->
  gsb (fst (traverse_abs cA root steps)) (fst (traverse_abs cC root steps)) = true.
Proof.
  intros Fst R DA DC. unfold traverse_abs in *.
  pose proof (lookup_var_rel cA cC root false R) as L.
  destruct (lookup_var cA root false) as [[vA|] bA]; destruct (lookup_var cC root false) as [[vC|] bC]; try contradiction.
  - destruct L as [IA [IC G]].
    destruct (traverse_rel steps vA []) as [rA tdA] eqn:EtA. destruct (traverse_rel steps vC []) as [rC tdC] eqn:EtC.
    apply (traverse_rel_gs steps vA vC [] [] rA tdA rC tdC Fst IA IC G EtA EtC DA DC).
  - destruct bA; discriminate DA.
Qed.

Lemma si_tuple f es : SI f -> forall cA cC anA anC,
  in_fragment (ETuple es) -> ctx_rel cA cC -> anon_rel anA anC ->
  clean (S f) cA anA (ETuple es) = true -> clean (S f) cC anC (ETuple es) = true ->
  gsb (fst (ev_ (S f) cA anA (ETuple es))) (fst (ev_ (S f) cC anC (ETuple es))) = true.
Proof.
  intros IH cA cC anA anC Fr R Ra KA KC. pose proof (frag_tuple _ Fr) as Fes.
  apply clean_S in KA as [_ KA']. apply clean_S in KC as [_ KC'].
  cbn [eval_with fst gsb]. rewrite forallb_Forall in KA', KC'.
  induction es as [|e es IHes]; [reflexivity|].
  inversion Fes; inversion KA'; inversion KC'; subst. simpl. apply andb_true_iff. split.
  - apply (IH e cA cC anA anC); assumption.
  - apply IHes; try assumption. constructor. assumption.
Qed.

Lemma si_objkey f w force : SI f -> forall cA cC anA anC,
  in_fragment (EObjKey w force) -> ctx_rel cA cC -> anon_rel anA anC ->
  clean (S f) cA anA (EObjKey w force) = true -> clean (S f) cC anC (EObjKey w force) = true ->
  gsb (fst (ev_ (S f) cA anA (EObjKey w force))) (fst (ev_ (S f) cC anC (EObjKey w force))) = true.
Proof.
  intros IH cA cC anA anC Fr R Ra KA KC. pose proof (frag_objkey _ _ Fr) as Fw.
  apply clean_S in KA as [DA KA']. apply clean_S in KC as [DC KC'].
  cbn [eval_with] in *. destruct force; cbn [negb] in *.
  - apply (IH w cA cC anA anC Fw R Ra KA' KC').
  - destruct w; try (destruct (literal_name _) eqn:L;
                     [cbn [fst gsb]; apply str_eqb_refl|apply (IH _ cA cC anA anC Fw R Ra KA' KC')]).
    destruct steps; [cbn [literal_name fst gsb]; apply str_eqb_refl|discriminate DA].
Qed.

(* ---- binary operators -------------------------------------------------------------------------------------- *)
(* the part of BinaryOpExpr.Value after the operand conversions, for unmarked operands
   (copy of Impl.v; [bin_tail_eq] below checks the correspondence by conversion) *)
Definition bin_tail (op : binop) (lu ru : val) (lds rds : list diag) : val * list diag :=
  let sc : option (val * list diag) :=
    match op with
    | OpOr | OpAnd =>
        let tru (v : val) := match v with VBool true => true | _ => false end in
        let fls (v : val) := negb (tru v) in
        let lk := is_known lu in let rk := is_known ru in
        if negb lk && negb rk then
          (if negb (has_errors lds) then Some (unk_bool_nn, lds) else None)
        else
        match op with
        | OpOr =>
            if lk && tru lu then Some (VBool true, lds)
            else if rk && tru ru then Some (VBool true, rds)
            else if negb lk && fls ru then Some (unk_bool_nn, lds)
            else if negb rk && fls lu then Some (unk_bool_nn, rds)
            else None
        | _ =>
            if lk && fls lu then Some (VBool false, lds)
            else if rk && fls ru then Some (VBool false, rds)
            else if negb lk && tru ru then Some (unk_bool_nn, lds)
            else if negb rk && tru lu then Some (unk_bool_nn, rds)
            else None
        end
    | _ => None
    end in
  match sc with
  | Some (v, ds) => (v, ds)
  | None =>
      let ds := lds ++ rds in
      if has_errors ds then (VUnk (binop_type op) rf_none, ds)
      else match call_binop op lu ru with
           | OOk res => (res, ds)
           | OErr _ => (VUnk (binop_type op) rf_none, ds ++ [derr S_OperationFailed []])
           | OUnsupported => (VUnk (binop_type op) rf_none, ds ++ [dunsupported])
           end
  end.

Lemma gsb_bool_unk_shape r c : inv c = true -> gsb (VUnk TBool r) c = true ->
  (exists b, c = VBool b) \/ c = VNull TBool.
Proof.
  intros I G. simpl in G. unfold conc in G. apply andb_true_iff in G as [G _]. apply andb_true_iff in G as [W Cf].
  pose proof (conf_nodyn _ TBool eq_refl Cf) as T.
  destruct (inv_bool_shape c I T) as [H|[H|[r0 ->]]]; [left; exact H|right; exact H|discriminate W].
Qed.

Lemma bin_tail_logic_gs op luA ruA luC ruC ldsA rdsA ldsC rdsC :
  (op = OpOr \/ op = OpAnd) ->
  inv luA = true -> inv ruA = true -> inv luC = true -> inv ruC = true ->
  gsb luA luC = true -> gsb ruA ruC = true ->
  type_of luA = TBool -> type_of ruA = TBool ->
  diag_ok ldsA = true -> diag_ok rdsA = true -> diag_ok ldsC = true -> diag_ok rdsC = true ->
  diag_ok (snd (bin_tail op luA ruA ldsA rdsA)) = true -> diag_ok (snd (bin_tail op luC ruC ldsC rdsC)) = true ->
  gsb (fst (bin_tail op luA ruA ldsA rdsA)) (fst (bin_tail op luC ruC ldsC rdsC)) = true.
Proof.
  intros Hop IlA IrA IlC IrC Gl Gr TlA TrA D1 D2 D3 D4 DA DC.
  assert (H1 : has_errors ldsA = false) by (apply diag_ok_elim in D1; tauto).
  assert (H2 : has_errors rdsA = false) by (apply diag_ok_elim in D2; tauto).
  assert (H3 : has_errors ldsC = false) by (apply diag_ok_elim in D3; tauto).
  assert (H4 : has_errors rdsC = false) by (apply diag_ok_elim in D4; tauto).
  unfold bin_tail in *. rewrite !has_errors_app in *. rewrite H1, H2 in *. rewrite H3, H4 in *.
  destruct (inv_bool_shape luA IlA TlA) as [[b1 ->]|[->|[r1 ->]]];
  destruct (inv_bool_shape ruA IrA TrA) as [[b2 ->]|[->|[r2 ->]]].
  all: try (apply gsb_known_eq in Gl; [subst luC|reflexivity]).
  all: try (apply gsb_known_eq in Gr; [subst ruC|reflexivity]).
  all: try (destruct (gsb_bool_unk_shape _ _ IlC Gl) as [[c1 ->]| ->]).
  all: try (destruct (gsb_bool_unk_shape _ _ IrC Gr) as [[c2 ->]| ->]).
  all: destruct Hop as [-> | ->].
  all: try destruct b1; try destruct b2; try destruct c1; try destruct c2.
  all: cbn in DA, DC |- *; try reflexivity.
  all: exfalso; repeat rewrite diag_ok_app in DC; repeat rewrite diag_ok_app in DA;
       rewrite ?diag_ok_cons_err, ?diag_ok_cons_unsup, ?andb_false_r in DA;
       rewrite ?diag_ok_cons_err, ?diag_ok_cons_unsup, ?andb_false_r in DC;
       first [discriminate DA | discriminate DC].
Qed.

Lemma bin_tail_arith_gs op luA ruA luC ruC ldsA rdsA ldsC rdsC :
  is_eq_op op = false -> op <> OpOr -> op <> OpAnd ->
  inv luA = true -> inv ruA = true -> inv luC = true -> inv ruC = true ->
  gsb luA luC = true -> gsb ruA ruC = true ->
  type_of luA = binop_param op -> type_of ruA = binop_param op ->
  diag_ok (snd (bin_tail op luA ruA ldsA rdsA)) = true -> diag_ok (snd (bin_tail op luC ruC ldsC rdsC)) = true ->
  gsb (fst (bin_tail op luA ruA ldsA rdsA)) (fst (bin_tail op luC ruC ldsC rdsC)) = true.
Proof.
  intros Ho N1 N2 IlA IrA IlC IrC Gl Gr TlA TrA DA DC.
  assert (EA : bin_tail op luA ruA ldsA rdsA =
               let ds := ldsA ++ rdsA in
               if has_errors ds then (VUnk (binop_type op) rf_none, ds)
               else match call_binop op luA ruA with
                    | OOk res => (res, ds)
                    | OErr _ => (VUnk (binop_type op) rf_none, ds ++ [derr S_OperationFailed []])
                    | OUnsupported => (VUnk (binop_type op) rf_none, ds ++ [dunsupported])
                    end) by (destruct op; try reflexivity; congruence).
  assert (EC : bin_tail op luC ruC ldsC rdsC =
               let ds := ldsC ++ rdsC in
               if has_errors ds then (VUnk (binop_type op) rf_none, ds)
               else match call_binop op luC ruC with
                    | OOk res => (res, ds)
                    | OErr _ => (VUnk (binop_type op) rf_none, ds ++ [derr S_OperationFailed []])
                    | OUnsupported => (VUnk (binop_type op) rf_none, ds ++ [dunsupported])
                    end) by (destruct op; try reflexivity; congruence).
  rewrite EA in *. rewrite EC in *. cbv zeta in *.
  destruct (has_errors (ldsA ++ rdsA)) eqn:HA; [cbn [snd] in DA; rewrite (diag_ok_has_errors _ HA) in DA; discriminate|].
  destruct (has_errors (ldsC ++ rdsC)) eqn:HC; [cbn [snd] in DC; rewrite (diag_ok_has_errors _ HC) in DC; discriminate|].
  destruct (call_binop op luA ruA) as [rA| |] eqn:EoA;
    try (exfalso; cbn [snd] in DA; rewrite diag_ok_app, andb_false_r in DA; discriminate).
  destruct (call_binop op luC ruC) as [rC| |] eqn:EoC;
    try (exfalso; cbn [snd] in DC; rewrite diag_ok_app, andb_false_r in DC; discriminate).
  cbn [fst]. apply (call_binop_gs op luA ruA luC ruC rA rC Ho IlA IrA IlC IrC Gl Gr TlA TrA EoA EoC).
Qed.


Lemma bin_tail_eq_gs op luA ruA luC ruC ldsA rdsA ldsC rdsC :
  is_eq_op op = true ->
  inv luA = true -> inv ruA = true -> inv luC = true -> inv ruC = true ->
  gsb luA luC = true -> gsb ruA ruC = true ->
  diag_ok (snd (bin_tail op luA ruA ldsA rdsA)) = true -> diag_ok (snd (bin_tail op luC ruC ldsC rdsC)) = true ->
  gsb (fst (bin_tail op luA ruA ldsA rdsA)) (fst (bin_tail op luC ruC ldsC rdsC)) = true.
Proof.
  intros Ho IlA IrA IlC IrC Gl Gr DA DC.
  assert (EA : bin_tail op luA ruA ldsA rdsA =
               let ds := ldsA ++ rdsA in
               if has_errors ds then (VUnk (binop_type op) rf_none, ds)
               else match call_binop op luA ruA with
                    | OOk res => (res, ds)
                    | OErr _ => (VUnk (binop_type op) rf_none, ds ++ [derr S_OperationFailed []])
                    | OUnsupported => (VUnk (binop_type op) rf_none, ds ++ [dunsupported])
                    end) by (destruct op; try discriminate Ho; reflexivity).
  assert (EC : bin_tail op luC ruC ldsC rdsC =
               let ds := ldsC ++ rdsC in
               if has_errors ds then (VUnk (binop_type op) rf_none, ds)
               else match call_binop op luC ruC with
                    | OOk res => (res, ds)
                    | OErr _ => (VUnk (binop_type op) rf_none, ds ++ [derr S_OperationFailed []])
                    | OUnsupported => (VUnk (binop_type op) rf_none, ds ++ [dunsupported])
                    end) by (destruct op; try discriminate Ho; reflexivity).
  rewrite EA in *. rewrite EC in *. cbv zeta in *.
  destruct (has_errors (ldsA ++ rdsA)) eqn:HA; [cbn [snd] in DA; rewrite (diag_ok_has_errors _ HA) in DA; discriminate|].
  destruct (has_errors (ldsC ++ rdsC)) eqn:HC; [cbn [snd] in DC; rewrite (diag_ok_has_errors _ HC) in DC; discriminate|].
  destruct (call_binop op luA ruA) as [rA| |] eqn:EoA;
    try (exfalso; cbn [snd] in DA; rewrite diag_ok_app, andb_false_r in DA; discriminate).
  destruct (call_binop op luC ruC) as [rC| |] eqn:EoC;
    try (exfalso; cbn [snd] in DC; rewrite diag_ok_app, andb_false_r in DC; discriminate).
  cbn [fst]. apply (call_binop_eq_gs op luA ruA luC ruC rA rC Ho IlA IrA IlC IrC Gl Gr EoA EoC).
Qed.

(* conversion of an operand to the operator's parameter type *)
Lemma conv_param_gs op a c a' c' : inv a = true -> inv c = true -> gsb a c = true ->
  conv a (binop_param op) = COk a' -> conv c (binop_param op) = COk c' -> gsb a' c' = true.
Proof.
  intros Ia Ic G EA EC. destruct (is_eq_op op) eqn:Ho.
  - assert (Hp : binop_param op = TDyn) by (destruct op; try discriminate Ho; reflexivity). rewrite Hp in EA, EC.
    rewrite (conv_dyn_id a a' Ia EA), (conv_dyn_id c c' Ic EC). exact G.
  - assert (Hp : is_prim (binop_param op) = true) by (destruct op; try discriminate Ho; reflexivity).
    apply (conv_gs_prim a c _ a' c' Hp Ia Ic G EA EC).
Qed.

Lemma si_bin f op l r : SI f -> forall cA cC anA anC,
  in_fragment (EBin op l r) -> ctx_rel cA cC -> anon_rel anA anC ->
  clean (S f) cA anA (EBin op l r) = true -> clean (S f) cC anC (EBin op l r) = true ->
  gsb (fst (ev_ (S f) cA anA (EBin op l r))) (fst (ev_ (S f) cC anC (EBin op l r))) = true.
Proof.
  intros IH cA cC anA anC Fr R Ra KA KC. destruct (frag_bin _ _ _ Fr) as [Fl Frr].
  apply clean_S in KA as [DA [KAl KAr]]. apply clean_S in KC as [DC [KCl KCr]].
  cbn [eval_with] in *.
  destruct (ev_ f cA anA l) as [glA ldsA] eqn:EAl. destruct (ev_ f cC anC l) as [glC ldsC] eqn:ECl.
  destruct (ev_ f cA anA r) as [grA rdsA] eqn:EAr. destruct (ev_ f cC anC r) as [grC rdsC] eqn:ECr.
  destruct (sub_facts f l cA cC anA anC _ _ _ _ IH Fl R Ra KAl KCl EAl ECl) as [IlA [IlC [Gl [D1 D3]]]].
  destruct (sub_facts f r cA cC anA anC _ _ _ _ IH Frr R Ra KAr KCr EAr ECr) as [IrA [IrC [Gr [D2 D4]]]].
  assert (U1 : has_unsupported ldsA || has_unsupported rdsA = false).
  { apply diag_ok_elim in D1 as [_ ->]. apply diag_ok_elim in D2 as [_ ->]. reflexivity. }
  assert (U2 : has_unsupported ldsC || has_unsupported rdsC = false).
  { apply diag_ok_elim in D3 as [_ ->]. apply diag_ok_elim in D4 as [_ ->]. reflexivity. }
  rewrite U1 in *. rewrite U2 in *.
  destruct (conv glA (binop_param op)) as [lvA| |] eqn:EclA;
    try (destruct (conv grA (binop_param op)); kill DA).
  destruct (conv grA (binop_param op)) as [rvA| |] eqn:EcrA; try (kill DA).
  destruct (conv glC (binop_param op)) as [lvC| |] eqn:EclC;
    try (destruct (conv grC (binop_param op)); kill DC).
  destruct (conv grC (binop_param op)) as [rvC| |] eqn:EcrC; try (kill DC).
  pose proof (conv_inv_pres _ _ _ IlA EclA) as IlvA. pose proof (conv_inv_pres _ _ _ IrA EcrA) as IrvA.
  pose proof (conv_inv_pres _ _ _ IlC EclC) as IlvC. pose proof (conv_inv_pres _ _ _ IrC EcrC) as IrvC.
  rewrite (inv_unmark lvA IlvA), (inv_unmark rvA IrvA) in *. rewrite (inv_unmark lvC IlvC), (inv_unmark rvC IrvC) in *.
  rewrite marks_union_nil_nil in *. cbn [with_marks] in *.
  pose proof (conv_param_gs op glA glC lvA lvC IlA IlC Gl EclA EclC) as Glv.
  pose proof (conv_param_gs op grA grC rvA rvC IrA IrC Gr EcrA EcrC) as Grv.
  match goal with
  | |- gsb (fst ?X) (fst ?Y) = true =>
      change X with (bin_tail op lvA rvA ldsA rdsA) in *; change Y with (bin_tail op lvC rvC ldsC rdsC) in *
  end.
  destruct (is_eq_op op) eqn:Ho; [apply bin_tail_eq_gs; assumption|].
  assert (Hd : has_dyn (binop_param op) = false) by (destruct op; try discriminate Ho; reflexivity).
  pose proof (conv_type _ _ _ EclA Hd) as TlA. pose proof (conv_type _ _ _ EcrA Hd) as TrA.
  destruct op; try discriminate Ho.
  1,2: apply bin_tail_logic_gs; auto.
  all: apply bin_tail_arith_gs; auto; discriminate.
Qed.

(* ---- conditional ---------------------------------------------------------------------------------------------- *)
Lemma is_dyn_null_eq v : is_dyn_null v = true -> v = VNull TDyn.
Proof. destruct v; try discriminate. destruct t; try discriminate. reflexivity. Qed.

Lemma arm_ok_cases v : arm_ok v = true -> has_dyn (type_of v) = false \/ v = VNull TDyn.
Proof.
  unfold arm_ok. intros H. apply orb_true_iff in H as [H|H].
  - right. apply is_dyn_null_eq. exact H.
  - left. apply negb_true_iff. exact H.
Qed.

Lemma gsb_dyn_null_iff a c : gsb a c = true -> arm_ok a = true -> is_dyn_null a = is_dyn_null c.
Proof.
  intros G A. destruct (is_dyn_null a) eqn:Na.
  - apply is_dyn_null_eq in Na. subst a. apply gsb_known_eq in G; [subst c; reflexivity|reflexivity].
  - destruct (is_dyn_null c) eqn:Nc; [|reflexivity]. exfalso.
    apply is_dyn_null_eq in Nc. subst c.
    destruct (arm_ok_cases a A) as [Hd| ->]; [|discriminate Na].
    pose proof (gsb_type_eq a _ G Hd) as T. simpl in T. rewrite <- T in Hd. discriminate.
Qed.

Lemma cond_uni_eq tvA fvA tvC fvC :
  gsb tvA tvC = true -> gsb fvA fvC = true -> arm_ok tvA = true -> arm_ok fvA = true ->
  cond_uni tvA fvA = cond_uni tvC fvC.
Proof.
  intros Gt Gf At Af. unfold cond_uni.
  rewrite <- (gsb_dyn_null_iff _ _ Gt At), <- (gsb_dyn_null_iff _ _ Gf Af).
  assert (Tt : is_dyn_null tvA = false -> type_of tvC = type_of tvA).
  { intros N. destruct (arm_ok_cases _ At) as [Hd| ->]; [apply (gsb_type_eq _ _ Gt Hd)|discriminate N]. }
  assert (Tf : is_dyn_null fvA = false -> type_of fvC = type_of fvA).
  { intros N. destruct (arm_ok_cases _ Af) as [Hd| ->]; [apply (gsb_type_eq _ _ Gf Hd)|discriminate N]. }
  destruct (is_dyn_null tvA) eqn:N1.
  - destruct (is_dyn_null fvA) eqn:N2.
    + apply is_dyn_null_eq in N2. subst fvA. apply gsb_known_eq in Gf; [subst fvC; reflexivity|reflexivity].
    + rewrite (Tf eq_refl). reflexivity.
  - destruct (is_dyn_null fvA) eqn:N2.
    + rewrite (Tt eq_refl). reflexivity.
    + rewrite (Tt eq_refl), (Tf eq_refl). reflexivity.
Qed.

Lemma arm_ok_not_dyn v : arm_ok v = true -> is_dyn_null v = false -> ty_eqb (type_of v) TDyn = false.
Proof.
  intros A N. destruct (arm_ok_cases v A) as [Hd| ->]; [|discriminate N].
  apply ty_eqb_neq. intros T. rewrite T in Hd. discriminate.
Qed.

Lemma cond_uni_flags tv fv rt tconv fconv :
  arm_ok tv = true -> arm_ok fv = true -> cond_uni tv fv = inl (Some (rt, tconv, fconv)) ->
  (tconv = false -> type_of tv = rt) /\ (fconv = false -> type_of fv = rt) /\
  (type_of tv = TNum -> type_of fv = TNum -> rt = TNum).
Proof.
  unfold cond_uni. intros At Af E.
  destruct (is_dyn_null tv) eqn:N1.
  { injection E as <- <- <-. apply is_dyn_null_eq in N1. subst tv.
    split; [discriminate|]. split; [reflexivity|]. discriminate. }
  destruct (is_dyn_null fv) eqn:N2.
  { injection E as <- <- <-. apply is_dyn_null_eq in N2. subst fv.
    split; [reflexivity|]. split; [discriminate|]. discriminate. }
  rewrite (arm_ok_not_dyn _ At N1), (arm_ok_not_dyn _ Af N2) in E. cbn [orb] in E.
  destruct (unify (type_of tv) (type_of fv)) eqn:Eu; try discriminate. injection E as <- <- <-.
  split; [|split].
  - intros H. apply negb_false_iff in H. apply ty_eqb_eq. exact H.
  - intros H. apply negb_false_iff in H. apply ty_eqb_eq. exact H.
  - intros T1 T2. rewrite T1, T2 in Eu. vm_compute in Eu. injection Eu as <-. reflexivity.
Qed.

Lemma conv_bool_known c cb : inv c = true -> wholly_known c = true -> null_shape c = false ->
  conv c TBool = COk cb -> exists b, cb = VBool b.
Proof. intros I W N E. apply (conv_prim_known_shape c TBool cb W I N eq_refl E). Qed.

(* ConditionalExpr.Value after the three evaluations and the choice of the result type, for unmarked
   values (copy of Impl.v; the correspondence is checked by conversion in [si_cond]) *)
Definition cond_pick (rt : ty) (cds : list diag) (bv : val) (bds : list diag) (needconv : bool) : val * list diag :=
  if needconv then
    match conv bv rt with
    | COk r => (r, cds ++ bds)
    | CErr ce => (VUnk rt rf_none, cds ++ bds ++ [derr S_InconsistentCond [FConv ce]])
    | CUnsupported => (dyn_val, cds ++ bds ++ [dunsupported])
    end
  else (bv, cds ++ bds).

Definition cond_tail (rt : ty) (tconv fconv : bool) (cv tv fv : val) (cds tds fds : list diag) : val * list diag :=
  if negb (is_known cv) then cond_unk rt cds [] tv fv
  else match conv cv TBool with
       | CUnsupported => (VUnk rt rf_none, cds ++ [dunsupported])
       | CErr _ => (VUnk rt rf_none, cds ++ [derr S_IncorrectCondType []])
       | COk cb =>
           match cb with
           | VBool true => cond_pick rt cds tv tds tconv
           | VBool false => cond_pick rt cds fv fds fconv
           | _ => (dyn_val, cds ++ [dunsupported])
           end
       end.

Lemma cond_pick_ok rt cds bv bds nc : diag_ok (snd (cond_pick rt cds bv bds nc)) = true ->
  (nc = false -> type_of bv = rt) ->
  picked bv rt (fst (cond_pick rt cds bv bds nc)).
Proof.
  unfold cond_pick. intros D Hf. destruct nc.
  - destruct (conv bv rt) as [r| |] eqn:E; [right; exact E|kill D|kill D].
  - left. split; [reflexivity|apply Hf; reflexivity].
Qed.

Lemma cond_pick_gs rt cdsA cdsC xA xC bdsA bdsC nc :
  inv xA = true -> inv xC = true -> gsb xA xC = true ->
  (has_dyn (type_of xA) = false \/ xA = VNull TDyn) ->
  (has_dyn rt = false \/ xA = VNull TDyn) ->
  diag_ok (snd (cond_pick rt cdsA xA bdsA nc)) = true -> diag_ok (snd (cond_pick rt cdsC xC bdsC nc)) = true ->
  gsb (fst (cond_pick rt cdsA xA bdsA nc)) (fst (cond_pick rt cdsC xC bdsC nc)) = true.
Proof.
  unfold cond_pick. intros IA IC G Ax Hrt DA DC. destruct nc; [|exact G].
  destruct (conv xA rt) as [rA| |] eqn:EA; [|kill DA|kill DA].
  destruct (conv xC rt) as [rC| |] eqn:EC; [|kill DC|kill DC]. cbn [fst].
  destruct Ax as [Hd| ->].
  - destruct Hrt as [Hr| ->].
    + apply (conv_gs_nodyn xA xC rt rA rC IA IC G Hd Hr EA EC).
    + unfold conv in EA, EC. apply (convert_known_gs _ _ _ _ _ _ _ IA eq_refl G EA EC).
  - unfold conv in EA, EC. apply (convert_known_gs _ _ _ _ _ _ _ IA eq_refl G EA EC).
Qed.

Lemma cond_tail_gs rt tconv fconv cvA tvA fvA cvC tvC fvC cdsA tdsA fdsA cdsC tdsC fdsC :
  inv cvA = true -> inv tvA = true -> inv fvA = true -> inv cvC = true -> inv tvC = true -> inv fvC = true ->
  gsb cvA cvC = true -> gsb tvA tvC = true -> gsb fvA fvC = true ->
  null_shape cvA = false -> null_shape cvC = false ->
  (has_dyn (type_of tvA) = false \/ tvA = VNull TDyn) -> (has_dyn (type_of fvA) = false \/ fvA = VNull TDyn) ->
  (tconv = false -> type_of tvC = rt) -> (fconv = false -> type_of fvC = rt) ->
  (type_of tvA = TNum -> type_of fvA = TNum -> rt = TNum) ->
  (has_dyn rt = false \/ (tvA = VNull TDyn /\ fvA = VNull TDyn /\ rt = TDyn)) ->
  diag_ok (snd (cond_tail rt tconv fconv cvA tvA fvA cdsA tdsA fdsA)) = true ->
  diag_ok (snd (cond_tail rt tconv fconv cvC tvC fvC cdsC tdsC fdsC)) = true ->
  gsb (fst (cond_tail rt tconv fconv cvA tvA fvA cdsA tdsA fdsA))
      (fst (cond_tail rt tconv fconv cvC tvC fvC cdsC tdsC fdsC)) = true.
Proof.
  intros IcA ItA IfA IcC ItC IfC Gc Gt Gf NcA NcC At Af FtC FfC Hnum Hrt DA DC.
  pose proof (gsb_wk _ _ Gc) as WcC.
  unfold cond_tail in DC |- *.
  assert (KcC : is_known cvC = true).
  { rewrite (inv_is_known _ IcC). destruct cvC; try reflexivity. discriminate WcC. }
  rewrite KcC in DC |- *. cbn [negb] in DC |- *.
  destruct (conv cvC TBool) as [cbC| |] eqn:EcbC; [|kill DC|kill DC].
  destruct (conv_bool_known cvC cbC IcC WcC NcC EcbC) as [b ->].
  set (xC := if b then tvC else fvC). set (xA := if b then tvA else fvA).
  set (nc := if b then tconv else fconv). set (bdsC := if b then tdsC else fdsC).
  assert (EC : (if b then cond_pick rt cdsC tvC tdsC tconv else cond_pick rt cdsC fvC fdsC fconv)
               = cond_pick rt cdsC xC bdsC nc) by (destruct b; reflexivity).
  assert (EC' : match VBool b with
                | VBool true => cond_pick rt cdsC tvC tdsC tconv
                | VBool false => cond_pick rt cdsC fvC fdsC fconv
                | _ => (dyn_val, cdsC ++ [dunsupported]) end = cond_pick rt cdsC xC bdsC nc) by (destruct b; reflexivity).
  rewrite EC' in DC |- *.
  assert (Gx : gsb xA xC = true) by (unfold xA, xC; destruct b; assumption).
  assert (IxA : inv xA = true) by (unfold xA; destruct b; assumption).
  assert (IxC : inv xC = true) by (unfold xC; destruct b; assumption).
  assert (Ax : has_dyn (type_of xA) = false \/ xA = VNull TDyn) by (unfold xA; destruct b; assumption).
  assert (Fx : nc = false -> type_of xC = rt) by (unfold nc, xC; destruct b; assumption).
  pose proof (cond_pick_ok rt cdsC xC bdsC nc DC Fx) as PC.
  unfold cond_tail in DA |- *.
  destruct (negb (is_known cvA)) eqn:KcA.
  - (* unknown condition *)
    destruct Hrt as [Hr|[-> [-> ->]]].
    + apply (cond_unk_gs rt cdsA tvA fvA xC _ ItA IfA IxC Hr At Af Hnum); [|exact PC].
      unfold xC. destruct b; [left; exact Gt|right; exact Gf].
    + (* both arms are literal nulls *)
      apply gsb_known_eq in Gt; [|reflexivity]. apply gsb_known_eq in Gf; [|reflexivity]. subst tvC fvC.
      rewrite cond_unk_cases. cbn [null_shape andb fst].
      destruct PC as [[-> _]|E].
      * unfold xC. destruct b; reflexivity.
      * unfold xC in E. assert (E' : conv (VNull TDyn) TDyn = COk (fst (cond_pick TDyn cdsC xC bdsC nc))) by (destruct b; exact E).
        assert (Ev : conv (VNull TDyn) TDyn = COk (VNull TDyn)) by (vm_compute; reflexivity).
        rewrite Ev in E'. injection E' as <-. reflexivity.
  - (* known condition *)
    destruct (conv cvA TBool) as [cbA| |] eqn:EcbA; [|kill DA|kill DA].
    pose proof (conv_gs_prim cvA cvC TBool cbA (VBool b) eq_refl IcA IcC Gc EcbA EcbC) as Gcb.
    destruct cbA; try (kill DA); try discriminate Gcb.
    simpl in Gcb. apply Bool.eqb_prop in Gcb. subst b0.
      set (bdsA := if b then tdsA else fdsA).
      assert (EA' : match VBool b with
                    | VBool true => cond_pick rt cdsA tvA tdsA tconv
                    | VBool false => cond_pick rt cdsA fvA fdsA fconv
                    | _ => (dyn_val, cdsA ++ [dunsupported]) end = cond_pick rt cdsA xA bdsA nc) by (destruct b; reflexivity).
      rewrite EA' in DA |- *.
      apply cond_pick_gs; try assumption.
      destruct Hrt as [Hr|[Et [Ef _]]]; [left; exact Hr|right]. unfold xA. destruct b; assumption.
Qed.


Lemma si_cond f ce te fe : SI f -> forall cA cC anA anC,
  in_fragment (ECond ce te fe) -> ctx_rel cA cC -> anon_rel anA anC ->
  clean (S f) cA anA (ECond ce te fe) = true -> clean (S f) cC anC (ECond ce te fe) = true ->
  gsb (fst (ev_ (S f) cA anA (ECond ce te fe))) (fst (ev_ (S f) cC anC (ECond ce te fe))) = true.
Proof.
  intros IH cA cC anA anC Fr R Ra KA KC. destruct (frag_cond _ _ _ Fr) as [Fc [Ft Ff]].
  apply clean_S in KA as [DA [KAc [KAt [KAf [AtA [AfA RtA]]]]]].
  apply clean_S in KC as [DC [KCc [KCt [KCf [AtC [AfC RtC]]]]]].
  cbn [eval_with] in DA, DC |- *.
  destruct (ev_ f cA anA te) as [tvA tdA] eqn:EAt. destruct (ev_ f cC anC te) as [tvC tdC] eqn:ECt.
  destruct (ev_ f cA anA fe) as [fvA fdA] eqn:EAf. destruct (ev_ f cC anC fe) as [fvC fdC] eqn:ECf.
  destruct (sub_facts f te cA cC anA anC _ _ _ _ IH Ft R Ra KAt KCt EAt ECt) as [ItA [ItC [Gt [D1 D3]]]].
  destruct (sub_facts f fe cA cC anA anC _ _ _ _ IH Ff R Ra KAf KCf EAf ECf) as [IfA [IfC [Gf [D2 D4]]]].
  cbn [fst] in AtA, AfA, AtC, AfC, RtA, RtC.
  assert (U1 : has_unsupported tdA || has_unsupported fdA = false).
  { apply diag_ok_elim in D1 as [_ ->]. apply diag_ok_elim in D2 as [_ ->]. reflexivity. }
  assert (U2 : has_unsupported tdC || has_unsupported fdC = false).
  { apply diag_ok_elim in D3 as [_ ->]. apply diag_ok_elim in D4 as [_ ->]. reflexivity. }
  rewrite U1 in DA |- *. rewrite U2 in DC |- *.
  match type of DA with
  | context [match ?u with inl _ => _ | inr _ => _ end] => change u with (cond_uni tvA fvA) in DA |- *
  end.
  match type of DC with
  | context [match ?u with inl _ => _ | inr _ => _ end] => change u with (cond_uni tvC fvC) in DC |- *
  end.
  pose proof (cond_uni_eq tvA fvA tvC fvC Gt Gf AtA AfA) as Eu. rewrite <- Eu in DC |- *.
  unfold rt_ok in RtA.
  destruct (cond_uni tvA fvA) as [[[[rt tconv] fconv]|]|[|]] eqn:EuA; try (kill DA).
  destruct (cond_uni_flags tvA fvA rt tconv fconv AtA AfA EuA) as [_ [_ HnumA]].
  destruct (cond_uni_flags tvC fvC rt tconv fconv AtC AfC (eq_sym Eu)) as [FtC [FfC _]].
  destruct (ev_ f cA anA ce) as [cvA cdA] eqn:EAc. destruct (ev_ f cC anC ce) as [cvC cdC] eqn:ECc.
  destruct (sub_facts f ce cA cC anA anC _ _ _ _ IH Fc R Ra KAc KCc EAc ECc) as [IcA [IcC [Gc [D5 D6]]]].
  rewrite (inv_is_null _ IcA) in DA |- *. rewrite (inv_is_null _ IcC) in DC |- *.
  destruct (null_shape cvA) eqn:NcA; [kill DA|]. destruct (null_shape cvC) eqn:NcC; [kill DC|].
  rewrite (inv_unmark cvA IcA), (inv_unmark tvA ItA), (inv_unmark fvA IfA) in DA |- *.
  rewrite (inv_unmark cvC IcC), (inv_unmark tvC ItC), (inv_unmark fvC IfC) in DC |- *.
  rewrite (inv_deep_marks tvA ItA), (inv_deep_marks fvA IfA) in DA |- *.
  rewrite (inv_deep_marks tvC ItC), (inv_deep_marks fvC IfC) in DC |- *.
  change (marks_unions [[]; []; []]) with (@nil Z) in DA, DC |- *.
  rewrite marks_union_nil_nil in DA, DC |- *.
  match goal with
  | |- gsb (fst ?X) (fst ?Y) = true =>
      change X with (cond_tail rt tconv fconv cvA tvA fvA cdA tdA fdA) in DA |- *;
      change Y with (cond_tail rt tconv fconv cvC tvC fvC cdC tdC fdC) in DC |- *
  end.
  apply cond_tail_gs; try assumption.
  - apply (arm_ok_cases _ AtA).
  - apply (arm_ok_cases _ AfA).
  - (* the result type *)
    apply orb_true_iff in RtA as [H|H]; [left; apply negb_true_iff; exact H|right].
    apply andb_true_iff in H as [H1 H2]. apply is_dyn_null_eq in H1, H2. subst tvA fvA.
    repeat split. unfold cond_uni in EuA. simpl in EuA. injection EuA as <- _ _. reflexivity.
Qed.

(* ---- templates ---------------------------------------------------------------------------------------------- *)
Lemma is_prefix_refl a : is_prefix_of a a = true.
Proof. induction a as [|x a IH]; simpl; [reflexivity|]. rewrite Z.eqb_refl, IH. reflexivity. Qed.
Lemma is_prefix_app a c s : is_prefix_of a c = true -> is_prefix_of a (c ++ s) = true.
Proof.
  revert c. induction a as [|x a IH]; intros [|y c] H; simpl in *; try reflexivity; try discriminate.
  apply andb_true_iff in H as [H1 H2]. rewrite H1. simpl. apply IH. exact H2.
Qed.
Lemma is_prefix_firstn n a c : is_prefix_of a c = true -> is_prefix_of (firstn n a) c = true.
Proof.
  revert a c. induction n as [|n IH]; intros [|x a] [|y c] H; simpl in *; try reflexivity; try discriminate.
  apply andb_true_iff in H as [H1 H2]. rewrite H1. simpl. apply IH. exact H2.
Qed.

Definition tmpl_state := (list Z * bool * marks * list diag)%type.
Definition tmpl_rel (stA stC : tmpl_state) : Prop :=
  let '(bA, kA, _, _) := stA in let '(bC, kC, _, _) := stC in
  kC = true /\ (if kA then bA = bC else is_prefix_of bA bC = true).

(* the step of TemplateExpr.Value (copy of Impl.v, ETmpl; checked by conversion in [si_tmpl]) *)
Definition tmpl_step (ev : expr -> val * list diag) (st : tmpl_state) (p : expr) : tmpl_state :=
  let '(buf, known, mk, ds) := st in
  let '(pv, pds) := ev p in
  let ds := ds ++ pds in
  if is_null pv then (buf, known, mk, ds ++ [derr S_InvalidTemplateInterp []])
  else
  let '(pu, pm) := unmark pv in
  let mk := marks_union mk pm in
  if negb (is_known pv) then (buf, false, mk, ds)
  else match conv pu TStr with
       | CUnsupported => (buf, known, mk, ds ++ [dunsupported])
       | CErr ce => (buf, known, mk, ds ++ [derr S_InvalidTemplateInterp [FConv ce]])
       | COk (VStr s) => if known && negb (has_errors ds) then (buf ++ s, known, mk, ds) else (buf, known, mk, ds)
       | COk _ => (buf, known, mk, ds ++ [dunsupported])
       end.

Lemma tmpl_step_mono ev st p : diag_ok (tmpl_ds (tmpl_step ev st p)) = true -> diag_ok (tmpl_ds st) = true.
Proof.
  destruct st as [[[buf known] mk] ds]. unfold tmpl_step. intros D.
  repeat match type of D with
         | diag_ok (tmpl_ds (match ?x with _ => _ end)) = true => destruct_scrut x
         end;
  cbn [tmpl_ds] in D |- *; repeat rewrite diag_ok_app in D;
  repeat match type of D with (_ && _ = true) => apply andb_true_iff in D as [D _] end; exact D.
Qed.

Lemma tmpl_fold_rel evA evC : forall ps stA stC,
  (forall p, In p ps -> inv (fst (evA p)) = true /\ inv (fst (evC p)) = true /\ gsb (fst (evA p)) (fst (evC p)) = true) ->
  tmpl_rel stA stC ->
  diag_ok (tmpl_ds (fold_left (tmpl_step evA) ps stA)) = true ->
  diag_ok (tmpl_ds (fold_left (tmpl_step evC) ps stC)) = true ->
  tmpl_rel (fold_left (tmpl_step evA) ps stA) (fold_left (tmpl_step evC) ps stC).
Proof.
  induction ps as [|p ps IH]; intros stA stC Hp Hr DA DC; simpl in *; [exact Hr|].
  apply IH; try assumption; [intros q Hq; apply Hp; right; exact Hq|].
  pose proof (fold_ds_ok (tmpl_step evA) tmpl_ds (tmpl_step_mono evA) ps _ DA) as DsA.
  pose proof (fold_ds_ok (tmpl_step evC) tmpl_ds (tmpl_step_mono evC) ps _ DC) as DsC.
  destruct (Hp p (or_introl eq_refl)) as [IA [IC G]].
  destruct stA as [[[bA kA] mA] dA]. destruct stC as [[[bC kC] mC] dC]. destruct Hr as [-> Hr].
  unfold tmpl_step in DsA, DsC |- *.
  destruct (evA p) as [pvA pdA]. destruct (evC p) as [pvC pdC]. cbn [fst] in IA, IC, G.
  pose proof (gsb_wk _ _ G) as WC.
  rewrite (inv_is_null _ IA) in DsA |- *. rewrite (inv_is_null _ IC) in DsC |- *.
  destruct (null_shape pvA) eqn:NA; [exfalso; cbn [tmpl_ds] in DsA; rewrite diag_ok_app, andb_false_r in DsA; discriminate|].
  destruct (null_shape pvC) eqn:NC; [exfalso; cbn [tmpl_ds] in DsC; rewrite diag_ok_app, andb_false_r in DsC; discriminate|].
  rewrite (inv_unmark pvA IA) in DsA |- *. rewrite (inv_unmark pvC IC) in DsC |- *.
  assert (KC : is_known pvC = true).
  { rewrite (inv_is_known _ IC). destruct pvC; try reflexivity. discriminate WC. }
  rewrite KC in DsC |- *. cbn [negb] in DsC |- *.
  destruct (conv pvC TStr) as [ksC| |] eqn:EC;
    try (exfalso; cbn [tmpl_ds] in DsC; rewrite diag_ok_app, andb_false_r in DsC; discriminate).
  destruct (conv_prim_known_shape pvC TStr ksC WC IC NC eq_refl EC) as [s ->].
  assert (HeC : has_errors (dC ++ pdC) = false).
  { destruct (true && negb (has_errors (dC ++ pdC))) eqn:Hc; cbn [tmpl_ds] in DsC; apply diag_ok_elim in DsC; tauto. }
  rewrite HeC in DsC |- *. cbn [andb negb] in DsC |- *.
  destruct (negb (is_known pvA)) eqn:KA.
  - (* unknown part: the buffer is frozen *)
    split; [reflexivity|]. destruct kA; [subst bC; apply is_prefix_app, is_prefix_refl|apply is_prefix_app; exact Hr].
  - destruct (conv pvA TStr) as [ksA| |] eqn:EA;
      try (exfalso; cbn [tmpl_ds] in DsA; rewrite diag_ok_app, andb_false_r in DsA; discriminate).
    pose proof (conv_gs_prim pvA pvC TStr ksA (VStr s) eq_refl IA IC G EA EC) as Gk.
    destruct ksA; try (exfalso; cbn [tmpl_ds] in DsA; rewrite diag_ok_app, andb_false_r in DsA; discriminate).
    simpl in Gk. apply str_eqb_eq in Gk. subst s0.
    assert (HeA : has_errors (dA ++ pdA) = false).
    { destruct (kA && negb (has_errors (dA ++ pdA))) eqn:Hc; cbn [tmpl_ds] in DsA; apply diag_ok_elim in DsA; tauto. }
    rewrite HeA. cbn [negb]. rewrite andb_true_r.
    destruct kA; cbn [tmpl_rel]; (split; [reflexivity|]).
    + subst bC. reflexivity.
    + apply is_prefix_app. exact Hr.
Qed.

Lemma tmpl_fold_mk_nil ev : forall ps st,
  (forall p, In p ps -> inv (fst (ev p)) = true) -> tmpl_mk_nil st -> tmpl_mk_nil (fold_left (tmpl_step ev) ps st).
Proof.
  induction ps as [|p ps IHp]; intros st Hp Hst; simpl; [exact Hst|].
  apply IHp; [intros q Hq; apply Hp; right; exact Hq|].
  destruct st as [[[buf known] mk] ds]. simpl in Hst. subst mk. unfold tmpl_step.
  pose proof (Hp p (or_introl eq_refl)) as Ip. destruct (ev p) as [pv pds]. simpl in Ip.
  destruct (is_null pv); [reflexivity|]. rewrite (inv_unmark pv Ip). rewrite marks_union_nil_nil.
  destruct (negb (is_known pv)); [reflexivity|].
  destruct (conv pv TStr) as [ks| |]; try reflexivity.
  destruct ks; try reflexivity. destruct (known && negb (has_errors (ds ++ pds))); reflexivity.
Qed.

Lemma si_tmpl f parts : SI f -> forall cA cC anA anC,
  in_fragment (ETmpl parts) -> ctx_rel cA cC -> anon_rel anA anC ->
  clean (S f) cA anA (ETmpl parts) = true -> clean (S f) cC anC (ETmpl parts) = true ->
  gsb (fst (ev_ (S f) cA anA (ETmpl parts))) (fst (ev_ (S f) cC anC (ETmpl parts))) = true.
Proof.
  intros IH cA cC anA anC Fr R Ra KA KC. pose proof (frag_tmpl _ Fr) as Fp.
  apply clean_S in KA as [DA KA']. apply clean_S in KC as [DC KC'].
  cbn [eval_with] in DA, DC |- *.
  change (fold_left _ parts ([], true, [], [])) with (fold_left (tmpl_step (ev_ f cA anA)) parts ([], true, [], [])) in DA |- * at 1.
  match type of DC with
  | context [fold_left ?stp parts ?init] =>
      change (fold_left stp parts init) with (fold_left (tmpl_step (ev_ f cC anC)) parts ([], true, [], [])) in DC |- *
  end.
  assert (Hp : forall p, In p parts ->
            inv (fst (ev_ f cA anA p)) = true /\ inv (fst (ev_ f cC anC p)) = true /\
            gsb (fst (ev_ f cA anA p)) (fst (ev_ f cC anC p)) = true).
  { intros p Hin. rewrite forallb_Forall in KA', KC'. rewrite Forall_forall in *.
    destruct (ev_ f cA anA p) as [vA dA] eqn:EA. destruct (ev_ f cC anC p) as [vC dC] eqn:EC.
    destruct (sub_facts f p cA cC anA anC vA dA vC dC IH (Fp p Hin) R Ra (KA' p Hin) (KC' p Hin) EA EC) as [I1 [I2 [G _]]].
    auto. }
  assert (DfA : diag_ok (tmpl_ds (fold_left (tmpl_step (ev_ f cA anA)) parts ([], true, [], []))) = true).
  { destruct (fold_left (tmpl_step (ev_ f cA anA)) parts ([], true, [], [])) as [[[b k] m] d]. exact DA. }
  assert (DfC : diag_ok (tmpl_ds (fold_left (tmpl_step (ev_ f cC anC)) parts ([], true, [], []))) = true).
  { destruct (fold_left (tmpl_step (ev_ f cC anC)) parts ([], true, [], [])) as [[[b k] m] d]. exact DC. }
  pose proof (tmpl_fold_rel (ev_ f cA anA) (ev_ f cC anC) parts ([], true, [], []) ([], true, [], []) Hp
                (conj eq_refl eq_refl) DfA DfC) as Hr.
  pose proof (tmpl_fold_mk_nil (ev_ f cA anA) parts ([], true, [], []) (fun p Hin => proj1 (Hp p Hin)) eq_refl) as MA.
  pose proof (tmpl_fold_mk_nil (ev_ f cC anC) parts ([], true, [], []) (fun p Hin => proj1 (proj2 (Hp p Hin))) eq_refl) as MC.
  destruct (fold_left (tmpl_step (ev_ f cA anA)) parts ([], true, [], [])) as [[[bA kA] mA] dA].
  destruct (fold_left (tmpl_step (ev_ f cC anC)) parts ([], true, [], [])) as [[[bC kC] mC] dC].
  destruct Hr as [-> Hr]. simpl in MA, MC. subst mA mC. cbn [negb fst snd with_marks] in DA, DC |- *.
  destruct kA; cbn [negb].
  - subst bC. simpl. apply str_eqb_refl.
  - destruct (negb (has_errors dA) && negb (str_eqb bA [])); [|reflexivity].
    unfold gsb, conc. cbn [wholly_known type_of conf ty_eqb refn_ok r_prefix andb].
    apply is_prefix_firstn. exact Hr.
Qed.

(* ---- object constructor ----------------------------------------------------------------------------------------- *)
Definition obj_state := (list (list Z * val) * list marks * bool * list diag)%type.
Definition obj_step (ev : expr -> val * list diag) (st : obj_state) (it : expr * expr) : obj_state :=
  let '(vals, mks, known, ds) := st in
  let '(k, kds) := ev (fst it) in
  let '(v, vds) := ev (snd it) in
  let ds := ds ++ kds ++ vds in
  if has_errors kds then (vals, mks, false, ds)
  else if is_null k then (vals, mks, false, ds ++ [derr S_NullKey []])
  else
  let '(ku, km) := unmark k in
  let mks := mks ++ [km] in
  match conv ku TStr with
  | CUnsupported => (vals, mks, false, ds ++ [dunsupported])
  | CErr ce => (vals, mks, false, ds ++ [derr S_IncorrectKeyType [FConv ce]])
  | COk ks =>
      match ks with
      | VStr s => (assoc_set s v vals, mks, known, ds)
      | _ => (vals, mks, false, ds)
      end
  end.

Definition kv_rel (p q : list Z * val) : bool := str_eqb (fst p) (fst q) && gsb (snd p) (snd q).
Definition obj_rel (stA stC : obj_state) : Prop :=
  let '(vA, _, kA, _) := stA in let '(vC, _, kC, _) := stC in
  kC = true /\ Forall (fun p => wholly_known (snd p) = true) vC /\ (kA = true -> all2 kv_rel vA vC = true).

Lemma obj_step_mono ev st it : diag_ok (obj_ds (obj_step ev st it)) = true -> diag_ok (obj_ds st) = true.
Proof.
  destruct st as [[[vals mks] known] ds]. unfold obj_step. intros D.
  repeat match type of D with
         | diag_ok (obj_ds (match ?x with _ => _ end)) = true => destruct_scrut x
         end;
  cbn [obj_ds] in D |- *; repeat rewrite diag_ok_app in D;
  repeat match type of D with (_ && _ = true) => apply andb_true_iff in D as [D _] end; exact D.
Qed.

Lemma assoc_set_all2 s v v' la lc :
  all2 kv_rel la lc = true -> gsb v v' = true -> all2 kv_rel (assoc_set s v la) (assoc_set s v' lc) = true.
Proof.
  intros H G. revert lc H. induction la as [|[ka xa] ra IH]; intros [|[kc xc] rc] H; simpl in *; try discriminate.
  - unfold kv_rel. simpl. rewrite str_eqb_refl, G. reflexivity.
  - apply andb_true_iff in H as [H1 H2]. unfold kv_rel in H1. simpl in H1. apply andb_true_iff in H1 as [Hk Hx].
    apply str_eqb_eq in Hk. subst kc.
    destruct (str_eqb s ka).
    + simpl. unfold kv_rel at 1. simpl. rewrite str_eqb_refl, G. exact H2.
    + destruct (str_ltb s ka).
      * simpl. unfold kv_rel at 1. simpl. rewrite str_eqb_refl, G. simpl.
        unfold kv_rel at 1. simpl. rewrite str_eqb_refl, Hx. exact H2.
      * simpl. unfold kv_rel at 1. simpl. rewrite str_eqb_refl, Hx. simpl. apply IH. exact H2.
Qed.

Lemma assoc_set_wk s v (l : list (list Z * val)) :
  wholly_known v = true -> Forall (fun p => wholly_known (snd p) = true) l ->
  Forall (fun p => wholly_known (snd p) = true) (assoc_set s v l).
Proof.
  intros W. induction l as [|[k' v'] r IHl]; intros F; simpl.
  - constructor; [exact W|constructor].
  - inversion F; subst. destruct (str_eqb s k'); [constructor; assumption|].
    destruct (str_ltb s k'); [constructor; [exact W|exact F]|]. constructor; auto.
Qed.

Definition item_facts (evA evC : expr -> val * list diag) (e : expr) : Prop :=
  inv (fst (evA e)) = true /\ inv (fst (evC e)) = true /\ gsb (fst (evA e)) (fst (evC e)) = true /\
  diag_ok (snd (evA e)) = true /\ diag_ok (snd (evC e)) = true.

Lemma obj_fold_rel evA evC : forall its stA stC,
  (forall it, In it its -> item_facts evA evC (fst it) /\ item_facts evA evC (snd it)) ->
  obj_rel stA stC ->
  diag_ok (obj_ds (fold_left (obj_step evA) its stA)) = true ->
  diag_ok (obj_ds (fold_left (obj_step evC) its stC)) = true ->
  obj_rel (fold_left (obj_step evA) its stA) (fold_left (obj_step evC) its stC).
Proof.
  induction its as [|it its IH]; intros stA stC Hp Hr DA DC; simpl in *; [exact Hr|].
  apply IH; try assumption; [intros q Hq; apply Hp; right; exact Hq|].
  pose proof (fold_ds_ok (obj_step evA) obj_ds (obj_step_mono evA) its _ DA) as DsA.
  pose proof (fold_ds_ok (obj_step evC) obj_ds (obj_step_mono evC) its _ DC) as DsC.
  destruct (Hp it (or_introl eq_refl)) as [[IkA [IkC [Gk [DkA DkC]]]] [IvA [IvC [Gv _]]]].
  destruct stA as [[[vA mA] kA] dA]. destruct stC as [[[vC mC] kC] dC]. destruct Hr as [-> [WvC Hr]].
  unfold obj_step in DsA, DsC |- *.
  destruct (evA (fst it)) as [keyA kdA]. destruct (evC (fst it)) as [keyC kdC].
  destruct (evA (snd it)) as [valA vdA]. destruct (evC (snd it)) as [valC vdC].
  cbn [fst snd] in *.
  apply diag_ok_elim in DkA as [HkA _]. apply diag_ok_elim in DkC as [HkC _].
  rewrite HkA in DsA |- *. rewrite HkC in DsC |- *.
  pose proof (gsb_wk _ _ Gk) as WkC. pose proof (gsb_wk _ _ Gv) as WvalC.
  rewrite (inv_is_null _ IkA) in DsA |- *. rewrite (inv_is_null _ IkC) in DsC |- *.
  destruct (null_shape keyA) eqn:NA; [exfalso; cbn [obj_ds] in DsA; rewrite !diag_ok_app, !andb_false_r in DsA; discriminate|].
  destruct (null_shape keyC) eqn:NC; [exfalso; cbn [obj_ds] in DsC; rewrite !diag_ok_app, !andb_false_r in DsC; discriminate|].
  rewrite (inv_unmark keyA IkA) in DsA |- *. rewrite (inv_unmark keyC IkC) in DsC |- *.
  destruct (conv keyC TStr) as [ksC| |] eqn:EC;
    try (exfalso; cbn [obj_ds] in DsC; rewrite !diag_ok_app, !andb_false_r in DsC; discriminate).
  destruct (conv_prim_known_shape keyC TStr ksC WkC IkC NC eq_refl EC) as [s ->].
  destruct (conv keyA TStr) as [ksA| |] eqn:EA;
    try (exfalso; cbn [obj_ds] in DsA; rewrite !diag_ok_app, !andb_false_r in DsA; discriminate).
  pose proof (conv_gs_prim keyA keyC TStr ksA (VStr s) eq_refl IkA IkC Gk EA EC) as Gks.
  assert (WC' : Forall (fun p : list Z * val => wholly_known (snd p) = true) (assoc_set s valC vC))
    by (apply assoc_set_wk; assumption).
  destruct ksA; try (cbn [obj_rel]; split; [reflexivity|split; [exact WC'|discriminate]]).
  simpl in Gks. apply str_eqb_eq in Gks. subst s0.
  cbn [obj_rel]. split; [reflexivity|]. split; [exact WC'|].
  intros Hk. apply assoc_set_all2; [apply Hr; exact Hk|exact Gv].
Qed.

Lemma obj_fold_mk_nil ev : forall its st,
  (forall it, In it its -> inv (fst (ev (fst it))) = true) -> obj_inv_st st ->
  (forall it, In it its -> inv (fst (ev (snd it))) = true) ->
  obj_inv_st (fold_left (obj_step ev) its st).
Proof.
  induction its as [|it its IHi]; intros st Hk Hst Hv; simpl; [exact Hst|].
  apply IHi; [intros q Hq; apply Hk; right; exact Hq| |intros q Hq; apply Hv; right; exact Hq].
  destruct st as [[[vals mks] known] ds]. destruct Hst as [Hvals Hm]. unfold obj_step.
  pose proof (Hk it (or_introl eq_refl)) as Ik. destruct (ev (fst it)) as [k kds]. simpl in Ik.
  pose proof (Hv it (or_introl eq_refl)) as Iv. destruct (ev (snd it)) as [v vds]. simpl in Iv.
  destruct (has_errors kds); [split; assumption|].
  destruct (is_null k); [split; assumption|].
  rewrite (inv_unmark k Ik).
  assert (Hm' : Forall (fun m : marks => m = []) (mks ++ [[]])).
  { apply Forall_app. split; [exact Hm|constructor; [reflexivity|constructor]]. }
  destruct (conv k TStr) as [ks| |]; try (split; assumption).
  destruct ks; try (split; assumption). split; [apply assoc_set_inv; assumption|exact Hm'].
Qed.

Lemma si_obj f items : SI f -> forall cA cC anA anC,
  in_fragment (EObj items) -> ctx_rel cA cC -> anon_rel anA anC ->
  clean (S f) cA anA (EObj items) = true -> clean (S f) cC anC (EObj items) = true ->
  gsb (fst (ev_ (S f) cA anA (EObj items))) (fst (ev_ (S f) cC anC (EObj items))) = true.
Proof.
  intros IH cA cC anA anC Fr R Ra KA KC. pose proof (frag_obj _ Fr) as Fi.
  apply clean_S in KA as [DA KA']. apply clean_S in KC as [DC KC'].
  cbn [eval_with] in DA, DC |- *.
  change (fold_left _ items ([], [], true, [])) with (fold_left (obj_step (ev_ f cA anA)) items ([], [], true, [])) in DA |- * at 1.
  match type of DC with
  | context [fold_left ?stp items ?init] =>
      change (fold_left stp items init) with (fold_left (obj_step (ev_ f cC anC)) items ([], [], true, [])) in DC |- *
  end.
  assert (Hf : forall e, in_fragment e -> clean f cA anA e = true -> clean f cC anC e = true ->
            item_facts (ev_ f cA anA) (ev_ f cC anC) e).
  { intros e Fe K1 K2. unfold item_facts.
    destruct (ev_ f cA anA e) as [vA dA] eqn:EA. destruct (ev_ f cC anC e) as [vC dC] eqn:EC.
    destruct (sub_facts f e cA cC anA anC vA dA vC dC IH Fe R Ra K1 K2 EA EC) as [I1 [I2 [G [D1 D2]]]]. auto. }
  assert (Hp : forall it, In it items ->
            item_facts (ev_ f cA anA) (ev_ f cC anC) (fst it) /\ item_facts (ev_ f cA anA) (ev_ f cC anC) (snd it)).
  { intros it Hin. rewrite forallb_Forall in KA', KC'. rewrite Forall_forall in *.
    destruct (Fi it Hin) as [Fk Fv].
    pose proof (KA' it Hin) as K1. pose proof (KC' it Hin) as K2.
    apply andb_true_iff in K1 as [K1k K1v]. apply andb_true_iff in K2 as [K2k K2v].
    split; apply Hf; assumption. }
  assert (DfA : diag_ok (obj_ds (fold_left (obj_step (ev_ f cA anA)) items ([], [], true, []))) = true).
  { destruct (fold_left (obj_step (ev_ f cA anA)) items ([], [], true, [])) as [[[v m] k] d]. destruct (negb k); exact DA. }
  assert (DfC : diag_ok (obj_ds (fold_left (obj_step (ev_ f cC anC)) items ([], [], true, []))) = true).
  { destruct (fold_left (obj_step (ev_ f cC anC)) items ([], [], true, [])) as [[[v m] k] d]. destruct (negb k); exact DC. }
  assert (R0 : obj_rel ([], [], true, []) ([], [], true, [])) by (split; [reflexivity|split; [constructor|reflexivity]]).
  pose proof (obj_fold_rel (ev_ f cA anA) (ev_ f cC anC) items _ _ Hp R0 DfA DfC) as Hr.
  assert (I0 : obj_inv_st ([], [], true, [])) by (split; constructor).
  pose proof (obj_fold_mk_nil (ev_ f cA anA) items _ (fun it Hin => proj1 (proj1 (Hp it Hin))) I0
                (fun it Hin => proj1 (proj2 (Hp it Hin)))) as MA.
  pose proof (obj_fold_mk_nil (ev_ f cC anC) items _ (fun it Hin => proj1 (proj2 (proj1 (Hp it Hin)))) I0
                (fun it Hin => proj1 (proj2 (proj2 (Hp it Hin))))) as MC.
  destruct (fold_left (obj_step (ev_ f cA anA)) items ([], [], true, [])) as [[[vA mA] kA] dA].
  destruct (fold_left (obj_step (ev_ f cC anC)) items ([], [], true, [])) as [[[vC mC] kC] dC].
  destruct Hr as [-> [WC Hr]]. destruct MA as [_ MA]. destruct MC as [_ MC].
  rewrite (marks_unions_nil _ MA), (marks_unions_nil _ MC). cbn [negb fst with_marks].
  destruct kA; cbn [negb fst with_marks].
  - simpl. apply (Hr eq_refl).
  - apply gsb_dyn_val. simpl. apply forallb_Forall. exact WC.
Qed.

