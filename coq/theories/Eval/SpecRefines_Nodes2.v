(* Eval/SpecRefines_Nodes2.v — node lemmas of impl_refines_spec: templates (parts, join of a
   `for` directive) and function calls. *)
From Coq Require Import QArith.
From HclV Require Import Base.Prelude Cty.Values Cty.Convert Cty.Ops Eval.Impl Eval.Spec
  Eval.SpecRefines_Base Eval.SpecRefines_Defs Eval.SpecRefines_Nodes1.
Open Scope Z_scope.
Local Opaque conv.

(* ---- template parts ----------------------------------------------------------------------------- *)
Definition tmpl_step (f : nat) (c : ctx) (anon : option val) :
  list Z * bool * marks * list diag -> expr -> list Z * bool * marks * list diag :=
  ltac:(let t := eval cbn [eval eval_with] in (fun parts => eval (S f) c anon (ETmpl parts)) in
        match t with context [fold_left ?F _ _] =>
          let F' := eval pattern (eval_with index) in F in
          match F' with ?G _ => let r := eval cbv beta in (G eval) in exact r end end).

Definition tmpl_final (st : list Z * bool * marks * list diag) : val * list diag :=
  let '(buf, known, mk, ds) := st in
  (with_marks
     (if negb known
      then if negb (has_errors ds) && negb (str_eqb buf [])
           then VUnk TStr (RExact (mkRefn true (firstn 128 buf) None None 0 None))
           else VUnk TStr rf_notnull
      else VStr buf) mk, ds).

Lemma eval_ETmpl' f c a parts : eval (S f) c a (ETmpl parts) =
  tmpl_final (fold_left (tmpl_step f c a) parts ([], true, [], [])).
Proof. reflexivity. Qed.

Definition tst_diags (st : list Z * bool * marks * list diag) : list diag := snd st.
Lemma tmpl_final_snd st : snd (tmpl_final st) = tst_diags st.
Proof. destruct st as [[[buf known] mk] ds]. reflexivity. Qed.

Lemma tmpl_step_prefix f c anon st p : exists x, tst_diags (tmpl_step f c anon st p) = tst_diags st ++ x.
Proof.
  destruct st as [[[buf known] mk] ds]. unfold tmpl_step, tst_diags.
  destruct (eval f c anon p) as [pv pds].
  repeat match goal with
  | |- exists x, snd (match ?b with _ => _ end) = _ => destruct b
  end; cbn [snd]; eexists; rewrite <- ?app_assoc; reflexivity.
Qed.
Lemma tmpl_fold_prefix f c anon parts : forall st, exists x,
  tst_diags (fold_left (tmpl_step f c anon) parts st) = tst_diags st ++ x.
Proof.
  induction parts as [|p r IH]; intro st; simpl.
  - exists []. rewrite app_nil_r. reflexivity.
  - destruct (IH (tmpl_step f c anon st p)) as [x E]. destruct (tmpl_step_prefix f c anon st p) as [y E2].
    rewrite E, E2. exists (y ++ x). rewrite app_assoc. reflexivity.
Qed.
Lemma tmpl_fold_bad f c anon parts st s :
  has_unsupported (tst_diags st) = true \/ (has_errors (tst_diags st) = true /\ s = SErr) ->
  refines1 (tmpl_final (fold_left (tmpl_step f c anon) parts st)) s.
Proof.
  intro H. destruct (tmpl_fold_prefix f c anon parts st) as [x E].
  destruct (tmpl_final _) as [v ds] eqn:F.
  assert (ds = tst_diags st ++ x) as -> by (rewrite <- E, <- tmpl_final_snd, F; reflexivity).
  apply refines1_bad. destruct H as [H|[H ->]]; [left|right].
  - rewrite has_unsupported_app, H. reflexivity.
  - rewrite has_errors_app, H. auto.
Qed.

Definition tmpl_spec_rest (E : env) (parts : list expr) (buf : list Z) : sres :=
  match all_sok (map (spec_eval E) parts) with
  | Some vs => match all_some (map to_string vs) with
               | Some ss => SOk (VStr (buf ++ concat ss))
               | None => SErr end
  | None => SErr
  end.

Lemma to_string_null v : good v = true -> is_null v = true -> to_string v = None.
Proof.
  intros G N. rewrite good_is_null in N by auto. destruct v; try discriminate N. unfold to_string.
  destruct (conv (VNull t) TStr) eqn:C; try reflexivity. destruct (conv_null_shape _ _ _ C) as [t' ->]. reflexivity.
Qed.

Lemma tmpl_fold f c anon (E := env_of c anon) parts :
  Forall (fun p => refines1 (eval f c anon p) (spec_eval E p)) parts ->
  forall buf ds, has_errors ds = false ->
  refines1 (tmpl_final (fold_left (tmpl_step f c anon) parts (buf, true, [], ds))) (tmpl_spec_rest E parts buf).
Proof.
  induction 1 as [|p rest Rp Hrest IH]; intros buf ds ED.
  - simpl. apply refines1_intro. intro HU. right. unfold tmpl_spec_rest. simpl. rewrite app_nil_r. auto.
  - cbn [fold_left]. unfold tmpl_step at 2.
    destruct (eval f c anon p) as [pv pds] eqn:EP.
    destruct (has_unsupported pds) eqn:HUp.
    { repeat lazymatch goal with
      | |- refines1 (tmpl_final (fold_left _ _ (match ?x with _ => _ end))) _ => destruct x
      end; apply tmpl_fold_bad; left; unfold tst_diags; cbn [snd];
      rewrite ?has_unsupported_app, HUp, ?orb_true_r; reflexivity. }
    unfold tmpl_spec_rest. cbn [map all_sok].
    destruct (refines1_use _ _ Rp HUp) as [[ErP SP]|[ErP [SP GP]]]; cbn [fst snd] in *; rewrite SP.
    { repeat lazymatch goal with
      | |- refines1 (tmpl_final (fold_left _ _ (match ?x with _ => _ end))) _ => destruct x
      end; apply tmpl_fold_bad; right; unfold tst_diags; cbn [snd];
      rewrite ?has_errors_app, ErP, ?orb_true_r; auto. }
    destruct (is_null pv) eqn:NP.
    { match goal with |- refines1 _ ?s => assert (s = SErr) as -> end.
      { destruct (all_sok (map (spec_eval E) rest)); [|reflexivity].
        cbn [map all_some]. rewrite (to_string_null pv GP NP). reflexivity. }
      apply tmpl_fold_bad. right. unfold tst_diags. cbn [snd]. rewrite !has_errors_app. simpl. rewrite !orb_true_r. auto. }
    rewrite (good_unmark pv GP), (good_is_known pv GP). cbn [negb marks_union fold_right].
    destruct (conv pv TStr) as [sv| ce |] eqn:CP.
    3: { apply tmpl_fold_bad. left. unfold tst_diags. cbn [snd]. rewrite !has_unsupported_app. simpl. rewrite !orb_true_r. auto. }
    2: { match goal with |- refines1 _ ?s => assert (s = SErr) as -> end.
         { destruct (all_sok (map (spec_eval E) rest)); [|reflexivity].
           cbn [map all_some]. unfold to_string at 1. rewrite CP. reflexivity. }
         apply tmpl_fold_bad. right. unfold tst_diags. cbn [snd]. rewrite !has_errors_app. simpl. rewrite !orb_true_r. auto. }
    destruct sv; try (apply tmpl_fold_bad; left; unfold tst_diags; cbn [snd];
                      rewrite !has_unsupported_app; simpl; rewrite !orb_true_r; auto).
    assert (to_string pv = Some s) as TS by (unfold to_string; rewrite CP; reflexivity).
    rewrite has_errors_app, ED, ErP. cbn [orb negb andb].
    specialize (IH (buf ++ s) (ds ++ pds)). unfold tmpl_spec_rest in IH.
    destruct (all_sok (map (spec_eval E) rest)) as [vs|]; [|apply IH; rewrite has_errors_app, ED, ErP; reflexivity].
    cbn [map all_some]. rewrite TS.
    destruct (all_some (map to_string vs)) as [ss|]; [|apply IH; rewrite has_errors_app, ED, ErP; reflexivity].
    cbn [concat]. rewrite app_assoc. apply IH. rewrite has_errors_app, ED, ErP. reflexivity.
Qed.

Lemma tmpl_refines f c anon parts :
  IHf f -> known_unmarked_ctx c = true -> funcs_ok c -> anon_ok anon = true ->
  lits_ok (ETmpl parts) = true -> (expr_size (ETmpl parts) <= S f)%nat ->
  dev_free (S f) c anon (ETmpl parts) = true ->
  refines1 (eval (S f) c anon (ETmpl parts)) (spec_eval (env_of c anon) (ETmpl parts)).
Proof.
  intros IH K FO A L SZ D. rewrite eval_ETmpl'.
  cbn [lits_ok] in L. cbn [dev_free] in D. cbn [expr_size] in SZ. apply le_S_inv in SZ.
  pose proof (children_refine f c anon parts IH K FO A L SZ D) as CH.
  change (spec_eval (env_of c anon) (ETmpl parts)) with (tmpl_spec_rest (env_of c anon) parts []).
  apply tmpl_fold; auto.
Qed.

(* ---- template join ------------------------------------------------------------------------------ *)
Definition join_step : (list Z * marks * list diag) + (val * list diag) -> val ->
                       (list Z * marks * list diag) + (val * list diag) :=
  ltac:(let t := eval cbn [eval eval_with] in (fun f c anon te => eval (S f) c anon (EJoin te)) in
        match t with context [fold_left ?F _ _] => exact F end).

Definition join_final (st : (list Z * marks * list diag) + (val * list diag)) : val * list diag :=
  match st with inr r => r | inl (buf, am, ds) => (with_marks (VStr buf) am, ds) end.

Lemma eval_EJoin' f c a te : eval (S f) c a (EJoin te) =
  let '(tv, ds) := eval f c a te in
  if ty_eqb (type_of tv) TDyn then (with_same_marks (VUnk TStr rf_none) tv, ds)
  else if negb (is_known tv) then (with_same_marks (VUnk TStr rf_none) tv, ds)
  else let '(tu, tm) := unmark tv in
       match tu with
       | VTuple vs => join_final (fold_left join_step vs (inl ([], tm, ds)))
       | _ => (dyn_val, ds ++ [dunsupported])
       end.
Proof.
  rewrite eval_EJoin. destruct (eval f c a te) as [tv ds].
  destruct (ty_eqb (type_of tv) TDyn); [reflexivity|]. destruct (negb (is_known tv)); [reflexivity|].
  destruct (unmark tv) as [tu tm]. destruct tu; reflexivity.
Qed.

Definition jst_diags (st : (list Z * marks * list diag) + (val * list diag)) : list diag := snd (join_final st).

Lemma join_step_prefix st v : exists x, jst_diags (join_step st v) = jst_diags st ++ x.
Proof.
  destruct st as [[[buf am] ds]|r]; unfold join_step, jst_diags.
  - repeat match goal with
    | |- exists x, snd (join_final (match ?b with _ => _ end)) = _ => destruct b
    end; cbn [join_final snd]; eexists; rewrite <- ?app_assoc; try reflexivity;
    try (rewrite app_nil_r; reflexivity).
  - exists []. rewrite app_nil_r. reflexivity.
Qed.

Lemma join_fold_prefix vs : forall st, exists x, jst_diags (fold_left join_step vs st) = jst_diags st ++ x.
Proof.
  induction vs as [|v r IH]; intro st; simpl.
  - exists []. rewrite app_nil_r. reflexivity.
  - destruct (IH (join_step st v)) as [x E]. destruct (join_step_prefix st v) as [y E2].
    rewrite E, E2. exists (y ++ x). rewrite app_assoc. reflexivity.
Qed.
Lemma join_fold_bad vs st s :
  has_unsupported (jst_diags st) = true \/ (has_errors (jst_diags st) = true /\ s = SErr) ->
  refines1 (join_final (fold_left join_step vs st)) s.
Proof.
  intro H. destruct (join_fold_prefix vs st) as [x E]. unfold jst_diags in E.
  destruct (join_final (fold_left join_step vs st)) as [v ds] eqn:F. cbn [snd] in E. subst ds.
  apply refines1_bad. destruct H as [H|[H ->]]; [left|right].
  - rewrite has_unsupported_app. unfold jst_diags in H. rewrite H. reflexivity.
  - rewrite has_errors_app. unfold jst_diags in H. rewrite H. auto.
Qed.

Definition join_spec_rest (vs : list val) (buf : list Z) : sres :=
  match all_some (map to_string vs) with
  | Some ss => SOk (VStr (buf ++ concat ss))
  | None => SErr
  end.

Lemma join_fold vs : goods vs = true -> forall buf ds, has_errors ds = false ->
  refines1 (join_final (fold_left join_step vs (inl (buf, [], ds)))) (join_spec_rest vs buf).
Proof.
  induction vs as [|v rest IH]; intros G buf ds ED.
  - simpl. apply refines1_intro. intro HU. right. unfold join_spec_rest. simpl. rewrite app_nil_r. auto.
  - unfold goods in G. simpl in G. apply andb_true_iff in G as [Gv Gr].
    cbn [fold_left]. unfold join_step at 2. unfold join_spec_rest. cbn [map all_some].
    destruct (is_null v) eqn:NV.
    { rewrite (to_string_null v Gv NV). apply join_fold_bad. right. unfold jst_diags. cbn [join_final snd].
      rewrite has_errors_app. simpl. rewrite orb_true_r. auto. }
    rewrite (good_not_dyn v Gv NV).
    destruct (conv v TStr) as [sv| ce |] eqn:CV.
    3: { apply join_fold_bad. left. unfold jst_diags. cbn [join_final snd]. rewrite has_unsupported_app. simpl. apply orb_true_r. }
    2: { unfold to_string at 1. rewrite CV. apply join_fold_bad. right. unfold jst_diags. cbn [join_final snd].
         rewrite has_errors_app. simpl. rewrite orb_true_r. auto. }
    rewrite (good_is_known v Gv). cbn [negb].
    pose proof (conv_good _ _ _ Gv CV) as Gs. rewrite (good_unmark sv Gs).
    destruct sv; try (apply join_fold_bad; left; unfold jst_diags; cbn [join_final snd];
                      rewrite has_unsupported_app; simpl; apply orb_true_r).
    assert (to_string v = Some s) as TS by (unfold to_string; rewrite CV; reflexivity).
    rewrite TS. cbn [marks_union fold_right].
    specialize (IH Gr (buf ++ s) ds ED). unfold join_spec_rest in IH.
    destruct (all_some (map to_string rest)) as [ss|]; [|exact IH].
    cbn [concat]. rewrite app_assoc. exact IH.
Qed.

Lemma spec_for_tuple_shape E kv vv cl v cd g x :
  spec_eval E (EFor kv vv cl None v cd g) = SOk x -> exists l, x = VTuple l.
Proof.
  cbn [spec_eval]. destruct (spec_eval E cl) as [cv|]; [|discriminate].
  destruct (is_null cv || negb (can_iterate cv)); [discriminate|].
  destruct (all_some _); [|discriminate]. intro H. inversion H. eauto.
Qed.

Lemma join_refines f c anon te :
  IHf f -> known_unmarked_ctx c = true -> funcs_ok c -> anon_ok anon = true ->
  lits_ok (EJoin te) = true -> (expr_size (EJoin te) <= S f)%nat ->
  dev_free (S f) c anon (EJoin te) = true ->
  refines1 (eval (S f) c anon (EJoin te)) (spec_eval (env_of c anon) (EJoin te)).
Proof.
  intros IH K FO A L SZ D. rewrite eval_EJoin'. cbn [spec_eval].
  cbn [lits_ok] in L. cbn [dev_free] in D. apply andb_true_iff in D as [D1 D2].
  cbn [expr_size] in SZ. apply le_S_inv in SZ.
  pose proof (IH c anon te K FO A L SZ D1) as R.
  destruct (eval f c anon te) as [tv ds] eqn:ET.
  destruct (has_unsupported ds) eqn:HUd.
  { repeat lazymatch goal with
    | |- refines1 (match ?x with _ => _ end) _ => destruct x
    end; try (apply join_fold_bad; left; exact HUd);
    apply refines1_bad; left; rewrite ?has_unsupported_app, HUd; reflexivity. }
  destruct (refines1_use _ _ R HUd) as [[Er S]|[Er [S G]]]; cbn [fst snd] in *; rewrite S.
  { repeat lazymatch goal with
    | |- refines1 (match ?x with _ => _ end) _ => destruct x
    end; try (apply join_fold_bad; right; split; [exact Er|reflexivity]);
    apply refines1_bad; right; rewrite ?has_errors_app, Er; auto. }
  assert (exists l, tv = VTuple l) as [l ->].
  { destruct te; try discriminate D2. destruct key; try discriminate D2. eapply spec_for_tuple_shape; eauto. }
  cbn [type_of ty_eqb is_known unmark fst negb].
  rewrite good_VTuple in G.
  change (match all_some (map to_string l) with Some ss => SOk (VStr (concat ss)) | None => SErr end)
    with (join_spec_rest l []).
  apply join_fold; auto.
Qed.

(* ---- function calls: function.Function.Call against the call rules of spec.md ------------------ *)
Lemma spec_conv_args_good f : forall raw i args, goods raw = true -> spec_conv_args f i raw = Some args ->
  goods args = true /\ length args = length raw.
Proof.
  induction raw as [|a r IH]; intros i args G H; simpl in H.
  - inversion H. auto.
  - unfold goods in G. simpl in G. apply andb_true_iff in G as [Ga Gr].
    destruct (param_for f i) as [p|]; [|discriminate].
    destruct (conv a (p_ty p)) as [a'| |] eqn:C; try discriminate.
    destruct (spec_conv_args f (S i) r) as [r'|] eqn:R; [|discriminate].
    inversion H; subst. destruct (IH _ _ Gr R) as [I1 I2]. unfold goods in *. simpl.
    rewrite (conv_good _ _ _ Ga C), I1, I2. auto.
Qed.

Definition call_failed (r : call_res) : Prop := (exists i, r = CallArgErr i) \/ r = CallErr.

Lemma call_check_spec f (FO : fn_ok f) : forall raw i args, goods raw = true ->
  spec_conv_args f i raw = Some args ->
  (spec_check_args f i args = true /\ call_check f i args = (None, false)) \/
  (spec_check_args f i args = false /\ exists r b, call_check f i args = (Some r, b) /\ call_failed r).
Proof.
  induction raw as [|a r IH]; intros i args G H; simpl in H.
  - inversion H. left. auto.
  - unfold goods in G. simpl in G. apply andb_true_iff in G as [Ga Gr].
    destruct (param_for f i) as [p|] eqn:PF; [|discriminate].
    destruct (conv a (p_ty p)) as [a'| |] eqn:C; try discriminate.
    destruct (spec_conv_args f (S i) r) as [r'|] eqn:R; [|discriminate].
    inversion H; subst. cbn [spec_check_args call_check]. rewrite PF.
    pose proof (conv_good _ _ _ Ga C) as Ga'.
    destruct (is_null a' && negb (p_null p)) eqn:N1; cbn [negb andb].
    { right. split; auto. do 2 eexists. split; [reflexivity|]. left. eauto. }
    destruct (ty_eqb (type_of a') TDyn) eqn:TD.
    { pose proof (good_dyn_null a' Ga' TD) as ->.
      pose proof (conv_null_dyn a (p_ty p) Ga C) as PT.
      simpl in N1. apply negb_false_iff in N1.
      rewrite (fo_params f FO i p PF PT N1). cbn [negb]. rewrite PT. cbn [conforms type_of ty_size].
      cbn [andb]. apply IH; auto. }
    destruct (conforms (S (ty_size (type_of a'))) (type_of a') (p_ty p)) eqn:CF; cbn [negb andb].
    + apply IH; auto.
    + right. split; auto. do 2 eexists. split; [reflexivity|]. left. eauto.
Qed.

Lemma map_snd_combine_seq {A} (l : list A) : forall i, map snd (combine (seq i (length l)) l) = l.
Proof. induction l as [|x r IH]; intro i; simpl; [reflexivity|]. rewrite IH. reflexivity. Qed.

Lemma prep_good f args : goods args = true -> forall i,
  map (fun ia : nat * val =>
         match param_for f (fst ia) with
         | Some p => if p_marked p then (snd ia, []) else (unmark_deep (snd ia), deep_marks (snd ia))
         | None => (snd ia, [])
         end) (combine (seq i (length args)) args) = map (fun a => (a, @nil Z)) args.
Proof.
  induction args as [|a r IH]; intros G i; simpl; [reflexivity|].
  unfold goods in G. simpl in G. apply andb_true_iff in G as [Ga Gr].
  rewrite (IH Gr). destruct (good_deep a Ga) as [U M]. rewrite U, M.
  destruct (param_for f i) as [p|]; [destruct (p_marked p)|]; reflexivity.
Qed.
Lemma unknown_arg_good f args : goods args = true -> forall i,
  existsb (fun ia : nat * val =>
             match param_for f (fst ia) with
             | Some p => negb (is_known (snd ia)) && negb (p_unknown p)
             | None => false
             end) (combine (seq i (length args)) args) = false.
Proof.
  induction args as [|a r IH]; intros G i; simpl; [reflexivity|].
  unfold goods in G. simpl in G. apply andb_true_iff in G as [Ga Gr].
  rewrite (IH Gr). rewrite (good_is_known a Ga). destruct (param_for f i); reflexivity.
Qed.

Definition spec_finish (f : fn) (args : list val) : sres :=
  if negb (spec_check_args f 0 args) then SErr else
  match f_rettype f args with
  | None => SErr
  | Some rt => match f_impl f args rt with OOk v => SOk v | _ => SErr end
  end.

Lemma fn_call_refines f raw args : fn_ok f -> goods raw = true -> spec_conv_args f 0 raw = Some args ->
  match fn_call f args with
  | CallOk v => spec_finish f args = SOk v /\ good v = true
  | CallArgErr _ | CallErr => spec_finish f args = SErr
  | CallUnsupported => True
  end.
Proof.
  intros FO G H. destruct (spec_conv_args_good f raw 0 args G H) as [Ga _].
  unfold fn_call, spec_finish.
  destruct (call_check_spec f FO raw 0 args G H) as [[S1 C1]|[S1 [r [b [C1 [[i ->]| ->]]]]]]; rewrite S1, C1; cbn [negb]; auto.
  rewrite (prep_good f args Ga 0), (unknown_arg_good f args Ga 0).
  rewrite !map_map. cbn [fst snd]. rewrite map_id.
  assert (marks_unions (map (fun _ : val => @nil Z) args) = []) as ->.
  { apply marks_unions_nils. apply Forall_forall. intros m Hm. apply in_map_iff in Hm as [x [Hx _]]. auto. }
  destruct (f_rettype f args) as [rt|] eqn:RT; auto.
  destruct (f_impl f args rt) as [v| |] eqn:FI; auto.
  cbn [with_marks]. split; auto. eapply fo_impl; eauto.
Qed.

(* the argument loop of FunctionCallExpr.Value (copied from eval; checked by eval_ECall_tail below) *)
Definition call_step (f : nat) (c : ctx) (anon : option val) (fnv : fn)
  (st : list val * list diag) (ia : nat * expr) : list val * list diag :=
  let '(vals, ds) := st in
  let '(v, ads) := eval f c anon (snd ia) in
  let ds := ds ++ ads in
  match param_for fnv (fst ia) with
  | None => (vals ++ [v], ds ++ [dunsupported])
  | Some p =>
      match conv v (p_ty p) with
      | COk v' => (vals ++ [v'], ds)
      | CErr ce => (vals ++ [v], ds ++ [derr S_InvalidFuncArg [FStr (p_name p) []; FConv ce]])
      | CUnsupported => (vals ++ [v], ds ++ [dunsupported])
      end
  end.

Lemma call_step_prefix f c anon fnv st ia : exists x, snd (call_step f c anon fnv st ia) = snd st ++ x.
Proof.
  destruct st as [vals ds]. unfold call_step. destruct (eval f c anon (snd ia)) as [v ads].
  destruct (param_for fnv (fst ia)) as [p|]; [destruct (conv v (p_ty p))|]; cbn [snd];
    eexists; rewrite <- ?app_assoc; reflexivity.
Qed.
Lemma call_fold_prefix f c anon fnv l : forall st, exists x,
  snd (fold_left (call_step f c anon fnv) l st) = snd st ++ x.
Proof.
  induction l as [|ia r IH]; intro st; simpl.
  - exists []. rewrite app_nil_r. reflexivity.
  - destruct (IH (call_step f c anon fnv st ia)) as [x E]. destruct (call_step_prefix f c anon fnv st ia) as [y E2].
    rewrite E, E2. exists (y ++ x). rewrite app_assoc. reflexivity.
Qed.

Definition spec_args_fail (fnv : fn) (i : nat) (ss : list sres) : Prop :=
  all_sok ss = None \/ exists raw, all_sok ss = Some raw /\ spec_conv_args fnv i raw = None.

Lemma call_fold f c anon fnv : forall es ss,
  Forall2 (fun e s => refines1 (eval f c anon e) s) es ss ->
  forall i vals ds, has_errors ds = false ->
  let r := fold_left (call_step f c anon fnv) (combine (seq i (length es)) es) (vals, ds) in
  has_unsupported (snd r) = false ->
  (has_errors (snd r) = true /\ spec_args_fail fnv i ss) \/
  (has_errors (snd r) = false /\ exists raw cvs, all_sok ss = Some raw /\ goods raw = true /\
     spec_conv_args fnv i raw = Some cvs /\ fst r = vals ++ cvs).
Proof.
  induction 1 as [|e s es ss Re Hrest IH]; intros i vals ds ED r HU.
  - simpl in *. right. split; auto. exists [], []. rewrite app_nil_r. auto.
  - cbn [length seq combine fold_left] in r.
    set (st1 := call_step f c anon fnv (vals, ds) (i, e)) in *.
    destruct (call_fold_prefix f c anon fnv (combine (seq (S i) (length es)) es) st1) as [x PX].
    fold r in PX.
    (* analysis of the step *)
    unfold call_step in st1. cbn [fst snd] in st1.
    destruct (eval f c anon e) as [v ads] eqn:EV.
    assert (has_unsupported ads = false) as HUa.
    { destruct (has_unsupported ads) eqn:X; auto. exfalso.
      assert (has_unsupported (snd st1) = true) as Y.
      { subst st1. destruct (param_for fnv i) as [p|]; [destruct (conv v (p_ty p))|]; cbn [snd];
          rewrite ?has_unsupported_app, X, ?orb_true_r; reflexivity. }
      rewrite PX, has_unsupported_app, Y in HU. discriminate. }
    assert (forall P : Prop, has_errors (snd st1) = true -> spec_args_fail fnv i (s :: ss) ->
            (has_errors (snd r) = true /\ spec_args_fail fnv i (s :: ss)) \/ P) as FAIL.
    { intros P X Y. left. split; auto. rewrite PX, has_errors_app, X. reflexivity. }
    destruct (refines1_use _ _ Re HUa) as [[Er S]|[Er [S G]]]; cbn [fst snd] in *.
    { apply FAIL.
      - subst st1. destruct (param_for fnv i) as [p|]; [destruct (conv v (p_ty p))|]; cbn [snd];
          rewrite ?has_errors_app, Er, ?orb_true_r; reflexivity.
      - left. rewrite S. cbn [all_sok]. reflexivity. }
    subst s.
    destruct (param_for fnv i) as [p|] eqn:PF.
    2: { exfalso. subst st1. cbn [snd] in PX. rewrite PX, !has_unsupported_app in HU. simpl in HU.
         rewrite !orb_true_r in HU. discriminate. }
    destruct (conv v (p_ty p)) as [v'| ce |] eqn:CV.
    3: { exfalso. subst st1. cbn [snd] in PX. rewrite PX, !has_unsupported_app in HU. simpl in HU.
         rewrite !orb_true_r in HU. discriminate. }
    2: { apply FAIL.
         - subst st1. cbn [snd]. rewrite !has_errors_app. simpl. rewrite !orb_true_r. reflexivity.
         - unfold spec_args_fail. cbn [all_sok]. destruct (all_sok ss) as [raw'|]; [right|left; reflexivity].
           exists (v :: raw'). split; auto. cbn [spec_conv_args]. rewrite PF, CV. reflexivity. }
    subst st1.
    assert (has_errors (ds ++ ads) = false) as ED' by (rewrite has_errors_app, ED, Er; reflexivity).
    specialize (IH (S i) (vals ++ [v']) (ds ++ ads) ED'). cbv zeta in IH. fold r in IH.
    destruct (IH HU) as [[E1 SF]|[E1 [raw' [cvs' [A1 [A2 [A3 A4]]]]]]].
    + left. split; auto. unfold spec_args_fail in *. cbn [all_sok]. destruct SF as [SF|[raw' [SF1 SF2]]].
      * left. rewrite SF. reflexivity.
      * right. exists (v :: raw'). rewrite SF1. split; auto. cbn [spec_conv_args]. rewrite PF, CV, SF2. reflexivity.
    + right. split; auto. exists (v :: raw'), (v' :: cvs'). cbn [all_sok spec_conv_args]. rewrite A1, PF, CV, A3.
      repeat split; auto.
      * unfold goods in *. simpl. rewrite G, A2. reflexivity.
      * rewrite A4, <- app_assoc. reflexivity.
Qed.

Definition call_tail (f : nat) (c : ctx) (anon : option val) (name : list Z) (fnv : fn)
  (args' : list expr) (ds0 : list diag) (emk : marks) : val * list diag :=
  let np := length (f_params fnv) in
  if (length args' <? np)%nat then (dyn_val, [derr S_NotEnoughArgs [FStr name []]])
  else if (match f_varparam fnv with None => true | Some _ => false end) && (np <? length args')%nat
  then (dyn_val, [derr S_TooManyArgs [FStr name []]])
  else
  let '(argvals, ds) := fold_left (call_step f c anon fnv) (combine (seq 0 (length args')) args') ([], ds0) in
  if has_errors ds then (dyn_val, ds)
  else if has_unsupported ds then (dyn_val, ds)
  else match fn_call fnv argvals with
       | CallOk v => (with_marks v emk, ds)
       | CallArgErr i => (dyn_val, ds ++ [derr S_InvalidFuncArg []])
       | CallErr => (dyn_val, ds ++ [derr S_ErrorInCall [FStr name []]])
       | CallUnsupported => (dyn_val, ds ++ [dunsupported])
       end.

Lemma all_sok_length ss : forall vs, all_sok ss = Some vs -> length vs = length ss.
Proof.
  induction ss as [|s r IH]; intros vs H; simpl in H.
  - inversion H. reflexivity.
  - destruct s; [|discriminate]. destruct (all_sok r) as [vs'|]; [|discriminate]. inversion H. simpl. f_equal. auto.
Qed.
Lemma all_sok_app a b : all_sok (a ++ b) =
  match all_sok a, all_sok b with Some x, Some y => Some (x ++ y) | _, _ => None end.
Proof.
  induction a as [|s r IH]; simpl.
  - destruct (all_sok b); reflexivity.
  - destruct s; [|reflexivity]. rewrite IH. destruct (all_sok r); [|reflexivity]. destruct (all_sok b); reflexivity.
Qed.
Lemma all_sok_oks l : all_sok (map SOk l) = Some l.
Proof. induction l as [|x r IH]; simpl; [reflexivity|]. rewrite IH. reflexivity. Qed.

Lemma Forall2_len {A B} (R : A -> B -> Prop) l l' : Forall2 R l l' -> length l = length l'.
Proof. induction 1; simpl; auto. Qed.

Lemma call_tail_refines f c anon name fnv es ss ds0 emk : emk = [] ->
  fn_ok fnv -> Forall2 (fun e s => refines1 (eval f c anon e) s) es ss -> has_errors ds0 = false ->
  refines1 (call_tail f c anon name fnv es ds0 emk)
           (match all_sok ss with Some vs => spec_call fnv vs | None => SErr end).
Proof.
  intros -> FO F2 ED. pose proof (Forall2_len _ _ _ F2) as LEN. unfold call_tail. cbn [with_marks].
  destruct (length es <? length (f_params fnv))%nat eqn:A1.
  { replace (match all_sok ss with Some vs => spec_call fnv vs | None => SErr end) with SErr;
      [apply refines1_err; discriminate|].
    destruct (all_sok ss) as [vs|] eqn:AS; [|reflexivity]. unfold spec_call.
    rewrite (all_sok_length _ _ AS), <- LEN, A1. reflexivity. }
  destruct ((match f_varparam fnv with None => true | Some _ => false end) &&
            (length (f_params fnv) <? length es)%nat) eqn:A2.
  { replace (match all_sok ss with Some vs => spec_call fnv vs | None => SErr end) with SErr;
      [apply refines1_err; discriminate|].
    destruct (all_sok ss) as [vs|] eqn:AS; [|reflexivity]. unfold spec_call.
    rewrite (all_sok_length _ _ AS), <- LEN, A1, A2. reflexivity. }
  pose proof (call_fold f c anon fnv es ss F2 0%nat [] ds0 ED) as CF. cbv zeta in CF.
  destruct (fold_left (call_step f c anon fnv) (combine (seq 0 (length es)) es) ([], ds0)) as [argvals ds] eqn:FL.
  cbn [fst snd] in CF.
  assert (forall raw, all_sok ss = Some raw -> spec_call fnv raw =
            match spec_conv_args fnv 0 raw with Some a => spec_finish fnv a | None => SErr end) as SC.
  { intros raw AS. unfold spec_call. rewrite (all_sok_length _ _ AS), <- LEN, A1, A2. reflexivity. }
  destruct (has_errors ds) eqn:E1.
  { apply refines1_intro. intro HU. left. split; auto.
    destruct (CF HU) as [[_ [SF|[raw [SF1 SF2]]]]|[X _]]; [| |congruence].
    - rewrite SF. reflexivity.
    - rewrite SF1, (SC raw SF1), SF2. reflexivity. }
  destruct (has_unsupported ds) eqn:U1.
  { intro HU. simpl in HU. congruence. }
  destruct (CF eq_refl) as [[X _]|[_ [raw [cvs [B1 [B2 [B3 B4]]]]]]]; [congruence|].
  simpl in B4. subst argvals. rewrite B1, (SC raw B1), B3.
  pose proof (fn_call_refines fnv raw cvs FO B2 B3) as FC.
  destruct (fn_call fnv cvs) as [v|i| |]; apply refines1_intro; intro HU.
  - destruct FC as [FC1 FC2]. right. rewrite FC1. auto.
  - left. rewrite has_errors_app. simpl. rewrite orb_true_r. auto.
  - left. rewrite has_errors_app. simpl. rewrite orb_true_r. auto.
  - exfalso. rewrite has_unsupported_app in HU. simpl in HU. rewrite orb_true_r in HU. discriminate.
Qed.

Lemma Forall_Forall2_map {A B} (P : A -> B -> Prop) (g : A -> B) l :
  Forall (fun x => P x (g x)) l -> Forall2 P l (map g l).
Proof. induction 1; simpl; constructor; auto. Qed.

Lemma map_snd_index_from l : forall i, map snd (index_from i l) = l.
Proof. induction l as [|x r IH]; intro i; simpl; [reflexivity|]. rewrite IH. reflexivity. Qed.

Lemma eval_lit_pos f c anon v : (1 <= f)%nat -> eval f c anon (ELit v) = (v, []).
Proof. destruct f; [lia|]. intros _. apply eval_ELit. Qed.

Lemma call_refines f c anon name args expand :
  IHf f -> known_unmarked_ctx c = true -> funcs_ok c -> anon_ok anon = true ->
  lits_ok (ECall name args expand) = true -> (expr_size (ECall name args expand) <= S f)%nat ->
  dev_free (S f) c anon (ECall name args expand) = true ->
  refines1 (eval (S f) c anon (ECall name args expand)) (spec_eval (env_of c anon) (ECall name args expand)).
Proof.
  intros IH K FO A L SZ D. rewrite eval_ECall. cbn [spec_eval].
  cbn [lits_ok] in L. cbn [expr_size] in SZ. apply le_S_inv in SZ.
  cbn [dev_free] in D. apply andb_true_iff in D as [D1 D2].
  pose proof (children_refine f c anon args IH K FO A L SZ D1) as CH.
  pose proof (lookup_fn_env c name false anon) as LF.
  destruct (lookup_fn c name false) as [o b]. cbn [fst] in LF. rewrite <- LF.
  destruct o as [fnv|]; [|destruct b; apply refines1_err; discriminate].
  assert (fn_ok fnv) as FNO by (eapply ctx_funs_ok; eauto).
  set (E := env_of c anon) in *.
  destruct expand.
  - (* f(a, b, last...) *)
    destruct (rev args) as [|last init_rev] eqn:RV; [discriminate D2|].
    assert (args = rev init_rev ++ [last]) as ARGS.
    { rewrite <- (rev_involutive args), RV. reflexivity. }
    apply andb_true_iff in D2 as [D2 D3]. apply negb_true_iff in D3.
    assert (Forall (fun e => refines1 (eval f c anon e) (spec_eval E e)) (rev init_rev) /\
            refines1 (eval f c anon last) (spec_eval E last)) as [CHi CHl].
    { rewrite ARGS in CH. apply Forall_app in CH as [C1 C2]. inversion C2; subst. auto. }
    assert (1 <= f)%nat as FPOS.
    { rewrite ARGS in SZ. clear -SZ. induction (rev init_rev); simpl in SZ; [destruct last; simpl in SZ; lia|lia]. }
    destruct (eval f c anon last) as [xv xds] eqn:EL. cbn [snd] in D3.
    rewrite ARGS, map_app, all_sok_app. cbn [map all_sok].
    destruct (refines1_use _ _ CHl D3) as [[Er S]|[Er [S G]]]; cbn [fst snd] in *; rewrite S in *.
    { rewrite Er. cbn iota. replace (match all_sok (map (spec_eval E) (rev init_rev)) with Some _ => None | None => None end)
        with (@None (list val)) by (destruct (all_sok _); reflexivity).
      apply refines1_errs. exact Er. }
    rewrite Er.
    assert ((forall vi, all_sok (map (spec_eval E) (rev init_rev)) = Some vi -> expand_last (vi ++ [xv]) = None) ->
              match match all_sok (map (spec_eval E) (rev init_rev)) with Some x => Some (x ++ [xv]) | None => None end with
              | Some vs => match expand_last vs with Some vs' => spec_call fnv vs' | None => SErr end
              | None => SErr end = SErr) as NOEXP.
    { intros H. destruct (all_sok (map (spec_eval E) (rev init_rev))) as [vi|]; [|reflexivity]. rewrite (H vi eq_refl). reflexivity. }
    assert (forall vi, (forall t l, xv <> VList t l) -> (forall l, xv <> VTuple l) -> expand_last (vi ++ [xv]) = None) as NOEXP2.
    { intros vi H1 H2. unfold expand_last. rewrite rev_app_distr. simpl. destruct xv; try reflexivity.
      - exfalso. eapply H1; eauto. - exfalso. eapply H2; eauto. }
    destruct xv; try (rewrite good_VMark in G; discriminate); try (rewrite good_VUnk in G; discriminate);
      cbn [type_of];
      try (rewrite NOEXP; [apply refines1_errs; rewrite has_errors_app; simpl; apply orb_true_r
                                 |intros vi _; apply NOEXP2; intros; discriminate]).
    + (* null of any type *)
      rewrite NOEXP; [|intros vi _; apply NOEXP2; intros; discriminate].
      destruct t; cbn [is_null unmark fst]; apply refines1_errs; rewrite has_errors_app; simpl; apply orb_true_r.
    + (* list *)
      cbn [is_null unmark fst is_known negb elements with_marks].
      change (refines1 (call_tail f c anon name fnv (rev init_rev ++ map (fun kv => ELit (snd kv)) (index_from 0 l)) xds
                               (match index_from 0 l with [] => [] | _ :: _ => [] end))
        (match match all_sok (map (spec_eval E) (rev init_rev)) with Some x => Some (x ++ [VList t l]) | None => None end with
         | Some vs => match expand_last vs with Some vs' => spec_call fnv vs' | None => SErr end
         | None => SErr end)).
      replace (map (fun kv : val * val => ELit (snd kv)) (index_from 0 l)) with (map ELit l)
        by (rewrite <- (map_snd_index_from l 0) at 1; rewrite map_map; reflexivity).
      replace (match match all_sok (map (spec_eval E) (rev init_rev)) with Some x => Some (x ++ [VList t l]) | None => None end with
         | Some vs => match expand_last vs with Some vs' => spec_call fnv vs' | None => SErr end
         | None => SErr end)
        with (match all_sok (map (spec_eval E) (rev init_rev) ++ map SOk l) with Some vs => spec_call fnv vs | None => SErr end).
      2: { rewrite all_sok_app, all_sok_oks. destruct (all_sok (map (spec_eval E) (rev init_rev))) as [vi|]; [|reflexivity].
           unfold expand_last. rewrite rev_app_distr. simpl. rewrite rev_involutive. reflexivity. }
      apply call_tail_refines; auto; [destruct l; reflexivity|].
      apply Forall2_app; [apply Forall_Forall2_map; exact CHi|].
      rewrite good_VList in G. clear -G FPOS. induction l as [|x r IHl]; simpl; constructor.
      * rewrite eval_lit_pos by auto. apply refines1_ok. unfold goods in G. simpl in G. apply andb_true_iff in G. tauto.
      * apply IHl. unfold goods in *. simpl in G. apply andb_true_iff in G. tauto.
    + (* set: excluded *) discriminate D2.
    + (* tuple *)
      cbn [is_null unmark fst is_known negb elements with_marks].
      change (refines1 (call_tail f c anon name fnv (rev init_rev ++ map (fun kv => ELit (snd kv)) (index_from 0 l)) xds
                               (match index_from 0 l with [] => [] | _ :: _ => [] end))
        (match match all_sok (map (spec_eval E) (rev init_rev)) with Some x => Some (x ++ [VTuple l]) | None => None end with
         | Some vs => match expand_last vs with Some vs' => spec_call fnv vs' | None => SErr end
         | None => SErr end)).
      replace (map (fun kv : val * val => ELit (snd kv)) (index_from 0 l)) with (map ELit l)
        by (rewrite <- (map_snd_index_from l 0) at 1; rewrite map_map; reflexivity).
      replace (match match all_sok (map (spec_eval E) (rev init_rev)) with Some x => Some (x ++ [VTuple l]) | None => None end with
         | Some vs => match expand_last vs with Some vs' => spec_call fnv vs' | None => SErr end
         | None => SErr end)
        with (match all_sok (map (spec_eval E) (rev init_rev) ++ map SOk l) with Some vs => spec_call fnv vs | None => SErr end).
      2: { rewrite all_sok_app, all_sok_oks. destruct (all_sok (map (spec_eval E) (rev init_rev))) as [vi|]; [|reflexivity].
           unfold expand_last. rewrite rev_app_distr. simpl. rewrite rev_involutive. reflexivity. }
      apply call_tail_refines; auto; [destruct l; reflexivity|].
      apply Forall2_app; [apply Forall_Forall2_map; exact CHi|].
      rewrite good_VTuple in G. clear -G FPOS. induction l as [|x r IHl]; simpl; constructor.
      * rewrite eval_lit_pos by auto. apply refines1_ok. unfold goods in G. simpl in G. apply andb_true_iff in G. tauto.
      * apply IHl. unfold goods in *. simpl in G. apply andb_true_iff in G. tauto.
  - (* plain call *)
    change (refines1 (call_tail f c anon name fnv args [] [])
              (match all_sok (map (spec_eval E) args) with Some vs => spec_call fnv vs | None => SErr end)).
    apply call_tail_refines; auto. apply Forall_Forall2_map. exact CH.
Qed.
