(* Eval/UnknownSound.v — C05: evaluation with unknown values soundly approximates every concrete
   evaluation.  Statement [unknown_sound_stmt] (whole language), theorem [unknown_sound_partial]
   for the expression core (inductive predicate [in_fragment]) under the hypothesis that the
   two evaluations are hereditarily free of diagnostics ([clean]); counter-examples
   ([..._refuted]) showing that this hypothesis cannot be dropped.

   Model: Eval/Impl.v (not modified).  Relation: Eval/UnknownSound_Gamma.v. *)
From Coq Require Import QArith Qreduction.
From HclV Require Import Base.Prelude Cty.Values Cty.Convert Cty.Ops Eval.Impl Eval.Funcs
                         Eval.UnknownSound_Base Eval.UnknownSound_Known Eval.UnknownSound_Gamma
                         Eval.UnknownSound_Conv Eval.UnknownSound_Conv2 Eval.UnknownSound_Ops
                         Eval.UnknownSound_Num Eval.UnknownSound_Cond Eval.UnknownSound_Eq.
Open Scope Z_scope.
Local Strategy opaque [equals val_size unmark_deep deep_marks unify_n convert].
Notation ev_ := (eval_with index).

(* ---- the fragment ------------------------------------------------------------------------------------ *)
(* literals (and literal traversal keys): wholly known, unmarked, well typed, canonical numbers *)
Definition lit_ok (v : val) : bool := wholly_known v && inv v.

Inductive in_fragment : expr -> Prop :=
| F_lit v : lit_ok v = true -> in_fragment (ELit v)
| F_scope root steps : forallb step_inv steps = true -> in_fragment (EScopeTrav root steps)
| F_rel src steps : in_fragment src -> forallb step_inv steps = true -> in_fragment (ERelTrav src steps)
| F_index a b : in_fragment a -> in_fragment b -> in_fragment (EIndex a b)
| F_tuple es : Forall in_fragment es -> in_fragment (ETuple es)
| F_obj items : Forall (fun it => in_fragment (fst it) /\ in_fragment (snd it)) items -> in_fragment (EObj items)
| F_objkey w force : in_fragment w -> in_fragment (EObjKey w force)
| F_anon : in_fragment EAnon
| F_bin op l r : in_fragment l -> in_fragment r -> in_fragment (EBin op l r)
| F_un op e : in_fragment e -> in_fragment (EUn op e)
| F_cond c t f : in_fragment c -> in_fragment t -> in_fragment f -> in_fragment (ECond c t f)
| F_tmpl parts : Forall in_fragment parts -> in_fragment (ETmpl parts)
| F_wrap e : in_fragment e -> in_fragment (EWrap e)
| F_paren e : in_fragment e -> in_fragment (EParen e).

(* ---- hereditarily clean evaluations ------------------------------------------------------------------- *)
(* an arm of a conditional: a literal null, or a value whose type has no dynamic part *)
Definition arm_ok (v : val) : bool := is_dyn_null v || negb (has_dyn (type_of v)).

(* result type and conversion flags of a conditional (copy of the corresponding part of Impl.v, ECond;
   the correspondence is checked by conversion where it is used) *)
Definition cond_uni (tv fv : val) : option (ty * bool * bool) + bool :=
  if is_dyn_null tv then inl (Some (type_of fv, true, false))
  else if is_dyn_null fv then inl (Some (type_of tv, false, true))
  else if ty_eqb (type_of tv) TDyn || ty_eqb (type_of fv) TDyn then inl (Some (TDyn, false, false))
  else match unify (type_of tv) (type_of fv) with
       | UOk t => inl (Some (t, negb (ty_eqb (type_of tv) t), negb (ty_eqb (type_of fv) t)))
       | UNone => inr false
       | UUnsupported => inr true
       end.
(* the unified result type has no dynamic part (always the case for the model's [unify] on types
   without dynamic parts; assumed per evaluation instead of proved about [unify_n]) *)
Definition rt_ok (tv fv : val) : bool :=
  match cond_uni tv fv with
  | inl (Some (rt, _, _)) => negb (has_dyn rt) || (is_dyn_null tv && is_dyn_null fv)
  | _ => true
  end.

(* [clean fuel c anon e]: the evaluation of [e] and of every sub-expression it evaluates raises no
   error and stays inside the model; at every conditional, both arms are [arm_ok].
   (false on constructors outside the fragment) *)
Fixpoint clean (fuel : nat) (c : ctx) (anon : option val) (e : expr) {struct fuel} : bool :=
  match fuel with
  | O => false
  | S f =>
      diag_ok (snd (ev_ (S f) c anon e)) &&
      match e with
      | ELit _ | EScopeTrav _ _ => true
      | EAnon => is_some anon          (* an unbound anonymous symbol evaluates to DynamicVal *)
      | EParen e' | EWrap e' | EUn _ e' | ERelTrav e' _ => clean f c anon e'
      | EObjKey w force =>
          if negb force then
            match w with
            | EScopeTrav _ (_ :: _) => true
            | _ => match literal_name w with Some _ => true | None => clean f c anon w end
            end
          else clean f c anon w
      | EIndex a b | EBin _ a b => clean f c anon a && clean f c anon b
      | ETuple es | ETmpl es => forallb (clean f c anon) es
      | EObj items => forallb (fun it => clean f c anon (fst it) && clean f c anon (snd it)) items
      | ECond ce te fe =>
          clean f c anon ce && clean f c anon te && clean f c anon fe &&
          arm_ok (fst (ev_ f c anon te)) && arm_ok (fst (ev_ f c anon fe)) &&
          rt_ok (fst (ev_ f c anon te)) (fst (ev_ f c anon fe))
      | _ => false
      end
  end.

Lemma clean_diag_ok f c anon e : clean f c anon e = true -> diag_ok (snd (ev_ f c anon e)) = true.
Proof. destruct f as [|f]; [discriminate|]. cbn [clean]. intros H. apply andb_true_iff in H. tauto. Qed.

(* ---- related contexts ------------------------------------------------------------------------------------ *)
Definition var_rel (p q : list Z * val) : Prop :=
  fst p = fst q /\ inv (snd p) = true /\ inv (snd q) = true /\ gsb (snd p) (snd q) = true.
Definition frame_rel (fa fc : frame) : Prop :=
  match fvars fa, fvars fc with
  | None, None => True
  | Some va, Some vc => Forall2 var_rel va vc
  | _, _ => False
  end /\ ffuncs fa = ffuncs fc.
Definition ctx_rel (ca cc : ctx) : Prop := Forall2 frame_rel ca cc.
Definition anon_rel (a c : option val) : Prop :=
  match a, c with
  | None, None => True
  | Some x, Some y => inv x = true /\ inv y = true /\ gsb x y = true
  | _, _ => False
  end.

Definition frame_inv (fr : frame) : Prop :=
  forall vs, fvars fr = Some vs -> Forall (fun p => inv (snd p) = true) vs.
Definition ctx_inv (c : ctx) : Prop := Forall frame_inv c.
Definition anon_inv (a : option val) : Prop := forall v, a = Some v -> inv v = true.

Lemma ctx_rel_inv ca cc : ctx_rel ca cc -> ctx_inv ca /\ ctx_inv cc.
Proof.
  induction 1 as [|fa fc ca cc [Hf _] _ [IHa IHc]]; [split; constructor|].
  split; (constructor; [|assumption]); intros vs E; rewrite E in Hf.
  - destruct (fvars fc) as [vc|]; [|contradiction].
    clear -Hf. induction Hf as [|p q va vc [_ [Hp _]] _ IH]; constructor; assumption.
  - destruct (fvars fa) as [va|]; [|contradiction].
    clear -Hf. induction Hf as [|p q va vc [_ [_ [Hq _]]] _ IH]; constructor; assumption.
Qed.
Lemma anon_rel_inv a c : anon_rel a c -> anon_inv a /\ anon_inv c.
Proof.
  unfold anon_rel, anon_inv. destruct a, c; try contradiction.
  - intros [H1 [H2 _]]. split; intros v' E; injection E as <-; assumption.
  - intros _. split; intros v' E; discriminate.
Qed.

Lemma assoc_get_rel name va vc : Forall2 var_rel va vc ->
  match assoc_get name va, assoc_get name vc with
  | Some x, Some y => inv x = true /\ inv y = true /\ gsb x y = true
  | None, None => True
  | _, _ => False
  end.
Proof.
  induction 1 as [|[ka xa] [kc xc] va vc [Hk H] _ IH]; simpl; [exact I|].
  simpl in Hk. subst kc. destruct (str_eqb name ka); [exact H|exact IH].
Qed.

Lemma lookup_var_rel : forall ca cc name b, ctx_rel ca cc ->
  match lookup_var ca name b, lookup_var cc name b with
  | (Some x, _), (Some y, _) => inv x = true /\ inv y = true /\ gsb x y = true
  | (None, b1), (None, b2) => b1 = b2
  | _, _ => False
  end.
Proof.
  intros ca cc name b R. revert b. induction R as [|fa fc ca cc [Hf _] _ IH]; intros b; simpl; [reflexivity|].
  destruct (fvars fa) as [va|], (fvars fc) as [vc|]; try contradiction; [|apply IH].
  pose proof (assoc_get_rel name va vc Hf) as Hn.
  destruct (assoc_get name va), (assoc_get name vc); try contradiction; [exact Hn|apply IH].
Qed.

Lemma lookup_var_inv : forall c name b v b', ctx_inv c -> lookup_var c name b = (Some v, b') -> inv v = true.
Proof.
  induction c as [|fr r IH]; intros name b v b' C E; simpl in E; [discriminate|].
  inversion C as [|? ? Hf Hr]; subst.
  destruct (fvars fr) as [vs|] eqn:Ev.
  - destruct (assoc_get name vs) eqn:Ea.
    + injection E as <- _. apply (assoc_get_good (fun v => inv v = true) _ _ _ (Hf vs Ev) Ea).
    + apply (IH name true v b' Hr E).
  - apply (IH name b v b' Hr E).
Qed.

(* ---- the side invariant is preserved by evaluation (all paths, errors included) ------------------------- *)
Definition IV (f : nat) : Prop := forall c anon e,
  in_fragment e -> ctx_inv c -> anon_inv anon -> inv (fst (ev_ f c anon e)) = true.

Ltac destruct_scrut_eq x :=
  lazymatch x with
  | match ?y with _ => _ end => destruct_scrut_eq y
  | _ => let H := fresh "Hd" in destruct x eqn:H
  end.
Ltac destruct_goal_inv :=
  match goal with
  | |- inv (fst (match ?x with _ => _ end)) = true => destruct_scrut_eq x
  end.

Lemma marks_union_nil_nil : marks_union [] [] = []. Proof. reflexivity. Qed.

Lemma iv_un f op e' : IV f -> forall c anon, in_fragment (EUn op e') -> ctx_inv c -> anon_inv anon ->
  inv (fst (ev_ (S f) c anon (EUn op e'))) = true.
Proof.
  intros IH c anon Fr C A. inversion Fr; subst. cbn [eval_with].
  pose proof (IH c anon e' H0 C A) as Ie. destruct (ev_ f c anon e') as [gv ds]. simpl in Ie.
  destruct (conv gv (unop_param op)) as [v| |] eqn:Ec; try reflexivity.
  destruct (has_errors ds); [reflexivity|].
  pose proof (conv_inv_pres _ _ _ Ie Ec) as Iv. rewrite (inv_unmark v Iv).
  destruct (call_unop op v) as [r| |] eqn:Eo; try reflexivity.
  simpl. apply (call_unop_inv op v r Iv Eo).
Qed.

Lemma iv_bin f op l r : IV f -> forall c anon, in_fragment (EBin op l r) -> ctx_inv c -> anon_inv anon ->
  inv (fst (ev_ (S f) c anon (EBin op l r))) = true.
Proof.
  intros IH c anon Fr C A. inversion Fr as [| | | | | | | |? ? ? Fl Frr| | | | |]; subst. cbn [eval_with].
  pose proof (IH c anon l Fl C A) as Il. destruct (ev_ f c anon l) as [glv lds]. simpl in Il.
  pose proof (IH c anon r Frr C A) as Ir. destruct (ev_ f c anon r) as [grv rds]. simpl in Ir.
  destruct (has_unsupported lds || has_unsupported rds); [reflexivity|].
  destruct (conv glv (binop_param op)) as [lv| |] eqn:Ecl; try reflexivity;
    try (destruct (conv grv (binop_param op)); reflexivity).
  destruct (conv grv (binop_param op)) as [rv| |] eqn:Ecr; try reflexivity.
  pose proof (conv_inv_pres _ _ _ Il Ecl) as Ilv. pose proof (conv_inv_pres _ _ _ Ir Ecr) as Irv.
  rewrite (inv_unmark lv Ilv), (inv_unmark rv Irv). rewrite marks_union_nil_nil.
  repeat destruct_goal_inv; try reflexivity.
  all: cbn [fst with_marks];
       match goal with
       | H : call_binop ?o ?x ?y = OOk ?res, I1 : inv ?x = true, I2 : inv ?y = true |- _ =>
           apply (call_binop_inv_all o x y res I1 I2 H)
       end.
Qed.

Lemma marks_union_nil_r_nil : forall m, marks_union [] m = m. Proof. reflexivity. Qed.

Lemma iv_cond f ce te fe : IV f -> forall c anon, in_fragment (ECond ce te fe) -> ctx_inv c -> anon_inv anon ->
  inv (fst (ev_ (S f) c anon (ECond ce te fe))) = true.
Proof.
  intros IH c anon Fr C A. inversion Fr as [| | | | | | | | | |? ? ? Fc Ft Ff| | |]; subst. cbn [eval_with].
  pose proof (IH c anon te Ft C A) as It. destruct (ev_ f c anon te) as [tv tds]. simpl in It.
  pose proof (IH c anon fe Ff C A) as If. destruct (ev_ f c anon fe) as [fv fds]. simpl in If.
  destruct (has_unsupported tds || has_unsupported fds); [reflexivity|].
  match goal with
  | |- inv (fst (match ?u with _ => _ end)) = true => destruct u as [[[[rt tconv] fconv]|]|[|]]
  end; try reflexivity.
  pose proof (IH c anon ce Fc C A) as Ic. destruct (ev_ f c anon ce) as [cv cds]. simpl in Ic.
  destruct (is_null cv); [reflexivity|].
  rewrite (inv_unmark cv Ic), (inv_unmark tv It), (inv_unmark fv If).
  rewrite (inv_deep_marks tv It), (inv_deep_marks fv If).
  change (marks_unions [[]; []; []]) with (@nil Z). rewrite marks_union_nil_nil.
  destruct (negb (is_known cv)).
  - match goal with
    | |- inv (fst ?X) = true => change X with (cond_unk rt cds [] tv fv)
    end. apply (cond_unk_inv rt cds tv fv It If).
  - destruct (conv cv TBool) as [cb| |]; try reflexivity.
    destruct cb as [| |[|]| | | | | | | |]; try reflexivity.
    + destruct tconv; [|exact It]. destruct (conv tv rt) as [r| |] eqn:Er; try reflexivity.
      cbn [fst with_marks]. apply (conv_inv_pres _ _ _ It Er).
    + destruct fconv; [|exact If]. destruct (conv fv rt) as [r| |] eqn:Er; try reflexivity.
      cbn [fst with_marks]. apply (conv_inv_pres _ _ _ If Er).
Qed.

Lemma iv_tuple f es : IV f -> forall c anon, in_fragment (ETuple es) -> ctx_inv c -> anon_inv anon ->
  inv (fst (ev_ (S f) c anon (ETuple es))) = true.
Proof.
  intros IH c anon Fr C A. inversion Fr as [| | | |? Fes| | | | | | | | |]; subst. cbn [eval_with]. cbn [fst inv].
  apply forallb_Forall. apply Forall_forall. intros x Hx.
  apply in_map_iff in Hx as [[v d] [<- Hin]]. apply in_map_iff in Hin as [e [Ee Hin]].
  rewrite Forall_forall in Fes. pose proof (IH c anon e (Fes e Hin) C A) as Ie. rewrite Ee in Ie. exact Ie.
Qed.

Lemma iv_index f a b : IV f -> forall c anon, in_fragment (EIndex a b) -> ctx_inv c -> anon_inv anon ->
  inv (fst (ev_ (S f) c anon (EIndex a b))) = true.
Proof.
  intros IH c anon Fr C A. inversion Fr as [| | |? ? Fa Fb| | | | | | | | | |]; subst. cbn [eval_with].
  pose proof (IH c anon a Fa C A) as Ia. destruct (ev_ f c anon a) as [cv cds]. simpl in Ia.
  pose proof (IH c anon b Fb C A) as Ib. destruct (ev_ f c anon b) as [kv kds]. simpl in Ib.
  pose proof (index_inv cv kv Ia Ib) as Ii. destruct (index cv kv) as [r ids]. exact Ii.
Qed.

Lemma iv_reltrav f src steps : IV f -> forall c anon, in_fragment (ERelTrav src steps) -> ctx_inv c -> anon_inv anon ->
  inv (fst (ev_ (S f) c anon (ERelTrav src steps))) = true.
Proof.
  intros IH c anon Fr C A. inversion Fr as [| |? ? Fs Fst| | | | | | | | | | |]; subst. cbn [eval_with].
  pose proof (IH c anon src Fs C A) as Is. destruct (ev_ f c anon src) as [v ds]. simpl in Is.
  pose proof (traverse_rel_inv steps v [] Fst Is) as It. destruct (traverse_rel steps v []) as [r ds']. exact It.
Qed.

Lemma iv_scope root steps : forall c, forallb step_inv steps = true -> ctx_inv c ->
  inv (fst (traverse_abs c root steps)) = true.
Proof.
  intros c Fst C. unfold traverse_abs.
  destruct (lookup_var c root false) as [[v|] [|]] eqn:El; try reflexivity.
  - apply (traverse_rel_inv steps v [] Fst (lookup_var_inv _ _ _ _ _ C El)).
  - apply (traverse_rel_inv steps v [] Fst (lookup_var_inv _ _ _ _ _ C El)).
Qed.

Lemma iv_objkey f w force : IV f -> forall c anon, in_fragment (EObjKey w force) -> ctx_inv c -> anon_inv anon ->
  inv (fst (ev_ (S f) c anon (EObjKey w force))) = true.
Proof.
  intros IH c anon Fr C A. inversion Fr as [| | | | | |? ? Fw| | | | | | |]; subst. cbn [eval_with].
  destruct force; cbn [negb]; [apply (IH c anon w Fw C A)|].
  destruct w; try (destruct (literal_name _); [reflexivity|apply (IH c anon _ Fw C A)]).
  destruct steps; [reflexivity|reflexivity].
Qed.

(* templates *)
Definition tmpl_mk_nil (st : list Z * bool * marks * list diag) : Prop := let '(_, _, mk, _) := st in mk = [].

Lemma iv_tmpl f parts : IV f -> forall c anon, in_fragment (ETmpl parts) -> ctx_inv c -> anon_inv anon ->
  inv (fst (ev_ (S f) c anon (ETmpl parts))) = true.
Proof.
  intros IH c anon Fr C A. inversion Fr as [| | | | | | | | | | |? Fp| |]; subst. cbn [eval_with].
  match goal with
  | |- context [fold_left ?stp parts ?init] => set (stepf := stp) in *; set (st0 := init) in *
  end.
  assert (Hfold : forall ps st, Forall in_fragment ps -> tmpl_mk_nil st -> tmpl_mk_nil (fold_left stepf ps st)).
  { induction ps as [|p ps IHp]; intros st Fps Hst; simpl; [exact Hst|].
    inversion Fps as [|? ? Fp1 Fps']; subst. apply IHp; [exact Fps'|].
    destruct st as [[[buf known] mk] ds]. simpl in Hst. subst mk. unfold stepf.
    pose proof (IH c anon p Fp1 C A) as Ip. destruct (ev_ f c anon p) as [pv pds]. simpl in Ip.
    destruct (is_null pv); [reflexivity|]. rewrite (inv_unmark pv Ip). rewrite marks_union_nil_nil.
    destruct (negb (is_known pv)); [reflexivity|].
    destruct (conv pv TStr) as [ks| |]; try reflexivity.
    destruct ks; try reflexivity. destruct (known && negb (has_errors (ds ++ pds))); reflexivity. }
  pose proof (Hfold parts st0 Fp eq_refl) as Hm.
  destruct (fold_left stepf parts st0) as [[[buf known] mk] ds]. simpl in Hm. subst mk.
  destruct (negb known); [|reflexivity].
  destruct (negb (has_errors ds) && negb (str_eqb buf [])); reflexivity.
Qed.

(* object constructor *)
Definition obj_inv_st (st : list (list Z * val) * list marks * bool * list diag) : Prop :=
  let '(vals, mks, _, _) := st in
  Forall (fun p => inv (snd p) = true) vals /\ Forall (fun m => m = []) mks.

Lemma assoc_set_inv k v (l : list (list Z * val)) :
  inv v = true -> Forall (fun p => inv (snd p) = true) l -> Forall (fun p => inv (snd p) = true) (assoc_set k v l).
Proof.
  intros Iv. induction l as [|[k' v'] r IHl]; intros F; simpl.
  - constructor; [exact Iv|constructor].
  - inversion F; subst. destruct (str_eqb k k'); [constructor; assumption|].
    destruct (str_ltb k k'); [constructor; [exact Iv|exact F]|]. constructor; auto.
Qed.

Lemma marks_unions_nil l : Forall (fun m => m = []) l -> marks_unions l = [].
Proof. induction 1 as [|m r Hm _ IHr]; [reflexivity|]. simpl. rewrite Hm, IHr. reflexivity. Qed.

Lemma iv_obj f items : IV f -> forall c anon, in_fragment (EObj items) -> ctx_inv c -> anon_inv anon ->
  inv (fst (ev_ (S f) c anon (EObj items))) = true.
Proof.
  intros IH c anon Fr C A. inversion Fr as [| | | | |? Fi| | | | | | | |]; subst. cbn [eval_with].
  match goal with
  | |- context [fold_left ?stp items ?init] => set (stepf := stp) in *; set (st0 := init) in *
  end.
  assert (Hfold : forall its st, Forall (fun it => in_fragment (fst it) /\ in_fragment (snd it)) its ->
                    obj_inv_st st -> obj_inv_st (fold_left stepf its st)).
  { induction its as [|it its IHi]; intros st Fits Hst; simpl; [exact Hst|].
    inversion Fits as [|? ? [Fk Fv] Fits']; subst. apply IHi; [exact Fits'|].
    destruct st as [[[vals mks] known] ds]. destruct Hst as [Hv Hm]. unfold stepf.
    pose proof (IH c anon (fst it) Fk C A) as Ik. destruct (ev_ f c anon (fst it)) as [k kds]. simpl in Ik.
    pose proof (IH c anon (snd it) Fv C A) as Iv. destruct (ev_ f c anon (snd it)) as [v vds]. simpl in Iv.
    destruct (has_errors kds); [split; assumption|].
    destruct (is_null k); [split; assumption|].
    rewrite (inv_unmark k Ik).
    assert (Hm' : Forall (fun m : marks => m = []) (mks ++ [[]])).
    { apply Forall_app. split; [exact Hm|constructor; [reflexivity|constructor]]. }
    destruct (conv k TStr) as [ks| |]; try (split; assumption).
    destruct ks; try (split; assumption). split; [apply assoc_set_inv; assumption|exact Hm']. }
  assert (H0 : obj_inv_st st0) by (split; constructor).
  pose proof (Hfold items st0 Fi H0) as Hf.
  destruct (fold_left stepf items st0) as [[[vals mks] known] ds]. destruct Hf as [Hv Hm].
  rewrite (marks_unions_nil _ Hm). destruct (negb known); [reflexivity|].
  cbn [fst with_marks inv]. apply forallb_Forall. exact Hv.
Qed.

Theorem iv_all : forall f, IV f.
Proof.
  induction f as [|f IH]; intros c anon e Fr C A; [reflexivity|].
  destruct Fr as [v Hl|root steps Hs|src steps Fs Hs|a b Fa Fb|es Fes|items Fi|w force Fw|
                  |op l r Fl Frr|op e Fe|ce te fe Fc Ft Ff|parts Fp|e Fe|e Fe].
  - cbn [eval_with]. simpl. unfold lit_ok in Hl. apply andb_true_iff in Hl. tauto.
  - cbn [eval_with]. apply (iv_scope root steps c Hs C).
  - apply (iv_reltrav f src steps IH c anon (F_rel _ _ Fs Hs) C A).
  - apply (iv_index f a b IH c anon (F_index _ _ Fa Fb) C A).
  - apply (iv_tuple f es IH c anon (F_tuple _ Fes) C A).
  - apply (iv_obj f items IH c anon (F_obj _ Fi) C A).
  - apply (iv_objkey f w force IH c anon (F_objkey _ _ Fw) C A).
  - cbn [eval_with]. destruct anon as [a|]; [apply (A a eq_refl)|reflexivity].
  - apply (iv_bin f op l r IH c anon (F_bin _ _ _ Fl Frr) C A).
  - apply (iv_un f op e IH c anon (F_un _ _ Fe) C A).
  - apply (iv_cond f ce te fe IH c anon (F_cond _ _ _ Fc Ft Ff) C A).
  - apply (iv_tmpl f parts IH c anon (F_tmpl _ Fp) C A).
  - cbn [eval_with]. apply (IH c anon e Fe C A).
  - cbn [eval_with]. apply (IH c anon e Fe C A).
Qed.

(* ---- soundness: the induction ---------------------------------------------------------------------------- *)
Definition SI (f : nat) : Prop := forall e cA cC anA anC,
  in_fragment e -> ctx_rel cA cC -> anon_rel anA anC ->
  clean f cA anA e = true -> clean f cC anC e = true ->
  gsb (fst (ev_ f cA anA e)) (fst (ev_ f cC anC e)) = true.

(* everything known about a pair of sub-evaluations *)
Lemma sub_facts f e cA cC anA anC vA dA vC dC :
  SI f -> in_fragment e -> ctx_rel cA cC -> anon_rel anA anC ->
  clean f cA anA e = true -> clean f cC anC e = true ->
  ev_ f cA anA e = (vA, dA) -> ev_ f cC anC e = (vC, dC) ->
  inv vA = true /\ inv vC = true /\ gsb vA vC = true /\ diag_ok dA = true /\ diag_ok dC = true.
Proof.
  intros IH Fr R Ra KA KC EA EC.
  destruct (ctx_rel_inv _ _ R) as [CiA CiC]. destruct (anon_rel_inv _ _ Ra) as [AiA AiC].
  pose proof (iv_all f cA anA e Fr CiA AiA) as IA. pose proof (iv_all f cC anC e Fr CiC AiC) as IC.
  pose proof (IH e cA cC anA anC Fr R Ra KA KC) as G.
  pose proof (clean_diag_ok _ _ _ _ KA) as DA. pose proof (clean_diag_ok _ _ _ _ KC) as DC.
  rewrite EA in IA, G, DA. rewrite EC in IC, G, DC. simpl in *. auto.
Qed.

Lemma clean_S f c an e : clean (S f) c an e = true ->
  diag_ok (snd (ev_ (S f) c an e)) = true /\
  match e with
  | ELit _ | EScopeTrav _ _ => True
  | EAnon => is_some an = true
  | EParen e' | EWrap e' | EUn _ e' | ERelTrav e' _ => clean f c an e' = true
  | EObjKey w force =>
      (if negb force then
         match w with
         | EScopeTrav _ (_ :: _) => true
         | _ => match literal_name w with Some _ => true | None => clean f c an w end
         end
       else clean f c an w) = true
  | EIndex a b | EBin _ a b => clean f c an a = true /\ clean f c an b = true
  | ETuple es | ETmpl es => forallb (clean f c an) es = true
  | EObj items => forallb (fun it => clean f c an (fst it) && clean f c an (snd it)) items = true
  | ECond ce te fe =>
      clean f c an ce = true /\ clean f c an te = true /\ clean f c an fe = true /\
      arm_ok (fst (ev_ f c an te)) = true /\ arm_ok (fst (ev_ f c an fe)) = true /\
      rt_ok (fst (ev_ f c an te)) (fst (ev_ f c an fe)) = true
  | _ => False
  end.
Proof.
  cbn [clean]. intros H. apply andb_true_iff in H as [H1 H2]. split; [exact H1|].
  destruct e; try exact I; try exact H2; try discriminate H2.
  - repeat (apply andb_true_iff in H2 as [H2 ?]). repeat split; assumption.
  - apply andb_true_iff in H2. exact H2.
  - apply andb_true_iff in H2. exact H2.
Qed.

Lemma si_un f op e' : SI f -> forall cA cC anA anC,
  in_fragment (EUn op e') -> ctx_rel cA cC -> anon_rel anA anC ->
  clean (S f) cA anA (EUn op e') = true -> clean (S f) cC anC (EUn op e') = true ->
  gsb (fst (ev_ (S f) cA anA (EUn op e'))) (fst (ev_ (S f) cC anC (EUn op e'))) = true.
Proof.
  intros IH cA cC anA anC Fr R Ra KA KC. inversion Fr; subst.
  apply clean_S in KA as [DA KA']. apply clean_S in KC as [DC KC'].
  cbn [eval_with] in *.
  destruct (ev_ f cA anA e') as [gA dsA] eqn:EA. destruct (ev_ f cC anC e') as [gC dsC] eqn:EC.
  destruct (sub_facts f e' cA cC anA anC gA dsA gC dsC IH H0 R Ra KA' KC' EA EC) as [IA [IC [G [DsA DsC]]]].
  destruct (conv gA (unop_param op)) as [vA| |] eqn:EcA; try (exfalso; cbn [snd] in DA; rewrite diag_ok_app, andb_false_r in DA; discriminate).
  destruct (conv gC (unop_param op)) as [vC| |] eqn:EcC; try (exfalso; cbn [snd] in DC; rewrite diag_ok_app, andb_false_r in DC; discriminate).
  apply diag_ok_elim in DsA as [HeA _]. apply diag_ok_elim in DsC as [HeC _]. rewrite HeA in *. rewrite HeC in *.
  pose proof (conv_inv_pres _ _ _ IA EcA) as IvA. pose proof (conv_inv_pres _ _ _ IC EcC) as IvC.
  rewrite (inv_unmark vA IvA) in *. rewrite (inv_unmark vC IvC) in *.
  assert (Hp : is_prim (unop_param op) = true) by (destruct op; reflexivity).
  pose proof (conv_gs_prim gA gC _ vA vC Hp IA IC G EcA EcC) as Gv.
  assert (Tv : type_of vA = unop_param op) by (apply (conv_type _ _ _ EcA); destruct op; reflexivity).
  destruct (call_unop op vA) as [rA| |] eqn:EoA; try (exfalso; cbn [snd] in DA; rewrite diag_ok_app, andb_false_r in DA; discriminate).
  destruct (call_unop op vC) as [rC| |] eqn:EoC; try (exfalso; cbn [snd] in DC; rewrite diag_ok_app, andb_false_r in DC; discriminate).
  cbn [fst with_marks]. apply (call_unop_gs op vA vC rA rC IvA IvC Gv Tv EoA EoC).
Qed.

Lemma si_index f a b : SI f -> forall cA cC anA anC,
  in_fragment (EIndex a b) -> ctx_rel cA cC -> anon_rel anA anC ->
  clean (S f) cA anA (EIndex a b) = true -> clean (S f) cC anC (EIndex a b) = true ->
  gsb (fst (ev_ (S f) cA anA (EIndex a b))) (fst (ev_ (S f) cC anC (EIndex a b))) = true.
Proof.
  intros IH cA cC anA anC Fr R Ra KA KC. inversion Fr as [| | |? ? Fa Fb| | | | | | | | | |]; subst.
  apply clean_S in KA as [DA [KAa KAb]]. apply clean_S in KC as [DC [KCa KCb]].
  cbn [eval_with] in *.
  destruct (ev_ f cA anA a) as [cvA cdA] eqn:EAa. destruct (ev_ f cC anC a) as [cvC cdC] eqn:ECa.
  destruct (ev_ f cA anA b) as [kvA kdA] eqn:EAb. destruct (ev_ f cC anC b) as [kvC kdC] eqn:ECb.
  destruct (sub_facts f a cA cC anA anC _ _ _ _ IH Fa R Ra KAa KCa EAa ECa) as [IcA [IcC [Gc _]]].
  destruct (sub_facts f b cA cC anA anC _ _ _ _ IH Fb R Ra KAb KCb EAb ECb) as [IkA [IkC [Gk _]]].
  destruct (index cvA kvA) as [rA idA] eqn:EiA. destruct (index cvC kvC) as [rC idC] eqn:EiC.
  cbn [fst snd] in *. rewrite !diag_ok_app in DA, DC.
  apply andb_true_iff in DA as [_ DA]. apply andb_true_iff in DA as [_ DA].
  apply andb_true_iff in DC as [_ DC]. apply andb_true_iff in DC as [_ DC].
  apply (index_gs cvA kvA cvC kvC rA idA rC idC IcA IkA IcC IkC Gc Gk EiA EiC DA DC).
Qed.

Lemma si_reltrav f src steps : SI f -> forall cA cC anA anC,
  in_fragment (ERelTrav src steps) -> ctx_rel cA cC -> anon_rel anA anC ->
  clean (S f) cA anA (ERelTrav src steps) = true -> clean (S f) cC anC (ERelTrav src steps) = true ->
  gsb (fst (ev_ (S f) cA anA (ERelTrav src steps))) (fst (ev_ (S f) cC anC (ERelTrav src steps))) = true.
Proof.
  intros IH cA cC anA anC Fr R Ra KA KC. inversion Fr as [| |? ? Fs Fst| | | | | | | | | | |]; subst.
  apply clean_S in KA as [DA KA']. apply clean_S in KC as [DC KC'].
  cbn [eval_with] in *.
  destruct (ev_ f cA anA src) as [vA dsA] eqn:EA. destruct (ev_ f cC anC src) as [vC dsC] eqn:EC.
  destruct (sub_facts f src cA cC anA anC _ _ _ _ IH Fs R Ra KA' KC' EA EC) as [IA [IC [G _]]].
  destruct (traverse_rel steps vA []) as [rA tdA] eqn:EtA. destruct (traverse_rel steps vC []) as [rC tdC] eqn:EtC.
  cbn [fst snd] in *. rewrite diag_ok_app in DA, DC.
  apply andb_true_iff in DA as [_ DA]. apply andb_true_iff in DC as [_ DC].
  apply (traverse_rel_gs steps vA vC [] [] rA tdA rC tdC Fst IA IC G EtA EtC DA DC).
Qed.

Lemma si_scope root steps cA cC : forallb step_inv steps = true -> ctx_rel cA cC ->
  diag_ok (snd (traverse_abs cA root steps)) = true -> diag_ok (snd (traverse_abs cC root steps)) = true ->
  gsb (fst (traverse_abs cA root steps)) (fst (traverse_abs cC root steps)) = true.
Proof.
  intros Fst R DA DC. unfold traverse_abs in *.
  pose proof (lookup_var_rel cA cC root false R) as L.
  destruct (lookup_var cA root false) as [[vA|] bA]; destruct (lookup_var cC root false) as [[vC|] bC]; try contradiction.
  - destruct L as [IA [IC G]].
    destruct (traverse_rel steps vA []) as [rA tdA] eqn:EtA. destruct (traverse_rel steps vC []) as [rC tdC] eqn:EtC.
    apply (traverse_rel_gs steps vA vC [] [] rA tdA rC tdC Fst IA IC G EtA EtC DA DC).
  - destruct bA; discriminate DA.
Qed.

Lemma si_tuple f es : SI f -> forall cA cC anA anC,
  in_fragment (ETuple es) -> ctx_rel cA cC -> anon_rel anA anC ->
  clean (S f) cA anA (ETuple es) = true -> clean (S f) cC anC (ETuple es) = true ->
  gsb (fst (ev_ (S f) cA anA (ETuple es))) (fst (ev_ (S f) cC anC (ETuple es))) = true.
Proof.
  intros IH cA cC anA anC Fr R Ra KA KC. inversion Fr as [| | | |? Fes| | | | | | | | |]; subst.
  apply clean_S in KA as [_ KA']. apply clean_S in KC as [_ KC'].
  cbn [eval_with fst gsb]. rewrite forallb_Forall in KA', KC'.
  induction es as [|e es IHes]; [reflexivity|].
  inversion Fes; inversion KA'; inversion KC'; subst. simpl. apply andb_true_iff. split.
  - apply (IH e cA cC anA anC); assumption.
  - apply IHes; try assumption. constructor. assumption.
Qed.

Lemma si_objkey f w force : SI f -> forall cA cC anA anC,
  in_fragment (EObjKey w force) -> ctx_rel cA cC -> anon_rel anA anC ->
  clean (S f) cA anA (EObjKey w force) = true -> clean (S f) cC anC (EObjKey w force) = true ->
  gsb (fst (ev_ (S f) cA anA (EObjKey w force))) (fst (ev_ (S f) cC anC (EObjKey w force))) = true.
Proof.
  intros IH cA cC anA anC Fr R Ra KA KC. inversion Fr as [| | | | | |? ? Fw| | | | | | |]; subst.
  apply clean_S in KA as [DA KA']. apply clean_S in KC as [DC KC'].
  cbn [eval_with] in *. destruct force; cbn [negb] in *.
  - apply (IH w cA cC anA anC Fw R Ra KA' KC').
  - destruct w; try (destruct (literal_name _) eqn:L;
                     [cbn [fst gsb]; apply str_eqb_refl|apply (IH _ cA cC anA anC Fw R Ra KA' KC')]).
    destruct steps; [cbn [literal_name fst gsb]; apply str_eqb_refl|discriminate DA].
Qed.

(* ---- binary operators -------------------------------------------------------------------------------------- *)
(* the part of BinaryOpExpr.Value after the operand conversions, for unmarked operands
   (copy of Impl.v; [bin_tail_eq] below checks the correspondence by conversion) *)
Definition bin_tail (op : binop) (lu ru : val) (lds rds : list diag) : val * list diag :=
  let sc : option (val * list diag) :=
    match op with
    | OpOr | OpAnd =>
        let tru (v : val) := match v with VBool true => true | _ => false end in
        let fls (v : val) := negb (tru v) in
        let lk := is_known lu in let rk := is_known ru in
        if negb lk && negb rk then
          (if negb (has_errors lds) then Some (unk_bool_nn, lds) else None)
        else
        match op with
        | OpOr =>
            if lk && tru lu then Some (VBool true, lds)
            else if rk && tru ru then Some (VBool true, rds)
            else if negb lk && fls ru then Some (unk_bool_nn, lds)
            else if negb rk && fls lu then Some (unk_bool_nn, rds)
            else None
        | _ =>
            if lk && fls lu then Some (VBool false, lds)
            else if rk && fls ru then Some (VBool false, rds)
            else if negb lk && tru ru then Some (unk_bool_nn, lds)
            else if negb rk && tru lu then Some (unk_bool_nn, rds)
            else None
        end
    | _ => None
    end in
  match sc with
  | Some (v, ds) => (v, ds)
  | None =>
      let ds := lds ++ rds in
      if has_errors ds then (VUnk (binop_type op) rf_none, ds)
      else match call_binop op lu ru with
           | OOk res => (res, ds)
           | OErr _ => (VUnk (binop_type op) rf_none, ds ++ [derr S_OperationFailed []])
           | OUnsupported => (VUnk (binop_type op) rf_none, ds ++ [dunsupported])
           end
  end.

Lemma gsb_bool_unk_shape r c : inv c = true -> gsb (VUnk TBool r) c = true ->
  (exists b, c = VBool b) \/ c = VNull TBool.
Proof.
  intros I G. simpl in G. unfold conc in G. apply andb_true_iff in G as [G _]. apply andb_true_iff in G as [W Cf].
  pose proof (conf_nodyn _ TBool eq_refl Cf) as T.
  destruct (inv_bool_shape c I T) as [H|[H|[r0 ->]]]; [left; exact H|right; exact H|discriminate W].
Qed.

Lemma bin_tail_logic_gs op luA ruA luC ruC ldsA rdsA ldsC rdsC :
  (op = OpOr \/ op = OpAnd) ->
  inv luA = true -> inv ruA = true -> inv luC = true -> inv ruC = true ->
  gsb luA luC = true -> gsb ruA ruC = true ->
  type_of luA = TBool -> type_of ruA = TBool ->
  diag_ok ldsA = true -> diag_ok rdsA = true -> diag_ok ldsC = true -> diag_ok rdsC = true ->
  diag_ok (snd (bin_tail op luA ruA ldsA rdsA)) = true -> diag_ok (snd (bin_tail op luC ruC ldsC rdsC)) = true ->
  gsb (fst (bin_tail op luA ruA ldsA rdsA)) (fst (bin_tail op luC ruC ldsC rdsC)) = true.
Proof.
  intros Hop IlA IrA IlC IrC Gl Gr TlA TrA D1 D2 D3 D4 DA DC.
  assert (H1 : has_errors ldsA = false) by (apply diag_ok_elim in D1; tauto).
  assert (H2 : has_errors rdsA = false) by (apply diag_ok_elim in D2; tauto).
  assert (H3 : has_errors ldsC = false) by (apply diag_ok_elim in D3; tauto).
  assert (H4 : has_errors rdsC = false) by (apply diag_ok_elim in D4; tauto).
  unfold bin_tail in *. rewrite !has_errors_app in *. rewrite H1, H2 in *. rewrite H3, H4 in *.
  destruct (inv_bool_shape luA IlA TlA) as [[b1 ->]|[->|[r1 ->]]];
  destruct (inv_bool_shape ruA IrA TrA) as [[b2 ->]|[->|[r2 ->]]].
  all: try (apply gsb_known_eq in Gl; [subst luC|reflexivity]).
  all: try (apply gsb_known_eq in Gr; [subst ruC|reflexivity]).
  all: try (destruct (gsb_bool_unk_shape _ _ IlC Gl) as [[c1 ->]| ->]).
  all: try (destruct (gsb_bool_unk_shape _ _ IrC Gr) as [[c2 ->]| ->]).
  all: destruct Hop as [-> | ->].
  all: try destruct b1; try destruct b2; try destruct c1; try destruct c2.
  all: cbn in DA, DC |- *; try reflexivity.
  all: exfalso; repeat rewrite diag_ok_app in DC; repeat rewrite diag_ok_app in DA;
       rewrite ?diag_ok_cons_err, ?diag_ok_cons_unsup, ?andb_false_r in DA;
       rewrite ?diag_ok_cons_err, ?diag_ok_cons_unsup, ?andb_false_r in DC;
       first [discriminate DA | discriminate DC].
Qed.

Lemma bin_tail_arith_gs op luA ruA luC ruC ldsA rdsA ldsC rdsC :
  is_eq_op op = false -> op <> OpOr -> op <> OpAnd ->
  inv luA = true -> inv ruA = true -> inv luC = true -> inv ruC = true ->
  gsb luA luC = true -> gsb ruA ruC = true ->
  type_of luA = binop_param op -> type_of ruA = binop_param op ->
  diag_ok (snd (bin_tail op luA ruA ldsA rdsA)) = true -> diag_ok (snd (bin_tail op luC ruC ldsC rdsC)) = true ->
  gsb (fst (bin_tail op luA ruA ldsA rdsA)) (fst (bin_tail op luC ruC ldsC rdsC)) = true.
Proof.
  intros Ho N1 N2 IlA IrA IlC IrC Gl Gr TlA TrA DA DC.
  assert (EA : bin_tail op luA ruA ldsA rdsA =
               let ds := ldsA ++ rdsA in
               if has_errors ds then (VUnk (binop_type op) rf_none, ds)
               else match call_binop op luA ruA with
                    | OOk res => (res, ds)
                    | OErr _ => (VUnk (binop_type op) rf_none, ds ++ [derr S_OperationFailed []])
                    | OUnsupported => (VUnk (binop_type op) rf_none, ds ++ [dunsupported])
                    end) by (destruct op; try reflexivity; congruence).
  assert (EC : bin_tail op luC ruC ldsC rdsC =
               let ds := ldsC ++ rdsC in
               if has_errors ds then (VUnk (binop_type op) rf_none, ds)
               else match call_binop op luC ruC with
                    | OOk res => (res, ds)
                    | OErr _ => (VUnk (binop_type op) rf_none, ds ++ [derr S_OperationFailed []])
                    | OUnsupported => (VUnk (binop_type op) rf_none, ds ++ [dunsupported])
                    end) by (destruct op; try reflexivity; congruence).
  rewrite EA in *. rewrite EC in *. cbv zeta in *.
  destruct (has_errors (ldsA ++ rdsA)) eqn:HA; [cbn [snd] in DA; rewrite (diag_ok_has_errors _ HA) in DA; discriminate|].
  destruct (has_errors (ldsC ++ rdsC)) eqn:HC; [cbn [snd] in DC; rewrite (diag_ok_has_errors _ HC) in DC; discriminate|].
  destruct (call_binop op luA ruA) as [rA| |] eqn:EoA;
    try (exfalso; cbn [snd] in DA; rewrite diag_ok_app, andb_false_r in DA; discriminate).
  destruct (call_binop op luC ruC) as [rC| |] eqn:EoC;
    try (exfalso; cbn [snd] in DC; rewrite diag_ok_app, andb_false_r in DC; discriminate).
  cbn [fst]. apply (call_binop_gs op luA ruA luC ruC rA rC Ho IlA IrA IlC IrC Gl Gr TlA TrA EoA EoC).
Qed.

Ltac kill D :=
  exfalso; cbn [snd app] in D; repeat rewrite diag_ok_app in D;
  rewrite ?diag_ok_cons_err, ?diag_ok_cons_unsup in D;
  rewrite ?andb_false_r, ?andb_false_l in D; cbn [andb] in D; discriminate D.

Lemma bin_tail_eq_gs op luA ruA luC ruC ldsA rdsA ldsC rdsC :
  is_eq_op op = true ->
  inv luA = true -> inv ruA = true -> inv luC = true -> inv ruC = true ->
  gsb luA luC = true -> gsb ruA ruC = true ->
  diag_ok (snd (bin_tail op luA ruA ldsA rdsA)) = true -> diag_ok (snd (bin_tail op luC ruC ldsC rdsC)) = true ->
  gsb (fst (bin_tail op luA ruA ldsA rdsA)) (fst (bin_tail op luC ruC ldsC rdsC)) = true.
Proof.
  intros Ho IlA IrA IlC IrC Gl Gr DA DC.
  assert (EA : bin_tail op luA ruA ldsA rdsA =
               let ds := ldsA ++ rdsA in
               if has_errors ds then (VUnk (binop_type op) rf_none, ds)
               else match call_binop op luA ruA with
                    | OOk res => (res, ds)
                    | OErr _ => (VUnk (binop_type op) rf_none, ds ++ [derr S_OperationFailed []])
                    | OUnsupported => (VUnk (binop_type op) rf_none, ds ++ [dunsupported])
                    end) by (destruct op; try discriminate Ho; reflexivity).
  assert (EC : bin_tail op luC ruC ldsC rdsC =
               let ds := ldsC ++ rdsC in
               if has_errors ds then (VUnk (binop_type op) rf_none, ds)
               else match call_binop op luC ruC with
                    | OOk res => (res, ds)
                    | OErr _ => (VUnk (binop_type op) rf_none, ds ++ [derr S_OperationFailed []])
                    | OUnsupported => (VUnk (binop_type op) rf_none, ds ++ [dunsupported])
                    end) by (destruct op; try discriminate Ho; reflexivity).
  rewrite EA in *. rewrite EC in *. cbv zeta in *.
  destruct (has_errors (ldsA ++ rdsA)) eqn:HA; [cbn [snd] in DA; rewrite (diag_ok_has_errors _ HA) in DA; discriminate|].
  destruct (has_errors (ldsC ++ rdsC)) eqn:HC; [cbn [snd] in DC; rewrite (diag_ok_has_errors _ HC) in DC; discriminate|].
  destruct (call_binop op luA ruA) as [rA| |] eqn:EoA;
    try (exfalso; cbn [snd] in DA; rewrite diag_ok_app, andb_false_r in DA; discriminate).
  destruct (call_binop op luC ruC) as [rC| |] eqn:EoC;
    try (exfalso; cbn [snd] in DC; rewrite diag_ok_app, andb_false_r in DC; discriminate).
  cbn [fst]. apply (call_binop_eq_gs op luA ruA luC ruC rA rC Ho IlA IrA IlC IrC Gl Gr EoA EoC).
Qed.

(* conversion of an operand to the operator's parameter type *)
Lemma conv_param_gs op a c a' c' : inv a = true -> inv c = true -> gsb a c = true ->
  conv a (binop_param op) = COk a' -> conv c (binop_param op) = COk c' -> gsb a' c' = true.
Proof.
  intros Ia Ic G EA EC. destruct (is_eq_op op) eqn:Ho.
  - assert (Hp : binop_param op = TDyn) by (destruct op; try discriminate Ho; reflexivity). rewrite Hp in EA, EC.
    rewrite (conv_dyn_id a a' Ia EA), (conv_dyn_id c c' Ic EC). exact G.
  - assert (Hp : is_prim (binop_param op) = true) by (destruct op; try discriminate Ho; reflexivity).
    apply (conv_gs_prim a c _ a' c' Hp Ia Ic G EA EC).
Qed.

Lemma si_bin f op l r : SI f -> forall cA cC anA anC,
  in_fragment (EBin op l r) -> ctx_rel cA cC -> anon_rel anA anC ->
  clean (S f) cA anA (EBin op l r) = true -> clean (S f) cC anC (EBin op l r) = true ->
  gsb (fst (ev_ (S f) cA anA (EBin op l r))) (fst (ev_ (S f) cC anC (EBin op l r))) = true.
Proof.
  intros IH cA cC anA anC Fr R Ra KA KC. inversion Fr as [| | | | | | | |? ? ? Fl Frr| | | | |]; subst.
  apply clean_S in KA as [DA [KAl KAr]]. apply clean_S in KC as [DC [KCl KCr]].
  cbn [eval_with] in *.
  destruct (ev_ f cA anA l) as [glA ldsA] eqn:EAl. destruct (ev_ f cC anC l) as [glC ldsC] eqn:ECl.
  destruct (ev_ f cA anA r) as [grA rdsA] eqn:EAr. destruct (ev_ f cC anC r) as [grC rdsC] eqn:ECr.
  destruct (sub_facts f l cA cC anA anC _ _ _ _ IH Fl R Ra KAl KCl EAl ECl) as [IlA [IlC [Gl [D1 D3]]]].
  destruct (sub_facts f r cA cC anA anC _ _ _ _ IH Frr R Ra KAr KCr EAr ECr) as [IrA [IrC [Gr [D2 D4]]]].
  assert (U1 : has_unsupported ldsA || has_unsupported rdsA = false).
  { apply diag_ok_elim in D1 as [_ ->]. apply diag_ok_elim in D2 as [_ ->]. reflexivity. }
  assert (U2 : has_unsupported ldsC || has_unsupported rdsC = false).
  { apply diag_ok_elim in D3 as [_ ->]. apply diag_ok_elim in D4 as [_ ->]. reflexivity. }
  rewrite U1 in *. rewrite U2 in *.
  destruct (conv glA (binop_param op)) as [lvA| |] eqn:EclA;
    try (destruct (conv grA (binop_param op)); kill DA).
  destruct (conv grA (binop_param op)) as [rvA| |] eqn:EcrA; try (kill DA).
  destruct (conv glC (binop_param op)) as [lvC| |] eqn:EclC;
    try (destruct (conv grC (binop_param op)); kill DC).
  destruct (conv grC (binop_param op)) as [rvC| |] eqn:EcrC; try (kill DC).
  pose proof (conv_inv_pres _ _ _ IlA EclA) as IlvA. pose proof (conv_inv_pres _ _ _ IrA EcrA) as IrvA.
  pose proof (conv_inv_pres _ _ _ IlC EclC) as IlvC. pose proof (conv_inv_pres _ _ _ IrC EcrC) as IrvC.
  rewrite (inv_unmark lvA IlvA), (inv_unmark rvA IrvA) in *. rewrite (inv_unmark lvC IlvC), (inv_unmark rvC IrvC) in *.
  rewrite marks_union_nil_nil in *. cbn [with_marks] in *.
  pose proof (conv_param_gs op glA glC lvA lvC IlA IlC Gl EclA EclC) as Glv.
  pose proof (conv_param_gs op grA grC rvA rvC IrA IrC Gr EcrA EcrC) as Grv.
  match goal with
  | |- gsb (fst ?X) (fst ?Y) = true =>
      change X with (bin_tail op lvA rvA ldsA rdsA) in *; change Y with (bin_tail op lvC rvC ldsC rdsC) in *
  end.
  destruct (is_eq_op op) eqn:Ho; [apply bin_tail_eq_gs; assumption|].
  assert (Hd : has_dyn (binop_param op) = false) by (destruct op; try discriminate Ho; reflexivity).
  pose proof (conv_type _ _ _ EclA Hd) as TlA. pose proof (conv_type _ _ _ EcrA Hd) as TrA.
  destruct op; try discriminate Ho.
  1,2: apply bin_tail_logic_gs; auto.
  all: apply bin_tail_arith_gs; auto; discriminate.
Qed.

(* ---- conditional ---------------------------------------------------------------------------------------------- *)
Lemma is_dyn_null_eq v : is_dyn_null v = true -> v = VNull TDyn.
Proof. destruct v; try discriminate. destruct t; try discriminate. reflexivity. Qed.

Lemma arm_ok_cases v : arm_ok v = true -> has_dyn (type_of v) = false \/ v = VNull TDyn.
Proof.
  unfold arm_ok. intros H. apply orb_true_iff in H as [H|H].
  - right. apply is_dyn_null_eq. exact H.
  - left. apply negb_true_iff. exact H.
Qed.

Lemma gsb_dyn_null_iff a c : gsb a c = true -> arm_ok a = true -> is_dyn_null a = is_dyn_null c.
Proof.
  intros G A. destruct (is_dyn_null a) eqn:Na.
  - apply is_dyn_null_eq in Na. subst a. apply gsb_known_eq in G; [subst c; reflexivity|reflexivity].
  - destruct (is_dyn_null c) eqn:Nc; [|reflexivity]. exfalso.
    apply is_dyn_null_eq in Nc. subst c.
    destruct (arm_ok_cases a A) as [Hd| ->]; [|discriminate Na].
    pose proof (gsb_type_eq a _ G Hd) as T. simpl in T. rewrite <- T in Hd. discriminate.
Qed.

Lemma cond_uni_eq tvA fvA tvC fvC :
  gsb tvA tvC = true -> gsb fvA fvC = true -> arm_ok tvA = true -> arm_ok fvA = true ->
  cond_uni tvA fvA = cond_uni tvC fvC.
Proof.
  intros Gt Gf At Af. unfold cond_uni.
  rewrite <- (gsb_dyn_null_iff _ _ Gt At), <- (gsb_dyn_null_iff _ _ Gf Af).
  assert (Tt : is_dyn_null tvA = false -> type_of tvC = type_of tvA).
  { intros N. destruct (arm_ok_cases _ At) as [Hd| ->]; [apply (gsb_type_eq _ _ Gt Hd)|discriminate N]. }
  assert (Tf : is_dyn_null fvA = false -> type_of fvC = type_of fvA).
  { intros N. destruct (arm_ok_cases _ Af) as [Hd| ->]; [apply (gsb_type_eq _ _ Gf Hd)|discriminate N]. }
  destruct (is_dyn_null tvA) eqn:N1.
  - destruct (is_dyn_null fvA) eqn:N2.
    + apply is_dyn_null_eq in N2. subst fvA. apply gsb_known_eq in Gf; [subst fvC; reflexivity|reflexivity].
    + rewrite (Tf eq_refl). reflexivity.
  - destruct (is_dyn_null fvA) eqn:N2.
    + rewrite (Tt eq_refl). reflexivity.
    + rewrite (Tt eq_refl), (Tf eq_refl). reflexivity.
Qed.

Lemma arm_ok_not_dyn v : arm_ok v = true -> is_dyn_null v = false -> ty_eqb (type_of v) TDyn = false.
Proof.
  intros A N. destruct (arm_ok_cases v A) as [Hd| ->]; [|discriminate N].
  apply ty_eqb_neq. intros T. rewrite T in Hd. discriminate.
Qed.

Lemma cond_uni_flags tv fv rt tconv fconv :
  arm_ok tv = true -> arm_ok fv = true -> cond_uni tv fv = inl (Some (rt, tconv, fconv)) ->
  (tconv = false -> type_of tv = rt) /\ (fconv = false -> type_of fv = rt) /\
  (type_of tv = TNum -> type_of fv = TNum -> rt = TNum).
Proof.
  unfold cond_uni. intros At Af E.
  destruct (is_dyn_null tv) eqn:N1.
  { injection E as <- <- <-. apply is_dyn_null_eq in N1. subst tv.
    split; [discriminate|]. split; [reflexivity|]. discriminate. }
  destruct (is_dyn_null fv) eqn:N2.
  { injection E as <- <- <-. apply is_dyn_null_eq in N2. subst fv.
    split; [reflexivity|]. split; [discriminate|]. discriminate. }
  rewrite (arm_ok_not_dyn _ At N1), (arm_ok_not_dyn _ Af N2) in E. cbn [orb] in E.
  destruct (unify (type_of tv) (type_of fv)) eqn:Eu; try discriminate. injection E as <- <- <-.
  split; [|split].
  - intros H. apply negb_false_iff in H. apply ty_eqb_eq. exact H.
  - intros H. apply negb_false_iff in H. apply ty_eqb_eq. exact H.
  - intros T1 T2. rewrite T1, T2 in Eu. vm_compute in Eu. injection Eu as <-. reflexivity.
Qed.

Lemma conv_bool_known c cb : inv c = true -> wholly_known c = true -> null_shape c = false ->
  conv c TBool = COk cb -> exists b, cb = VBool b.
Proof. intros I W N E. apply (conv_prim_known_shape c TBool cb W I N eq_refl E). Qed.

(* ConditionalExpr.Value after the three evaluations and the choice of the result type, for unmarked
   values (copy of Impl.v; the correspondence is checked by conversion in [si_cond]) *)
Definition cond_pick (rt : ty) (cds : list diag) (bv : val) (bds : list diag) (needconv : bool) : val * list diag :=
  if needconv then
    match conv bv rt with
    | COk r => (r, cds ++ bds)
    | CErr ce => (VUnk rt rf_none, cds ++ bds ++ [derr S_InconsistentCond [FConv ce]])
    | CUnsupported => (dyn_val, cds ++ bds ++ [dunsupported])
    end
  else (bv, cds ++ bds).

Definition cond_tail (rt : ty) (tconv fconv : bool) (cv tv fv : val) (cds tds fds : list diag) : val * list diag :=
  if negb (is_known cv) then cond_unk rt cds [] tv fv
  else match conv cv TBool with
       | CUnsupported => (VUnk rt rf_none, cds ++ [dunsupported])
       | CErr _ => (VUnk rt rf_none, cds ++ [derr S_IncorrectCondType []])
       | COk cb =>
           match cb with
           | VBool true => cond_pick rt cds tv tds tconv
           | VBool false => cond_pick rt cds fv fds fconv
           | _ => (dyn_val, cds ++ [dunsupported])
           end
       end.

Lemma cond_pick_ok rt cds bv bds nc : diag_ok (snd (cond_pick rt cds bv bds nc)) = true ->
  (nc = false -> type_of bv = rt) ->
  picked bv rt (fst (cond_pick rt cds bv bds nc)).
Proof.
  unfold cond_pick. intros D Hf. destruct nc.
  - destruct (conv bv rt) as [r| |] eqn:E; [right; exact E|kill D|kill D].
  - left. split; [reflexivity|apply Hf; reflexivity].
Qed.

Lemma cond_pick_gs rt cdsA cdsC xA xC bdsA bdsC nc :
  inv xA = true -> inv xC = true -> gsb xA xC = true ->
  (has_dyn (type_of xA) = false \/ xA = VNull TDyn) ->
  (has_dyn rt = false \/ xA = VNull TDyn) ->
  diag_ok (snd (cond_pick rt cdsA xA bdsA nc)) = true -> diag_ok (snd (cond_pick rt cdsC xC bdsC nc)) = true ->
  gsb (fst (cond_pick rt cdsA xA bdsA nc)) (fst (cond_pick rt cdsC xC bdsC nc)) = true.
Proof.
  unfold cond_pick. intros IA IC G Ax Hrt DA DC. destruct nc; [|exact G].
  destruct (conv xA rt) as [rA| |] eqn:EA; [|kill DA|kill DA].
  destruct (conv xC rt) as [rC| |] eqn:EC; [|kill DC|kill DC]. cbn [fst].
  destruct Ax as [Hd| ->].
  - destruct Hrt as [Hr| ->].
    + apply (conv_gs_nodyn xA xC rt rA rC IA IC G Hd Hr EA EC).
    + unfold conv in EA, EC. apply (convert_known_gs _ _ _ _ _ _ _ IA eq_refl G EA EC).
  - unfold conv in EA, EC. apply (convert_known_gs _ _ _ _ _ _ _ IA eq_refl G EA EC).
Qed.

Lemma cond_tail_gs rt tconv fconv cvA tvA fvA cvC tvC fvC cdsA tdsA fdsA cdsC tdsC fdsC :
  inv cvA = true -> inv tvA = true -> inv fvA = true -> inv cvC = true -> inv tvC = true -> inv fvC = true ->
  gsb cvA cvC = true -> gsb tvA tvC = true -> gsb fvA fvC = true ->
  null_shape cvA = false -> null_shape cvC = false ->
  (has_dyn (type_of tvA) = false \/ tvA = VNull TDyn) -> (has_dyn (type_of fvA) = false \/ fvA = VNull TDyn) ->
  (tconv = false -> type_of tvC = rt) -> (fconv = false -> type_of fvC = rt) ->
  (type_of tvA = TNum -> type_of fvA = TNum -> rt = TNum) ->
  (has_dyn rt = false \/ (tvA = VNull TDyn /\ fvA = VNull TDyn /\ rt = TDyn)) ->
  diag_ok (snd (cond_tail rt tconv fconv cvA tvA fvA cdsA tdsA fdsA)) = true ->
  diag_ok (snd (cond_tail rt tconv fconv cvC tvC fvC cdsC tdsC fdsC)) = true ->
  gsb (fst (cond_tail rt tconv fconv cvA tvA fvA cdsA tdsA fdsA))
      (fst (cond_tail rt tconv fconv cvC tvC fvC cdsC tdsC fdsC)) = true.
Proof.
  intros IcA ItA IfA IcC ItC IfC Gc Gt Gf NcA NcC At Af FtC FfC Hnum Hrt DA DC.
  pose proof (gsb_wk _ _ Gc) as WcC.
  unfold cond_tail in DC |- *.
  assert (KcC : is_known cvC = true).
  { rewrite (inv_is_known _ IcC). destruct cvC; try reflexivity. discriminate WcC. }
  rewrite KcC in DC |- *. cbn [negb] in DC |- *.
  destruct (conv cvC TBool) as [cbC| |] eqn:EcbC; [|kill DC|kill DC].
  destruct (conv_bool_known cvC cbC IcC WcC NcC EcbC) as [b ->].
  set (xC := if b then tvC else fvC). set (xA := if b then tvA else fvA).
  set (nc := if b then tconv else fconv). set (bdsC := if b then tdsC else fdsC).
  assert (EC : (if b then cond_pick rt cdsC tvC tdsC tconv else cond_pick rt cdsC fvC fdsC fconv)
               = cond_pick rt cdsC xC bdsC nc) by (destruct b; reflexivity).
  assert (EC' : match VBool b with
                | VBool true => cond_pick rt cdsC tvC tdsC tconv
                | VBool false => cond_pick rt cdsC fvC fdsC fconv
                | _ => (dyn_val, cdsC ++ [dunsupported]) end = cond_pick rt cdsC xC bdsC nc) by (destruct b; reflexivity).
  rewrite EC' in DC |- *.
  assert (Gx : gsb xA xC = true) by (unfold xA, xC; destruct b; assumption).
  assert (IxA : inv xA = true) by (unfold xA; destruct b; assumption).
  assert (IxC : inv xC = true) by (unfold xC; destruct b; assumption).
  assert (Ax : has_dyn (type_of xA) = false \/ xA = VNull TDyn) by (unfold xA; destruct b; assumption).
  assert (Fx : nc = false -> type_of xC = rt) by (unfold nc, xC; destruct b; assumption).
  pose proof (cond_pick_ok rt cdsC xC bdsC nc DC Fx) as PC.
  unfold cond_tail in DA |- *.
  destruct (negb (is_known cvA)) eqn:KcA.
  - (* unknown condition *)
    destruct Hrt as [Hr|[-> [-> ->]]].
    + apply (cond_unk_gs rt cdsA tvA fvA xC _ ItA IfA IxC Hr At Af Hnum); [|exact PC].
      unfold xC. destruct b; [left; exact Gt|right; exact Gf].
    + (* both arms are literal nulls *)
      apply gsb_known_eq in Gt; [|reflexivity]. apply gsb_known_eq in Gf; [|reflexivity]. subst tvC fvC.
      rewrite cond_unk_cases. cbn [null_shape andb fst].
      destruct PC as [[-> _]|E].
      * unfold xC. destruct b; reflexivity.
      * unfold xC in E. assert (E' : conv (VNull TDyn) TDyn = COk (fst (cond_pick TDyn cdsC xC bdsC nc))) by (destruct b; exact E).
        assert (Ev : conv (VNull TDyn) TDyn = COk (VNull TDyn)) by (vm_compute; reflexivity).
        rewrite Ev in E'. injection E' as <-. reflexivity.
  - (* known condition *)
    destruct (conv cvA TBool) as [cbA| |] eqn:EcbA; [|kill DA|kill DA].
    pose proof (conv_gs_prim cvA cvC TBool cbA (VBool b) eq_refl IcA IcC Gc EcbA EcbC) as Gcb.
    destruct cbA; try (kill DA); try discriminate Gcb.
    simpl in Gcb. apply Bool.eqb_prop in Gcb. subst b0.
      set (bdsA := if b then tdsA else fdsA).
      assert (EA' : match VBool b with
                    | VBool true => cond_pick rt cdsA tvA tdsA tconv
                    | VBool false => cond_pick rt cdsA fvA fdsA fconv
                    | _ => (dyn_val, cdsA ++ [dunsupported]) end = cond_pick rt cdsA xA bdsA nc) by (destruct b; reflexivity).
      rewrite EA' in DA |- *.
      apply cond_pick_gs; try assumption.
      destruct Hrt as [Hr|[Et [Ef _]]]; [left; exact Hr|right]. unfold xA. destruct b; assumption.
Qed.


Lemma si_cond f ce te fe : SI f -> forall cA cC anA anC,
  in_fragment (ECond ce te fe) -> ctx_rel cA cC -> anon_rel anA anC ->
  clean (S f) cA anA (ECond ce te fe) = true -> clean (S f) cC anC (ECond ce te fe) = true ->
  gsb (fst (ev_ (S f) cA anA (ECond ce te fe))) (fst (ev_ (S f) cC anC (ECond ce te fe))) = true.
Proof.
  intros IH cA cC anA anC Fr R Ra KA KC. inversion Fr as [| | | | | | | | | |? ? ? Fc Ft Ff| | |]; subst.
  apply clean_S in KA as [DA [KAc [KAt [KAf [AtA [AfA RtA]]]]]].
  apply clean_S in KC as [DC [KCc [KCt [KCf [AtC [AfC RtC]]]]]].
  cbn [eval_with] in DA, DC |- *.
  destruct (ev_ f cA anA te) as [tvA tdA] eqn:EAt. destruct (ev_ f cC anC te) as [tvC tdC] eqn:ECt.
  destruct (ev_ f cA anA fe) as [fvA fdA] eqn:EAf. destruct (ev_ f cC anC fe) as [fvC fdC] eqn:ECf.
  destruct (sub_facts f te cA cC anA anC _ _ _ _ IH Ft R Ra KAt KCt EAt ECt) as [ItA [ItC [Gt [D1 D3]]]].
  destruct (sub_facts f fe cA cC anA anC _ _ _ _ IH Ff R Ra KAf KCf EAf ECf) as [IfA [IfC [Gf [D2 D4]]]].
  cbn [fst] in AtA, AfA, AtC, AfC, RtA, RtC.
  assert (U1 : has_unsupported tdA || has_unsupported fdA = false).
  { apply diag_ok_elim in D1 as [_ ->]. apply diag_ok_elim in D2 as [_ ->]. reflexivity. }
  assert (U2 : has_unsupported tdC || has_unsupported fdC = false).
  { apply diag_ok_elim in D3 as [_ ->]. apply diag_ok_elim in D4 as [_ ->]. reflexivity. }
  rewrite U1 in DA |- *. rewrite U2 in DC |- *.
  match type of DA with
  | context [match ?u with inl _ => _ | inr _ => _ end] => change u with (cond_uni tvA fvA) in DA |- *
  end.
  match type of DC with
  | context [match ?u with inl _ => _ | inr _ => _ end] => change u with (cond_uni tvC fvC) in DC |- *
  end.
  pose proof (cond_uni_eq tvA fvA tvC fvC Gt Gf AtA AfA) as Eu. rewrite <- Eu in DC |- *.
  unfold rt_ok in RtA.
  destruct (cond_uni tvA fvA) as [[[[rt tconv] fconv]|]|[|]] eqn:EuA; try (kill DA).
  destruct (cond_uni_flags tvA fvA rt tconv fconv AtA AfA EuA) as [_ [_ HnumA]].
  destruct (cond_uni_flags tvC fvC rt tconv fconv AtC AfC (eq_sym Eu)) as [FtC [FfC _]].
  destruct (ev_ f cA anA ce) as [cvA cdA] eqn:EAc. destruct (ev_ f cC anC ce) as [cvC cdC] eqn:ECc.
  destruct (sub_facts f ce cA cC anA anC _ _ _ _ IH Fc R Ra KAc KCc EAc ECc) as [IcA [IcC [Gc [D5 D6]]]].
  rewrite (inv_is_null _ IcA) in DA |- *. rewrite (inv_is_null _ IcC) in DC |- *.
  destruct (null_shape cvA) eqn:NcA; [kill DA|]. destruct (null_shape cvC) eqn:NcC; [kill DC|].
  rewrite (inv_unmark cvA IcA), (inv_unmark tvA ItA), (inv_unmark fvA IfA) in DA |- *.
  rewrite (inv_unmark cvC IcC), (inv_unmark tvC ItC), (inv_unmark fvC IfC) in DC |- *.
  rewrite (inv_deep_marks tvA ItA), (inv_deep_marks fvA IfA) in DA |- *.
  rewrite (inv_deep_marks tvC ItC), (inv_deep_marks fvC IfC) in DC |- *.
  change (marks_unions [[]; []; []]) with (@nil Z) in DA, DC |- *.
  rewrite marks_union_nil_nil in DA, DC |- *.
  match goal with
  | |- gsb (fst ?X) (fst ?Y) = true =>
      change X with (cond_tail rt tconv fconv cvA tvA fvA cdA tdA fdA) in DA |- *;
      change Y with (cond_tail rt tconv fconv cvC tvC fvC cdC tdC fdC) in DC |- *
  end.
  apply cond_tail_gs; try assumption.
  - apply (arm_ok_cases _ AtA).
  - apply (arm_ok_cases _ AfA).
  - (* the result type *)
    apply orb_true_iff in RtA as [H|H]; [left; apply negb_true_iff; exact H|right].
    apply andb_true_iff in H as [H1 H2]. apply is_dyn_null_eq in H1, H2. subst tvA fvA.
    repeat split. unfold cond_uni in EuA. simpl in EuA. injection EuA as <- _ _. reflexivity.
Qed.

(* ---- templates ---------------------------------------------------------------------------------------------- *)
Lemma is_prefix_refl a : is_prefix_of a a = true.
Proof. induction a as [|x a IH]; simpl; [reflexivity|]. rewrite Z.eqb_refl, IH. reflexivity. Qed.
Lemma is_prefix_app a c s : is_prefix_of a c = true -> is_prefix_of a (c ++ s) = true.
Proof.
  revert c. induction a as [|x a IH]; intros [|y c] H; simpl in *; try reflexivity; try discriminate.
  apply andb_true_iff in H as [H1 H2]. rewrite H1. simpl. apply IH. exact H2.
Qed.
Lemma is_prefix_firstn n a c : is_prefix_of a c = true -> is_prefix_of (firstn n a) c = true.
Proof.
  revert a c. induction n as [|n IH]; intros [|x a] [|y c] H; simpl in *; try reflexivity; try discriminate.
  apply andb_true_iff in H as [H1 H2]. rewrite H1. simpl. apply IH. exact H2.
Qed.

Definition tmpl_state := (list Z * bool * marks * list diag)%type.
Definition tmpl_rel (stA stC : tmpl_state) : Prop :=
  let '(bA, kA, _, _) := stA in let '(bC, kC, _, _) := stC in
  kC = true /\ (if kA then bA = bC else is_prefix_of bA bC = true).

(* the step of TemplateExpr.Value (copy of Impl.v, ETmpl; checked by conversion in [si_tmpl]) *)
Definition tmpl_step (ev : expr -> val * list diag) (st : tmpl_state) (p : expr) : tmpl_state :=
  let '(buf, known, mk, ds) := st in
  let '(pv, pds) := ev p in
  let ds := ds ++ pds in
  if is_null pv then (buf, known, mk, ds ++ [derr S_InvalidTemplateInterp []])
  else
  let '(pu, pm) := unmark pv in
  let mk := marks_union mk pm in
  if negb (is_known pv) then (buf, false, mk, ds)
  else match conv pu TStr with
       | CUnsupported => (buf, known, mk, ds ++ [dunsupported])
       | CErr ce => (buf, known, mk, ds ++ [derr S_InvalidTemplateInterp [FConv ce]])
       | COk (VStr s) => if known && negb (has_errors ds) then (buf ++ s, known, mk, ds) else (buf, known, mk, ds)
       | COk _ => (buf, known, mk, ds ++ [dunsupported])
       end.

Lemma tmpl_step_mono ev st p : diag_ok (tmpl_ds (tmpl_step ev st p)) = true -> diag_ok (tmpl_ds st) = true.
Proof.
  destruct st as [[[buf known] mk] ds]. unfold tmpl_step. intros D.
  repeat match type of D with
         | diag_ok (tmpl_ds (match ?x with _ => _ end)) = true => destruct_scrut x
         end;
  cbn [tmpl_ds] in D |- *; repeat rewrite diag_ok_app in D;
  repeat match type of D with (_ && _ = true) => apply andb_true_iff in D as [D _] end; exact D.
Qed.

Lemma tmpl_fold_rel evA evC : forall ps stA stC,
  (forall p, In p ps -> inv (fst (evA p)) = true /\ inv (fst (evC p)) = true /\ gsb (fst (evA p)) (fst (evC p)) = true) ->
  tmpl_rel stA stC ->
  diag_ok (tmpl_ds (fold_left (tmpl_step evA) ps stA)) = true ->
  diag_ok (tmpl_ds (fold_left (tmpl_step evC) ps stC)) = true ->
  tmpl_rel (fold_left (tmpl_step evA) ps stA) (fold_left (tmpl_step evC) ps stC).
Proof.
  induction ps as [|p ps IH]; intros stA stC Hp Hr DA DC; simpl in *; [exact Hr|].
  apply IH; try assumption; [intros q Hq; apply Hp; right; exact Hq|].
  pose proof (fold_ds_ok (tmpl_step evA) tmpl_ds (tmpl_step_mono evA) ps _ DA) as DsA.
  pose proof (fold_ds_ok (tmpl_step evC) tmpl_ds (tmpl_step_mono evC) ps _ DC) as DsC.
  destruct (Hp p (or_introl eq_refl)) as [IA [IC G]].
  destruct stA as [[[bA kA] mA] dA]. destruct stC as [[[bC kC] mC] dC]. destruct Hr as [-> Hr].
  unfold tmpl_step in DsA, DsC |- *.
  destruct (evA p) as [pvA pdA]. destruct (evC p) as [pvC pdC]. cbn [fst] in IA, IC, G.
  pose proof (gsb_wk _ _ G) as WC.
  rewrite (inv_is_null _ IA) in DsA |- *. rewrite (inv_is_null _ IC) in DsC |- *.
  destruct (null_shape pvA) eqn:NA; [exfalso; cbn [tmpl_ds] in DsA; rewrite diag_ok_app, andb_false_r in DsA; discriminate|].
  destruct (null_shape pvC) eqn:NC; [exfalso; cbn [tmpl_ds] in DsC; rewrite diag_ok_app, andb_false_r in DsC; discriminate|].
  rewrite (inv_unmark pvA IA) in DsA |- *. rewrite (inv_unmark pvC IC) in DsC |- *.
  assert (KC : is_known pvC = true).
  { rewrite (inv_is_known _ IC). destruct pvC; try reflexivity. discriminate WC. }
  rewrite KC in DsC |- *. cbn [negb] in DsC |- *.
  destruct (conv pvC TStr) as [ksC| |] eqn:EC;
    try (exfalso; cbn [tmpl_ds] in DsC; rewrite diag_ok_app, andb_false_r in DsC; discriminate).
  destruct (conv_prim_known_shape pvC TStr ksC WC IC NC eq_refl EC) as [s ->].
  assert (HeC : has_errors (dC ++ pdC) = false).
  { destruct (true && negb (has_errors (dC ++ pdC))) eqn:Hc; cbn [tmpl_ds] in DsC; apply diag_ok_elim in DsC; tauto. }
  rewrite HeC in DsC |- *. cbn [andb negb] in DsC |- *.
  destruct (negb (is_known pvA)) eqn:KA.
  - (* unknown part: the buffer is frozen *)
    split; [reflexivity|]. destruct kA; [subst bC; apply is_prefix_app, is_prefix_refl|apply is_prefix_app; exact Hr].
  - destruct (conv pvA TStr) as [ksA| |] eqn:EA;
      try (exfalso; cbn [tmpl_ds] in DsA; rewrite diag_ok_app, andb_false_r in DsA; discriminate).
    pose proof (conv_gs_prim pvA pvC TStr ksA (VStr s) eq_refl IA IC G EA EC) as Gk.
    destruct ksA; try (exfalso; cbn [tmpl_ds] in DsA; rewrite diag_ok_app, andb_false_r in DsA; discriminate).
    simpl in Gk. apply str_eqb_eq in Gk. subst s0.
    assert (HeA : has_errors (dA ++ pdA) = false).
    { destruct (kA && negb (has_errors (dA ++ pdA))) eqn:Hc; cbn [tmpl_ds] in DsA; apply diag_ok_elim in DsA; tauto. }
    rewrite HeA. cbn [negb]. rewrite andb_true_r.
    destruct kA; cbn [tmpl_rel]; (split; [reflexivity|]).
    + subst bC. reflexivity.
    + apply is_prefix_app. exact Hr.
Qed.

Lemma tmpl_fold_mk_nil ev : forall ps st,
  (forall p, In p ps -> inv (fst (ev p)) = true) -> tmpl_mk_nil st -> tmpl_mk_nil (fold_left (tmpl_step ev) ps st).
Proof.
  induction ps as [|p ps IHp]; intros st Hp Hst; simpl; [exact Hst|].
  apply IHp; [intros q Hq; apply Hp; right; exact Hq|].
  destruct st as [[[buf known] mk] ds]. simpl in Hst. subst mk. unfold tmpl_step.
  pose proof (Hp p (or_introl eq_refl)) as Ip. destruct (ev p) as [pv pds]. simpl in Ip.
  destruct (is_null pv); [reflexivity|]. rewrite (inv_unmark pv Ip). rewrite marks_union_nil_nil.
  destruct (negb (is_known pv)); [reflexivity|].
  destruct (conv pv TStr) as [ks| |]; try reflexivity.
  destruct ks; try reflexivity. destruct (known && negb (has_errors (ds ++ pds))); reflexivity.
Qed.

Lemma si_tmpl f parts : SI f -> forall cA cC anA anC,
  in_fragment (ETmpl parts) -> ctx_rel cA cC -> anon_rel anA anC ->
  clean (S f) cA anA (ETmpl parts) = true -> clean (S f) cC anC (ETmpl parts) = true ->
  gsb (fst (ev_ (S f) cA anA (ETmpl parts))) (fst (ev_ (S f) cC anC (ETmpl parts))) = true.
Proof.
  intros IH cA cC anA anC Fr R Ra KA KC. inversion Fr as [| | | | | | | | | | |? Fp| |]; subst.
  apply clean_S in KA as [DA KA']. apply clean_S in KC as [DC KC'].
  cbn [eval_with] in DA, DC |- *.
  change (fold_left _ parts ([], true, [], [])) with (fold_left (tmpl_step (ev_ f cA anA)) parts ([], true, [], [])) in DA |- * at 1.
  match type of DC with
  | context [fold_left ?stp parts ?init] =>
      change (fold_left stp parts init) with (fold_left (tmpl_step (ev_ f cC anC)) parts ([], true, [], [])) in DC |- *
  end.
  assert (Hp : forall p, In p parts ->
            inv (fst (ev_ f cA anA p)) = true /\ inv (fst (ev_ f cC anC p)) = true /\
            gsb (fst (ev_ f cA anA p)) (fst (ev_ f cC anC p)) = true).
  { intros p Hin. rewrite forallb_Forall in KA', KC'. rewrite Forall_forall in *.
    destruct (ev_ f cA anA p) as [vA dA] eqn:EA. destruct (ev_ f cC anC p) as [vC dC] eqn:EC.
    destruct (sub_facts f p cA cC anA anC vA dA vC dC IH (Fp p Hin) R Ra (KA' p Hin) (KC' p Hin) EA EC) as [I1 [I2 [G _]]].
    auto. }
  assert (DfA : diag_ok (tmpl_ds (fold_left (tmpl_step (ev_ f cA anA)) parts ([], true, [], []))) = true).
  { destruct (fold_left (tmpl_step (ev_ f cA anA)) parts ([], true, [], [])) as [[[b k] m] d]. exact DA. }
  assert (DfC : diag_ok (tmpl_ds (fold_left (tmpl_step (ev_ f cC anC)) parts ([], true, [], []))) = true).
  { destruct (fold_left (tmpl_step (ev_ f cC anC)) parts ([], true, [], [])) as [[[b k] m] d]. exact DC. }
  pose proof (tmpl_fold_rel (ev_ f cA anA) (ev_ f cC anC) parts ([], true, [], []) ([], true, [], []) Hp
                (conj eq_refl eq_refl) DfA DfC) as Hr.
  pose proof (tmpl_fold_mk_nil (ev_ f cA anA) parts ([], true, [], []) (fun p Hin => proj1 (Hp p Hin)) eq_refl) as MA.
  pose proof (tmpl_fold_mk_nil (ev_ f cC anC) parts ([], true, [], []) (fun p Hin => proj1 (proj2 (Hp p Hin))) eq_refl) as MC.
  destruct (fold_left (tmpl_step (ev_ f cA anA)) parts ([], true, [], [])) as [[[bA kA] mA] dA].
  destruct (fold_left (tmpl_step (ev_ f cC anC)) parts ([], true, [], [])) as [[[bC kC] mC] dC].
  destruct Hr as [-> Hr]. simpl in MA, MC. subst mA mC. cbn [negb fst snd with_marks] in DA, DC |- *.
  destruct kA; cbn [negb].
  - subst bC. simpl. apply str_eqb_refl.
  - destruct (negb (has_errors dA) && negb (str_eqb bA [])); [|reflexivity].
    unfold gsb, conc. cbn [wholly_known type_of conf ty_eqb refn_ok r_prefix andb].
    apply is_prefix_firstn. exact Hr.
Qed.

(* ---- object constructor ----------------------------------------------------------------------------------------- *)
Definition obj_state := (list (list Z * val) * list marks * bool * list diag)%type.
Definition obj_step (ev : expr -> val * list diag) (st : obj_state) (it : expr * expr) : obj_state :=
  let '(vals, mks, known, ds) := st in
  let '(k, kds) := ev (fst it) in
  let '(v, vds) := ev (snd it) in
  let ds := ds ++ kds ++ vds in
  if has_errors kds then (vals, mks, false, ds)
  else if is_null k then (vals, mks, false, ds ++ [derr S_NullKey []])
  else
  let '(ku, km) := unmark k in
  let mks := mks ++ [km] in
  match conv ku TStr with
  | CUnsupported => (vals, mks, false, ds ++ [dunsupported])
  | CErr ce => (vals, mks, false, ds ++ [derr S_IncorrectKeyType [FConv ce]])
  | COk ks =>
      match ks with
      | VStr s => (assoc_set s v vals, mks, known, ds)
      | _ => (vals, mks, false, ds)
      end
  end.

Definition kv_rel (p q : list Z * val) : bool := str_eqb (fst p) (fst q) && gsb (snd p) (snd q).
Definition obj_rel (stA stC : obj_state) : Prop :=
  let '(vA, _, kA, _) := stA in let '(vC, _, kC, _) := stC in
  kC = true /\ Forall (fun p => wholly_known (snd p) = true) vC /\ (kA = true -> all2 kv_rel vA vC = true).

Lemma obj_step_mono ev st it : diag_ok (obj_ds (obj_step ev st it)) = true -> diag_ok (obj_ds st) = true.
Proof.
  destruct st as [[[vals mks] known] ds]. unfold obj_step. intros D.
  repeat match type of D with
         | diag_ok (obj_ds (match ?x with _ => _ end)) = true => destruct_scrut x
         end;
  cbn [obj_ds] in D |- *; repeat rewrite diag_ok_app in D;
  repeat match type of D with (_ && _ = true) => apply andb_true_iff in D as [D _] end; exact D.
Qed.

Lemma assoc_set_all2 s v v' la lc :
  all2 kv_rel la lc = true -> gsb v v' = true -> all2 kv_rel (assoc_set s v la) (assoc_set s v' lc) = true.
Proof.
  intros H G. revert lc H. induction la as [|[ka xa] ra IH]; intros [|[kc xc] rc] H; simpl in *; try discriminate.
  - unfold kv_rel. simpl. rewrite str_eqb_refl, G. reflexivity.
  - apply andb_true_iff in H as [H1 H2]. unfold kv_rel in H1. simpl in H1. apply andb_true_iff in H1 as [Hk Hx].
    apply str_eqb_eq in Hk. subst kc.
    destruct (str_eqb s ka).
    + simpl. unfold kv_rel at 1. simpl. rewrite str_eqb_refl, G. exact H2.
    + destruct (str_ltb s ka).
      * simpl. unfold kv_rel at 1. simpl. rewrite str_eqb_refl, G. simpl.
        unfold kv_rel at 1. simpl. rewrite str_eqb_refl, Hx. exact H2.
      * simpl. unfold kv_rel at 1. simpl. rewrite str_eqb_refl, Hx. simpl. apply IH. exact H2.
Qed.

Lemma assoc_set_wk s v (l : list (list Z * val)) :
  wholly_known v = true -> Forall (fun p => wholly_known (snd p) = true) l ->
  Forall (fun p => wholly_known (snd p) = true) (assoc_set s v l).
Proof.
  intros W. induction l as [|[k' v'] r IHl]; intros F; simpl.
  - constructor; [exact W|constructor].
  - inversion F; subst. destruct (str_eqb s k'); [constructor; assumption|].
    destruct (str_ltb s k'); [constructor; [exact W|exact F]|]. constructor; auto.
Qed.

Definition item_facts (evA evC : expr -> val * list diag) (e : expr) : Prop :=
  inv (fst (evA e)) = true /\ inv (fst (evC e)) = true /\ gsb (fst (evA e)) (fst (evC e)) = true /\
  diag_ok (snd (evA e)) = true /\ diag_ok (snd (evC e)) = true.

Lemma obj_fold_rel evA evC : forall its stA stC,
  (forall it, In it its -> item_facts evA evC (fst it) /\ item_facts evA evC (snd it)) ->
  obj_rel stA stC ->
  diag_ok (obj_ds (fold_left (obj_step evA) its stA)) = true ->
  diag_ok (obj_ds (fold_left (obj_step evC) its stC)) = true ->
  obj_rel (fold_left (obj_step evA) its stA) (fold_left (obj_step evC) its stC).
Proof.
  induction its as [|it its IH]; intros stA stC Hp Hr DA DC; simpl in *; [exact Hr|].
  apply IH; try assumption; [intros q Hq; apply Hp; right; exact Hq|].
  pose proof (fold_ds_ok (obj_step evA) obj_ds (obj_step_mono evA) its _ DA) as DsA.
  pose proof (fold_ds_ok (obj_step evC) obj_ds (obj_step_mono evC) its _ DC) as DsC.
  destruct (Hp it (or_introl eq_refl)) as [[IkA [IkC [Gk [DkA DkC]]]] [IvA [IvC [Gv _]]]].
  destruct stA as [[[vA mA] kA] dA]. destruct stC as [[[vC mC] kC] dC]. destruct Hr as [-> [WvC Hr]].
  unfold obj_step in DsA, DsC |- *.
  destruct (evA (fst it)) as [keyA kdA]. destruct (evC (fst it)) as [keyC kdC].
  destruct (evA (snd it)) as [valA vdA]. destruct (evC (snd it)) as [valC vdC].
  cbn [fst snd] in *.
  apply diag_ok_elim in DkA as [HkA _]. apply diag_ok_elim in DkC as [HkC _].
  rewrite HkA in DsA |- *. rewrite HkC in DsC |- *.
  pose proof (gsb_wk _ _ Gk) as WkC. pose proof (gsb_wk _ _ Gv) as WvalC.
  rewrite (inv_is_null _ IkA) in DsA |- *. rewrite (inv_is_null _ IkC) in DsC |- *.
  destruct (null_shape keyA) eqn:NA; [exfalso; cbn [obj_ds] in DsA; rewrite !diag_ok_app, !andb_false_r in DsA; discriminate|].
  destruct (null_shape keyC) eqn:NC; [exfalso; cbn [obj_ds] in DsC; rewrite !diag_ok_app, !andb_false_r in DsC; discriminate|].
  rewrite (inv_unmark keyA IkA) in DsA |- *. rewrite (inv_unmark keyC IkC) in DsC |- *.
  destruct (conv keyC TStr) as [ksC| |] eqn:EC;
    try (exfalso; cbn [obj_ds] in DsC; rewrite !diag_ok_app, !andb_false_r in DsC; discriminate).
  destruct (conv_prim_known_shape keyC TStr ksC WkC IkC NC eq_refl EC) as [s ->].
  destruct (conv keyA TStr) as [ksA| |] eqn:EA;
    try (exfalso; cbn [obj_ds] in DsA; rewrite !diag_ok_app, !andb_false_r in DsA; discriminate).
  pose proof (conv_gs_prim keyA keyC TStr ksA (VStr s) eq_refl IkA IkC Gk EA EC) as Gks.
  assert (WC' : Forall (fun p : list Z * val => wholly_known (snd p) = true) (assoc_set s valC vC))
    by (apply assoc_set_wk; assumption).
  destruct ksA; try (cbn [obj_rel]; split; [reflexivity|split; [exact WC'|discriminate]]).
  simpl in Gks. apply str_eqb_eq in Gks. subst s0.
  cbn [obj_rel]. split; [reflexivity|]. split; [exact WC'|].
  intros Hk. apply assoc_set_all2; [apply Hr; exact Hk|exact Gv].
Qed.

Lemma obj_fold_mk_nil ev : forall its st,
  (forall it, In it its -> inv (fst (ev (fst it))) = true) -> obj_inv_st st ->
  (forall it, In it its -> inv (fst (ev (snd it))) = true) ->
  obj_inv_st (fold_left (obj_step ev) its st).
Proof.
  induction its as [|it its IHi]; intros st Hk Hst Hv; simpl; [exact Hst|].
  apply IHi; [intros q Hq; apply Hk; right; exact Hq| |intros q Hq; apply Hv; right; exact Hq].
  destruct st as [[[vals mks] known] ds]. destruct Hst as [Hvals Hm]. unfold obj_step.
  pose proof (Hk it (or_introl eq_refl)) as Ik. destruct (ev (fst it)) as [k kds]. simpl in Ik.
  pose proof (Hv it (or_introl eq_refl)) as Iv. destruct (ev (snd it)) as [v vds]. simpl in Iv.
  destruct (has_errors kds); [split; assumption|].
  destruct (is_null k); [split; assumption|].
  rewrite (inv_unmark k Ik).
  assert (Hm' : Forall (fun m : marks => m = []) (mks ++ [[]])).
  { apply Forall_app. split; [exact Hm|constructor; [reflexivity|constructor]]. }
  destruct (conv k TStr) as [ks| |]; try (split; assumption).
  destruct ks; try (split; assumption). split; [apply assoc_set_inv; assumption|exact Hm'].
Qed.

Lemma si_obj f items : SI f -> forall cA cC anA anC,
  in_fragment (EObj items) -> ctx_rel cA cC -> anon_rel anA anC ->
  clean (S f) cA anA (EObj items) = true -> clean (S f) cC anC (EObj items) = true ->
  gsb (fst (ev_ (S f) cA anA (EObj items))) (fst (ev_ (S f) cC anC (EObj items))) = true.
Proof.
  intros IH cA cC anA anC Fr R Ra KA KC. inversion Fr as [| | | | |? Fi| | | | | | | |]; subst.
  apply clean_S in KA as [DA KA']. apply clean_S in KC as [DC KC'].
  cbn [eval_with] in DA, DC |- *.
  change (fold_left _ items ([], [], true, [])) with (fold_left (obj_step (ev_ f cA anA)) items ([], [], true, [])) in DA |- * at 1.
  match type of DC with
  | context [fold_left ?stp items ?init] =>
      change (fold_left stp items init) with (fold_left (obj_step (ev_ f cC anC)) items ([], [], true, [])) in DC |- *
  end.
  assert (Hf : forall e, in_fragment e -> clean f cA anA e = true -> clean f cC anC e = true ->
            item_facts (ev_ f cA anA) (ev_ f cC anC) e).
  { intros e Fe K1 K2. unfold item_facts.
    destruct (ev_ f cA anA e) as [vA dA] eqn:EA. destruct (ev_ f cC anC e) as [vC dC] eqn:EC.
    destruct (sub_facts f e cA cC anA anC vA dA vC dC IH Fe R Ra K1 K2 EA EC) as [I1 [I2 [G [D1 D2]]]]. auto. }
  assert (Hp : forall it, In it items ->
            item_facts (ev_ f cA anA) (ev_ f cC anC) (fst it) /\ item_facts (ev_ f cA anA) (ev_ f cC anC) (snd it)).
  { intros it Hin. rewrite forallb_Forall in KA', KC'. rewrite Forall_forall in *.
    destruct (Fi it Hin) as [Fk Fv].
    pose proof (KA' it Hin) as K1. pose proof (KC' it Hin) as K2.
    apply andb_true_iff in K1 as [K1k K1v]. apply andb_true_iff in K2 as [K2k K2v].
    split; apply Hf; assumption. }
  assert (DfA : diag_ok (obj_ds (fold_left (obj_step (ev_ f cA anA)) items ([], [], true, []))) = true).
  { destruct (fold_left (obj_step (ev_ f cA anA)) items ([], [], true, [])) as [[[v m] k] d]. destruct (negb k); exact DA. }
  assert (DfC : diag_ok (obj_ds (fold_left (obj_step (ev_ f cC anC)) items ([], [], true, []))) = true).
  { destruct (fold_left (obj_step (ev_ f cC anC)) items ([], [], true, [])) as [[[v m] k] d]. destruct (negb k); exact DC. }
  assert (R0 : obj_rel ([], [], true, []) ([], [], true, [])) by (split; [reflexivity|split; [constructor|reflexivity]]).
  pose proof (obj_fold_rel (ev_ f cA anA) (ev_ f cC anC) items _ _ Hp R0 DfA DfC) as Hr.
  assert (I0 : obj_inv_st ([], [], true, [])) by (split; constructor).
  pose proof (obj_fold_mk_nil (ev_ f cA anA) items _ (fun it Hin => proj1 (proj1 (Hp it Hin))) I0
                (fun it Hin => proj1 (proj2 (Hp it Hin)))) as MA.
  pose proof (obj_fold_mk_nil (ev_ f cC anC) items _ (fun it Hin => proj1 (proj2 (proj1 (Hp it Hin)))) I0
                (fun it Hin => proj1 (proj2 (proj2 (Hp it Hin))))) as MC.
  destruct (fold_left (obj_step (ev_ f cA anA)) items ([], [], true, [])) as [[[vA mA] kA] dA].
  destruct (fold_left (obj_step (ev_ f cC anC)) items ([], [], true, [])) as [[[vC mC] kC] dC].
  destruct Hr as [-> [WC Hr]]. destruct MA as [_ MA]. destruct MC as [_ MC].
  rewrite (marks_unions_nil _ MA), (marks_unions_nil _ MC). cbn [negb fst with_marks].
  destruct kA; cbn [negb fst with_marks].
  - simpl. apply (Hr eq_refl).
  - apply gsb_dyn_val. simpl. apply forallb_Forall. exact WC.
Qed.

(* ---- the theorem for the fragment ------------------------------------------------------------------------------ *)
Theorem si_all : forall f, SI f.
Proof.
  induction f as [|f IH]; intros e cA cC anA anC Fr R Ra KA KC; [discriminate KA|].
  destruct Fr as [v Hl|root steps Hs|src steps Fs Hs|a b Fa Fb|es Fes|items Fi|w force Fw|
                  |op l r Fl Frr|op e Fe|ce te fe Fc Ft Ff|parts Fp|e Fe|e Fe].
  - cbn [eval_with fst]. unfold lit_ok in Hl. apply andb_true_iff in Hl as [W I]. apply (gsb_refl_inv v W I).
  - apply clean_S in KA as [DA _]. apply clean_S in KC as [DC _]. cbn [eval_with] in *.
    apply (si_scope root steps cA cC Hs R DA DC).
  - apply (si_reltrav f src steps IH cA cC anA anC (F_rel _ _ Fs Hs) R Ra KA KC).
  - apply (si_index f a b IH cA cC anA anC (F_index _ _ Fa Fb) R Ra KA KC).
  - apply (si_tuple f es IH cA cC anA anC (F_tuple _ Fes) R Ra KA KC).
  - apply (si_obj f items IH cA cC anA anC (F_obj _ Fi) R Ra KA KC).
  - apply (si_objkey f w force IH cA cC anA anC (F_objkey _ _ Fw) R Ra KA KC).
  - apply clean_S in KA as [_ KA']. cbn [eval_with fst]. unfold anon_rel in Ra.
    destruct anA as [x|], anC as [y|]; try contradiction; [tauto|discriminate KA'].
  - apply (si_bin f op l r IH cA cC anA anC (F_bin _ _ _ Fl Frr) R Ra KA KC).
  - apply (si_un f op e IH cA cC anA anC (F_un _ _ Fe) R Ra KA KC).
  - apply (si_cond f ce te fe IH cA cC anA anC (F_cond _ _ _ Fc Ft Ff) R Ra KA KC).
  - apply (si_tmpl f parts IH cA cC anA anC (F_tmpl _ Fp) R Ra KA KC).
  - apply clean_S in KA as [_ KA']. apply clean_S in KC as [_ KC']. cbn [eval_with].
    apply (IH e cA cC anA anC Fe R Ra KA' KC').
  - apply clean_S in KA as [_ KA']. apply clean_S in KC as [_ KC']. cbn [eval_with].
    apply (IH e cA cC anA anC Fe R Ra KA' KC').
Qed.

Theorem unknown_sound_partial : forall fuel e cA cC anA anC,
  in_fragment e -> ctx_rel cA cC -> anon_rel anA anC ->
  clean fuel cA anA e = true -> clean fuel cC anC e = true ->
  gamma_strict (fst (eval fuel cA anA e)) (fst (eval fuel cC anC e)).
Proof.
  intros fuel e cA cC anA anC Fr R Ra KA KC. unfold eval.
  destruct (ctx_rel_inv _ _ R) as [CiA CiC]. destruct (anon_rel_inv _ _ Ra) as [AiA AiC].
  apply gamma_strict_inv.
  - apply (iv_all fuel cA anA e Fr CiA AiA).
  - apply (iv_all fuel cC anC e Fr CiC AiC).
  - apply (si_all fuel e cA cC anA anC Fr R Ra KA KC).
Qed.

Corollary unknown_sound_partial_gamma : forall fuel e cA cC anA anC,
  in_fragment e -> ctx_rel cA cC -> anon_rel anA anC ->
  clean fuel cA anA e = true -> clean fuel cC anC e = true ->
  gamma (fst (eval fuel cA anA e)) (fst (eval fuel cC anC e)).
Proof. intros. apply gamma_strict_gamma. apply unknown_sound_partial; assumption. Qed.

(* the concrete run of the theorem produces a wholly known value *)
Corollary unknown_sound_concrete_known : forall fuel e cA cC anA anC,
  in_fragment e -> ctx_rel cA cC -> anon_rel anA anC ->
  clean fuel cA anA e = true -> clean fuel cC anC e = true ->
  wholly_known (fst (eval fuel cC anC e)) = true.
Proof.
  intros fuel e cA cC anA anC Fr R Ra KA KC. unfold eval.
  apply (gsb_wk _ _ (si_all fuel e cA cC anA anC Fr R Ra KA KC)).
Qed.

(* ---- the full statement, and why it does not hold for the faithful model ------------------------------------- *)
(* contract for the functions of the context: calls are monotone for gamma *)
Definition fn_mono (f : fn) : Prop := forall argsA argsC vA vC,
  Forall2 gamma argsA argsC -> fn_call f argsA = CallOk vA -> fn_call f argsC = CallOk vC -> gamma vA vC.
Definition ctx_fns_mono (c : ctx) : Prop :=
  forall fr fs name f, In fr c -> ffuncs fr = Some fs -> assoc_get name fs = Some f -> fn_mono f.

(* whole language; [expr_ok]: literals wholly known, the anonymous symbol used only where bound *)
Definition unknown_sound_stmt : Prop := forall fuel e cA cC anA anC vA dA vC dC,
  ctx_rel cA cC -> anon_rel anA anC -> ctx_fns_mono cA -> expr_ok (is_some anA) e = true ->
  eval fuel cA anA e = (vA, dA) -> eval fuel cC anC e = (vC, dC) ->
  has_errors dA = false -> has_unsupported dA = false ->
  has_errors dC = false -> has_unsupported dC = false ->
  gamma vA vC.

(* Witness 1 (ConditionalExpr, known condition, one arm of unknown dynamic type): no conversion is
   planned abstractly ("the final resultType type is still unknown"), concretely the arms are unified.
     x = unknown(dynamic)  :  false ? x : 1          = 1       (number)
     x = "a"               :  false ? x : 1          = "1"     (string)
   The strict relation fails, the relation with conversion holds; but one operator later:
     (false ? x : 1) == 1  = true   abstractly,   false   for x = "a". *)
Definition w_x : list Z := [120].
Definition w1_ctxA : ctx := [mkFrame (Some [(w_x, dyn_val)]) None].
Definition w1_ctxC : ctx := [mkFrame (Some [(w_x, VStr [97])]) None].
Definition w1_expr : expr := ECond (ELit (VBool false)) (EScopeTrav w_x []) (ELit (VNum (nz 1))).
Definition w1_expr_eq : expr := EBin OpEq w1_expr (ELit (VNum (nz 1))).

Lemma w1_ctx_rel : ctx_rel w1_ctxA w1_ctxC.
Proof.
  constructor; [|constructor]. split; [|reflexivity]. simpl.
  constructor; [|constructor]. unfold var_rel. simpl. repeat split; reflexivity.
Qed.
Lemma w1_in_fragment : in_fragment w1_expr.
Proof. repeat constructor. Qed.

Lemma cond_dyn_arm_refuted :
  value w1_ctxA w1_expr = (VNum (nz 1), []) /\ value w1_ctxC w1_expr = (VStr [49], []) /\
  gsb (VNum (nz 1)) (VStr [49]) = false /\ gammab (VNum (nz 1)) (VStr [49]) = true.
Proof. repeat split; vm_compute; reflexivity. Qed.

Lemma cond_dyn_arm_eq_refuted :
  value w1_ctxA w1_expr_eq = (VBool true, []) /\ value w1_ctxC w1_expr_eq = (VBool false, []) /\
  gammab (VBool true) (VBool false) = false.
Proof. repeat split; vm_compute; reflexivity. Qed.

(* Witness 2 (ConditionalExpr, known condition): the UNSELECTED arm fails concretely; its
   diagnostics are dropped but its value (DynamicVal) took part in choosing the result type.
     m = {a = "b"}, x = unknown(string) :  true ? 1 : m[x]   = "1"   (unify(number, string) = string)
     m = {a = "b"}, x = "z"             :  true ? 1 : m[x]   = 1     (m["z"] fails -> DynamicVal, dropped)
   and   (true ? 1 : m[x]) == "1"  = true abstractly, false for x = "z". *)
Definition w_m : list Z := [109].
Definition w2_map : val := VMap TStr [([97], VStr [98])].
Definition w2_ctxA : ctx := [mkFrame (Some [(w_m, w2_map); (w_x, VUnk TStr rf_none)]) None].
Definition w2_ctxC : ctx := [mkFrame (Some [(w_m, w2_map); (w_x, VStr [122])]) None].
Definition w2_expr : expr :=
  ECond (ELit (VBool true)) (ELit (VNum (nz 1))) (EIndex (EScopeTrav w_m []) (EScopeTrav w_x [])).
Definition w2_expr_eq : expr := EBin OpEq w2_expr (ELit (VStr [49])).

Lemma w2_ctx_rel : ctx_rel w2_ctxA w2_ctxC.
Proof.
  constructor; [|constructor]. split; [|reflexivity]. simpl.
  constructor; [|constructor; [|constructor]]; unfold var_rel; simpl; repeat split; reflexivity.
Qed.

Lemma cond_unselected_arm_refuted :
  value w2_ctxA w2_expr = (VStr [49], []) /\ value w2_ctxC w2_expr = (VNum (nz 1), []) /\
  gsb (VStr [49]) (VNum (nz 1)) = false /\ gammab (VStr [49]) (VNum (nz 1)) = true.
Proof. repeat split; vm_compute; reflexivity. Qed.

Lemma cond_unselected_arm_eq_refuted :
  value w2_ctxA w2_expr_eq = (VBool true, []) /\ value w2_ctxC w2_expr_eq = (VBool false, []) /\
  gammab (VBool true) (VBool false) = false.
Proof. repeat split; vm_compute; reflexivity. Qed.

(* the hypotheses of [unknown_sound_partial] that exclude the two witnesses *)
Lemma w1_not_clean : clean 3 w1_ctxA None w1_expr = false.
Proof. vm_compute. reflexivity. Qed.
Lemma w2_not_clean : clean 4 w2_ctxC None w2_expr = false.
Proof. vm_compute. reflexivity. Qed.

Theorem unknown_sound_stmt_refuted : ~ unknown_sound_stmt.
Proof.
  intros H.
  assert (G : gamma (VBool true) (VBool false)).
  { apply (H (S (expr_size w1_expr_eq)) w1_expr_eq w1_ctxA w1_ctxC None None (VBool true) [] (VBool false) []).
    - exact w1_ctx_rel.
    - exact I.
    - intros fr fs name f Hin Hf. destruct Hin as [<-|[]]. discriminate Hf.
    - vm_compute. reflexivity.
    - vm_compute. reflexivity.
    - vm_compute. reflexivity.
    - reflexivity.
    - reflexivity.
    - reflexivity.
    - reflexivity. }
  vm_compute in G. discriminate G.
Qed.

(* ---- a sub-fragment where "no error in the result" already means "no error anywhere" ---------------------------
   No conditional and no && / ||: every diagnostic of a sub-evaluation reaches the result, so the
   theorem holds in the plain form (both evaluations without errors and without S_Unsupported). *)
Definition is_logic_op (o : binop) : bool := match o with OpOr | OpAnd => true | _ => false end.

Inductive in_fragment_acc : expr -> Prop :=
| A_lit v : lit_ok v = true -> in_fragment_acc (ELit v)
| A_scope root steps : forallb step_inv steps = true -> in_fragment_acc (EScopeTrav root steps)
| A_rel src steps : in_fragment_acc src -> forallb step_inv steps = true -> in_fragment_acc (ERelTrav src steps)
| A_index a b : in_fragment_acc a -> in_fragment_acc b -> in_fragment_acc (EIndex a b)
| A_tuple es : Forall in_fragment_acc es -> in_fragment_acc (ETuple es)
| A_obj items : Forall (fun it => in_fragment_acc (fst it) /\ in_fragment_acc (snd it)) items -> in_fragment_acc (EObj items)
| A_objkey w force : in_fragment_acc w -> in_fragment_acc (EObjKey w force)
| A_bin op l r : is_logic_op op = false -> in_fragment_acc l -> in_fragment_acc r -> in_fragment_acc (EBin op l r)
| A_un op e : in_fragment_acc e -> in_fragment_acc (EUn op e)
| A_tmpl parts : Forall in_fragment_acc parts -> in_fragment_acc (ETmpl parts)
| A_wrap e : in_fragment_acc e -> in_fragment_acc (EWrap e)
| A_paren e : in_fragment_acc e -> in_fragment_acc (EParen e).

Lemma tmpl_step_part ev st p : diag_ok (tmpl_ds (tmpl_step ev st p)) = true -> diag_ok (snd (ev p)) = true.
Proof.
  destruct st as [[[buf known] mk] ds]. unfold tmpl_step. intros D.
  destruct (ev p) as [pv pds]. cbn [snd].
  repeat match type of D with
         | diag_ok (tmpl_ds (match ?x with _ => _ end)) = true => destruct_scrut x
         end;
  cbn [tmpl_ds] in D; repeat rewrite diag_ok_app in D;
  repeat match type of D with (_ && _ = true) => let H := fresh in apply andb_true_iff in D as [D H] end;
  assumption.
Qed.

Lemma tmpl_fold_parts ev : forall ps st, diag_ok (tmpl_ds (fold_left (tmpl_step ev) ps st)) = true ->
  forall p, In p ps -> diag_ok (snd (ev p)) = true.
Proof.
  induction ps as [|q ps IH]; intros st D p Hin; [contradiction|]. simpl in D. destruct Hin as [<-|Hin].
  - apply (tmpl_step_part ev st q). apply (fold_ds_ok (tmpl_step ev) tmpl_ds (tmpl_step_mono ev) ps _ D).
  - apply (IH _ D p Hin).
Qed.

Lemma obj_step_part ev st it : diag_ok (obj_ds (obj_step ev st it)) = true ->
  diag_ok (snd (ev (fst it))) = true /\ diag_ok (snd (ev (snd it))) = true.
Proof.
  destruct st as [[[vals mks] known] ds]. unfold obj_step. intros D.
  destruct (ev (fst it)) as [k kds]. destruct (ev (snd it)) as [v vds]. cbn [snd].
  assert (Q : diag_ok (ds ++ kds ++ vds) = true).
  { repeat match type of D with
           | diag_ok (obj_ds (match ?x with _ => _ end)) = true => destruct_scrut x
           end;
    cbn [obj_ds] in D; try exact D; rewrite diag_ok_app in D; apply andb_true_iff in D as [D _]; exact D. }
  rewrite !diag_ok_app in Q. apply andb_true_iff in Q as [_ Q]. apply andb_true_iff in Q. exact Q.
Qed.

Lemma obj_fold_parts ev : forall its st, diag_ok (obj_ds (fold_left (obj_step ev) its st)) = true ->
  forall it, In it its -> diag_ok (snd (ev (fst it))) = true /\ diag_ok (snd (ev (snd it))) = true.
Proof.
  induction its as [|q its IH]; intros st D it Hin; [contradiction|]. simpl in D. destruct Hin as [<-|Hin].
  - apply (obj_step_part ev st q). apply (fold_ds_ok (obj_step ev) obj_ds (obj_step_mono ev) its _ D).
  - apply (IH _ D it Hin).
Qed.

Lemma in_fragment_acc_sub e : in_fragment_acc e -> in_fragment e.
Proof.
  revert e. fix IH 2. intros e H. destruct H.
  - apply F_lit; assumption.
  - apply F_scope; assumption.
  - apply F_rel; [apply IH|]; assumption.
  - apply F_index; apply IH; assumption.
  - apply F_tuple. induction H; constructor; [apply IH; assumption|assumption].
  - apply F_obj. induction H as [|it its [Hk Hv] _ IHf]; constructor; [split; apply IH; assumption|assumption].
  - apply F_objkey; apply IH; assumption.
  - apply F_bin; apply IH; assumption.
  - apply F_un; apply IH; assumption.
  - apply F_tmpl. induction H; constructor; [apply IH; assumption|assumption].
  - apply F_wrap; apply IH; assumption.
  - apply F_paren; apply IH; assumption.
Qed.

Lemma acc_clean : forall f e c an, in_fragment_acc e -> diag_ok (snd (ev_ f c an e)) = true -> clean f c an e = true.
Proof.
  induction f as [|f IH]; intros e c an Fr D; [discriminate D|].
  cbn [clean]. rewrite D. cbn [andb].
  destruct Fr as [v Hl|root steps Hs|src steps Fs Hs|a b Fa Fb|es Fes|items Fi|w force Fw
                  |op l r Ho Fl Frr|op e Fe|parts Fp|e Fe|e Fe]; try reflexivity.
  - (* ERelTrav *) cbn [eval_with] in D. apply IH; [exact Fs|].
    destruct (ev_ f c an src) as [v ds]. destruct (traverse_rel steps v []) as [r ds']. cbn [snd] in *.
    rewrite diag_ok_app in D. apply andb_true_iff in D. tauto.
  - (* EIndex *) cbn [eval_with] in D.
    destruct (ev_ f c an a) as [cv cds] eqn:Ea. destruct (ev_ f c an b) as [kv kds] eqn:Eb.
    destruct (index cv kv) as [r ids]. cbn [snd] in D. rewrite !diag_ok_app in D.
    apply andb_true_iff in D as [D1 D]. apply andb_true_iff in D as [D2 _].
    apply andb_true_iff. split; apply IH; try assumption; [rewrite Ea|rewrite Eb]; assumption.
  - (* ETuple *) cbn [eval_with] in D. cbn [snd] in D. rewrite diag_ok_concat in D.
    rewrite forallb_Forall in D. apply forallb_Forall. rewrite Forall_forall in *.
    intros x Hx. apply IH; [apply (Fes x Hx)|]. apply D. apply in_map_iff. exists (ev_ f c an x).
    split; [reflexivity|apply in_map; exact Hx].
  - (* EObj *) cbn [eval_with] in D.
    match type of D with
    | context [fold_left ?stp items ?init] =>
        change (fold_left stp items init) with (fold_left (obj_step (ev_ f c an)) items ([], [], true, [])) in D
    end.
    assert (Df : diag_ok (obj_ds (fold_left (obj_step (ev_ f c an)) items ([], [], true, []))) = true).
    { destruct (fold_left (obj_step (ev_ f c an)) items ([], [], true, [])) as [[[v m] k] d]. destruct (negb k); exact D. }
    apply forallb_Forall. rewrite Forall_forall in *. intros it Hin.
    destruct (obj_fold_parts (ev_ f c an) items _ Df it Hin) as [Dk Dv]. destruct (Fi it Hin) as [Fk Fv].
    apply andb_true_iff. split; apply IH; assumption.
  - (* EObjKey *) cbn [eval_with] in D. destruct force; cbn [negb] in *; [apply IH; assumption|].
    destruct w; try (destruct (literal_name _); [reflexivity|apply IH; assumption]).
    destruct steps; reflexivity.
  - (* EBin *) cbn [eval_with] in D.
    destruct (ev_ f c an l) as [glv lds] eqn:El. destruct (ev_ f c an r) as [grv rds] eqn:Er.
    assert (Q : diag_ok lds = true /\ diag_ok rds = true).
    { destruct (has_unsupported lds || has_unsupported rds); [discriminate D|].
      destruct (conv glv (binop_param op)) as [lv| |].
      2,3: destruct (conv grv (binop_param op)); cbn [snd] in D; rewrite !diag_ok_app in D;
           apply andb_true_iff in D as [_ D]; apply andb_true_iff in D; exact D.
      destruct (conv grv (binop_param op)) as [rv| |].
      2,3: cbn [snd] in D; rewrite !diag_ok_app in D; apply andb_true_iff in D as [_ D]; apply andb_true_iff in D; exact D.
      destruct (unmark lv) as [lu lm]. destruct (unmark rv) as [ru rm].
      assert (Hsc : forall X : option (val * list diag),
                X = None -> diag_ok (snd (match X with
                                          | Some (v0, ds0) => (with_marks v0 (marks_union lm rm), ds0)
                                          | None =>
                                              if has_errors (lds ++ rds) then (with_marks (VUnk (binop_type op) rf_none) (marks_union lm rm), lds ++ rds)
                                              else match call_binop op lu ru with
                                                   | OOk res => (with_marks res (marks_union lm rm), lds ++ rds)
                                                   | OErr _ => (VUnk (binop_type op) rf_none, (lds ++ rds) ++ [derr S_OperationFailed []])
                                                   | OUnsupported => (VUnk (binop_type op) rf_none, (lds ++ rds) ++ [dunsupported])
                                                   end end)) = true -> diag_ok (lds ++ rds) = true).
      { intros X -> Dx. destruct (has_errors (lds ++ rds)); [exact Dx|].
        destruct (call_binop op lu ru); cbn [snd] in Dx; try exact Dx;
          rewrite diag_ok_app in Dx; apply andb_true_iff in Dx; tauto. }
      assert (Dlr : diag_ok (lds ++ rds) = true).
      { destruct op; try discriminate Ho; apply (Hsc None eq_refl D). }
      rewrite diag_ok_app in Dlr. apply andb_true_iff in Dlr. exact Dlr. }
    destruct Q as [Dl Dr]. apply andb_true_iff. split; apply IH; try assumption; [rewrite El|rewrite Er]; assumption.
  - (* EUn *) cbn [eval_with] in D. apply IH; [exact Fe|].
    destruct (ev_ f c an e) as [gv ds]. cbn [snd].
    destruct (conv gv (unop_param op)) as [v| |].
    + destruct (has_errors ds); [exact D|]. destruct (unmark v) as [vu vm].
      destruct (call_unop op vu); cbn [snd] in D; try exact D; rewrite diag_ok_app in D; apply andb_true_iff in D; tauto.
    + cbn [snd] in D. rewrite diag_ok_app in D. apply andb_true_iff in D. tauto.
    + cbn [snd] in D. rewrite diag_ok_app in D. apply andb_true_iff in D. tauto.
  - (* ETmpl *) cbn [eval_with] in D.
    match type of D with
    | context [fold_left ?stp parts ?init] =>
        change (fold_left stp parts init) with (fold_left (tmpl_step (ev_ f c an)) parts ([], true, [], [])) in D
    end.
    assert (Df : diag_ok (tmpl_ds (fold_left (tmpl_step (ev_ f c an)) parts ([], true, [], []))) = true).
    { destruct (fold_left (tmpl_step (ev_ f c an)) parts ([], true, [], [])) as [[[b k] m] d]. exact D. }
    apply forallb_Forall. rewrite Forall_forall in *. intros p Hin.
    apply IH; [apply (Fp p Hin)|]. apply (tmpl_fold_parts (ev_ f c an) parts _ Df p Hin).
  - (* EWrap *) cbn [eval_with] in D. apply IH; assumption.
  - (* EParen *) cbn [eval_with] in D. apply IH; assumption.
Qed.

Theorem unknown_sound_accum : forall fuel e cA cC vA dA vC dC,
  in_fragment_acc e -> ctx_rel cA cC ->
  eval fuel cA None e = (vA, dA) -> eval fuel cC None e = (vC, dC) ->
  has_errors dA = false -> has_unsupported dA = false ->
  has_errors dC = false -> has_unsupported dC = false ->
  gamma_strict vA vC.
Proof.
  intros fuel e cA cC vA dA vC dC Fr R EA EC H1 H2 H3 H4.
  pose proof (unknown_sound_partial fuel e cA cC None None (in_fragment_acc_sub e Fr) R I) as G.
  unfold eval in *. rewrite EA, EC in G. apply G.
  - apply (acc_clean fuel e cA None Fr). rewrite EA. apply (diag_ok_intro _ H1 H2).
  - apply (acc_clean fuel e cC None Fr). rewrite EC. apply (diag_ok_intro _ H3 H4).
Qed.

(* ---- constructs outside the fragment: hand samples checked by computation (NOT covered by the theorem) -------- *)
Module Samples.
  Definition funs := Some [([102], fn_first); ([105], fn_isnull); ([112], fn_pair); ([115], fn_sum); ([117], fn_upper)].
  Definition mk (v : val) : ctx := [mkFrame (Some [(w_x, v)]) funs].
  (* both runs free of diagnostics and the results related by gamma *)
  Definition chk (t : expr * val * val) : bool :=
    let '(e, vA, vC) := t in
    let '(rA, dA) := value (mk vA) e in let '(rC, dC) := value (mk vC) e in
    match dA, dC with [], [] => gammab rA rC | _, _ => false end.
  Definition X := EScopeTrav w_x [].
  Definition V := EScopeTrav [118] [].
  Definition nlist := VList TNum [VNum (nz 1); VNum (nz 2)].
  Definition ulist := VList TNum [VUnk TNum rf_none; VNum (nz 2)].
  Definition nset := VSet TNum [VNum (nz 1); VNum (nz 2)].
  Definition nmap := VMap TNum [([97], VNum (nz 1))].
  Definition rl lo hi nn := RExact (mkRefn nn [] None None lo hi).
  Definition one := ELit (VNum (nz 1)).
  Definition cases : list (expr * val * val) :=
    [ (* splat: length refinement copied from an unknown list / set; auto-upgrade of non-sequences *)
      (ESplat X EAnon, VUnk (TList TNum) (rl 2 (Some 3) true), nlist);
      (ESplat X EAnon, VUnk (TList TNum) (rl 2 (Some 2) true), nlist);
      (ESplat X EAnon, VUnk (TSet TNum) (rl 1 (Some 2) true), nset);
      (ESplat X EAnon, VUnk (TSet TNum) (rl 2 (Some 2) true), nset);
      (ESplat X EAnon, VUnk (TMap TNum) (rl 1 (Some 1) true), nmap);
      (ESplat X EAnon, VUnk (TMap TNum) (rl 1 (Some 1) false), nmap);
      (ESplat X EAnon, VUnk TNum rf_none, VNum (nz 1));
      (ESplat X EAnon, VUnk TNum rf_none, VNull TNum);
      (ESplat X EAnon, VUnk TNum rf_notnull, VNum (nz 1));
      (ESplat X EAnon, VUnk (TList TNum) (rl 0 None false), nlist);
      (ESplat X (EBin OpAdd EAnon one), ulist, nlist);
      (* for: unknown collection, unknown element, unknown condition, unknown key *)
      (EFor [] [118] X None V None false, VUnk (TList TNum) (rl 2 (Some 2) true), nlist);
      (EFor [] [118] X None (EBin OpAdd V one) None false, ulist, nlist);
      (EFor [] [118] X None V (Some (EBin OpGt V one)) false, ulist, nlist);
      (EFor [107] [118] X (Some (EScopeTrav [107] [])) V None false, VMap TNum [([97], VUnk TNum rf_none)], nmap);
      (* calls: unknown argument, dynamically typed argument, expansion of an unknown list *)
      (ECall [117] [X] false, VUnk TStr rf_none, VStr [97]);
      (ECall [102] [X; one] false, dyn_val, VStr [97]);
      (ECall [105] [X] false, dyn_val, VStr [97]);
      (ECall [105] [X] false, dyn_val, VNull TStr);
      (ECall [112] [ELit (VStr [97]); X] false, VUnk TNum rf_none, VNum (nz 5));
      (ECall [115] [X] true, VUnk (TList TNum) (rl 0 None false), nlist);
      (ECall [115] [X] true, ulist, nlist);
      (* template join *)
      (EJoin (EFor [] [118] X None V None false), ulist, nlist);
      (EJoin (EFor [] [118] X None V None false), VUnk (TList TNum) (rl 0 None false), nlist) ].
  Example outside_fragment_samples_ok : forallb chk cases = true.
  Proof. vm_compute. reflexivity. Qed.
End Samples.
