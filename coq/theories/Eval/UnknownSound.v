(* Eval/UnknownSound.v — C05: evaluation with unknown values soundly approximates every concrete
   evaluation.  Statement [unknown_sound_stmt] (whole language), theorem [unknown_sound_partial]
   for the fragment [in_fragment] (UnknownSound_Frag.v) under the hypothesis that the two
   evaluations are hereditarily free of diagnostics ([clean]); counter-examples ([..._refuted])
   showing that this hypothesis cannot be dropped.

   Model: Eval/Impl.v (not modified).  Relation: Eval/UnknownSound_Gamma.v.
   Per-construct lemmas: UnknownSound_Inv.v (side invariant), _Core.v, _Call.v, _Join.v. *)
From Coq Require Import QArith Qreduction.
From HclV Require Import Base.Prelude Cty.Values Cty.Convert Cty.Ops Eval.Impl Eval.Funcs
                         Eval.UnknownSound_Base Eval.UnknownSound_Known Eval.UnknownSound_Gamma
                         Eval.UnknownSound_Conv Eval.UnknownSound_Conv2 Eval.UnknownSound_Ops
                         Eval.UnknownSound_Num Eval.UnknownSound_Cond Eval.UnknownSound_Eq Eval.UnknownSound_Fn
                         Eval.UnknownSound_Frag Eval.UnknownSound_Inv Eval.UnknownSound_Core
                         Eval.UnknownSound_Call Eval.UnknownSound_Join
                         Eval.UnknownSound_Splat Eval.UnknownSound_For.
Open Scope Z_scope.
Local Strategy opaque [equals val_size unmark_deep deep_marks unify_n convert].
Notation ev_ := (eval_with index).

(* ---- the theorem for the fragment ------------------------------------------------------------------------------ *)
Theorem si_all : forall f, SI f.
Proof.
  induction f as [|f IH]; intros e cA cC anA anC Fr R Ra KA KC; [discriminate KA|].
  destruct e.
  - cbn [eval_with fst]. pose proof (frag_lit _ Fr) as Hl. unfold lit_ok in Hl. apply andb_true_iff in Hl as [W I].
    apply (gsb_refl_inv v W I).
  - apply clean_S in KA as [DA _]. apply clean_S in KC as [DC _]. cbn [eval_with] in *.
    apply (si_scope root steps cA cC (frag_scope _ _ Fr) R DA DC).
  - apply (si_reltrav f e steps IH cA cC anA anC Fr R Ra KA KC).
  - apply (si_call f name args expand IH cA cC anA anC Fr R Ra KA KC).
  - apply (si_cond f e1 e2 e3 IH cA cC anA anC Fr R Ra KA KC).
  - apply (si_index f e1 e2 IH cA cC anA anC Fr R Ra KA KC).
  - apply (si_tuple f es IH cA cC anA anC Fr R Ra KA KC).
  - apply (si_obj f items IH cA cC anA anC Fr R Ra KA KC).
  - apply (si_objkey f e force IH cA cC anA anC Fr R Ra KA KC).
  - apply (si_for f kv vv e1 key e2 cond group IH cA cC anA anC Fr R Ra KA KC).
  - apply (si_splat f e1 e2 IH cA cC anA anC Fr R Ra KA KC).
  - apply clean_S in KA as [_ KA']. cbn [eval_with fst]. unfold anon_rel in Ra.
    destruct anA as [x|], anC as [y|]; try contradiction; [tauto|discriminate KA'].
  - apply (si_bin f op e1 e2 IH cA cC anA anC Fr R Ra KA KC).
  - apply (si_un f op e IH cA cC anA anC Fr R Ra KA KC).
  - apply (si_tmpl f parts IH cA cC anA anC Fr R Ra KA KC).
  - apply (si_join f e IH cA cC anA anC Fr R Ra KA KC).
  - apply clean_S in KA as [_ KA']. apply clean_S in KC as [_ KC']. cbn [eval_with].
    apply (IH e cA cC anA anC (frag_wrap _ Fr) R Ra KA' KC').
  - apply clean_S in KA as [_ KA']. apply clean_S in KC as [_ KC']. cbn [eval_with].
    apply (IH e cA cC anA anC (frag_paren _ Fr) R Ra KA' KC').
Qed.

Theorem unknown_sound_partial : forall fuel e cA cC anA anC,
  in_fragment e -> ctx_rel cA cC -> anon_rel anA anC ->
  clean fuel cA anA e = true -> clean fuel cC anC e = true ->
  gamma_strict (fst (eval fuel cA anA e)) (fst (eval fuel cC anC e)).
Proof.
  intros fuel e cA cC anA anC Fr R Ra KA KC. unfold eval.
  destruct (ctx_rel_inv _ _ R) as [CiA CiC]. destruct (anon_rel_inv _ _ Ra) as [AiA AiC].
  apply gamma_strict_inv.
  - apply (iv_all fuel cA anA e Fr CiA AiA).
  - apply (iv_all fuel cC anC e Fr CiC AiC).
  - apply (si_all fuel e cA cC anA anC Fr R Ra KA KC).
Qed.

Corollary unknown_sound_partial_gamma : forall fuel e cA cC anA anC,
  in_fragment e -> ctx_rel cA cC -> anon_rel anA anC ->
  clean fuel cA anA e = true -> clean fuel cC anC e = true ->
  gamma (fst (eval fuel cA anA e)) (fst (eval fuel cC anC e)).
Proof. intros. apply gamma_strict_gamma. apply unknown_sound_partial; assumption. Qed.

(* the concrete run of the theorem produces a wholly known value *)
Corollary unknown_sound_concrete_known : forall fuel e cA cC anA anC,
  in_fragment e -> ctx_rel cA cC -> anon_rel anA anC ->
  clean fuel cA anA e = true -> clean fuel cC anC e = true ->
  wholly_known (fst (eval fuel cC anC e)) = true.
Proof.
  intros fuel e cA cC anA anC Fr R Ra KA KC. unfold eval.
  apply (gsb_wk _ _ (si_all fuel e cA cC anA anC Fr R Ra KA KC)).
Qed.

(* ---- the full statement, and why it does not hold for the faithful model ------------------------------------- *)
(* contract for the functions of the context: calls are monotone for gamma *)
Definition fn_mono (f : fn) : Prop := forall argsA argsC vA vC,
  Forall2 gamma argsA argsC -> fn_call f argsA = CallOk vA -> fn_call f argsC = CallOk vC -> gamma vA vC.
Definition ctx_fns_mono (c : ctx) : Prop :=
  forall fr fs name f, In fr c -> ffuncs fr = Some fs -> assoc_get name fs = Some f -> fn_mono f.

(* whole language; [expr_ok]: literals wholly known, the anonymous symbol used only where bound *)
Definition unknown_sound_stmt : Prop := forall fuel e cA cC anA anC vA dA vC dC,
  ctx_rel cA cC -> anon_rel anA anC -> ctx_fns_mono cA -> expr_ok (is_some anA) e = true ->
  eval fuel cA anA e = (vA, dA) -> eval fuel cC anC e = (vC, dC) ->
  has_errors dA = false -> has_unsupported dA = false ->
  has_errors dC = false -> has_unsupported dC = false ->
  gamma vA vC.

(* Witness 1 (ConditionalExpr, known condition, one arm of unknown dynamic type): no conversion is
   planned abstractly ("the final resultType type is still unknown"), concretely the arms are unified.
     x = unknown(dynamic)  :  false ? x : 1          = 1       (number)
     x = "a"               :  false ? x : 1          = "1"     (string)
   The strict relation fails, the relation with conversion holds; but one operator later:
     (false ? x : 1) == 1  = true   abstractly,   false   for x = "a". *)
Definition w_x : list Z := [120].
Definition w1_ctxA : ctx := [mkFrame (Some [(w_x, dyn_val)]) None].
Definition w1_ctxC : ctx := [mkFrame (Some [(w_x, VStr [97])]) None].
Definition w1_expr : expr := ECond (ELit (VBool false)) (EScopeTrav w_x []) (ELit (VNum (nz 1))).
Definition w1_expr_eq : expr := EBin OpEq w1_expr (ELit (VNum (nz 1))).

Lemma w1_ctx_rel : ctx_rel w1_ctxA w1_ctxC.
Proof.
  apply CR_cons; [|apply CR_nil]. split; [|split; [reflexivity|intros fs E; discriminate]]. simpl.
  constructor; [|constructor]. unfold var_rel. simpl. repeat split; reflexivity.
Qed.
Lemma w1_in_fragment : in_fragment w1_expr.
Proof. repeat constructor. Qed.

Lemma cond_dyn_arm_refuted :
  value w1_ctxA w1_expr = (VNum (nz 1), []) /\ value w1_ctxC w1_expr = (VStr [49], []) /\
  gsb (VNum (nz 1)) (VStr [49]) = false /\ gammab (VNum (nz 1)) (VStr [49]) = true.
Proof. repeat split; vm_compute; reflexivity. Qed.

Lemma cond_dyn_arm_eq_refuted :
  value w1_ctxA w1_expr_eq = (VBool true, []) /\ value w1_ctxC w1_expr_eq = (VBool false, []) /\
  gammab (VBool true) (VBool false) = false.
Proof. repeat split; vm_compute; reflexivity. Qed.

(* Witness 2 (ConditionalExpr, known condition): the UNSELECTED arm fails concretely; its
   diagnostics are dropped but its value (DynamicVal) took part in choosing the result type.
     m = {a = "b"}, x = unknown(string) :  true ? 1 : m[x]   = "1"   (unify(number, string) = string)
     m = {a = "b"}, x = "z"             :  true ? 1 : m[x]   = 1     (m["z"] fails -> DynamicVal, dropped)
   and   (true ? 1 : m[x]) == "1"  = true abstractly, false for x = "z". *)
Definition w_m : list Z := [109].
Definition w2_map : val := VMap TStr [([97], VStr [98])].
Definition w2_ctxA : ctx := [mkFrame (Some [(w_m, w2_map); (w_x, VUnk TStr rf_none)]) None].
Definition w2_ctxC : ctx := [mkFrame (Some [(w_m, w2_map); (w_x, VStr [122])]) None].
Definition w2_expr : expr :=
  ECond (ELit (VBool true)) (ELit (VNum (nz 1))) (EIndex (EScopeTrav w_m []) (EScopeTrav w_x [])).
Definition w2_expr_eq : expr := EBin OpEq w2_expr (ELit (VStr [49])).

Lemma w2_ctx_rel : ctx_rel w2_ctxA w2_ctxC.
Proof.
  apply CR_cons; [|apply CR_nil]. split; [|split; [reflexivity|intros fs E; discriminate]]. simpl.
  constructor; [|constructor; [|constructor]]; unfold var_rel; simpl; repeat split; reflexivity.
Qed.

Lemma cond_unselected_arm_refuted :
  value w2_ctxA w2_expr = (VStr [49], []) /\ value w2_ctxC w2_expr = (VNum (nz 1), []) /\
  gsb (VStr [49]) (VNum (nz 1)) = false /\ gammab (VStr [49]) (VNum (nz 1)) = true.
Proof. repeat split; vm_compute; reflexivity. Qed.

Lemma cond_unselected_arm_eq_refuted :
  value w2_ctxA w2_expr_eq = (VBool true, []) /\ value w2_ctxC w2_expr_eq = (VBool false, []) /\
  gammab (VBool true) (VBool false) = false.
Proof. repeat split; vm_compute; reflexivity. Qed.

(* the hypotheses of [unknown_sound_partial] that exclude the two witnesses *)
Lemma w1_not_clean : clean 3 w1_ctxA None w1_expr = false.
Proof. vm_compute. reflexivity. Qed.
Lemma w2_not_clean : clean 4 w2_ctxC None w2_expr = false.
Proof. vm_compute. reflexivity. Qed.

Theorem unknown_sound_stmt_refuted : ~ unknown_sound_stmt.
Proof.
  intros H.
  assert (G : gamma (VBool true) (VBool false)).
  { apply (H (S (expr_size w1_expr_eq)) w1_expr_eq w1_ctxA w1_ctxC None None (VBool true) [] (VBool false) []).
    - exact w1_ctx_rel.
    - exact I.
    - intros fr fs name f Hin Hf. destruct Hin as [<-|[]]. discriminate Hf.
    - vm_compute. reflexivity.
    - vm_compute. reflexivity.
    - vm_compute. reflexivity.
    - reflexivity.
    - reflexivity.
    - reflexivity.
    - reflexivity. }
  vm_compute in G. discriminate G.
Qed.

(* ---- side conditions of [clean] for SplatExpr and TemplateJoinExpr: why they are there --------------------------
   Witness 3 (SplatExpr over a list, the per-element result has an unknown part of dynamic type): the
   element type of the resulting LIST is taken from the first result (or, for an empty source, from
   resultTy(): a probe with an unknown element), abstractly cty.DynamicPseudoType, concretely number.
     x = [] : list(list(number)),  y = unknown(dynamic) :  x[*][y]  =  list(dynamic) []
     x = [] : list(list(number)),  y = 0                :  x[*][y]  =  list(number) []
     x = [[1]],                    y = unknown(dynamic) :  x[*][y]  =  list(dynamic) [unknown(dynamic)]
     x = [[1]],                    y = 0                :  x[*][y]  =  list(number) [1]
   The strict relation fails on the list's type tag, the relation with conversion (the property's
   wording) holds: this is not a refutation of the property, it is the reason why [clean] asks for a
   per-element result type without dynamic part (and a non-empty source) for list and set sources. *)
Definition w_y : list Z := [121].
Definition w3_expr : expr := ESplat (EScopeTrav w_x []) (EIndex EAnon (EScopeTrav w_y [])).
Definition w3_ctx (xv yv : val) : ctx := [mkFrame (Some [(w_x, xv); (w_y, yv)]) None].
Definition w3_empty : val := VList (TList TNum) [].
Definition w3_one : val := VList (TList TNum) [VList TNum [VNum (nz 1)]].

Lemma splat_list_dyn_elem_strict_refuted :
  value (w3_ctx w3_empty dyn_val) w3_expr = (VList TDyn [], []) /\
  value (w3_ctx w3_empty (VNum (nz 0))) w3_expr = (VList TNum [], []) /\
  gsb (VList TDyn []) (VList TNum []) = false /\ gammab (VList TDyn []) (VList TNum []) = true /\
  value (w3_ctx w3_one dyn_val) w3_expr = (VList TDyn [dyn_val], []) /\
  value (w3_ctx w3_one (VNum (nz 0))) w3_expr = (VList TNum [VNum (nz 1)], []) /\
  gsb (VList TDyn [dyn_val]) (VList TNum [VNum (nz 1)]) = false /\
  gammab (VList TDyn [dyn_val]) (VList TNum [VNum (nz 1)]) = true.
Proof. repeat split; vm_compute; reflexivity. Qed.
Lemma w3_not_clean :
  clean 4 (w3_ctx w3_empty dyn_val) None w3_expr = false /\ clean 4 (w3_ctx w3_one dyn_val) None w3_expr = false.
Proof. split; vm_compute; reflexivity. Qed.

(* Witness 4 (TemplateJoinExpr, model gap, NOT replayable from HCL text: the parser builds the node
   over a for expression only): a null tuple of dynamic type.  Go panics ("TemplateJoinExpr got null
   tuple"); the model answers unknown(string) without diagnostics, i.e. an unknown result from wholly
   known inputs.  [clean] asks for a non-null tuple value. *)
Definition w5_expr : expr := EJoin (EScopeTrav w_x []).
Lemma join_null_tuple_model_gap :
  value [mkFrame (Some [(w_x, VNull TDyn)]) None] w5_expr = (VUnk TStr rf_none, []) /\
  clean 3 [mkFrame (Some [(w_x, VNull TDyn)]) None] None w5_expr = false.
Proof. split; vm_compute; reflexivity. Qed.

(* ---- a sub-fragment where "no error in the result" already means "no error anywhere" ---------------------------
   No conditional and no && / ||: every diagnostic of a sub-evaluation reaches the result, so the
   theorem holds in the plain form (both evaluations without errors and without S_Unsupported). *)
Definition is_logic_op (o : binop) : bool := match o with OpOr | OpAnd => true | _ => false end.

Inductive in_fragment_acc : expr -> Prop :=
| A_lit v : lit_ok v = true -> in_fragment_acc (ELit v)
| A_scope root steps : forallb step_inv steps = true -> in_fragment_acc (EScopeTrav root steps)
| A_rel src steps : in_fragment_acc src -> forallb step_inv steps = true -> in_fragment_acc (ERelTrav src steps)
| A_index a b : in_fragment_acc a -> in_fragment_acc b -> in_fragment_acc (EIndex a b)
| A_tuple es : Forall in_fragment_acc es -> in_fragment_acc (ETuple es)
| A_obj items : Forall (fun it => in_fragment_acc (fst it) /\ in_fragment_acc (snd it)) items -> in_fragment_acc (EObj items)
| A_objkey w force : in_fragment_acc w -> in_fragment_acc (EObjKey w force)
| A_bin op l r : is_logic_op op = false -> in_fragment_acc l -> in_fragment_acc r -> in_fragment_acc (EBin op l r)
| A_un op e : in_fragment_acc e -> in_fragment_acc (EUn op e)
| A_tmpl parts : Forall in_fragment_acc parts -> in_fragment_acc (ETmpl parts)
| A_wrap e : in_fragment_acc e -> in_fragment_acc (EWrap e)
| A_paren e : in_fragment_acc e -> in_fragment_acc (EParen e).

Lemma tmpl_step_part ev st p : diag_ok (tmpl_ds (tmpl_step ev st p)) = true -> diag_ok (snd (ev p)) = true.
Proof.
  destruct st as [[[buf known] mk] ds]. unfold tmpl_step. intros D.
  destruct (ev p) as [pv pds]. cbn [snd].
  repeat match type of D with
         | diag_ok (tmpl_ds (match ?x with _ => _ end)) = true => destruct_scrut x
         end;
  cbn [tmpl_ds] in D; repeat rewrite diag_ok_app in D;
  repeat match type of D with (_ && _ = true) => let H := fresh in apply andb_true_iff in D as [D H] end;
  assumption.
Qed.

Lemma tmpl_fold_parts ev : forall ps st, diag_ok (tmpl_ds (fold_left (tmpl_step ev) ps st)) = true ->
  forall p, In p ps -> diag_ok (snd (ev p)) = true.
Proof.
  induction ps as [|q ps IH]; intros st D p Hin; [contradiction|]. simpl in D. destruct Hin as [<-|Hin].
  - apply (tmpl_step_part ev st q). apply (fold_ds_ok (tmpl_step ev) tmpl_ds (tmpl_step_mono ev) ps _ D).
  - apply (IH _ D p Hin).
Qed.

Lemma obj_step_part ev st it : diag_ok (obj_ds (obj_step ev st it)) = true ->
  diag_ok (snd (ev (fst it))) = true /\ diag_ok (snd (ev (snd it))) = true.
Proof.
  destruct st as [[[vals mks] known] ds]. unfold obj_step. intros D.
  destruct (ev (fst it)) as [k kds]. destruct (ev (snd it)) as [v vds]. cbn [snd].
  assert (Q : diag_ok (ds ++ kds ++ vds) = true).
  { repeat match type of D with
           | diag_ok (obj_ds (match ?x with _ => _ end)) = true => destruct_scrut x
           end;
    cbn [obj_ds] in D; try exact D; rewrite diag_ok_app in D; apply andb_true_iff in D as [D _]; exact D. }
  rewrite !diag_ok_app in Q. apply andb_true_iff in Q as [_ Q]. apply andb_true_iff in Q. exact Q.
Qed.

Lemma obj_fold_parts ev : forall its st, diag_ok (obj_ds (fold_left (obj_step ev) its st)) = true ->
  forall it, In it its -> diag_ok (snd (ev (fst it))) = true /\ diag_ok (snd (ev (snd it))) = true.
Proof.
  induction its as [|q its IH]; intros st D it Hin; [contradiction|]. simpl in D. destruct Hin as [<-|Hin].
  - apply (obj_step_part ev st q). apply (fold_ds_ok (obj_step ev) obj_ds (obj_step_mono ev) its _ D).
  - apply (IH _ D it Hin).
Qed.

Lemma in_fragment_acc_sub e : in_fragment_acc e -> in_fragment e.
Proof.
  revert e. fix IH 2. intros e H. destruct H.
  - apply F_lit; assumption.
  - apply F_scope; assumption.
  - apply F_rel; [apply IH|]; assumption.
  - apply F_index; apply IH; assumption.
  - apply F_tuple. induction H; constructor; [apply IH; assumption|assumption].
  - apply F_obj. induction H as [|it its [Hk Hv] _ IHf]; constructor; [split; apply IH; assumption|assumption].
  - apply F_objkey; apply IH; assumption.
  - apply F_bin; apply IH; assumption.
  - apply F_un; apply IH; assumption.
  - apply F_tmpl. induction H; constructor; [apply IH; assumption|assumption].
  - apply F_wrap; apply IH; assumption.
  - apply F_paren; apply IH; assumption.
Qed.

Lemma acc_clean : forall f e c an, in_fragment_acc e -> diag_ok (snd (ev_ f c an e)) = true -> clean f c an e = true.
Proof.
  induction f as [|f IH]; intros e c an Fr D; [discriminate D|].
  cbn [clean]. rewrite D. cbn [andb].
  destruct Fr as [v Hl|root steps Hs|src steps Fs Hs|a b Fa Fb|es Fes|items Fi|w force Fw
                  |op l r Ho Fl Frr|op e Fe|parts Fp|e Fe|e Fe]; try reflexivity.
  - (* ERelTrav *) cbn [eval_with] in D. apply IH; [exact Fs|].
    destruct (ev_ f c an src) as [v ds]. destruct (traverse_rel steps v []) as [r ds']. cbn [snd] in *.
    rewrite diag_ok_app in D. apply andb_true_iff in D. tauto.
  - (* EIndex *) cbn [eval_with] in D.
    destruct (ev_ f c an a) as [cv cds] eqn:Ea. destruct (ev_ f c an b) as [kv kds] eqn:Eb.
    destruct (index cv kv) as [r ids]. cbn [snd] in D. rewrite !diag_ok_app in D.
    apply andb_true_iff in D as [D1 D]. apply andb_true_iff in D as [D2 _].
    apply andb_true_iff. split; apply IH; try assumption; [rewrite Ea|rewrite Eb]; assumption.
  - (* ETuple *) cbn [eval_with] in D. cbn [snd] in D. rewrite diag_ok_concat in D.
    rewrite forallb_Forall in D. apply forallb_Forall. rewrite Forall_forall in *.
    intros x Hx. apply IH; [apply (Fes x Hx)|]. apply D. apply in_map_iff. exists (ev_ f c an x).
    split; [reflexivity|apply in_map; exact Hx].
  - (* EObj *) cbn [eval_with] in D.
    match type of D with
    | context [fold_left ?stp items ?init] =>
        change (fold_left stp items init) with (fold_left (obj_step (ev_ f c an)) items ([], [], true, [])) in D
    end.
    assert (Df : diag_ok (obj_ds (fold_left (obj_step (ev_ f c an)) items ([], [], true, []))) = true).
    { destruct (fold_left (obj_step (ev_ f c an)) items ([], [], true, [])) as [[[v m] k] d]. destruct (negb k); exact D. }
    apply forallb_Forall. rewrite Forall_forall in *. intros it Hin.
    destruct (obj_fold_parts (ev_ f c an) items _ Df it Hin) as [Dk Dv]. destruct (Fi it Hin) as [Fk Fv].
    apply andb_true_iff. split; apply IH; assumption.
  - (* EObjKey *) cbn [eval_with] in D. destruct force; cbn [negb] in *; [apply IH; assumption|].
    destruct w; try (destruct (literal_name _); [reflexivity|apply IH; assumption]).
    destruct steps; reflexivity.
  - (* EBin *) cbn [eval_with] in D.
    destruct (ev_ f c an l) as [glv lds] eqn:El. destruct (ev_ f c an r) as [grv rds] eqn:Er.
    assert (Q : diag_ok lds = true /\ diag_ok rds = true).
    { destruct (has_unsupported lds || has_unsupported rds); [discriminate D|].
      destruct (conv glv (binop_param op)) as [lv| |].
      2,3: destruct (conv grv (binop_param op)); cbn [snd] in D; rewrite !diag_ok_app in D;
           apply andb_true_iff in D as [_ D]; apply andb_true_iff in D; exact D.
      destruct (conv grv (binop_param op)) as [rv| |].
      2,3: cbn [snd] in D; rewrite !diag_ok_app in D; apply andb_true_iff in D as [_ D]; apply andb_true_iff in D; exact D.
      destruct (unmark lv) as [lu lm]. destruct (unmark rv) as [ru rm].
      assert (Hsc : forall X : option (val * list diag),
                X = None -> diag_ok (snd (match X with
                                          | Some (v0, ds0) => (with_marks v0 (marks_union lm rm), ds0)
                                          | None =>
                                              if has_errors (lds ++ rds) then (with_marks (VUnk (binop_type op) rf_none) (marks_union lm rm), lds ++ rds)
                                              else match call_binop op lu ru with
                                                   | OOk res => (with_marks res (marks_union lm rm), lds ++ rds)
                                                   | OErr _ => (VUnk (binop_type op) rf_none, (lds ++ rds) ++ [derr S_OperationFailed []])
                                                   | OUnsupported => (VUnk (binop_type op) rf_none, (lds ++ rds) ++ [dunsupported])
                                                   end end)) = true -> diag_ok (lds ++ rds) = true).
      { intros X -> Dx. destruct (has_errors (lds ++ rds)); [exact Dx|].
        destruct (call_binop op lu ru); cbn [snd] in Dx; try exact Dx;
          rewrite diag_ok_app in Dx; apply andb_true_iff in Dx; tauto. }
      assert (Dlr : diag_ok (lds ++ rds) = true).
      { destruct op; try discriminate Ho; apply (Hsc None eq_refl D). }
      rewrite diag_ok_app in Dlr. apply andb_true_iff in Dlr. exact Dlr. }
    destruct Q as [Dl Dr]. apply andb_true_iff. split; apply IH; try assumption; [rewrite El|rewrite Er]; assumption.
  - (* EUn *) cbn [eval_with] in D. apply IH; [exact Fe|].
    destruct (ev_ f c an e) as [gv ds]. cbn [snd].
    destruct (conv gv (unop_param op)) as [v| |].
    + destruct (has_errors ds); [exact D|]. destruct (unmark v) as [vu vm].
      destruct (call_unop op vu); cbn [snd] in D; try exact D; rewrite diag_ok_app in D; apply andb_true_iff in D; tauto.
    + cbn [snd] in D. rewrite diag_ok_app in D. apply andb_true_iff in D. tauto.
    + cbn [snd] in D. rewrite diag_ok_app in D. apply andb_true_iff in D. tauto.
  - (* ETmpl *) cbn [eval_with] in D.
    match type of D with
    | context [fold_left ?stp parts ?init] =>
        change (fold_left stp parts init) with (fold_left (tmpl_step (ev_ f c an)) parts ([], true, [], [])) in D
    end.
    assert (Df : diag_ok (tmpl_ds (fold_left (tmpl_step (ev_ f c an)) parts ([], true, [], []))) = true).
    { destruct (fold_left (tmpl_step (ev_ f c an)) parts ([], true, [], [])) as [[[b k] m] d]. exact D. }
    apply forallb_Forall. rewrite Forall_forall in *. intros p Hin.
    apply IH; [apply (Fp p Hin)|]. apply (tmpl_fold_parts (ev_ f c an) parts _ Df p Hin).
  - (* EWrap *) cbn [eval_with] in D. apply IH; assumption.
  - (* EParen *) cbn [eval_with] in D. apply IH; assumption.
Qed.

Theorem unknown_sound_accum : forall fuel e cA cC vA dA vC dC,
  in_fragment_acc e -> ctx_rel cA cC ->
  eval fuel cA None e = (vA, dA) -> eval fuel cC None e = (vC, dC) ->
  has_errors dA = false -> has_unsupported dA = false ->
  has_errors dC = false -> has_unsupported dC = false ->
  gamma_strict vA vC.
Proof.
  intros fuel e cA cC vA dA vC dC Fr R EA EC H1 H2 H3 H4.
  pose proof (unknown_sound_partial fuel e cA cC None None (in_fragment_acc_sub e Fr) R I) as G.
  unfold eval in *. rewrite EA, EC in G. apply G.
  - apply (acc_clean fuel e cA None Fr). rewrite EA. apply (diag_ok_intro _ H1 H2).
  - apply (acc_clean fuel e cC None Fr). rewrite EC. apply (diag_ok_intro _ H3 H4).
Qed.

(* ---- hand samples for calls, splat, for and join, checked by computation (a sanity check of the model and of the
   relation; these constructs are covered by the theorem since the fragment includes them) ----------------------- *)
Module Samples.
  Definition funs := Some [([102], fn_first); ([105], fn_isnull); ([112], fn_pair); ([115], fn_sum); ([117], fn_upper)].
  Definition mk (v : val) : ctx := [mkFrame (Some [(w_x, v)]) funs].
  (* both runs free of diagnostics and the results related by gamma *)
  Definition chk (t : expr * val * val) : bool :=
    let '(e, vA, vC) := t in
    let '(rA, dA) := value (mk vA) e in let '(rC, dC) := value (mk vC) e in
    match dA, dC with [], [] => gammab rA rC | _, _ => false end.
  Definition X := EScopeTrav w_x [].
  Definition V := EScopeTrav [118] [].
  Definition nlist := VList TNum [VNum (nz 1); VNum (nz 2)].
  Definition ulist := VList TNum [VUnk TNum rf_none; VNum (nz 2)].
  Definition nset := VSet TNum [VNum (nz 1); VNum (nz 2)].
  Definition nmap := VMap TNum [([97], VNum (nz 1))].
  Definition rl lo hi nn := RExact (mkRefn nn [] None None lo hi).
  Definition one := ELit (VNum (nz 1)).
  Definition cases : list (expr * val * val) :=
    [ (* splat: length refinement copied from an unknown list / set; auto-upgrade of non-sequences *)
      (ESplat X EAnon, VUnk (TList TNum) (rl 2 (Some 3) true), nlist);
      (ESplat X EAnon, VUnk (TList TNum) (rl 2 (Some 2) true), nlist);
      (ESplat X EAnon, VUnk (TSet TNum) (rl 1 (Some 2) true), nset);
      (ESplat X EAnon, VUnk (TSet TNum) (rl 2 (Some 2) true), nset);
      (ESplat X EAnon, VUnk (TMap TNum) (rl 1 (Some 1) true), nmap);
      (ESplat X EAnon, VUnk (TMap TNum) (rl 1 (Some 1) false), nmap);
      (ESplat X EAnon, VUnk TNum rf_none, VNum (nz 1));
      (ESplat X EAnon, VUnk TNum rf_none, VNull TNum);
      (ESplat X EAnon, VUnk TNum rf_notnull, VNum (nz 1));
      (ESplat X EAnon, VUnk (TList TNum) (rl 0 None false), nlist);
      (ESplat X (EBin OpAdd EAnon one), ulist, nlist);
      (* for: unknown collection, unknown element, unknown condition, unknown key *)
      (EFor [] [118] X None V None false, VUnk (TList TNum) (rl 2 (Some 2) true), nlist);
      (EFor [] [118] X None (EBin OpAdd V one) None false, ulist, nlist);
      (EFor [] [118] X None V (Some (EBin OpGt V one)) false, ulist, nlist);
      (EFor [107] [118] X (Some (EScopeTrav [107] [])) V None false, VMap TNum [([97], VUnk TNum rf_none)], nmap);
      (* calls: unknown argument, dynamically typed argument, expansion of an unknown list *)
      (ECall [117] [X] false, VUnk TStr rf_none, VStr [97]);
      (ECall [102] [X; one] false, dyn_val, VStr [97]);
      (ECall [105] [X] false, dyn_val, VStr [97]);
      (ECall [105] [X] false, dyn_val, VNull TStr);
      (ECall [112] [ELit (VStr [97]); X] false, VUnk TNum rf_none, VNum (nz 5));
      (ECall [115] [X] true, VUnk (TList TNum) (rl 0 None false), nlist);
      (ECall [115] [X] true, ulist, nlist);
      (* template join *)
      (EJoin (EFor [] [118] X None V None false), ulist, nlist);
      (EJoin (EFor [] [118] X None V None false), VUnk (TList TNum) (rl 0 None false), nlist) ].
  Example construct_samples_ok : forallb chk cases = true.
  Proof. vm_compute. reflexivity. Qed.
End Samples.
