(* Eval/UnknownSound.v — C05: evaluation with unknown values soundly approximates every concrete
   evaluation.  Statement [unknown_sound_stmt] (whole language), theorem [unknown_sound_partial]
   for the expression core (inductive predicate [in_fragment]) under the hypothesis that the
   two evaluations are hereditarily free of diagnostics ([clean]); counter-examples
   ([..._refuted]) showing that this hypothesis cannot be dropped.

   Model: Eval/Impl.v (not modified).  Relation: Eval/UnknownSound_Gamma.v. *)
From Coq Require Import QArith Qreduction.
From HclV Require Import Base.Prelude Cty.Values Cty.Convert Cty.Ops Eval.Impl Eval.Funcs
                         Eval.UnknownSound_Base Eval.UnknownSound_Known Eval.UnknownSound_Gamma
                         Eval.UnknownSound_Conv Eval.UnknownSound_Conv2 Eval.UnknownSound_Ops
                         Eval.UnknownSound_Num Eval.UnknownSound_Cond.
Open Scope Z_scope.
Local Strategy opaque [equals val_size unmark_deep deep_marks unify_n convert].
Notation ev_ := (eval_with index).

(* ---- the fragment ------------------------------------------------------------------------------------ *)
(* literals (and literal traversal keys): wholly known, unmarked, well typed, canonical numbers *)
Definition lit_ok (v : val) : bool := wholly_known v && inv v.

Inductive in_fragment : expr -> Prop :=
| F_lit v : lit_ok v = true -> in_fragment (ELit v)
| F_scope root steps : forallb step_inv steps = true -> in_fragment (EScopeTrav root steps)
| F_rel src steps : in_fragment src -> forallb step_inv steps = true -> in_fragment (ERelTrav src steps)
| F_index a b : in_fragment a -> in_fragment b -> in_fragment (EIndex a b)
| F_tuple es : Forall in_fragment es -> in_fragment (ETuple es)
| F_obj items : Forall (fun it => in_fragment (fst it) /\ in_fragment (snd it)) items -> in_fragment (EObj items)
| F_objkey w force : in_fragment w -> in_fragment (EObjKey w force)
| F_anon : in_fragment EAnon
| F_bin op l r : is_eq_op op = false -> in_fragment l -> in_fragment r -> in_fragment (EBin op l r)
| F_un op e : in_fragment e -> in_fragment (EUn op e)
| F_cond c t f : in_fragment c -> in_fragment t -> in_fragment f -> in_fragment (ECond c t f)
| F_tmpl parts : Forall in_fragment parts -> in_fragment (ETmpl parts)
| F_wrap e : in_fragment e -> in_fragment (EWrap e)
| F_paren e : in_fragment e -> in_fragment (EParen e).

(* ---- hereditarily clean evaluations ------------------------------------------------------------------- *)
(* an arm of a conditional: a literal null, or a value whose type has no dynamic part *)
Definition arm_ok (v : val) : bool := is_dyn_null v || negb (has_dyn (type_of v)).

(* [clean fuel c anon e]: the evaluation of [e] and of every sub-expression it evaluates raises no
   error and stays inside the model; at every conditional, both arms are [arm_ok].
   (false on constructors outside the fragment) *)
Fixpoint clean (fuel : nat) (c : ctx) (anon : option val) (e : expr) {struct fuel} : bool :=
  match fuel with
  | O => false
  | S f =>
      diag_ok (snd (ev_ (S f) c anon e)) &&
      match e with
      | ELit _ | EScopeTrav _ _ | EAnon => true
      | EParen e' | EWrap e' | EUn _ e' | ERelTrav e' _ => clean f c anon e'
      | EObjKey w force =>
          if negb force then
            match w with
            | EScopeTrav _ (_ :: _) => true
            | _ => match literal_name w with Some _ => true | None => clean f c anon w end
            end
          else clean f c anon w
      | EIndex a b | EBin _ a b => clean f c anon a && clean f c anon b
      | ETuple es | ETmpl es => forallb (clean f c anon) es
      | EObj items => forallb (fun it => clean f c anon (fst it) && clean f c anon (snd it)) items
      | ECond ce te fe =>
          clean f c anon ce && clean f c anon te && clean f c anon fe &&
          arm_ok (fst (ev_ f c anon te)) && arm_ok (fst (ev_ f c anon fe))
      | _ => false
      end
  end.

Lemma clean_diag_ok f c anon e : clean f c anon e = true -> diag_ok (snd (ev_ f c anon e)) = true.
Proof. destruct f as [|f]; [discriminate|]. cbn [clean]. intros H. apply andb_true_iff in H. tauto. Qed.

(* ---- related contexts ------------------------------------------------------------------------------------ *)
Definition var_rel (p q : list Z * val) : Prop :=
  fst p = fst q /\ inv (snd p) = true /\ inv (snd q) = true /\ gsb (snd p) (snd q) = true.
Definition frame_rel (fa fc : frame) : Prop :=
  match fvars fa, fvars fc with
  | None, None => True
  | Some va, Some vc => Forall2 var_rel va vc
  | _, _ => False
  end /\ ffuncs fa = ffuncs fc.
Definition ctx_rel (ca cc : ctx) : Prop := Forall2 frame_rel ca cc.
Definition anon_rel (a c : option val) : Prop :=
  match a, c with
  | None, None => True
  | Some x, Some y => inv x = true /\ inv y = true /\ gsb x y = true
  | _, _ => False
  end.

Definition frame_inv (fr : frame) : Prop :=
  forall vs, fvars fr = Some vs -> Forall (fun p => inv (snd p) = true) vs.
Definition ctx_inv (c : ctx) : Prop := Forall frame_inv c.
Definition anon_inv (a : option val) : Prop := forall v, a = Some v -> inv v = true.

Lemma ctx_rel_inv ca cc : ctx_rel ca cc -> ctx_inv ca /\ ctx_inv cc.
Proof.
  induction 1 as [|fa fc ca cc [Hf _] _ [IHa IHc]]; [split; constructor|].
  split; (constructor; [|assumption]); intros vs E; rewrite E in Hf.
  - destruct (fvars fc) as [vc|]; [|contradiction].
    clear -Hf. induction Hf as [|p q va vc [_ [Hp _]] _ IH]; constructor; assumption.
  - destruct (fvars fa) as [va|]; [|contradiction].
    clear -Hf. induction Hf as [|p q va vc [_ [_ [Hq _]]] _ IH]; constructor; assumption.
Qed.
Lemma anon_rel_inv a c : anon_rel a c -> anon_inv a /\ anon_inv c.
Proof.
  unfold anon_rel, anon_inv. destruct a, c; try contradiction.
  - intros [H1 [H2 _]]. split; intros v' E; injection E as <-; assumption.
  - intros _. split; intros v' E; discriminate.
Qed.

Lemma assoc_get_rel name va vc : Forall2 var_rel va vc ->
  match assoc_get name va, assoc_get name vc with
  | Some x, Some y => inv x = true /\ inv y = true /\ gsb x y = true
  | None, None => True
  | _, _ => False
  end.
Proof.
  induction 1 as [|[ka xa] [kc xc] va vc [Hk H] _ IH]; simpl; [exact I|].
  simpl in Hk. subst kc. destruct (str_eqb name ka); [exact H|exact IH].
Qed.

Lemma lookup_var_rel : forall ca cc name b, ctx_rel ca cc ->
  match lookup_var ca name b, lookup_var cc name b with
  | (Some x, _), (Some y, _) => inv x = true /\ inv y = true /\ gsb x y = true
  | (None, b1), (None, b2) => b1 = b2
  | _, _ => False
  end.
Proof.
  intros ca cc name b R. revert b. induction R as [|fa fc ca cc [Hf _] _ IH]; intros b; simpl; [reflexivity|].
  destruct (fvars fa) as [va|], (fvars fc) as [vc|]; try contradiction; [|apply IH].
  pose proof (assoc_get_rel name va vc Hf) as Hn.
  destruct (assoc_get name va), (assoc_get name vc); try contradiction; [exact Hn|apply IH].
Qed.

Lemma lookup_var_inv : forall c name b v b', ctx_inv c -> lookup_var c name b = (Some v, b') -> inv v = true.
Proof.
  induction c as [|fr r IH]; intros name b v b' C E; simpl in E; [discriminate|].
  inversion C as [|? ? Hf Hr]; subst.
  destruct (fvars fr) as [vs|] eqn:Ev.
  - destruct (assoc_get name vs) eqn:Ea.
    + injection E as <- _. apply (assoc_get_good (fun v => inv v = true) _ _ _ (Hf vs Ev) Ea).
    + apply (IH name true v b' Hr E).
  - apply (IH name b v b' Hr E).
Qed.

(* ---- the side invariant is preserved by evaluation (all paths, errors included) ------------------------- *)
Definition IV (f : nat) : Prop := forall c anon e,
  in_fragment e -> ctx_inv c -> anon_inv anon -> inv (fst (ev_ f c anon e)) = true.

Ltac destruct_scrut_eq x :=
  lazymatch x with
  | match ?y with _ => _ end => destruct_scrut_eq y
  | _ => let H := fresh "Hd" in destruct x eqn:H
  end.
Ltac destruct_goal_inv :=
  match goal with
  | |- inv (fst (match ?x with _ => _ end)) = true => destruct_scrut_eq x
  end.

Lemma marks_union_nil_nil : marks_union [] [] = []. Proof. reflexivity. Qed.

Lemma iv_un f op e' : IV f -> forall c anon, in_fragment (EUn op e') -> ctx_inv c -> anon_inv anon ->
  inv (fst (ev_ (S f) c anon (EUn op e'))) = true.
Proof.
  intros IH c anon Fr C A. inversion Fr; subst. cbn [eval_with].
  pose proof (IH c anon e' H0 C A) as Ie. destruct (ev_ f c anon e') as [gv ds]. simpl in Ie.
  destruct (conv gv (unop_param op)) as [v| |] eqn:Ec; try reflexivity.
  destruct (has_errors ds); [reflexivity|].
  pose proof (conv_inv_pres _ _ _ Ie Ec) as Iv. rewrite (inv_unmark v Iv).
  destruct (call_unop op v) as [r| |] eqn:Eo; try reflexivity.
  simpl. apply (call_unop_inv op v r Iv Eo).
Qed.

Lemma iv_bin f op l r : IV f -> forall c anon, in_fragment (EBin op l r) -> ctx_inv c -> anon_inv anon ->
  inv (fst (ev_ (S f) c anon (EBin op l r))) = true.
Proof.
  intros IH c anon Fr C A. inversion Fr as [| | | | | | | |? ? ? Ho Fl Frr| | | | |]; subst. cbn [eval_with].
  pose proof (IH c anon l Fl C A) as Il. destruct (ev_ f c anon l) as [glv lds]. simpl in Il.
  pose proof (IH c anon r Frr C A) as Ir. destruct (ev_ f c anon r) as [grv rds]. simpl in Ir.
  destruct (has_unsupported lds || has_unsupported rds); [reflexivity|].
  destruct (conv glv (binop_param op)) as [lv| |] eqn:Ecl; try reflexivity;
    try (destruct (conv grv (binop_param op)); reflexivity).
  destruct (conv grv (binop_param op)) as [rv| |] eqn:Ecr; try reflexivity.
  pose proof (conv_inv_pres _ _ _ Il Ecl) as Ilv. pose proof (conv_inv_pres _ _ _ Ir Ecr) as Irv.
  rewrite (inv_unmark lv Ilv), (inv_unmark rv Irv). rewrite marks_union_nil_nil.
  repeat destruct_goal_inv; try reflexivity; try discriminate Ho.
  all: cbn [fst with_marks];
       match goal with
       | H : call_binop ?o ?x ?y = OOk ?res, I1 : inv ?x = true, I2 : inv ?y = true |- _ =>
           apply (call_binop_inv o x y res Ho I1 I2 H)
       end.
Qed.

Lemma marks_union_nil_r_nil : forall m, marks_union [] m = m. Proof. reflexivity. Qed.

Lemma iv_cond f ce te fe : IV f -> forall c anon, in_fragment (ECond ce te fe) -> ctx_inv c -> anon_inv anon ->
  inv (fst (ev_ (S f) c anon (ECond ce te fe))) = true.
Proof.
  intros IH c anon Fr C A. inversion Fr as [| | | | | | | | | |? ? ? Fc Ft Ff| | |]; subst. cbn [eval_with].
  pose proof (IH c anon te Ft C A) as It. destruct (ev_ f c anon te) as [tv tds]. simpl in It.
  pose proof (IH c anon fe Ff C A) as If. destruct (ev_ f c anon fe) as [fv fds]. simpl in If.
  destruct (has_unsupported tds || has_unsupported fds); [reflexivity|].
  match goal with
  | |- inv (fst (match ?u with _ => _ end)) = true => destruct u as [[[[rt tconv] fconv]|]|[|]]
  end; try reflexivity.
  pose proof (IH c anon ce Fc C A) as Ic. destruct (ev_ f c anon ce) as [cv cds]. simpl in Ic.
  destruct (is_null cv); [reflexivity|].
  rewrite (inv_unmark cv Ic), (inv_unmark tv It), (inv_unmark fv If).
  rewrite (inv_deep_marks tv It), (inv_deep_marks fv If).
  change (marks_unions [[]; []; []]) with (@nil Z). rewrite marks_union_nil_nil.
  destruct (negb (is_known cv)).
  - match goal with
    | |- inv (fst ?X) = true => change X with (cond_unk rt cds [] tv fv)
    end. apply (cond_unk_inv rt cds tv fv It If).
  - destruct (conv cv TBool) as [cb| |]; try reflexivity.
    destruct cb as [| |[|]| | | | | | | |]; try reflexivity.
    + destruct tconv; [|exact It]. destruct (conv tv rt) as [r| |] eqn:Er; try reflexivity.
      cbn [fst with_marks]. apply (conv_inv_pres _ _ _ It Er).
    + destruct fconv; [|exact If]. destruct (conv fv rt) as [r| |] eqn:Er; try reflexivity.
      cbn [fst with_marks]. apply (conv_inv_pres _ _ _ If Er).
Qed.

Lemma iv_tuple f es : IV f -> forall c anon, in_fragment (ETuple es) -> ctx_inv c -> anon_inv anon ->
  inv (fst (ev_ (S f) c anon (ETuple es))) = true.
Proof.
  intros IH c anon Fr C A. inversion Fr as [| | | |? Fes| | | | | | | | |]; subst. cbn [eval_with]. cbn [fst inv].
  apply forallb_Forall. apply Forall_forall. intros x Hx.
  apply in_map_iff in Hx as [[v d] [<- Hin]]. apply in_map_iff in Hin as [e [Ee Hin]].
  rewrite Forall_forall in Fes. pose proof (IH c anon e (Fes e Hin) C A) as Ie. rewrite Ee in Ie. exact Ie.
Qed.

Lemma iv_index f a b : IV f -> forall c anon, in_fragment (EIndex a b) -> ctx_inv c -> anon_inv anon ->
  inv (fst (ev_ (S f) c anon (EIndex a b))) = true.
Proof.
  intros IH c anon Fr C A. inversion Fr as [| | |? ? Fa Fb| | | | | | | | | |]; subst. cbn [eval_with].
  pose proof (IH c anon a Fa C A) as Ia. destruct (ev_ f c anon a) as [cv cds]. simpl in Ia.
  pose proof (IH c anon b Fb C A) as Ib. destruct (ev_ f c anon b) as [kv kds]. simpl in Ib.
  pose proof (index_inv cv kv Ia Ib) as Ii. destruct (index cv kv) as [r ids]. exact Ii.
Qed.

Lemma iv_reltrav f src steps : IV f -> forall c anon, in_fragment (ERelTrav src steps) -> ctx_inv c -> anon_inv anon ->
  inv (fst (ev_ (S f) c anon (ERelTrav src steps))) = true.
Proof.
  intros IH c anon Fr C A. inversion Fr as [| |? ? Fs Fst| | | | | | | | | | |]; subst. cbn [eval_with].
  pose proof (IH c anon src Fs C A) as Is. destruct (ev_ f c anon src) as [v ds]. simpl in Is.
  pose proof (traverse_rel_inv steps v [] Fst Is) as It. destruct (traverse_rel steps v []) as [r ds']. exact It.
Qed.

Lemma iv_scope root steps : forall c, forallb step_inv steps = true -> ctx_inv c ->
  inv (fst (traverse_abs c root steps)) = true.
Proof.
  intros c Fst C. unfold traverse_abs.
  destruct (lookup_var c root false) as [[v|] [|]] eqn:El; try reflexivity.
  - apply (traverse_rel_inv steps v [] Fst (lookup_var_inv _ _ _ _ _ C El)).
  - apply (traverse_rel_inv steps v [] Fst (lookup_var_inv _ _ _ _ _ C El)).
Qed.

Lemma iv_objkey f w force : IV f -> forall c anon, in_fragment (EObjKey w force) -> ctx_inv c -> anon_inv anon ->
  inv (fst (ev_ (S f) c anon (EObjKey w force))) = true.
Proof.
  intros IH c anon Fr C A. inversion Fr as [| | | | | |? ? Fw| | | | | | |]; subst. cbn [eval_with].
  destruct force; cbn [negb]; [apply (IH c anon w Fw C A)|].
  destruct w; try (destruct (literal_name _); [reflexivity|apply (IH c anon _ Fw C A)]).
  destruct steps; [reflexivity|reflexivity].
Qed.

(* templates *)
Definition tmpl_mk_nil (st : list Z * bool * marks * list diag) : Prop := let '(_, _, mk, _) := st in mk = [].

Lemma iv_tmpl f parts : IV f -> forall c anon, in_fragment (ETmpl parts) -> ctx_inv c -> anon_inv anon ->
  inv (fst (ev_ (S f) c anon (ETmpl parts))) = true.
Proof.
  intros IH c anon Fr C A. inversion Fr as [| | | | | | | | | | |? Fp| |]; subst. cbn [eval_with].
  match goal with
  | |- context [fold_left ?stp parts ?init] => set (stepf := stp) in *; set (st0 := init) in *
  end.
  assert (Hfold : forall ps st, Forall in_fragment ps -> tmpl_mk_nil st -> tmpl_mk_nil (fold_left stepf ps st)).
  { induction ps as [|p ps IHp]; intros st Fps Hst; simpl; [exact Hst|].
    inversion Fps as [|? ? Fp1 Fps']; subst. apply IHp; [exact Fps'|].
    destruct st as [[[buf known] mk] ds]. simpl in Hst. subst mk. unfold stepf.
    pose proof (IH c anon p Fp1 C A) as Ip. destruct (ev_ f c anon p) as [pv pds]. simpl in Ip.
    destruct (is_null pv); [reflexivity|]. rewrite (inv_unmark pv Ip). rewrite marks_union_nil_nil.
    destruct (negb (is_known pv)); [reflexivity|].
    destruct (conv pv TStr) as [ks| |]; try reflexivity.
    destruct ks; try reflexivity. destruct (known && negb (has_errors (ds ++ pds))); reflexivity. }
  pose proof (Hfold parts st0 Fp eq_refl) as Hm.
  destruct (fold_left stepf parts st0) as [[[buf known] mk] ds]. simpl in Hm. subst mk.
  destruct (negb known); [|reflexivity].
  destruct (negb (has_errors ds) && negb (str_eqb buf [])); reflexivity.
Qed.

(* object constructor *)
Definition obj_inv_st (st : list (list Z * val) * list marks * bool * list diag) : Prop :=
  let '(vals, mks, _, _) := st in
  Forall (fun p => inv (snd p) = true) vals /\ Forall (fun m => m = []) mks.

Lemma assoc_set_inv k v (l : list (list Z * val)) :
  inv v = true -> Forall (fun p => inv (snd p) = true) l -> Forall (fun p => inv (snd p) = true) (assoc_set k v l).
Proof.
  intros Iv. induction l as [|[k' v'] r IHl]; intros F; simpl.
  - constructor; [exact Iv|constructor].
  - inversion F; subst. destruct (str_eqb k k'); [constructor; assumption|].
    destruct (str_ltb k k'); [constructor; [exact Iv|exact F]|]. constructor; auto.
Qed.

Lemma marks_unions_nil l : Forall (fun m => m = []) l -> marks_unions l = [].
Proof. induction 1 as [|m r Hm _ IHr]; [reflexivity|]. simpl. rewrite Hm, IHr. reflexivity. Qed.

Lemma iv_obj f items : IV f -> forall c anon, in_fragment (EObj items) -> ctx_inv c -> anon_inv anon ->
  inv (fst (ev_ (S f) c anon (EObj items))) = true.
Proof.
  intros IH c anon Fr C A. inversion Fr as [| | | | |? Fi| | | | | | | |]; subst. cbn [eval_with].
  match goal with
  | |- context [fold_left ?stp items ?init] => set (stepf := stp) in *; set (st0 := init) in *
  end.
  assert (Hfold : forall its st, Forall (fun it => in_fragment (fst it) /\ in_fragment (snd it)) its ->
                    obj_inv_st st -> obj_inv_st (fold_left stepf its st)).
  { induction its as [|it its IHi]; intros st Fits Hst; simpl; [exact Hst|].
    inversion Fits as [|? ? [Fk Fv] Fits']; subst. apply IHi; [exact Fits'|].
    destruct st as [[[vals mks] known] ds]. destruct Hst as [Hv Hm]. unfold stepf.
    pose proof (IH c anon (fst it) Fk C A) as Ik. destruct (ev_ f c anon (fst it)) as [k kds]. simpl in Ik.
    pose proof (IH c anon (snd it) Fv C A) as Iv. destruct (ev_ f c anon (snd it)) as [v vds]. simpl in Iv.
    destruct (has_errors kds); [split; assumption|].
    destruct (is_null k); [split; assumption|].
    rewrite (inv_unmark k Ik).
    assert (Hm' : Forall (fun m : marks => m = []) (mks ++ [[]])).
    { apply Forall_app. split; [exact Hm|constructor; [reflexivity|constructor]]. }
    destruct (conv k TStr) as [ks| |]; try (split; assumption).
    destruct ks; try (split; assumption). split; [apply assoc_set_inv; assumption|exact Hm']. }
  assert (H0 : obj_inv_st st0) by (split; constructor).
  pose proof (Hfold items st0 Fi H0) as Hf.
  destruct (fold_left stepf items st0) as [[[vals mks] known] ds]. destruct Hf as [Hv Hm].
  rewrite (marks_unions_nil _ Hm). destruct (negb known); [reflexivity|].
  cbn [fst with_marks inv]. apply forallb_Forall. exact Hv.
Qed.

Theorem iv_all : forall f, IV f.
Proof.
  induction f as [|f IH]; intros c anon e Fr C A; [reflexivity|].
  destruct Fr as [v Hl|root steps Hs|src steps Fs Hs|a b Fa Fb|es Fes|items Fi|w force Fw|
                  |op l r Ho Fl Frr|op e Fe|ce te fe Fc Ft Ff|parts Fp|e Fe|e Fe].
  - cbn [eval_with]. simpl. unfold lit_ok in Hl. apply andb_true_iff in Hl. tauto.
  - cbn [eval_with]. apply (iv_scope root steps c Hs C).
  - apply (iv_reltrav f src steps IH c anon (F_rel _ _ Fs Hs) C A).
  - apply (iv_index f a b IH c anon (F_index _ _ Fa Fb) C A).
  - apply (iv_tuple f es IH c anon (F_tuple _ Fes) C A).
  - apply (iv_obj f items IH c anon (F_obj _ Fi) C A).
  - apply (iv_objkey f w force IH c anon (F_objkey _ _ Fw) C A).
  - cbn [eval_with]. destruct anon as [a|]; [apply (A a eq_refl)|reflexivity].
  - apply (iv_bin f op l r IH c anon (F_bin _ _ _ Ho Fl Frr) C A).
  - apply (iv_un f op e IH c anon (F_un _ _ Fe) C A).
  - apply (iv_cond f ce te fe IH c anon (F_cond _ _ _ Fc Ft Ff) C A).
  - apply (iv_tmpl f parts IH c anon (F_tmpl _ Fp) C A).
  - cbn [eval_with]. apply (IH c anon e Fe C A).
  - cbn [eval_with]. apply (IH c anon e Fe C A).
Qed.

(* ---- soundness: the induction ---------------------------------------------------------------------------- *)
Definition SI (f : nat) : Prop := forall e cA cC anA anC,
  in_fragment e -> ctx_rel cA cC -> anon_rel anA anC ->
  clean f cA anA e = true -> clean f cC anC e = true ->
  gsb (fst (ev_ f cA anA e)) (fst (ev_ f cC anC e)) = true.

(* everything known about a pair of sub-evaluations *)
Lemma sub_facts f e cA cC anA anC vA dA vC dC :
  SI f -> in_fragment e -> ctx_rel cA cC -> anon_rel anA anC ->
  clean f cA anA e = true -> clean f cC anC e = true ->
  ev_ f cA anA e = (vA, dA) -> ev_ f cC anC e = (vC, dC) ->
  inv vA = true /\ inv vC = true /\ gsb vA vC = true /\ diag_ok dA = true /\ diag_ok dC = true.
Proof.
  intros IH Fr R Ra KA KC EA EC.
  destruct (ctx_rel_inv _ _ R) as [CiA CiC]. destruct (anon_rel_inv _ _ Ra) as [AiA AiC].
  pose proof (iv_all f cA anA e Fr CiA AiA) as IA. pose proof (iv_all f cC anC e Fr CiC AiC) as IC.
  pose proof (IH e cA cC anA anC Fr R Ra KA KC) as G.
  pose proof (clean_diag_ok _ _ _ _ KA) as DA. pose proof (clean_diag_ok _ _ _ _ KC) as DC.
  rewrite EA in IA, G, DA. rewrite EC in IC, G, DC. simpl in *. auto.
Qed.

Lemma clean_S f c an e : clean (S f) c an e = true ->
  diag_ok (snd (ev_ (S f) c an e)) = true /\
  match e with
  | ELit _ | EScopeTrav _ _ | EAnon => True
  | EParen e' | EWrap e' | EUn _ e' | ERelTrav e' _ => clean f c an e' = true
  | EObjKey w force =>
      (if negb force then
         match w with
         | EScopeTrav _ (_ :: _) => true
         | _ => match literal_name w with Some _ => true | None => clean f c an w end
         end
       else clean f c an w) = true
  | EIndex a b | EBin _ a b => clean f c an a = true /\ clean f c an b = true
  | ETuple es | ETmpl es => forallb (clean f c an) es = true
  | EObj items => forallb (fun it => clean f c an (fst it) && clean f c an (snd it)) items = true
  | ECond ce te fe =>
      clean f c an ce = true /\ clean f c an te = true /\ clean f c an fe = true /\
      arm_ok (fst (ev_ f c an te)) = true /\ arm_ok (fst (ev_ f c an fe)) = true
  | _ => False
  end.
Proof.
  cbn [clean]. intros H. apply andb_true_iff in H as [H1 H2]. split; [exact H1|].
  destruct e; try exact I; try exact H2; try discriminate H2.
  - repeat (apply andb_true_iff in H2 as [H2 ?]). auto.
  - apply andb_true_iff in H2. exact H2.
  - apply andb_true_iff in H2. exact H2.
Qed.

Lemma si_un f op e' : SI f -> forall cA cC anA anC,
  in_fragment (EUn op e') -> ctx_rel cA cC -> anon_rel anA anC ->
  clean (S f) cA anA (EUn op e') = true -> clean (S f) cC anC (EUn op e') = true ->
  gsb (fst (ev_ (S f) cA anA (EUn op e'))) (fst (ev_ (S f) cC anC (EUn op e'))) = true.
Proof.
  intros IH cA cC anA anC Fr R Ra KA KC. inversion Fr; subst.
  apply clean_S in KA as [DA KA']. apply clean_S in KC as [DC KC'].
  cbn [eval_with] in *.
  destruct (ev_ f cA anA e') as [gA dsA] eqn:EA. destruct (ev_ f cC anC e') as [gC dsC] eqn:EC.
  destruct (sub_facts f e' cA cC anA anC gA dsA gC dsC IH H0 R Ra KA' KC' EA EC) as [IA [IC [G [DsA DsC]]]].
  destruct (conv gA (unop_param op)) as [vA| |] eqn:EcA; try (exfalso; cbn [snd] in DA; rewrite diag_ok_app, andb_false_r in DA; discriminate).
  destruct (conv gC (unop_param op)) as [vC| |] eqn:EcC; try (exfalso; cbn [snd] in DC; rewrite diag_ok_app, andb_false_r in DC; discriminate).
  apply diag_ok_elim in DsA as [HeA _]. apply diag_ok_elim in DsC as [HeC _]. rewrite HeA in *. rewrite HeC in *.
  pose proof (conv_inv_pres _ _ _ IA EcA) as IvA. pose proof (conv_inv_pres _ _ _ IC EcC) as IvC.
  rewrite (inv_unmark vA IvA) in *. rewrite (inv_unmark vC IvC) in *.
  assert (Hp : is_prim (unop_param op) = true) by (destruct op; reflexivity).
  pose proof (conv_gs_prim gA gC _ vA vC Hp IA IC G EcA EcC) as Gv.
  assert (Tv : type_of vA = unop_param op) by (apply (conv_type _ _ _ EcA); destruct op; reflexivity).
  destruct (call_unop op vA) as [rA| |] eqn:EoA; try (exfalso; cbn [snd] in DA; rewrite diag_ok_app, andb_false_r in DA; discriminate).
  destruct (call_unop op vC) as [rC| |] eqn:EoC; try (exfalso; cbn [snd] in DC; rewrite diag_ok_app, andb_false_r in DC; discriminate).
  cbn [fst with_marks]. apply (call_unop_gs op vA vC rA rC IvA IvC Gv Tv EoA EoC).
Qed.

Lemma si_index f a b : SI f -> forall cA cC anA anC,
  in_fragment (EIndex a b) -> ctx_rel cA cC -> anon_rel anA anC ->
  clean (S f) cA anA (EIndex a b) = true -> clean (S f) cC anC (EIndex a b) = true ->
  gsb (fst (ev_ (S f) cA anA (EIndex a b))) (fst (ev_ (S f) cC anC (EIndex a b))) = true.
Proof.
  intros IH cA cC anA anC Fr R Ra KA KC. inversion Fr as [| | |? ? Fa Fb| | | | | | | | | |]; subst.
  apply clean_S in KA as [DA [KAa KAb]]. apply clean_S in KC as [DC [KCa KCb]].
  cbn [eval_with] in *.
  destruct (ev_ f cA anA a) as [cvA cdA] eqn:EAa. destruct (ev_ f cC anC a) as [cvC cdC] eqn:ECa.
  destruct (ev_ f cA anA b) as [kvA kdA] eqn:EAb. destruct (ev_ f cC anC b) as [kvC kdC] eqn:ECb.
  destruct (sub_facts f a cA cC anA anC _ _ _ _ IH Fa R Ra KAa KCa EAa ECa) as [IcA [IcC [Gc _]]].
  destruct (sub_facts f b cA cC anA anC _ _ _ _ IH Fb R Ra KAb KCb EAb ECb) as [IkA [IkC [Gk _]]].
  destruct (index cvA kvA) as [rA idA] eqn:EiA. destruct (index cvC kvC) as [rC idC] eqn:EiC.
  cbn [fst snd] in *. rewrite !diag_ok_app in DA, DC.
  apply andb_true_iff in DA as [_ DA]. apply andb_true_iff in DA as [_ DA].
  apply andb_true_iff in DC as [_ DC]. apply andb_true_iff in DC as [_ DC].
  apply (index_gs cvA kvA cvC kvC rA idA rC idC IcA IkA IcC IkC Gc Gk EiA EiC DA DC).
Qed.

Lemma si_reltrav f src steps : SI f -> forall cA cC anA anC,
  in_fragment (ERelTrav src steps) -> ctx_rel cA cC -> anon_rel anA anC ->
  clean (S f) cA anA (ERelTrav src steps) = true -> clean (S f) cC anC (ERelTrav src steps) = true ->
  gsb (fst (ev_ (S f) cA anA (ERelTrav src steps))) (fst (ev_ (S f) cC anC (ERelTrav src steps))) = true.
Proof.
  intros IH cA cC anA anC Fr R Ra KA KC. inversion Fr as [| |? ? Fs Fst| | | | | | | | | | |]; subst.
  apply clean_S in KA as [DA KA']. apply clean_S in KC as [DC KC'].
  cbn [eval_with] in *.
  destruct (ev_ f cA anA src) as [vA dsA] eqn:EA. destruct (ev_ f cC anC src) as [vC dsC] eqn:EC.
  destruct (sub_facts f src cA cC anA anC _ _ _ _ IH Fs R Ra KA' KC' EA EC) as [IA [IC [G _]]].
  destruct (traverse_rel steps vA []) as [rA tdA] eqn:EtA. destruct (traverse_rel steps vC []) as [rC tdC] eqn:EtC.
  cbn [fst snd] in *. rewrite diag_ok_app in DA, DC.
  apply andb_true_iff in DA as [_ DA]. apply andb_true_iff in DC as [_ DC].
  apply (traverse_rel_gs steps vA vC [] [] rA tdA rC tdC Fst IA IC G EtA EtC DA DC).
Qed.

Lemma si_scope root steps cA cC : forallb step_inv steps = true -> ctx_rel cA cC ->
  diag_ok (snd (traverse_abs cA root steps)) = true -> diag_ok (snd (traverse_abs cC root steps)) = true ->
  gsb (fst (traverse_abs cA root steps)) (fst (traverse_abs cC root steps)) = true.
Proof.
  intros Fst R DA DC. unfold traverse_abs in *.
  pose proof (lookup_var_rel cA cC root false R) as L.
  destruct (lookup_var cA root false) as [[vA|] bA]; destruct (lookup_var cC root false) as [[vC|] bC]; try contradiction.
  - destruct L as [IA [IC G]].
    destruct (traverse_rel steps vA []) as [rA tdA] eqn:EtA. destruct (traverse_rel steps vC []) as [rC tdC] eqn:EtC.
    apply (traverse_rel_gs steps vA vC [] [] rA tdA rC tdC Fst IA IC G EtA EtC DA DC).
  - destruct bA; discriminate DA.
Qed.

Lemma si_tuple f es : SI f -> forall cA cC anA anC,
  in_fragment (ETuple es) -> ctx_rel cA cC -> anon_rel anA anC ->
  clean (S f) cA anA (ETuple es) = true -> clean (S f) cC anC (ETuple es) = true ->
  gsb (fst (ev_ (S f) cA anA (ETuple es))) (fst (ev_ (S f) cC anC (ETuple es))) = true.
Proof.
  intros IH cA cC anA anC Fr R Ra KA KC. inversion Fr as [| | | |? Fes| | | | | | | | |]; subst.
  apply clean_S in KA as [_ KA']. apply clean_S in KC as [_ KC'].
  cbn [eval_with fst gsb]. rewrite forallb_Forall in KA', KC'.
  induction es as [|e es IHes]; [reflexivity|].
  inversion Fes; inversion KA'; inversion KC'; subst. simpl. apply andb_true_iff. split.
  - apply (IH e cA cC anA anC); assumption.
  - apply IHes; try assumption. constructor. assumption.
Qed.

Lemma si_objkey f w force : SI f -> forall cA cC anA anC,
  in_fragment (EObjKey w force) -> ctx_rel cA cC -> anon_rel anA anC ->
  clean (S f) cA anA (EObjKey w force) = true -> clean (S f) cC anC (EObjKey w force) = true ->
  gsb (fst (ev_ (S f) cA anA (EObjKey w force))) (fst (ev_ (S f) cC anC (EObjKey w force))) = true.
Proof.
  intros IH cA cC anA anC Fr R Ra KA KC. inversion Fr as [| | | | | |? ? Fw| | | | | | |]; subst.
  apply clean_S in KA as [DA KA']. apply clean_S in KC as [DC KC'].
  cbn [eval_with] in *. destruct force; cbn [negb] in *.
  - apply (IH w cA cC anA anC Fw R Ra KA' KC').
  - destruct w; try (destruct (literal_name _) eqn:L;
                     [cbn [fst gsb]; apply str_eqb_refl|apply (IH _ cA cC anA anC Fw R Ra KA' KC')]).
    destruct steps; [cbn [literal_name fst gsb]; apply str_eqb_refl|discriminate DA].
Qed.

(* ---- binary operators -------------------------------------------------------------------------------------- *)
(* the part of BinaryOpExpr.Value after the operand conversions, for unmarked operands
   (copy of Impl.v; [bin_tail_eq] below checks the correspondence by conversion) *)
Definition bin_tail (op : binop) (lu ru : val) (lds rds : list diag) : val * list diag :=
  let sc : option (val * list diag) :=
    match op with
    | OpOr | OpAnd =>
        let tru (v : val) := match v with VBool true => true | _ => false end in
        let fls (v : val) := negb (tru v) in
        let lk := is_known lu in let rk := is_known ru in
        if negb lk && negb rk then
          (if negb (has_errors lds) then Some (unk_bool_nn, lds) else None)
        else
        match op with
        | OpOr =>
            if lk && tru lu then Some (VBool true, lds)
            else if rk && tru ru then Some (VBool true, rds)
            else if negb lk && fls ru then Some (unk_bool_nn, lds)
            else if negb rk && fls lu then Some (unk_bool_nn, rds)
            else None
        | _ =>
            if lk && fls lu then Some (VBool false, lds)
            else if rk && fls ru then Some (VBool false, rds)
            else if negb lk && tru ru then Some (unk_bool_nn, lds)
            else if negb rk && tru lu then Some (unk_bool_nn, rds)
            else None
        end
    | _ => None
    end in
  match sc with
  | Some (v, ds) => (v, ds)
  | None =>
      let ds := lds ++ rds in
      if has_errors ds then (VUnk (binop_type op) rf_none, ds)
      else match call_binop op lu ru with
           | OOk res => (res, ds)
           | OErr _ => (VUnk (binop_type op) rf_none, ds ++ [derr S_OperationFailed []])
           | OUnsupported => (VUnk (binop_type op) rf_none, ds ++ [dunsupported])
           end
  end.

Lemma gsb_bool_unk_shape r c : inv c = true -> gsb (VUnk TBool r) c = true ->
  (exists b, c = VBool b) \/ c = VNull TBool.
Proof.
  intros I G. simpl in G. unfold conc in G. apply andb_true_iff in G as [G _]. apply andb_true_iff in G as [W Cf].
  pose proof (conf_nodyn _ TBool eq_refl Cf) as T.
  destruct (inv_bool_shape c I T) as [H|[H|[r0 ->]]]; [left; exact H|right; exact H|discriminate W].
Qed.

Lemma bin_tail_logic_gs op luA ruA luC ruC ldsA rdsA ldsC rdsC :
  (op = OpOr \/ op = OpAnd) ->
  inv luA = true -> inv ruA = true -> inv luC = true -> inv ruC = true ->
  gsb luA luC = true -> gsb ruA ruC = true ->
  type_of luA = TBool -> type_of ruA = TBool ->
  diag_ok ldsA = true -> diag_ok rdsA = true -> diag_ok ldsC = true -> diag_ok rdsC = true ->
  diag_ok (snd (bin_tail op luA ruA ldsA rdsA)) = true -> diag_ok (snd (bin_tail op luC ruC ldsC rdsC)) = true ->
  gsb (fst (bin_tail op luA ruA ldsA rdsA)) (fst (bin_tail op luC ruC ldsC rdsC)) = true.
Proof.
  intros Hop IlA IrA IlC IrC Gl Gr TlA TrA D1 D2 D3 D4 DA DC.
  assert (H1 : has_errors ldsA = false) by (apply diag_ok_elim in D1; tauto).
  assert (H2 : has_errors rdsA = false) by (apply diag_ok_elim in D2; tauto).
  assert (H3 : has_errors ldsC = false) by (apply diag_ok_elim in D3; tauto).
  assert (H4 : has_errors rdsC = false) by (apply diag_ok_elim in D4; tauto).
  unfold bin_tail in *. rewrite !has_errors_app in *. rewrite H1, H2 in *. rewrite H3, H4 in *.
  destruct (inv_bool_shape luA IlA TlA) as [[b1 ->]|[->|[r1 ->]]];
  destruct (inv_bool_shape ruA IrA TrA) as [[b2 ->]|[->|[r2 ->]]].
  all: try (apply gsb_known_eq in Gl; [subst luC|reflexivity]).
  all: try (apply gsb_known_eq in Gr; [subst ruC|reflexivity]).
  all: try (destruct (gsb_bool_unk_shape _ _ IlC Gl) as [[c1 ->]| ->]).
  all: try (destruct (gsb_bool_unk_shape _ _ IrC Gr) as [[c2 ->]| ->]).
  all: destruct Hop as [-> | ->].
  all: try destruct b1; try destruct b2; try destruct c1; try destruct c2.
  all: cbn in DA, DC |- *; try reflexivity.
  all: exfalso; repeat rewrite diag_ok_app in DC; repeat rewrite diag_ok_app in DA;
       rewrite ?diag_ok_cons_err, ?diag_ok_cons_unsup, ?andb_false_r in DA;
       rewrite ?diag_ok_cons_err, ?diag_ok_cons_unsup, ?andb_false_r in DC;
       first [discriminate DA | discriminate DC].
Qed.

Lemma bin_tail_arith_gs op luA ruA luC ruC ldsA rdsA ldsC rdsC :
  is_eq_op op = false -> op <> OpOr -> op <> OpAnd ->
  inv luA = true -> inv ruA = true -> inv luC = true -> inv ruC = true ->
  gsb luA luC = true -> gsb ruA ruC = true ->
  type_of luA = binop_param op -> type_of ruA = binop_param op ->
  diag_ok (snd (bin_tail op luA ruA ldsA rdsA)) = true -> diag_ok (snd (bin_tail op luC ruC ldsC rdsC)) = true ->
  gsb (fst (bin_tail op luA ruA ldsA rdsA)) (fst (bin_tail op luC ruC ldsC rdsC)) = true.
Proof.
  intros Ho N1 N2 IlA IrA IlC IrC Gl Gr TlA TrA DA DC.
  assert (EA : bin_tail op luA ruA ldsA rdsA =
               let ds := ldsA ++ rdsA in
               if has_errors ds then (VUnk (binop_type op) rf_none, ds)
               else match call_binop op luA ruA with
                    | OOk res => (res, ds)
                    | OErr _ => (VUnk (binop_type op) rf_none, ds ++ [derr S_OperationFailed []])
                    | OUnsupported => (VUnk (binop_type op) rf_none, ds ++ [dunsupported])
                    end) by (destruct op; try reflexivity; congruence).
  assert (EC : bin_tail op luC ruC ldsC rdsC =
               let ds := ldsC ++ rdsC in
               if has_errors ds then (VUnk (binop_type op) rf_none, ds)
               else match call_binop op luC ruC with
                    | OOk res => (res, ds)
                    | OErr _ => (VUnk (binop_type op) rf_none, ds ++ [derr S_OperationFailed []])
                    | OUnsupported => (VUnk (binop_type op) rf_none, ds ++ [dunsupported])
                    end) by (destruct op; try reflexivity; congruence).
  rewrite EA in *. rewrite EC in *. cbv zeta in *.
  destruct (has_errors (ldsA ++ rdsA)) eqn:HA; [cbn [snd] in DA; rewrite (diag_ok_has_errors _ HA) in DA; discriminate|].
  destruct (has_errors (ldsC ++ rdsC)) eqn:HC; [cbn [snd] in DC; rewrite (diag_ok_has_errors _ HC) in DC; discriminate|].
  destruct (call_binop op luA ruA) as [rA| |] eqn:EoA;
    try (exfalso; cbn [snd] in DA; rewrite diag_ok_app, andb_false_r in DA; discriminate).
  destruct (call_binop op luC ruC) as [rC| |] eqn:EoC;
    try (exfalso; cbn [snd] in DC; rewrite diag_ok_app, andb_false_r in DC; discriminate).
  cbn [fst]. apply (call_binop_gs op luA ruA luC ruC rA rC Ho IlA IrA IlC IrC Gl Gr TlA TrA EoA EoC).
Qed.

Ltac kill D :=
  exfalso; cbn [snd app] in D; repeat rewrite diag_ok_app in D;
  rewrite ?diag_ok_cons_err, ?diag_ok_cons_unsup in D;
  rewrite ?andb_false_r, ?andb_false_l in D; cbn [andb] in D; discriminate D.

Lemma si_bin f op l r : SI f -> forall cA cC anA anC,
  in_fragment (EBin op l r) -> ctx_rel cA cC -> anon_rel anA anC ->
  clean (S f) cA anA (EBin op l r) = true -> clean (S f) cC anC (EBin op l r) = true ->
  gsb (fst (ev_ (S f) cA anA (EBin op l r))) (fst (ev_ (S f) cC anC (EBin op l r))) = true.
Proof.
  intros IH cA cC anA anC Fr R Ra KA KC. inversion Fr as [| | | | | | | |? ? ? Ho Fl Frr| | | | |]; subst.
  apply clean_S in KA as [DA [KAl KAr]]. apply clean_S in KC as [DC [KCl KCr]].
  cbn [eval_with] in *.
  destruct (ev_ f cA anA l) as [glA ldsA] eqn:EAl. destruct (ev_ f cC anC l) as [glC ldsC] eqn:ECl.
  destruct (ev_ f cA anA r) as [grA rdsA] eqn:EAr. destruct (ev_ f cC anC r) as [grC rdsC] eqn:ECr.
  destruct (sub_facts f l cA cC anA anC _ _ _ _ IH Fl R Ra KAl KCl EAl ECl) as [IlA [IlC [Gl [D1 D3]]]].
  destruct (sub_facts f r cA cC anA anC _ _ _ _ IH Frr R Ra KAr KCr EAr ECr) as [IrA [IrC [Gr [D2 D4]]]].
  assert (U1 : has_unsupported ldsA || has_unsupported rdsA = false).
  { apply diag_ok_elim in D1 as [_ ->]. apply diag_ok_elim in D2 as [_ ->]. reflexivity. }
  assert (U2 : has_unsupported ldsC || has_unsupported rdsC = false).
  { apply diag_ok_elim in D3 as [_ ->]. apply diag_ok_elim in D4 as [_ ->]. reflexivity. }
  rewrite U1 in *. rewrite U2 in *.
  destruct (conv glA (binop_param op)) as [lvA| |] eqn:EclA;
    try (destruct (conv grA (binop_param op)); kill DA).
  destruct (conv grA (binop_param op)) as [rvA| |] eqn:EcrA; try (kill DA).
  destruct (conv glC (binop_param op)) as [lvC| |] eqn:EclC;
    try (destruct (conv grC (binop_param op)); kill DC).
  destruct (conv grC (binop_param op)) as [rvC| |] eqn:EcrC; try (kill DC).
  pose proof (conv_inv_pres _ _ _ IlA EclA) as IlvA. pose proof (conv_inv_pres _ _ _ IrA EcrA) as IrvA.
  pose proof (conv_inv_pres _ _ _ IlC EclC) as IlvC. pose proof (conv_inv_pres _ _ _ IrC EcrC) as IrvC.
  rewrite (inv_unmark lvA IlvA), (inv_unmark rvA IrvA) in *. rewrite (inv_unmark lvC IlvC), (inv_unmark rvC IrvC) in *.
  rewrite marks_union_nil_nil in *. cbn [with_marks] in *.
  assert (Hp : is_prim (binop_param op) = true) by (destruct op; try discriminate Ho; reflexivity).
  assert (Hd : has_dyn (binop_param op) = false) by (destruct op; try discriminate Ho; reflexivity).
  pose proof (conv_gs_prim glA glC _ lvA lvC Hp IlA IlC Gl EclA EclC) as Glv.
  pose proof (conv_gs_prim grA grC _ rvA rvC Hp IrA IrC Gr EcrA EcrC) as Grv.
  pose proof (conv_type _ _ _ EclA Hd) as TlA. pose proof (conv_type _ _ _ EcrA Hd) as TrA.
  match goal with
  | |- gsb (fst ?X) (fst ?Y) = true =>
      change X with (bin_tail op lvA rvA ldsA rdsA) in *; change Y with (bin_tail op lvC rvC ldsC rdsC) in *
  end.
  destruct op; try discriminate Ho.
  1,2: apply bin_tail_logic_gs; auto.
  all: apply bin_tail_arith_gs; auto; discriminate.
Qed.
