(* Eval/MarksNI.v — C06, marks non-interference for the evaluator model: definitions
   (observations, erasure, low-equivalence) and the value-level lemmas.

   Fix a mark label m.  [erase m v] is the observation of v by somebody who may not look
   under mark m: every subtree [VMark ms x] with m ∈ ms becomes the single token ★ (OStar),
   everything else (structure, declared types, all other marks, refinements) is kept.

   WHAT OF A MARKED SUBTREE STAYS VISIBLE: nothing but the fact that it carries m.
   DESIGN.md suggests keeping the type and the whole mark set of the hidden subtree visible.
   Both variants are REFUTED on the faithful model for benign reasons (MarksNI_Refuted.v):
     - the type of a result legitimately depends on hidden content although the result is
       marked ([for x in s : x] over a marked list: the tuple type has the list's length);
     - the other marks of a marked result legitimately depend on hidden content (Equals and
       every function parameter without AllowMarked hoist the marks nested inside the
       hidden content to the top of the result).
   With an opaque ★ the relation is closed under composition, the hypothesis on the inputs
   is weaker (the hidden contents may even change type), and the conclusion is exactly the
   contrapositive of the property: two error-free results can only differ under mark m,
   in both.  Mark sets and types of everything that is NOT under m stay visible. *)
From Coq Require Import QArith.
From HclV Require Import Base.Prelude Cty.Values Cty.Convert Cty.Ops Eval.Impl.
Open Scope Z_scope.

(* ---- observations ------------------------------------------------------------------- *)
Inductive oval :=
| OStar
| OStr (s : list Z) | ONum (n : num) | OBool (b : bool) | ONull (t : ty) | OUnk (t : ty) (r : rf)
| OList (t : ty) (l : list oval) | OSet (t : ty) (l : list oval)
| OMap (t : ty) (l : list (list Z * oval))
| OTuple (l : list oval) | OObj (l : list (list Z * oval))
| OMark (ms : marks) (v : oval).

Definition is_mark (v : val) : bool := match v with VMark _ _ => true | _ => false end.

Fixpoint erase (m : Z) (v : val) : oval :=
  match v with
  | VStr s => OStr s | VNum n => ONum n | VBool b => OBool b
  | VNull t => ONull t | VUnk t r => OUnk t r
  | VList t l => OList t (map (erase m) l)
  | VSet t l => OSet t (map (erase m) l)
  | VMap t l => OMap t (map (fun p => (fst p, erase m (snd p))) l)
  | VTuple l => OTuple (map (erase m) l)
  | VObj l => OObj (map (fun p => (fst p, erase m (snd p))) l)
  | VMark ms x => if mark_mem m ms then OStar else OMark ms (erase m x)
  end.

(* low-equivalence of values, of optional values, of variable tables, of contexts *)
Definition leq (m : Z) (v1 v2 : val) : Prop := erase m v1 = erase m v2.

Definition leq_opt (m : Z) (a1 a2 : option val) : Prop :=
  match a1, a2 with
  | Some v1, Some v2 => leq m v1 v2
  | None, None => True
  | _, _ => False
  end.

Definition leq_kv (m : Z) (p q : list Z * val) : Prop := fst p = fst q /\ leq m (snd p) (snd q).

Definition leq_vars (m : Z) (a b : option (list (list Z * val))) : Prop :=
  match a, b with
  | Some x, Some y => Forall2 (leq_kv m) x y
  | None, None => True
  | _, _ => False
  end.

(* same frame structure, same variable names in the same order, low-equal values,
   the very same function tables *)
Definition low_eq_frame (m : Z) (f1 f2 : frame) : Prop :=
  leq_vars m (fvars f1) (fvars f2) /\ ffuncs f1 = ffuncs f2.
Definition low_eq (m : Z) (c1 c2 : ctx) : Prop := Forall2 (low_eq_frame m) c1 c2.

(* ---- well-formed values ---------------------------------------------------------------------
   The data-structure invariants of go-cty values:
   (1) a mark set is never empty, and there is no mark directly under a mark (Value.Mark /
       WithMarks merge the sets; with_marks merges and never attaches an empty set).
       The operations look through exactly one layer of marks (unmark) or through all of them
       (type_of), so their behaviour on doubly marked values is an artefact of the model;
   (2) well-typed collections: every element of a list / set of element type t, and every value
       of a map of element type t, has type t (cty.ListVal etc. enforce it).
   [wfb v]: both hold everywhere in v. *)
Definition is_nilm (ms : marks) : bool := match ms with [] => true | _ => false end.
Fixpoint wfb (v : val) : bool :=
  match v with
  | VMark ms x => negb (is_nilm ms) && (negb (is_mark x) && wfb x)
  | VList t l | VSet t l => forallb (fun x => ty_eqb (type_of x) t && wfb x) l
  | VTuple l => forallb wfb l
  | VMap t l => forallb (fun p => ty_eqb (type_of (snd p)) t && wfb (snd p)) l
  | VObj l => forallb (fun p => wfb (snd p)) l
  | _ => true
  end.
Definition wf (v : val) : Prop := wfb v = true.
Lemma wf_mark_inv ms x : wf (VMark ms x) -> ms <> [] /\ is_mark x = false /\ wf x.
Proof.
  unfold wf. cbn [wfb]. intro H. apply andb_true_iff in H as [A H]. apply andb_true_iff in H as [B C].
  apply negb_true_iff in B. split; [|split; assumption]. destruct ms; [discriminate A|discriminate].
Qed.
Definition wf_opt (a : option val) : Prop := match a with Some v => wf v | None => True end.
Definition wf_ctx (c : ctx) : Prop :=
  forall fr vs k v, In fr c -> fvars fr = Some vs -> In (k, v) vs -> wf v.

(* ---- induction principle for val (nested lists) --------------------------------------- *)
Section ValInd.
  Variable P : val -> Prop.
  Hypothesis Hstr : forall s, P (VStr s).
  Hypothesis Hnum : forall n, P (VNum n).
  Hypothesis Hbool : forall b, P (VBool b).
  Hypothesis Hnull : forall t, P (VNull t).
  Hypothesis Hunk : forall t r, P (VUnk t r).
  Hypothesis Hlist : forall t l, Forall P l -> P (VList t l).
  Hypothesis Hset : forall t l, Forall P l -> P (VSet t l).
  Hypothesis Hmap : forall t l, Forall (fun p => P (snd p)) l -> P (VMap t l).
  Hypothesis Htuple : forall l, Forall P l -> P (VTuple l).
  Hypothesis Hobj : forall l, Forall (fun p => P (snd p)) l -> P (VObj l).
  Hypothesis Hmark : forall ms v, P v -> P (VMark ms v).

  Fixpoint val_ind' (v : val) : P v :=
    let fix go (l : list val) : Forall P l :=
      match l with [] => Forall_nil _ | x :: r => Forall_cons _ (val_ind' x) (go r) end in
    let fix gokv (l : list (list Z * val)) : Forall (fun p => P (snd p)) l :=
      match l with [] => Forall_nil _ | x :: r => Forall_cons _ (val_ind' (snd x)) (gokv r) end in
    match v with
    | VStr s => Hstr s | VNum n => Hnum n | VBool b => Hbool b
    | VNull t => Hnull t | VUnk t r => Hunk t r
    | VList t l => Hlist t l (go l)
    | VSet t l => Hset t l (go l)
    | VMap t l => Hmap t l (gokv l)
    | VTuple l => Htuple l (go l)
    | VObj l => Hobj l (gokv l)
    | VMark ms x => Hmark ms x (val_ind' x)
    end.
End ValInd.

(* ---- types: induction principle and decidable equality ------------------------------------------ *)
Section TyInd.
  Variable P : ty -> Prop.
  Hypothesis HStr : P TStr.
  Hypothesis HNum : P TNum.
  Hypothesis HBool : P TBool.
  Hypothesis HDyn : P TDyn.
  Hypothesis HList : forall t, P t -> P (TList t).
  Hypothesis HSet : forall t, P t -> P (TSet t).
  Hypothesis HMap : forall t, P t -> P (TMap t).
  Hypothesis HTuple : forall ts, Forall P ts -> P (TTuple ts).
  Hypothesis HObj : forall fs, Forall (fun p => P (snd p)) fs -> P (TObj fs).
  Fixpoint ty_ind' (t : ty) : P t :=
    match t with
    | TStr => HStr | TNum => HNum | TBool => HBool | TDyn => HDyn
    | TList x => HList x (ty_ind' x)
    | TSet x => HSet x (ty_ind' x)
    | TMap x => HMap x (ty_ind' x)
    | TTuple ts =>
        HTuple ts ((fix go (l : list ty) : Forall P l :=
                      match l with [] => Forall_nil _ | x :: r => Forall_cons x (ty_ind' x) (go r) end) ts)
    | TObj fs =>
        HObj fs ((fix go (l : list (list Z * ty)) : Forall (fun p => P (snd p)) l :=
                    match l with [] => Forall_nil _ | x :: r => Forall_cons x (ty_ind' (snd x)) (go r) end) fs)
    end.
End TyInd.

Lemma str_eqb_eq a b : str_eqb a b = true <-> a = b.
Proof. apply zlist_eqb_eq. Qed.

Lemma ty_eqb_eq : forall a b, ty_eqb a b = true <-> a = b.
Proof.
  induction a as [| | | |x IH|x IH|x IH|ts IH|fs IH] using ty_ind'; intros b; destruct b;
    simpl; try (split; [reflexivity || discriminate | reflexivity || discriminate]).
  - rewrite IH. split; congruence.
  - rewrite IH. split; congruence.
  - rewrite IH. split; congruence.
  - revert ts0. induction IH as [|x r Hx _ IHr]; intros [|y ys]; simpl;
      try (split; [reflexivity || discriminate | reflexivity || discriminate]).
    rewrite andb_true_iff, Hx. specialize (IHr ys). split.
    + intros [E1 E2]. apply IHr in E2. congruence.
    + intros E. injection E as E1 E2. split; [assumption|]. apply IHr. congruence.
  - revert fs0. induction IH as [|[k x] r Hx _ IHr]; intros [|[k' y] ys]; simpl;
      try (split; [reflexivity || discriminate | reflexivity || discriminate]).
    simpl in Hx. rewrite !andb_true_iff, Hx, str_eqb_eq. specialize (IHr ys). split.
    + intros [[E0 E1] E2]. apply IHr in E2. congruence.
    + intros E. injection E as E0 E1 E2. split; [split; assumption|]. apply IHr. congruence.
Qed.
Lemma ty_eqb_refl a : ty_eqb a a = true.
Proof. apply ty_eqb_eq. reflexivity. Qed.

(* ---- marks ------------------------------------------------------------------------------ *)
Lemma mark_mem_insert m x l : mark_mem m (mark_insert x l) = (m =? x) || mark_mem m l.
Proof.
  induction l as [|y r IH]; cbn [mark_insert mark_mem existsb].
  - reflexivity.
  - destruct (x <? y) eqn:E1; [reflexivity|].
    destruct (x =? y) eqn:E2.
    + apply Z.eqb_eq in E2; subst. cbn [existsb]. destruct (m =? y); reflexivity.
    + cbn [existsb]. fold (mark_mem m (mark_insert x r)). rewrite IH.
      fold (mark_mem m r). destruct (m =? y), (m =? x); reflexivity.
Qed.

Lemma mark_mem_union m a b : mark_mem m (marks_union a b) = mark_mem m a || mark_mem m b.
Proof.
  unfold marks_union. induction a as [|x r IH]; cbn [fold_right].
  - reflexivity.
  - rewrite mark_mem_insert, IH. cbn [mark_mem existsb]. fold (mark_mem m r).
    rewrite orb_assoc. reflexivity.
Qed.

Lemma mark_mem_unions m l : mark_mem m (marks_unions l) = existsb (mark_mem m) l.
Proof.
  unfold marks_unions. induction l as [|x r IH]; cbn [fold_right existsb].
  - reflexivity.
  - rewrite mark_mem_union, IH. reflexivity.
Qed.

Lemma mark_mem_nil m : mark_mem m [] = false.
Proof. reflexivity. Qed.

(* ---- stars ------------------------------------------------------------------------------- *)
Definition is_star (m : Z) (v : val) : bool :=
  match v with VMark ms _ => mark_mem m ms | _ => false end.

Lemma erase_star m v : erase m v = OStar <-> is_star m v = true.
Proof.
  destruct v; cbn [erase is_star]; try (split; discriminate).
  destruct (mark_mem m m0); split; congruence.
Qed.

Lemma leq_refl m v : leq m v v.
Proof. reflexivity. Qed.
Lemma leq_sym m a b : leq m a b -> leq m b a.
Proof. unfold leq; congruence. Qed.
Lemma leq_trans m a b c : leq m a b -> leq m b c -> leq m a c.
Proof. unfold leq; congruence. Qed.

Lemma leq_is_star m a b : leq m a b -> is_star m a = is_star m b.
Proof.
  intro H. destruct (is_star m a) eqn:Ea.
  - apply erase_star in Ea. symmetry. apply erase_star. congruence.
  - destruct (is_star m b) eqn:Eb; [|reflexivity].
    apply erase_star in Eb. rewrite <- H in Eb. apply erase_star in Eb. congruence.
Qed.

Lemma stars_leq m a b : is_star m a = true -> is_star m b = true -> leq m a b.
Proof. intros Ha Hb. apply erase_star in Ha, Hb. unfold leq. congruence. Qed.

(* marks relation of the unmarked parts of two low-equal values *)
Definition marks_rel (m : Z) (a b : marks) : Prop :=
  (mark_mem m a = true /\ mark_mem m b = true) \/ a = b.

Lemma marks_rel_refl m a : marks_rel m a a.
Proof. right; reflexivity. Qed.

Lemma marks_rel_union m a1 a2 b1 b2 :
  marks_rel m a1 a2 -> marks_rel m b1 b2 -> marks_rel m (marks_union a1 b1) (marks_union a2 b2).
Proof.
  intros [[H1 H2]| -> ] [[H3 H4]| -> ]; try (right; reflexivity);
    left; rewrite !mark_mem_union; rewrite ?H1, ?H2, ?H3, ?H4, ?orb_true_r; auto.
Qed.

Lemma is_star_with_marks m v ms : is_star m (with_marks v ms) = is_star m v || mark_mem m ms.
Proof.
  destruct ms as [|x r].
  - cbn [with_marks]. rewrite mark_mem_nil, orb_false_r. reflexivity.
  - destruct v; cbn [with_marks is_star]; try reflexivity.
    rewrite mark_mem_union. apply orb_comm.
Qed.

Lemma with_marks_leq m v1 v2 ms1 ms2 :
  leq m v1 v2 -> marks_rel m ms1 ms2 -> leq m (with_marks v1 ms1) (with_marks v2 ms2).
Proof.
  intros H [[H1 H2]| -> ].
  - apply stars_leq; rewrite is_star_with_marks; [rewrite H1|rewrite H2]; apply orb_true_r.
  - destruct ms2 as [|x r]; [exact H|].
    destruct (is_star m v1) eqn:Es.
    + apply stars_leq; rewrite is_star_with_marks; [|rewrite <- (leq_is_star _ _ _ H)]; rewrite Es; reflexivity.
    + pose proof (leq_is_star _ _ _ H) as Es2. rewrite Es in Es2. unfold leq in *.
      destruct v1, v2; cbn [erase is_star] in *; try rewrite Es in H; try rewrite <- Es2 in H;
        try discriminate H; cbn [with_marks erase is_mark];
        try (destruct (mark_mem m (x :: r)); [reflexivity|]; cbn [erase]; rewrite H; reflexivity).
      injection H as -> H. rewrite !mark_mem_union.
      destruct (mark_mem m (x :: r) || mark_mem m m1); [reflexivity|]. rewrite H. reflexivity.
Qed.

Lemma with_marks_star m v ms : mark_mem m ms = true -> is_star m (with_marks v ms) = true.
Proof. intro H. rewrite is_star_with_marks, H. apply orb_true_r. Qed.

Lemma unmark_leq m v1 v2 :
  leq m v1 v2 ->
  (mark_mem m (snd (unmark v1)) = true /\ mark_mem m (snd (unmark v2)) = true) \/
  (snd (unmark v1) = snd (unmark v2) /\ mark_mem m (snd (unmark v1)) = false /\
   leq m (fst (unmark v1)) (fst (unmark v2))).
Proof.
  intro H. pose proof (leq_is_star _ _ _ H) as Es. unfold leq in *.
  destruct v1, v2; cbn [erase is_star unmark fst snd] in *;
    try (right; repeat split; try reflexivity; exact H);
    try (destruct (mark_mem m m0) eqn:E; discriminate H).
  destruct (mark_mem m m0) eqn:E1, (mark_mem m m1) eqn:E2; try discriminate Es.
  - left; auto.
  - injection H as -> H. right; auto.
Qed.

Lemma marks_of_leq m v1 v2 : leq m v1 v2 -> marks_rel m (marks_of v1) (marks_of v2).
Proof.
  intro H. unfold marks_of. destruct (unmark_leq _ _ _ H) as [[A B]|[A _]]; [left; auto|right; auto].
Qed.

Lemma with_same_marks_leq m v1 v2 s1 s2 :
  leq m v1 v2 -> leq m s1 s2 -> leq m (with_same_marks v1 s1) (with_same_marks v2 s2).
Proof. intros. apply with_marks_leq; auto using marks_of_leq. Qed.

Lemma marks_of_star m v : is_star m v = true -> mark_mem m (marks_of v) = true.
Proof. destruct v; cbn; try discriminate. auto. Qed.
Lemma marks_of_nostar m v : is_star m v = false -> mark_mem m (marks_of v) = false.
Proof. destruct v; cbn; auto. Qed.

(* ---- lists ------------------------------------------------------------------------------- *)
Lemma map_erase_Forall2 m l1 l2 :
  map (erase m) l1 = map (erase m) l2 <-> Forall2 (leq m) l1 l2.
Proof.
  revert l2; induction l1 as [|x r IH]; destruct l2 as [|y s]; cbn [map]; split; intro H;
    try discriminate; try constructor; try (inversion H; fail).
  - injection H; auto.
  - apply IH. injection H; auto.
  - inversion H; subst. f_equal; [assumption|apply IH; assumption].
Qed.

Lemma map_erase_kv_Forall2 m (l1 l2 : list (list Z * val)) :
  map (fun p => (fst p, erase m (snd p))) l1 = map (fun p => (fst p, erase m (snd p))) l2
  <-> Forall2 (leq_kv m) l1 l2.
Proof.
  revert l2; induction l1 as [|x r IH]; destruct l2 as [|y s]; cbn [map]; split; intro H;
    try discriminate; try constructor; try (inversion H; fail).
  - injection H; intros. split; assumption.
  - apply IH. injection H; auto.
  - inversion H as [|? ? ? ? [A B] C]; subst. f_equal; [rewrite A, B; reflexivity|apply IH; assumption].
Qed.

Lemma Forall2_leq_refl m l : Forall2 (leq m) l l.
Proof. induction l; constructor; auto using leq_refl. Qed.

Lemma leq_tuple m l1 l2 : Forall2 (leq m) l1 l2 -> leq m (VTuple l1) (VTuple l2).
Proof. intro H. unfold leq. cbn [erase]. f_equal. apply map_erase_Forall2, H. Qed.
Lemma leq_list m t l1 l2 : Forall2 (leq m) l1 l2 -> leq m (VList t l1) (VList t l2).
Proof. intro H. unfold leq. cbn [erase]. f_equal. apply map_erase_Forall2, H. Qed.
Lemma leq_obj m l1 l2 : Forall2 (leq_kv m) l1 l2 -> leq m (VObj l1) (VObj l2).
Proof. intro H. unfold leq. cbn [erase]. f_equal. apply map_erase_kv_Forall2, H. Qed.

Lemma assoc_get_leq m k (l1 l2 : list (list Z * val)) :
  Forall2 (leq_kv m) l1 l2 ->
  match assoc_get k l1, assoc_get k l2 with
  | Some a, Some b => leq m a b
  | None, None => True
  | _, _ => False
  end.
Proof.
  induction 1 as [|[k1 a] [k2 b] r s [A B] _ IH]; cbn [assoc_get]; [exact I|].
  cbn [fst snd] in *. subst k2. destruct (str_eqb k k1); [exact B|exact IH].
Qed.

Lemma assoc_set_leq m k v1 v2 (l1 l2 : list (list Z * val)) :
  Forall2 (leq_kv m) l1 l2 -> leq m v1 v2 ->
  Forall2 (leq_kv m) (assoc_set k v1 l1) (assoc_set k v2 l2).
Proof.
  intros H Hv. induction H as [|[k1 a] [k2 b] r s [A B] H IH]; cbn [assoc_set].
  - constructor; [split; auto|constructor].
  - cbn [fst snd] in *. subst k2. destruct (str_eqb k k1).
    + constructor; [split; auto|assumption].
    + destruct (str_ltb k k1).
      * constructor; [split; auto|]. constructor; [split; auto|assumption].
      * constructor; [split; auto|assumption].
Qed.

Lemma nth_opt_leq m (l1 l2 : list val) n :
  Forall2 (leq m) l1 l2 ->
  match nth_opt l1 n, nth_opt l2 n with
  | Some a, Some b => leq m a b
  | None, None => True
  | _, _ => False
  end.
Proof.
  intro H. revert n. induction H as [|a b r s A _ IH]; intro n; destruct n; cbn [nth_opt];
    try exact I; try exact A; apply IH.
Qed.

Lemma Forall2_length {A B} (R : A -> B -> Prop) l1 l2 : Forall2 R l1 l2 -> length l1 = length l2.
Proof. induction 1; cbn; congruence. Qed.

Lemma Forall2_app_inv {A B} (R : A -> B -> Prop) l1 l2 x y :
  Forall2 R l1 l2 -> R x y -> Forall2 R (l1 ++ [x]) (l2 ++ [y]).
Proof. intros. apply Forall2_app; auto. Qed.

(* ---- diagnostics ---------------------------------------------------------------------------- *)
Lemma has_errors_app a b : has_errors (a ++ b) = has_errors a || has_errors b.
Proof. unfold has_errors. apply existsb_app. Qed.
Lemma has_unsupported_app a b : has_unsupported (a ++ b) = has_unsupported a || has_unsupported b.
Proof. unfold has_unsupported. apply existsb_app. Qed.

Definition clean (ds : list diag) : Prop := has_errors ds = false /\ has_unsupported ds = false.

Lemma clean_app a b : clean (a ++ b) <-> clean a /\ clean b.
Proof.
  unfold clean. rewrite has_errors_app, has_unsupported_app, !orb_false_iff. tauto.
Qed.
Lemma clean_nil : clean [].
Proof. split; reflexivity. Qed.
Lemma not_clean_err s fr : ~ clean [derr s fr].
Proof. intros [H _]. discriminate H. Qed.
Lemma not_clean_unsup : ~ clean [dunsupported].
Proof. intros [_ H]. discriminate H. Qed.
