(* Eval/StaticProofs.v — the static views of Eval/Static.v agree with evaluation
   (Eval/Impl.v): traversal_agrees (+ the two documented deviations with witnesses),
   static_parts_agree (list, map, call).  The stand-alone traversal parser needs the parser
   model: standalone_traversal_agrees is stated as a Prop only (checked on the real code by
   harness/cmd/c20). *)
From Coq Require Import QArith.
From HclV Require Import Base.Prelude Cty.Values Cty.Convert Cty.Ops Eval.Impl Eval.Funcs Eval.Vars Eval.Static.
Open Scope Z_scope.

(* ---- the front ends reduce to the providers ------------------------------------------- *)

Lemma unwrap_until_eq fuel until e :
  unwrap_expression_until fuel until e = if until e then Some e else None.
Proof. destruct fuel; simpl; destruct (until e); reflexivity. Qed.

Lemma as_traversal_unsupported e : supports_as_traversal e = false -> as_traversal e = None.
Proof. destruct e; simpl; intro H; try reflexivity; discriminate. Qed.

(* hcl.AbsTraversalForExpr(e) is the fixpoint as_traversal *)
Lemma abs_traversal_for_expr_eq e : abs_traversal_for_expr e = as_traversal e.
Proof.
  unfold abs_traversal_for_expr. rewrite unwrap_until_eq.
  destruct (supports_as_traversal e) eqn:S; [reflexivity|].
  symmetry. apply as_traversal_unsupported. exact S.
Qed.

Lemma rel_traversal_for_expr_eq e :
  rel_traversal_for_expr e =
  match as_traversal e with Some (root, steps) => Some (SAttr root :: steps) | None => None end.
Proof. unfold rel_traversal_for_expr. rewrite abs_traversal_for_expr_eq. reflexivity. Qed.

Lemma expr_as_keyword_eq e :
  expr_as_keyword e = match as_traversal e with Some (root, []) => root | _ => [] end.
Proof.
  unfold expr_as_keyword. rewrite unwrap_until_eq.
  destruct (supports_as_traversal e) eqn:S; [reflexivity|].
  rewrite (as_traversal_unsupported e S). reflexivity.
Qed.

Lemma expr_list_eq e : expr_list e = node_expr_list e.
Proof. unfold expr_list. rewrite unwrap_until_eq. destruct e; reflexivity. Qed.
Lemma expr_map_eq e : expr_map e = node_expr_map e.
Proof. unfold expr_map. rewrite unwrap_until_eq. destruct e; reflexivity. Qed.
Lemma expr_call_eq e : expr_call e = node_expr_call e.
Proof. unfold expr_call. rewrite unwrap_until_eq. destruct e; reflexivity. Qed.

Lemma expr_list_inv e es : expr_list e = Some es <-> e = ETuple es.
Proof.
  rewrite expr_list_eq. split.
  - destruct e; simpl; intro H; try discriminate. inversion H. reflexivity.
  - intros ->. reflexivity.
Qed.
Lemma expr_map_inv e kvs : expr_map e = Some kvs <-> e = EObj kvs.
Proof.
  rewrite expr_map_eq. split.
  - destruct e; simpl; intro H; try discriminate. inversion H. reflexivity.
  - intros ->. reflexivity.
Qed.
Lemma expr_call_inv e name args :
  expr_call e = Some (name, args) <-> exists expand, e = ECall name args expand.
Proof.
  rewrite expr_call_eq. split.
  - destruct e; simpl; intro H; try discriminate. inversion H. eexists. reflexivity.
  - intros [b ->]. reflexivity.
Qed.

(* ObjectConsKeyExpr.literalName is hcl.ExprAsKeyword(e.Wrapped): Impl.literal_name is that
   function (with "" as None), except on a literal holding a MARKED null, which no parser
   produces. *)
Definition marked_null_lit (e : expr) : bool :=
  match e with ELit (VMark _ (VNull _)) => true | _ => false end.

Lemma literal_name_keyword e n :
  literal_name e = Some n -> expr_as_keyword e = n.
Proof.
  rewrite expr_as_keyword_eq.
  destruct e; simpl; try discriminate.
  - destruct v; try discriminate.
    + destruct b; intro H; inversion H; reflexivity.
    + intro H; inversion H; reflexivity.
  - destruct steps; [|discriminate]. intro H; inversion H; reflexivity.
Qed.

(* ---- Traversal.TraverseRel ------------------------------------------------------------ *)

Lemma has_errors_app a b : has_errors (a ++ b) = has_errors a || has_errors b.
Proof. unfold has_errors. apply existsb_app. Qed.

Lemma traverse_rel_acc steps : forall v acc,
  traverse_rel steps v acc =
  (fst (traverse_rel steps v []), acc ++ snd (traverse_rel steps v [])).
Proof.
  induction steps as [|s r IH]; intros v acc; simpl.
  - rewrite app_nil_r. reflexivity.
  - destruct (match s with SAttr n => get_attr v n | SIndex k => index v k end) as [v' ds].
    destruct (has_errors ds); simpl.
    + reflexivity.
    + rewrite (IH v' (acc ++ ds)), (IH v' ds). simpl. rewrite app_assoc. reflexivity.
Qed.

(* an erroring traversal returns cty.DynamicVal *)
Lemma traverse_rel_error_dyn steps : forall v acc,
  has_errors acc = false ->
  has_errors (snd (traverse_rel steps v acc)) = true ->
  fst (traverse_rel steps v acc) = dyn_val.
Proof.
  induction steps as [|s r IH]; intros v acc Hacc; simpl.
  - congruence.
  - destruct (match s with SAttr n => get_attr v n | SIndex k => index v k end) as [v' ds].
    destruct (has_errors ds) eqn:E; simpl.
    + reflexivity.
    + apply IH. rewrite has_errors_app, Hacc, E. reflexivity.
Qed.

Lemma traverse_rel_app a : forall b v acc,
  has_errors acc = false ->
  traverse_rel (a ++ b) v acc =
  (if has_errors (snd (traverse_rel a v acc)) then traverse_rel a v acc
   else traverse_rel b (fst (traverse_rel a v acc)) (snd (traverse_rel a v acc))).
Proof.
  induction a as [|s r IH]; intros b v acc Hacc; simpl.
  - rewrite Hacc. reflexivity.
  - destruct (match s with SAttr n => get_attr v n | SIndex k => index v k end) as [v' ds].
    destruct (has_errors ds) eqn:E; simpl.
    + rewrite has_errors_app, E, orb_true_r. reflexivity.
    + apply IH. rewrite has_errors_app, Hacc, E. reflexivity.
Qed.

Lemma get_attr_dyn n : get_attr dyn_val n = (dyn_val, []).
Proof. reflexivity. Qed.

(* The keys of a static traversal are literals of the source text: they carry no marks.
   (hcl.Index gives a DynamicVal result the marks of the key, so this matters below.) *)
Definition step_unmarked (s : step) : bool :=
  match s with SIndex k => match marks_of k with [] => true | _ => false end | SAttr _ => true end.
Definition keys_unmarked (steps : list step) : bool := forallb step_unmarked steps.

Lemma index_dyn k : marks_of k = [] -> fst (index dyn_val k) = dyn_val.
Proof.
  intros Hk. unfold index. change (is_null dyn_val) with false. cbv iota.
  destruct (is_null k); [reflexivity|].
  change (type_of dyn_val) with TDyn.
  rewrite orb_true_r. unfold with_same_marks. rewrite Hk. reflexivity.
Qed.

(* once the value is cty.DynamicVal it stays cty.DynamicVal *)
Lemma traverse_rel_dyn steps : keys_unmarked steps = true ->
  forall acc, fst (traverse_rel steps dyn_val acc) = dyn_val.
Proof.
  induction steps as [|s r IH]; intros HK acc; simpl; [reflexivity|].
  simpl in HK. apply andb_true_iff in HK as [Hs Hr].
  destruct s as [n|k].
  - rewrite get_attr_dyn. simpl. apply IH, Hr.
  - assert (Hk : marks_of k = []) by (simpl in Hs; destruct (marks_of k); [reflexivity|discriminate]).
    pose proof (index_dyn k Hk) as H. destruct (index dyn_val k) as [v' ds]. simpl in H. subst v'.
    destruct (has_errors ds); [reflexivity|apply IH, Hr].
Qed.

Lemma traverse_abs_error_dyn c root steps :
  has_errors (snd (traverse_abs c root steps)) = true ->
  fst (traverse_abs c root steps) = dyn_val.
Proof.
  unfold traverse_abs. destruct (lookup_var c root false) as [[v|] [|]]; try reflexivity.
  - apply traverse_rel_error_dyn. reflexivity.
  - apply traverse_rel_error_dyn. reflexivity.
Qed.

Lemma traverse_abs_app c root a b :
  traverse_abs c root (a ++ b) =
  (if has_errors (snd (traverse_abs c root a)) then traverse_abs c root a
   else traverse_rel b (fst (traverse_abs c root a)) (snd (traverse_abs c root a))).
Proof.
  unfold traverse_abs. destruct (lookup_var c root false) as [[v|] [|]]; try reflexivity.
  - apply traverse_rel_app. reflexivity.
  - apply traverse_rel_app. reflexivity.
Qed.

(* ---- one-step unfoldings of the evaluator ---------------------------------------------- *)

Lemma eval_lit f c a v : eval (S f) c a (ELit v) = (v, []).
Proof. reflexivity. Qed.
Lemma eval_scope f c a root steps : eval (S f) c a (EScopeTrav root steps) = traverse_abs c root steps.
Proof. reflexivity. Qed.
Lemma eval_reltrav f c a src steps :
  eval (S f) c a (ERelTrav src steps) =
  (let '(v, ds) := eval f c a src in
   let '(r, ds') := traverse_rel steps v [] in (r, ds ++ ds')).
Proof. reflexivity. Qed.
Lemma eval_tuple f c a es :
  eval (S f) c a (ETuple es) =
  (VTuple (map fst (map (eval f c a) es)), concat (map snd (map (eval f c a) es))).
Proof. reflexivity. Qed.

(* ---- traversal_agrees ------------------------------------------------------------------- *)

(* same value and same error-ness *)
Definition agrees (x y : val * list diag) : Prop :=
  fst x = fst y /\ has_errors (snd x) = has_errors (snd y).

Lemma as_traversal_shape e t : as_traversal e = Some t -> exists sh, trav_shape_of e = Some sh.
Proof.
  revert t. induction e; intros t H; simpl in *; try discriminate; try (eexists; reflexivity).
  destruct (as_traversal e) as [[r st]|] eqn:E; [|discriminate].
  eapply IHe. reflexivity.
Qed.

Theorem traversal_agrees :
  forall e root steps,
  as_traversal e = Some (root, steps) ->
  trav_shape_of e = Some ShPlain ->
  keys_unmarked steps = true ->
  forall (c : ctx) (anon : option val) (fuel : nat),
  (trav_depth e < fuel)%nat ->
  agrees (eval fuel c anon e) (traverse_abs c root steps).
Proof.
  induction e; intros root0 steps0 HT HS HK c anon fuel HF; simpl in HT, HS; try discriminate.
  - (* ScopeTraversalExpr *)
    injection HT as Hr Hs. subst root0 steps0. destruct fuel as [|f]; [simpl in HF; lia|].
    rewrite eval_scope. split; reflexivity.
  - (* RelativeTraversalExpr *)
    destruct (as_traversal e) as [[r st]|] eqn:E; [|discriminate].
    injection HT as Hr Hs. subst root0 steps0.
    unfold keys_unmarked in HK. rewrite forallb_app in HK. apply andb_true_iff in HK as [HKst HKsteps].
    destruct fuel as [|f]; [simpl in HF; lia|]. simpl in HF.
    assert (HF' : (trav_depth e < f)%nat) by lia.
    specialize (IHe r st eq_refl HS HKst c anon f HF').
    rewrite eval_reltrav, traverse_abs_app.
    destruct IHe as [Hv He].
    destruct (eval f c anon e) as [v ds]. simpl in Hv, He.
    destruct (has_errors (snd (traverse_abs c r st))) eqn:HE.
    + (* the source fails: both yield DynamicVal with errors *)
      pose proof (traverse_abs_error_dyn c r st HE) as Hd.
      rewrite Hd in Hv. subst v.
      pose proof (traverse_rel_dyn steps HKsteps []) as Hr.
      destruct (traverse_rel steps dyn_val []) as [r' ds']. simpl in Hr. subst r'.
      split; simpl.
      * symmetry. exact Hd.
      * rewrite has_errors_app, He, HE. reflexivity.
    + rewrite (traverse_rel_acc steps (fst (traverse_abs c r st)) (snd (traverse_abs c r st))).
      subst v.
      destruct (traverse_rel steps (fst (traverse_abs c r st)) []) as [r' ds'].
      split; simpl; [reflexivity|].
      rewrite !has_errors_app, He, HE. reflexivity.
Qed.

(* with the fuel hcl.Expression.Value uses *)
Lemma trav_depth_size e : (trav_depth e < S (expr_size e))%nat.
Proof. induction e; simpl; lia. Qed.

Corollary traversal_agrees_value :
  forall e root steps,
  as_traversal e = Some (root, steps) -> trav_shape_of e = Some ShPlain ->
  keys_unmarked steps = true ->
  forall c, agrees (value c e) (traverse_abs c root steps).
Proof.
  intros e root steps HT HS HK c. unfold value.
  apply traversal_agrees; auto. apply trav_depth_size.
Qed.

(* the same three statements about the Go entry point hcl.AbsTraversalForExpr *)
Theorem traversal_agrees_abs :
  forall e root steps,
  abs_traversal_for_expr e = Some (root, steps) ->
  trav_shape_of e = Some ShPlain ->
  keys_unmarked steps = true ->
  forall (c : ctx) (anon : option val) (fuel : nat),
  (trav_depth e < fuel)%nat ->
  fst (eval fuel c anon e) = fst (traverse_abs c root steps) /\
  has_errors (snd (eval fuel c anon e)) = has_errors (snd (traverse_abs c root steps)).
Proof.
  intros e root steps H. rewrite abs_traversal_for_expr_eq in H.
  exact (traversal_agrees e root steps H).
Qed.

Theorem traversal_agrees_value_abs :
  forall e root steps,
  abs_traversal_for_expr e = Some (root, steps) ->
  trav_shape_of e = Some ShPlain ->
  keys_unmarked steps = true ->
  forall c : ctx,
  fst (value c e) = fst (traverse_abs c root steps) /\
  has_errors (snd (value c e)) = has_errors (snd (traverse_abs c root steps)).
Proof.
  intros e root steps H. rewrite abs_traversal_for_expr_eq in H.
  exact (traversal_agrees_value e root steps H).
Qed.

Theorem traversal_shapes_abs :
  forall e t, abs_traversal_for_expr e = Some t -> exists sh, trav_shape_of e = Some sh.
Proof. intros e t H. rewrite abs_traversal_for_expr_eq in H. exact (as_traversal_shape e t H). Qed.

(* The documented keyword deviation (LiteralValueExpr.AsTraversal): the literals true,
   false and null have the static traversals `true`, `false`, `null`, which name VARIABLES;
   evaluation ignores the scope. *)
Theorem keyword_evaluates_to_literal :
  forall v root steps, as_traversal (ELit v) = Some (root, steps) ->
  steps = [] /\ In root [kw_null; kw_true; kw_false] /\
  forall c anon f, eval (S f) c anon (ELit v) = (v, []).
Proof.
  intros v root steps H. simpl in H. unfold lit_as_traversal in H.
  assert (steps = [] /\ In root [kw_null; kw_true; kw_false]) as [A B].
  { destruct (is_null v).
    - inversion H; subst. split; [reflexivity|left; reflexivity].
    - destruct v; try discriminate. destruct b; inversion H; subst; split; try reflexivity; simpl; auto. }
  split; [exact A|split; [exact B|]]. intros. reflexivity.
Qed.

Theorem as_traversal_keyword_deviation :
  exists e c root steps,
    as_traversal e = Some (root, steps) /\ trav_shape_of e = Some ShKeyword /\
    ~ agrees (value c e) (traverse_abs c root steps).
Proof.
  (* `true` in a scope where a variable named "true" is 7 *)
  exists (ELit (VBool true)), [mkFrame (Some [(kw_true, VNum (nz 7))]) None], kw_true, [].
  split; [reflexivity|split; [reflexivity|]].
  intros [H _]. vm_compute in H. discriminate.
Qed.

(* ... and in a scope without that variable the traversal fails while evaluation succeeds *)
Theorem as_traversal_keyword_deviation_errors :
  exists e c root steps,
    as_traversal e = Some (root, steps) /\
    has_errors (snd (value c e)) = false /\ has_errors (snd (traverse_abs c root steps)) = true.
Proof.
  exists (ELit (VBool true)), [mkFrame (Some []) None], kw_true, [].
  split; [reflexivity|]. split; reflexivity.
Qed.

(* The object-key deviation (ObjectConsKeyExpr.Value): a bare name is the STRING of that
   name, a multi-step traversal is an error; only the static view sees a traversal. *)
Theorem objkey_evaluates_to_name :
  forall root c anon f,
  as_traversal (EObjKey (EScopeTrav root []) false) = Some (root, []) /\
  eval (S f) c anon (EObjKey (EScopeTrav root []) false) = (VStr root, []).
Proof. intros. split; reflexivity. Qed.

Theorem objkey_traversal_is_ambiguous :
  forall root s steps c anon f,
  as_traversal (EObjKey (EScopeTrav root (s :: steps)) false) = Some (root, s :: steps) /\
  eval (S f) c anon (EObjKey (EScopeTrav root (s :: steps)) false) = (dyn_val, [derr S_AmbiguousKey []]).
Proof. intros. split; reflexivity. Qed.

Theorem as_traversal_objkey_deviation :
  exists e c root steps,
    as_traversal e = Some (root, steps) /\ trav_shape_of e = Some ShObjKey /\
    ~ agrees (value c e) (traverse_abs c root steps).
Proof.
  exists (EObjKey (EScopeTrav [97] []) false), [mkFrame (Some [([97], VNum (nz 7))]) None], [97], [].
  split; [reflexivity|split; [reflexivity|]].
  intros [H _]. vm_compute in H. discriminate.
Qed.

(* ---- stand-alone traversal parser (needs the parser model) ------------------------------ *)

(* parse_traversal_abs / parse_expression: hclsyntax.ParseTraversalAbs / ParseExpression on
   bytes, Some only when they return no error diagnostics. *)
Definition standalone_traversal_agrees
  (parse_traversal_abs : list Z -> option traversal)
  (parse_expression : list Z -> option expr) : Prop :=
  forall src t, parse_traversal_abs src = Some t ->
  exists e, parse_expression src = Some e /\ abs_traversal_for_expr e = Some t.

(* ---- static_parts_agree: lists ------------------------------------------------------------ *)

Theorem static_list_agrees :
  forall e es, expr_list e = Some es ->
  forall c anon f,
  eval (S f) c anon e =
  (VTuple (map (fun x => fst (eval f c anon x)) es),
   concat (map (fun x => snd (eval f c anon x)) es)).
Proof.
  intros e es H c anon f. apply expr_list_inv in H. subst e.
  rewrite eval_tuple, !map_map. reflexivity.
Qed.

(* ---- static_parts_agree: maps ------------------------------------------------------------- *)

(* result of evaluating one (key, value) pair of hcl.ExprMap *)
Definition pair_res := ((val * list diag) * (val * list diag))%type.
Definition obj_state := (list (list Z * val) * list marks * bool * list diag)%type.

(* the body of the loop of ObjectConsExpr.Value, as a function of the two results *)
Definition obj_step (st : obj_state) (p : pair_res) : obj_state :=
  let '(vals, mks, known, ds) := st in
  let '(k, kds) := fst p in
  let '(v, vds) := snd p in
  let ds := ds ++ kds ++ vds in
  if has_errors kds then (vals, mks, false, ds)
  else if is_null k then (vals, mks, false, ds ++ [derr S_NullKey []])
  else
  let '(ku, km) := unmark k in
  let mks := mks ++ [km] in
  match conv ku TStr with
  | CUnsupported => (vals, mks, false, ds ++ [dunsupported])
  | CErr ce => (vals, mks, false, ds ++ [derr S_IncorrectKeyType [FConv ce]])
  | COk ks =>
      match ks with
      | VStr s => (assoc_set s v vals, mks, known, ds)
      | _ => (vals, mks, false, ds)
      end
  end.

Definition obj_of_pairs (ps : list pair_res) : val * list diag :=
  let '(vals, mks, known, ds) := fold_left obj_step ps ([], [], true, []) in
  if negb known then (with_marks dyn_val (marks_unions mks), ds)
  else (with_marks (VObj vals) (marks_unions mks), ds).

Lemma fold_left_map {A B S} (g : S -> B -> S) (h : A -> B) (l : list A) : forall s,
  fold_left (fun st x => g st (h x)) l s = fold_left g (map h l) s.
Proof. induction l as [|x r IH]; intros s; simpl; [reflexivity|apply IH]. Qed.

(* The value of the whole object constructor is a function of the results of evaluating the
   static (key, value) pairs, in order. *)
Theorem static_map_agrees :
  forall e kvs, expr_map e = Some kvs ->
  forall c anon f,
  eval (S f) c anon e =
  obj_of_pairs (map (fun kv => (eval f c anon (fst kv), eval f c anon (snd kv))) kvs).
Proof.
  intros e kvs H c anon f. apply expr_map_inv in H. subst e.
  unfold obj_of_pairs.
  rewrite <- (fold_left_map obj_step
                (fun kv => (eval f c anon (fst kv), eval f c anon (snd kv))) kvs).
  reflexivity.
Qed.

(* When every key evaluates to an unmarked known string without diagnostics (the case of
   bare names and quoted keys), the object is the pairs folded left to right into a map: a
   later pair with the same key replaces the earlier one (native syntax has no duplicate
   check), and the diagnostics are those of the values, in order. *)
Definition key_of (p : pair_res) : list Z := match fst (fst p) with VStr s => s | _ => [] end.
Definition plain_key (p : pair_res) : Prop := exists s, fst p = (VStr s, []).

Lemma marks_unions_nils (l : list marks) : Forall (fun m => m = []) l -> marks_unions l = [].
Proof. induction 1 as [|m r Hm _ IH]; simpl; [reflexivity|]. subst m. exact IH. Qed.

Lemma obj_step_plain vals mks known ds s v vds :
  obj_step (vals, mks, known, ds) ((VStr s, []), (v, vds)) =
  (assoc_set s v vals, mks ++ [[]], known, ds ++ vds).
Proof. reflexivity. Qed.

Lemma obj_fold_plain ps : forall vals mks ds,
  Forall plain_key ps -> Forall (fun m => m = []) mks ->
  exists mks', Forall (fun m => m = []) mks' /\
  fold_left obj_step ps (vals, mks, true, ds) =
  (fold_left (fun acc p => assoc_set (key_of p) (fst (snd p)) acc) ps vals, mks', true,
   ds ++ concat (map (fun p => snd (snd p)) ps)).
Proof.
  induction ps as [|p r IH]; intros vals mks ds HP HM.
  - exists mks. split; [exact HM|]. simpl. rewrite app_nil_r. reflexivity.
  - inversion HP as [|? ? [s Hs] HP']; subst.
    destruct p as [[k kds] [v vds]]. simpl in Hs. injection Hs as -> ->.
    cbn [fold_left]. rewrite obj_step_plain.
    destruct (IH (assoc_set s v vals) (mks ++ [[]]) (ds ++ vds) HP') as [mks' [HM' E]].
    { apply Forall_app. split; [exact HM|]. constructor; [reflexivity|constructor]. }
    exists mks'. split; [exact HM'|].
    etransitivity; [exact E|].
    cbn [fold_left map concat key_of fst snd]. rewrite <- app_assoc. reflexivity.
Qed.

Theorem static_map_plain_keys :
  forall ps, Forall plain_key ps ->
  obj_of_pairs ps =
  (VObj (fold_left (fun acc p => assoc_set (key_of p) (fst (snd p)) acc) ps []),
   concat (map (fun p => snd (snd p)) ps)).
Proof.
  intros ps HP. unfold obj_of_pairs.
  destruct (obj_fold_plain ps [] [] [] HP (Forall_nil _)) as [mks' [HM E]].
  change (fold_left obj_step ps ([], [], true, [])) with
    (fold_left obj_step ps (@nil (list Z * val), @nil marks, true, @nil diag)) in E |- *.
  rewrite E. simpl. rewrite (marks_unions_nils mks' HM). reflexivity.
Qed.

(* later-key-wins, on the association list the fold builds *)
Lemma str_eqb_refl k : str_eqb k k = true.
Proof. apply zlist_eqb_eq. reflexivity. Qed.
Lemma str_eqb_neq a b : a <> b -> str_eqb a b = false.
Proof. intro H. destruct (str_eqb a b) eqn:E; [|reflexivity]. apply zlist_eqb_eq in E. contradiction. Qed.

Lemma assoc_get_set_same {A} k (v : A) l : assoc_get k (assoc_set k v l) = Some v.
Proof.
  induction l as [|[k' v'] r IH]; simpl.
  - rewrite str_eqb_refl. reflexivity.
  - destruct (str_eqb k k') eqn:E; simpl.
    + rewrite str_eqb_refl. reflexivity.
    + destruct (str_ltb k k'); simpl.
      * rewrite str_eqb_refl. reflexivity.
      * rewrite E. exact IH.
Qed.

Lemma assoc_get_set_other {A} k k' (v : A) l : k <> k' -> assoc_get k (assoc_set k' v l) = assoc_get k l.
Proof.
  intro N. induction l as [|[k2 v2] r IH]; simpl.
  - rewrite (str_eqb_neq _ _ N). reflexivity.
  - destruct (str_eqb k' k2) eqn:E; simpl.
    + apply zlist_eqb_eq in E. subst k2. rewrite (str_eqb_neq _ _ N). reflexivity.
    + destruct (str_ltb k' k2); simpl.
      * rewrite (str_eqb_neq _ _ N). reflexivity.
      * destruct (str_eqb k k2); [reflexivity|exact IH].
Qed.

(* value bound to k by the last pair whose key is k *)
Fixpoint last_binding (k : list Z) (ps : list pair_res) (acc : option val) : option val :=
  match ps with
  | [] => acc
  | p :: r => last_binding k r (if str_eqb k (key_of p) then Some (fst (snd p)) else acc)
  end.

Theorem static_map_later_key_wins :
  forall ps k vals,
  assoc_get k (fold_left (fun acc p => assoc_set (key_of p) (fst (snd p)) acc) ps vals) =
  last_binding k ps (assoc_get k vals).
Proof.
  induction ps as [|p r IH]; intros k vals; simpl; [reflexivity|].
  rewrite IH. f_equal.
  destruct (str_eqb k (key_of p)) eqn:E.
  - apply zlist_eqb_eq in E. subst k. apply assoc_get_set_same.
  - apply assoc_get_set_other. intro H. subst k. rewrite str_eqb_refl in E. discriminate.
Qed.

(* ---- static_parts_agree: calls ------------------------------------------------------------ *)

(* FunctionCallExpr.Value after the function has been found and without `...`: a function
   of the results of evaluating the argument expressions, in order. *)
Definition arg_step (fnv : fn) (st : list val * list diag) (i : nat) (r : val * list diag)
  : list val * list diag :=
  let '(vals, ds) := st in
  let '(v, ads) := r in
  let ds := ds ++ ads in
  match param_for fnv i with
  | None => (vals ++ [v], ds ++ [dunsupported])
  | Some p =>
      match conv v (p_ty p) with
      | COk v' => (vals ++ [v'], ds)
      | CErr ce => (vals ++ [v], ds ++ [derr S_InvalidFuncArg [FStr (p_name p) []; FConv ce]])
      | CUnsupported => (vals ++ [v], ds ++ [dunsupported])
      end
  end.

Definition apply_fn (name : list Z) (fnv : fn) (rs : list (val * list diag)) : val * list diag :=
  let np := length (f_params fnv) in
  if (length rs <? np)%nat then (dyn_val, [derr S_NotEnoughArgs [FStr name []]])
  else if (match f_varparam fnv with None => true | Some _ => false end) && (np <? length rs)%nat
  then (dyn_val, [derr S_TooManyArgs [FStr name []]])
  else
  let '(argvals, ds) :=
    fold_left (fun st ir => arg_step fnv st (fst ir) (snd ir)) (combine (seq 0 (length rs)) rs) ([], []) in
  if has_errors ds then (dyn_val, ds)
  else if has_unsupported ds then (dyn_val, ds)
  else match fn_call fnv argvals with
       | CallOk v => (v, ds)
       | CallArgErr i => (dyn_val, ds ++ [derr S_InvalidFuncArg []])
       | CallErr => (dyn_val, ds ++ [derr S_ErrorInCall [FStr name []]])
       | CallUnsupported => (dyn_val, ds ++ [dunsupported])
       end.

Lemma fold_left_combine_map {A B I S} (g : S -> I -> B -> S) (h : A -> B) (xs : list A) :
  forall (is_ : list I) s,
  fold_left (fun st ia => g st (fst ia) (h (snd ia))) (combine is_ xs) s =
  fold_left (fun st ib => g st (fst ib) (snd ib)) (combine is_ (map h xs)) s.
Proof.
  induction xs as [|x r IH]; intros is_ s; destruct is_ as [|i is']; simpl; try reflexivity.
  apply IH.
Qed.

Theorem static_call_agrees :
  forall e name args, expr_call e = Some (name, args) ->
  (exists expand, e = ECall name args expand) /\
  (e = ECall name args false ->
   forall c anon f,
   eval (S f) c anon e =
   match lookup_fn c name false with
   | (None, false) => (dyn_val, [derr S_FuncsNotAllowed []])
   | (None, true) => (dyn_val, [derr S_UnknownFunc [FStr name []]])
   | (Some fnv, _) => apply_fn name fnv (map (eval f c anon) args)
   end).
Proof.
  intros e name args H. split; [apply expr_call_inv; exact H|].
  intros -> c anon f.
  change (eval (S f) c anon (ECall name args false)) with
    (match lookup_fn c name false with
     | (None, false) => (dyn_val, [derr S_FuncsNotAllowed []])
     | (None, true) => (dyn_val, [derr S_UnknownFunc [FStr name []]])
     | (Some fnv, _) =>
         let np := length (f_params fnv) in
         if (length args <? np)%nat then (dyn_val, [derr S_NotEnoughArgs [FStr name []]])
         else if (match f_varparam fnv with None => true | Some _ => false end) && (np <? length args)%nat
         then (dyn_val, [derr S_TooManyArgs [FStr name []]])
         else
         let '(argvals, ds) :=
           fold_left (fun st ia => arg_step fnv st (fst ia) (eval f c anon (snd ia)))
                     (combine (seq 0 (length args)) args) ([], []) in
         if has_errors ds then (dyn_val, ds)
         else if has_unsupported ds then (dyn_val, ds)
         else match fn_call fnv argvals with
              | CallOk v => (v, ds)
              | CallArgErr i => (dyn_val, ds ++ [derr S_InvalidFuncArg []])
              | CallErr => (dyn_val, ds ++ [derr S_ErrorInCall [FStr name []]])
              | CallUnsupported => (dyn_val, ds ++ [dunsupported])
              end
     end).
  destruct (lookup_fn c name false) as [[fnv|] [|]]; try reflexivity.
  - unfold apply_fn. rewrite map_length.
    rewrite (fold_left_combine_map (arg_step fnv) (eval f c anon) args). reflexivity.
  - unfold apply_fn. rewrite map_length.
    rewrite (fold_left_combine_map (arg_step fnv) (eval f c anon) args). reflexivity.
Qed.

(* hcl.StaticCall has no ExpandFinal: `f(a...)` and `f(a)` have the same static call, but
   not the same value. *)
Theorem expr_call_forgets_expand :
  forall name args, expr_call (ECall name args true) = expr_call (ECall name args false).
Proof. intros. rewrite !expr_call_eq. reflexivity. Qed.

Definition fn_name_first : list Z := [102;105;114;115;116].
Theorem static_call_expand_deviation :
  exists name args c,
    expr_call (ECall name args true) = Some (name, args) /\
    fst (value c (ECall name args true)) <> fst (value c (ECall name args false)).
Proof.
  (* first([1, 2]...) = 1, first([1, 2]) = [1, 2] *)
  exists fn_name_first, [ETuple [ELit (VNum (nz 1)); ELit (VNum (nz 2))]],
         [mkFrame (Some []) (Some [(fn_name_first, fn_first)])].
  split; [reflexivity|]. vm_compute. discriminate.
Qed.
