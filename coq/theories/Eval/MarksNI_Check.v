(* Eval/MarksNI_Check.v — C06: checker run by vm_compute on generated cases (twin of
   harness/cmd/c06): two scopes that differ only under mark m, one expression, and what hcl
   returned for both.

   For each case: (a) the model reproduces both observed evaluations (correspondence); (b) when both
   runs are free of diagnostics the erasures of the two MODEL results are compared (the property);
   a difference is classified by whether the hypotheses of [marks_noninterference_value_ok] hold
   (then it cannot happen: theorem) or not (a finding of one of the classes of MarksNI_Refuted.v).

   [in_fragmentb] is a SOUND, syntactic recogniser of [in_fragment m index ctx_ok]: the semantic side
   conditions (nofail, nonnull, nostar, no_nested, nonobj, each_ty_stable) are replaced by
   syntactic sufficient conditions, so it under-approximates the fragment. *)
From Coq Require Import QArith.
From HclV Require Import Base.Prelude Cty.Values Cty.Convert Cty.Ops Eval.Impl Eval.Funcs
     Eval.MarksNI Eval.MarksNI_Ops Eval.MarksNI_Index Eval.MarksNI_Conv Eval.MarksNI_Funcs Eval.MarksNI_Steps
     Eval.MarksNI_Eval Eval.MarksNI_Wf Eval.MarksNI_Main.
Open Scope Z_scope.

(* ---- syntactic sufficient conditions for the semantic side conditions ------------------------------- *)
(* never produces an error diagnostic, in any context *)
Fixpoint nofailb (e : expr) : bool :=
  match e with
  | ELit _ => true
  | EParen x | EWrap x => nofailb x
  | ETuple es => forallb nofailb es
  | EBin op l r => is_eqop op && nofailb l && nofailb r
  | _ => false
  end.
(* never evaluates to null *)
Fixpoint nonnullb (e : expr) : bool :=
  match e with
  | ELit v => negb (is_null v)
  | ETmpl _ | ETuple _ => true
  | EParen x | EWrap x => nonnullb x
  | _ => false
  end.
(* never marked with m at the top *)
Fixpoint nostarb (m : Z) (e : expr) : bool :=
  match e with
  | ELit v => negb (is_star m v)
  | ETuple _ => true
  | EParen x | EWrap x => nostarb m x
  | _ => false
  end.
(* never carries m below the top *)
Fixpoint no_nestedb (m : Z) (e : expr) : bool :=
  match e with
  | ELit v => negb (mark_mem m (deep_marks (fst (unmark v))))
  | ETmpl _ => true
  | EParen x | EWrap x => no_nestedb m x
  | _ => false
  end.
(* never of object type *)
Fixpoint nonobjb (e : expr) : bool :=
  match e with
  | ELit v => negb (is_obj (type_of v))
  | ETuple _ | ETmpl _ => true
  | EParen x | EWrap x => nonobjb x
  | _ => false
  end.
Definition each_stableb (e : expr) : bool :=
  match e with
  | EAnon => true
  | ERelTrav EAnon _ => true
  | _ => false
  end.
Definition is_lit (e : expr) : bool := match e with ELit _ => true | _ => false end.

Fixpoint in_fragmentb (m : Z) (e : expr) : bool :=
  match e with
  | ELit v => wfb v
  | EParen x | EWrap x | EObjKey x _ | EUn _ x | EJoin x => in_fragmentb m x
  | EAnon | EScopeTrav _ _ => true
  | ERelTrav s _ => in_fragmentb m s
  | EIndex c k => in_fragmentb m c && in_fragmentb m k && (is_lit k || nonobjb c)
  | ETuple es | ETmpl es => forallb (in_fragmentb m) es
  | EObj items => forallb (fun it => in_fragmentb m (fst it) && in_fragmentb m (snd it)) items
  | EBin op l r => in_fragmentb m l && in_fragmentb m r && (negb (is_sc op) || (nofailb l && nofailb r))
  | ECond c t f =>
      in_fragmentb m c && in_fragmentb m t && in_fragmentb m f &&
      nofailb t && nofailb f && no_nestedb m t && no_nestedb m f
  | ECall _ args expand =>
      forallb (in_fragmentb m) args &&
      (negb expand || match rev args with l :: _ => nostarb m l | [] => true end)
  | EFor _ _ coll key vl cond _ =>
      in_fragmentb m coll && in_fragmentb m vl &&
      match key with Some ke => in_fragmentb m ke && nonnullb ke | None => true end &&
      match cond with Some ce => in_fragmentb m ce && nonnullb ce | None => true end
  | ESplat s each => in_fragmentb m s && in_fragmentb m each && each_stableb each
  end.

(* ---- soundness of the syntactic conditions ------------------------------------------------------------- *)
Lemma convert_dyn_ok : forall v, exists r, convert (S (val_size v)) v TDyn = COk r.
Proof.
  induction v; try (cbn [convert]; destruct (ty_eqb _ TDyn); eauto; fail).
  cbn [val_size]. rewrite convert_mark. destruct IHv as [r ->]. eauto.
Qed.
Lemma conv_dyn_ok v : exists r, conv v TDyn = COk r.
Proof. apply convert_dyn_ok. Qed.

Lemma equals_noerr : forall f a b e, equals f a b <> OErr e.
Proof.
  induction f as [|f IH]; intros a b e H; [discriminate H|]. cbn [equals] in H.
  assert (AE : forall ps acc,
     (forall e0, acc <> OErr e0) ->
     fold_left (fun acc p =>
          match acc with
          | OOk (VBool true) =>
              match equals f (fst p) (snd p) with
              | OOk (VBool true) => OOk (VBool true)
              | other => other
              end
          | other => other
          end) ps acc <> OErr e).
  { induction ps as [|p ps IHps]; cbn [fold_left]; intros acc Hacc; [apply Hacc|].
    apply IHps. intros e0 E0.
    repeat bm E0; try discriminate E0; subst; try (eapply Hacc; exact E0); try (eapply IH; eassumption). }
  repeat bm H; try discriminate H; revert H; apply AE; intros e0 E0; discriminate E0.
Qed.

Lemma call_binop_eq_noerr op a b e : is_eqop op = true -> call_binop op a b <> OErr e.
Proof.
  intros Ho H. rewrite call_binop_eqop in H by exact Ho. unfold lift_marks, eq_core in H. cbv zeta in H.
  destruct (equals _ _ _) as [y| |] eqn:Q.
  - destruct op; try discriminate Ho; [discriminate H|]. destruct y; try discriminate H.
  - eapply equals_noerr. exact Q.
  - destruct op; discriminate H.
Qed.

Lemma has_errors_concat_map {A} (g : A -> val * list diag) l :
  (forall x, In x l -> has_errors (snd (g x)) = false) -> has_errors (concat (map snd (map g l))) = false.
Proof.
  induction l as [|x r IH]; intro H; cbn [map concat]; [reflexivity|].
  rewrite has_errors_app, (H x (or_introl eq_refl)), IH; [reflexivity|]. intros y Hy. apply H. right; exact Hy.
Qed.

Lemma nofailb_sound idx : forall fuel e c a, nofailb e = true -> has_errors (snd (eval_with idx fuel c a e)) = false.
Proof.
  induction fuel as [|f IH]; intros e c a H; [reflexivity|].
  destruct e; cbn [nofailb] in H; try discriminate H.
  - reflexivity.
  - cbn [eval_with snd]. apply has_errors_concat_map. intros x Hx. apply IH.
    rewrite forallb_forall in H. apply H, Hx.
  - apply andb_true_iff in H as [H Hr]. apply andb_true_iff in H as [Ho Hl].
    rewrite eval_bin_unfold. pose proof (IH e1 c a Hl) as El. pose proof (IH e2 c a Hr) as Er.
    destruct (eval_with idx f c a e1) as [g ld]. destruct (eval_with idx f c a e2) as [h rd]. cbn [snd] in El, Er. cbv zeta.
    destruct (has_unsupported ld || has_unsupported rd); [reflexivity|].
    assert (Pt : binop_param op = TDyn) by (destruct op; try discriminate Ho; reflexivity). rewrite Pt.
    destruct (conv_dyn_ok g) as [lv ->]. destruct (conv_dyn_ok h) as [rv ->].
    destruct (unmark lv) as [lu lm]. destruct (unmark rv) as [ru rm]. unfold bin_tail.
    assert (Sc : is_sc op = false) by (destruct op; try discriminate Ho; reflexivity).
    rewrite (sc_val_nonsc op lu ru _ Sc). cbn [option_map].
    rewrite has_errors_app, El, Er. cbn [orb].
    destruct (call_binop op lu ru) eqn:Cb; cbn [snd]; rewrite ?has_errors_app, ?El, ?Er; try reflexivity.
    exfalso. eapply call_binop_eq_noerr; eassumption.
  - cbn [eval_with]. apply IH, H.
  - cbn [eval_with]. apply IH, H.
Qed.

Lemma tmpl_result idx f c a parts :
  exists x mk, fst (eval_with idx (S f) c a (ETmpl parts)) = with_marks x mk /\ prim_head x = true /\ type_of x = TStr /\
               is_null x = false.
Proof.
  rewrite eval_tmpl_unfold. destruct (fold_left _ parts _) as [[[b k] mk] d]. cbn [fst].
  exists (tmpl_ret b k d), mk. split; [reflexivity|].
  unfold tmpl_ret. destruct (negb k); [destruct (_ && _)|]; repeat split; reflexivity.
Qed.
Lemma unmark_with_marks_prim x mk : prim_head x = true -> fst (unmark (with_marks x mk)) = x.
Proof. intro P. destruct mk; destruct x; try discriminate P; reflexivity. Qed.
Lemma is_null_with_marks' v ms : is_null (with_marks v ms) = is_null v.
Proof. destruct ms; [reflexivity|]. destruct v; reflexivity. Qed.

Lemma nonnullb_sound idx : forall fuel e c a, nonnullb e = true -> is_null (fst (eval_with idx fuel c a e)) = false.
Proof.
  induction fuel as [|f IH]; intros e c a H; [reflexivity|].
  destruct e; cbn [nonnullb] in H; try discriminate H.
  - cbn [eval_with fst]. apply negb_true_iff, H.
  - reflexivity.
  - destruct (tmpl_result idx f c a parts) as (x & mk & -> & P & T & N). rewrite is_null_with_marks'. exact N.
  - cbn [eval_with]. apply IH, H.
  - cbn [eval_with]. apply IH, H.
Qed.

Lemma nostarb_sound idx m : forall fuel e c a, nostarb m e = true -> is_star m (fst (eval_with idx fuel c a e)) = false.
Proof.
  induction fuel as [|f IH]; intros e c a H; [reflexivity|].
  destruct e; cbn [nostarb] in H; try discriminate H.
  - cbn [eval_with fst]. apply negb_true_iff, H.
  - reflexivity.
  - cbn [eval_with]. apply IH, H.
  - cbn [eval_with]. apply IH, H.
Qed.

Lemma no_nestedb_sound idx m : forall fuel e c a, no_nestedb m e = true ->
  mark_mem m (deep_marks (fst (unmark (fst (eval_with idx fuel c a e))))) = false.
Proof.
  induction fuel as [|f IH]; intros e c a H; [reflexivity|].
  destruct e; cbn [no_nestedb] in H; try discriminate H.
  - cbn [eval_with fst]. apply negb_true_iff, H.
  - destruct (tmpl_result idx f c a parts) as (x & mk & -> & P & T & _). rewrite (unmark_with_marks_prim _ _ P).
    destruct x; try discriminate P; reflexivity.
  - cbn [eval_with]. apply IH, H.
  - cbn [eval_with]. apply IH, H.
Qed.

Lemma nonobjb_sound idx : forall fuel e c a, nonobjb e = true -> is_obj (type_of (fst (eval_with idx fuel c a e))) = false.
Proof.
  induction fuel as [|f IH]; intros e c a H; [reflexivity|].
  destruct e; cbn [nonobjb] in H; try discriminate H.
  - cbn [eval_with fst]. apply negb_true_iff, H.
  - reflexivity.
  - destruct (tmpl_result idx f c a parts) as (x & mk & -> & P & T & _). rewrite type_of_with_marks, T. reflexivity.
  - cbn [eval_with]. apply IH, H.
  - cbn [eval_with]. apply IH, H.
Qed.

Lemma each_stableb_sound m idx Cx e : each_stableb e = true -> each_ty_stable m idx Cx e.
Proof.
  destruct e; try discriminate; [|intros _; apply each_ty_stable_anon].
  destruct e; try discriminate. intros _. apply each_ty_stable_trav.
Qed.

Lemma forallb_Forall' {A} (f : A -> bool) (P : A -> Prop) l :
  (forall x, In x l -> f x = true -> P x) -> forallb f l = true -> Forall P l.
Proof.
  induction l as [|x r IH]; intros H E; [constructor|]. cbn [forallb] in E. apply andb_true_iff in E as [E1 E2].
  constructor; [apply H; [left; reflexivity|exact E1]|apply IH; [intros y Hy; apply H; right; exact Hy|exact E2]].
Qed.

Theorem in_fragmentb_sound m : forall e, in_fragmentb m e = true -> in_fragment m index ctx_ok e.
Proof.
  fix IH 1. intros e H. destruct e; cbn [in_fragmentb] in H.
  - apply F_lit. exact H.
  - apply F_scope.
  - apply F_rel. apply IH, H.
  - apply andb_true_iff in H as [H1 H2]. apply F_call.
    + clear H2. induction args as [|x r IHl]; [constructor|]. cbn [forallb] in H1. apply andb_true_iff in H1 as [A B].
      constructor; [apply IH, A|apply IHl, B].
    + intros ->. cbn [negb orb] in H2. unfold expand_side. destruct (rev args) as [|l ?]; [exact I|].
      intros fuel c a v ds _ _ E _. pose proof (nostarb_sound index m fuel l c a H2) as X. rewrite E in X. exact X.
  - repeat (apply andb_true_iff in H as [H ?]).
    apply F_cond; try (apply IH; assumption).
    split; [intros fuel c a _ _; apply nofailb_sound; assumption|].
    split; [intros fuel c a _ _; apply nofailb_sound; assumption|]. right. split.
    + intros fuel c a v ds _ _ E _. pose proof (no_nestedb_sound index m fuel e2 c a) as X. rewrite E in X. apply X. assumption.
    + intros fuel c a v ds _ _ E _. pose proof (no_nestedb_sound index m fuel e3 c a) as X. rewrite E in X. apply X. assumption.
  - apply andb_true_iff in H as [H H3]. apply andb_true_iff in H as [H1 H2].
    apply F_index; [apply IH, H1|apply IH, H2|]. apply orb_true_iff in H3 as [L|N].
    + destruct e2; try discriminate L. apply key_ok_index_lit.
    + apply key_ok_index_nonobj. intros fuel c a v ds _ _ E _.
      pose proof (nonobjb_sound index fuel e1 c a N) as X. rewrite E in X. exact X.
  - apply F_tuple. induction es as [|x r IHl]; [constructor|]. cbn [forallb] in H. apply andb_true_iff in H as [A B].
    constructor; [apply IH, A|apply IHl, B].
  - apply F_obj. induction items as [|[k v] r IHl]; [constructor|]. cbn [forallb fst snd] in H.
    apply andb_true_iff in H as [A B]. apply andb_true_iff in A as [A1 A2].
    constructor; [split; [apply IH, A1|apply IH, A2]|apply IHl, B].
  - apply F_objkey. apply IH, H.
  - apply andb_true_iff in H as [H Hc]. apply andb_true_iff in H as [H Hk]. apply andb_true_iff in H as [H1 H2].
    assert (Fk : forall ke, key = Some ke -> in_fragment m index ctx_ok ke /\ nonnull index ctx_ok ke).
    { destruct key as [ke|]; [|discriminate]. apply andb_true_iff in Hk as [X1 X2].
      pose proof (IH ke X1) as Fke. intros k' E. injection E as <-.
      split; [exact Fke|]. intros fuel c a _ _. apply nonnullb_sound, X2. }
    assert (Fc : forall ce, cond = Some ce -> in_fragment m index ctx_ok ce /\ nonnull index ctx_ok ce).
    { destruct cond as [ce|]; [|discriminate]. apply andb_true_iff in Hc as [X1 X2].
      pose proof (IH ce X1) as Fce. intros k' E. injection E as <-.
      split; [exact Fce|]. intros fuel c a _ _. apply nonnullb_sound, X2. }
    apply F_for; [apply IH, H1|apply IH, H2|exact Fk|exact Fc].
  - apply andb_true_iff in H as [H H3]. apply andb_true_iff in H as [H1 H2].
    apply F_splat; [apply IH, H1|apply IH, H2|right; apply each_stableb_sound, H3].
  - apply F_anon.
  - apply andb_true_iff in H as [H H3]. apply andb_true_iff in H as [H1 H2].
    apply F_bin; [apply IH, H1|apply IH, H2|]. intro Sc. rewrite Sc in H3. cbn [negb orb] in H3.
    apply andb_true_iff in H3 as [A B]. split; intros fuel c a _ _; apply nofailb_sound; assumption.
  - apply F_un. apply IH, H.
  - apply F_tmpl. induction parts as [|x r IHl]; [constructor|]. cbn [forallb] in H. apply andb_true_iff in H as [A B].
    constructor; [apply IH, A|apply IHl, B].
  - apply F_join. apply IH, H.
  - apply F_wrap. apply IH, H.
  - apply F_paren. apply IH, H.
Qed.

(* ---- boolean low-equivalence ------------------------------------------------------------------------------ *)
Fixpoint all2 {A B} (f : A -> B -> bool) (l1 : list A) (l2 : list B) : bool :=
  match l1, l2 with
  | [], [] => true
  | a :: r1, b :: r2 => f a b && all2 f r1 r2
  | _, _ => false
  end.

Fixpoint oval_eqb (a b : oval) {struct a} : bool :=
  match a, b with
  | OStar, OStar => true
  | OStr x, OStr y => str_eqb x y
  | ONum x, ONum y => num_eqb x y
  | OBool x, OBool y => Bool.eqb x y
  | ONull s, ONull t => ty_eqb s t
  | OUnk s r, OUnk t r' => ty_eqb s t && rf_eqb r r'
  | OList s l, OList t l' | OSet s l, OSet t l' =>
      ty_eqb s t &&
      (fix go (l l' : list oval) : bool :=
         match l, l' with
         | [], [] => true
         | x :: r, y :: r' => oval_eqb x y && go r r'
         | _, _ => false
         end) l l'
  | OTuple l, OTuple l' =>
      (fix go (l l' : list oval) : bool :=
         match l, l' with
         | [], [] => true
         | x :: r, y :: r' => oval_eqb x y && go r r'
         | _, _ => false
         end) l l'
  | OMap s l, OMap t l' =>
      ty_eqb s t &&
      (fix go (l l' : list (list Z * oval)) : bool :=
         match l, l' with
         | [], [] => true
         | (k, x) :: r, (k', y) :: r' => str_eqb k k' && oval_eqb x y && go r r'
         | _, _ => false
         end) l l'
  | OObj l, OObj l' =>
      (fix go (l l' : list (list Z * oval)) : bool :=
         match l, l' with
         | [], [] => true
         | (k, x) :: r, (k', y) :: r' => str_eqb k k' && oval_eqb x y && go r r'
         | _, _ => false
         end) l l'
  | OMark ms x, OMark ms' y => zlist_eqb ms ms' && oval_eqb x y
  | _, _ => false
  end.

(* erasures equal (refinements computed inside go-cty, RWild, compare equal to anything) *)
Definition leqb (m : Z) (a b : val) : bool := oval_eqb (erase m a) (erase m b).

(* same frames, same variable names, low-equal values; function tables: same names (the harness
   passes the same table, the harness table, on both sides: harness_funcs_ok) *)
Definition frame_leqb (m : Z) (f1 f2 : frame) : bool :=
  match fvars f1, fvars f2 with
  | None, None => true
  | Some v1, Some v2 => all2 (fun p q => str_eqb (fst p) (fst q) && leqb m (snd p) (snd q)) v1 v2
  | _, _ => false
  end &&
  match ffuncs f1, ffuncs f2 with
  | None, None => true
  | Some g1, Some g2 => list_eqb str_eqb (map fst g1) (map fst g2)
  | _, _ => false
  end.
Definition low_eqb (m : Z) (c1 c2 : ctx) : bool := all2 (frame_leqb m) c1 c2.
Definition ctx_wfb (c : ctx) : bool :=
  forallb (fun fr => match fvars fr with Some vs => forallb (fun p => wfb (snd p)) vs | None => true end) c.

(* ---- cases -------------------------------------------------------------------------------------------------- *)
(* mode 0: compare values exactly; 1: compare types only (numbers outside the exact domain); 2: skip *)
Record ni_case := mkNI {
  n_mark : Z;                               (* the mark label the two scopes differ under *)
  n_ctx1 : ctx; n_ctx2 : ctx; n_expr : expr; n_mode : Z;
  n_val1 : val; n_diags1 : list Z;          (* observed first run: value, diagnostic summaries *)
  n_val2 : val; n_diags2 : list Z }.        (* observed second run *)

Definition ni_diag_ids (ds : list diag) : list Z := map (fun d => if d_err d then d_sum d else - d_sum d) ds.

(* 0 agree, 1 disagree, 2 skipped *)
Definition ni_run_status (mode : Z) (c : ctx) (e : expr) (ov : val) (od : list Z) : Z :=
  if mode =? 2 then 2 else
  let '(v, ds) := value c e in
  if has_unsupported ds then 2
  else if negb (zlist_eqb (ni_diag_ids ds) od) then 1
  else if mode =? 1 then (if ty_eqb (type_of v) (type_of ov) then 0 else 1)
  else if val_eqb v ov then 0 else 1.

Definition ni_clean (c : ctx) (e : expr) : bool :=
  let ds := snd (value c e) in negb (has_errors ds) && negb (has_unsupported ds).

(* the hypotheses of C06_marks_noninterference_value, decided on the case (conservatively) *)
Definition ni_theorem_applies (k : ni_case) : bool :=
  in_fragmentb (n_mark k) (n_expr k) && low_eqb (n_mark k) (n_ctx1 k) (n_ctx2 k) &&
  ctx_wfb (n_ctx1 k) && ctx_wfb (n_ctx2 k) &&
  ni_clean (n_ctx1 k) (n_expr k) && ni_clean (n_ctx2 k) (n_expr k).

(* 0 = both runs reproduced; erasures equal, or a diagnostic on one side (nothing to compare)
   1 = the model disagrees with an observed run
   2 = skipped (outside the model)
   3 = both runs free of diagnostics, erasures DIFFER, hypotheses of the theorem not met
       (a finding of one of the classes of MarksNI_Refuted.v, or a case outside the recogniser)
   4 = as 3 but the hypotheses ARE met: impossible for the model (marks_noninterference_value_ok);
       would mean the checker itself is broken
   5 = the two scopes are not low-equivalent for the case's mark (a generator error) *)
Definition ni_case_status (k : ni_case) : Z :=
  let s1 := ni_run_status (n_mode k) (n_ctx1 k) (n_expr k) (n_val1 k) (n_diags1 k) in
  let s2 := ni_run_status (n_mode k) (n_ctx2 k) (n_expr k) (n_val2 k) (n_diags2 k) in
  if (s1 =? 1) || (s2 =? 1) then 1
  else if (s1 =? 2) || (s2 =? 2) then 2
  else if negb (low_eqb (n_mark k) (n_ctx1 k) (n_ctx2 k)) then 5
  else
  let '(v1, d1) := value (n_ctx1 k) (n_expr k) in
  let '(v2, d2) := value (n_ctx2 k) (n_expr k) in
  if has_errors d1 || has_errors d2 then 0
  else if leqb (n_mark k) v1 v2 then 0
  else if ni_theorem_applies k then 4 else 3.

Definition check_ni_case (k : ni_case) : bool :=
  let s := ni_case_status k in negb ((s =? 1) || (s =? 4) || (s =? 5)).
(* bad: the model disagrees with an observed run, or the hypotheses are met and the erasures differ
   (or the generator produced scopes that are not low-equivalent) *)
Definition bad (ks : list ni_case) : list Z := failing check_ni_case ks.
(* the cases that fall under the theorem *)
Definition ni_covered (ks : list ni_case) : list Z := failing (fun k => negb (ni_theorem_applies k)) ks.
(* findings: error-free runs whose erasures differ, outside the theorem *)
Definition ni_violations (ks : list ni_case) : list Z := failing (fun k => negb (ni_case_status k =? 3)) ks.
Definition ni_skipped (ks : list ni_case) : list Z := failing (fun k => negb (ni_case_status k =? 2)) ks.

(* what ni_theorem_applies means *)
Theorem ni_theorem_applies_sound k :
  ni_theorem_applies k = true ->
  in_fragment (n_mark k) index ctx_ok (n_expr k) /\
  (forall fr vs kk v, In fr (n_ctx1 k) -> fvars fr = Some vs -> In (kk, v) vs -> wf v) /\
  (forall fr vs kk v, In fr (n_ctx2 k) -> fvars fr = Some vs -> In (kk, v) vs -> wf v).
Proof.
  unfold ni_theorem_applies. intro H. repeat (apply andb_true_iff in H as [H ?]).
  split; [apply in_fragmentb_sound; assumption|].
  assert (X : forall c, ctx_wfb c = true -> forall fr vs kk v, In fr c -> fvars fr = Some vs -> In (kk, v) vs -> wf v).
  { intros c Hc fr vs kk v I1 F I2. unfold ctx_wfb in Hc. rewrite forallb_forall in Hc. specialize (Hc fr I1).
    rewrite F in Hc. rewrite forallb_forall in Hc. exact (Hc (kk, v) I2). }
  split; apply X; assumption.
Qed.
