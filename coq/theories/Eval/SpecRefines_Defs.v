(* Eval/SpecRefines_Defs.v — statement-level definitions of the conformance theorem
   (Eval/SpecRefines.v): hypotheses on contexts and function tables, the explicit side
   condition [dev_free] that excludes the refuted deviation shapes, unfolding lemmas of the
   implementation evaluator, and the induction hypothesis shape used by the node lemmas. *)
From Coq Require Import QArith.
From HclV Require Import Base.Prelude Cty.Values Cty.Convert Cty.Ops Eval.Impl Eval.Spec Eval.SpecRefines_Base.
Open Scope Z_scope.

(* ---- hypotheses on the context ------------------------------------------------------------ *)
(* every variable of every frame is wholly known and unmarked *)
Definition known_unmarked_ctx (c : ctx) : bool :=
  forallb (fun fr => match fvars fr with Some vs => goodkvs vs | None => true end) c.

(* contract of a function-table entry: it is a (Gallina, hence pure) function that maps wholly
   known unmarked arguments to a wholly known unmarked result, and no parameter asks for the
   go-cty behaviour "a null of the dynamic pseudo-type given to a parameter that accepts null
   but not dynamically-typed values makes the call return an unknown" (specdev_call_dynnull). *)
Definition param_ok (p : fparam) : Prop := p_ty p = TDyn -> p_null p = true -> p_dyn p = true.
Record fn_ok (f : fn) : Prop := mkFnOk {
  fo_params : forall i p, param_for f i = Some p -> param_ok p;
  fo_impl : forall args rt v, goods args = true -> f_rettype f args = Some rt ->
                              f_impl f args rt = OOk v -> good v = true }.
Definition funcs_ok (c : ctx) : Prop :=
  Forall (fun fr => forall fs, ffuncs fr = Some fs -> Forall (fun p => fn_ok (snd p)) fs) c.

Definition anon_ok (a : option val) : bool := match a with Some v => good v | None => true end.

(* every literal value embedded in the expression is wholly known and unmarked *)
Fixpoint lits_ok (e : expr) : bool :=
  match e with
  | ELit v => good v
  | EScopeTrav _ steps => forallb step_ok steps
  | ERelTrav s steps => lits_ok s && forallb step_ok steps
  | ECall _ args _ => forallb lits_ok args
  | ECond a b c => lits_ok a && lits_ok b && lits_ok c
  | EIndex a b | ESplat a b | EBin _ a b => lits_ok a && lits_ok b
  | ETuple es | ETmpl es => forallb lits_ok es
  | EObj items => forallb (fun p => lits_ok (fst p) && lits_ok (snd p)) items
  | EObjKey a _ | EUn _ a | EJoin a | EWrap a | EParen a => lits_ok a
  | EFor _ _ c k v cd _ =>
      lits_ok c && match k with Some x => lits_ok x | None => true end && lits_ok v
      && match cd with Some x => lits_ok x | None => true end
  | EAnon => true
  end.

(* ---- the excluded deviation shapes ---------------------------------------------------------- *)
(* classification of an operand of && / || as the SPECIFICATION sees it *)
Inductive bcls := BErr | BNoConv | BNull | BB (b : bool).
Definition bool_class (r : sres) : bcls :=
  match r with
  | SErr => BErr
  | SOk v => match conv v TBool with COk (VBool b) => BB b | COk _ => BNull | _ => BNoConv end
  end.
Definition b_noconv c := match c with BNoConv => true | _ => false end.
Definition b_bad c := match c with BErr | BNull => true | _ => false end.      (* erroneous or null *)
Definition b_falsy c := match c with BB false | BNull => true | _ => false end.
Definition b_true c := match c with BB true => true | _ => false end.
(* [specdev_logic_*]: a && b deviates when some operand is false or null while some operand is
   erroneous or null; a || b deviates when one operand is true while the other is erroneous or null *)
Definition logic_dev_free (op : binop) (a b : sres) : bool :=
  let ca := bool_class a in let cb := bool_class b in
  if b_noconv ca || b_noconv cb then true else
  match op with
  | OpAnd => negb ((b_falsy ca || b_falsy cb) && (b_bad ca || b_bad cb))
  | OpOr => negb ((b_true ca && b_bad cb) || (b_true cb && b_bad ca))
  | _ => true
  end.

Fixpoint nodup_keys (l : list (list Z)) : bool :=
  match l with [] => true | k :: r => negb (existsb (str_eqb k) r) && nodup_keys r end.

Definition is_listset (v : val) : bool := match type_of v with TList _ | TSet _ => true | _ => false end.
Definition is_setval (v : val) : bool := match v with VSet _ _ => true | _ => false end.

(* [dev_free fuel c anon e]: no excluded shape occurs in the evaluation of e in context c.
   Indexed by fuel like [eval] because one condition (the `for` type-check probe) is about an
   evaluation the implementation performs and the specification does not mention. *)
Fixpoint dev_free (fuel : nat) (c : ctx) (anon : option val) (e : expr) {struct fuel} : bool :=
  match fuel with
  | O => true
  | S f =>
  let df := dev_free f c anon in
  let E := env_of c anon in
  match e with
  | ELit _ => true
  | EParen e' | EWrap e' | EUn _ e' => df e'
  (* AST shape: the anonymous symbol only occurs under a splat *)
  | EAnon => match anon with Some _ => true | None => false end
  (* specdev_getattr_map: attribute access applied to a map value *)
  | EScopeTrav root steps =>
      match assoc_get root (e_vars E) with Some v => steps_dev_free steps v | None => true end
  | ERelTrav src steps =>
      df src && match spec_eval E src with SOk v => steps_dev_free steps v | SErr => true end
  | EIndex a b => df a && df b
  | ETuple es | ETmpl es => forallb df es
  (* specdev_objkey_traversal: an unparenthesised traversal a.b as object key *)
  | EObjKey w force =>
      if force then df w
      else match w with
           | EScopeTrav _ (_ :: _) => false
           | _ => match key_identifier w with Some _ => true | None => df w end
           end
  (* specdev_objcons_dupkey: the same key twice in an object constructor *)
  | EObj items =>
      forallb (fun it => df (fst it) && df (snd it)) items &&
      match all_sok (map (fun it => spec_eval E (fst it)) items) with
      | Some ks => match all_some (map to_string ks) with Some names => nodup_keys names | None => true end
      | None => true
      end
  (* specdev_logic_*: see logic_dev_free *)
  | EBin op a b => df a && df b && logic_dev_free op (spec_eval E a) (spec_eval E b)
  (* specdev_cond_typed_error_arm: the unselected arm is erroneous and the residual value the
     implementation computes for it still has a static type (other than the dynamic pseudo-type).
     (The mark test is vacuous: marks do not arise in an unmarked context; that is C06's theorem,
     not re-proved here.) *)
  | ECond p t fe =>
      df p && df t && df fe &&
      match spec_eval E p with
      | SOk pv =>
          match to_bool pv with
          | Some b =>
              let sel := if b then t else fe in let oth := if b then fe else t in
              match spec_eval E sel, spec_eval E oth with
              | SOk _, SErr => let rv := fst (eval f c anon oth) in
                               ty_eqb (type_of rv) TDyn && negb (is_marked rv)
              | _, _ => true
              end
          | None => true
          end
      | SErr => true
      end
  (* AST shape: a template `for` directive joins the tuple of a for expression *)
  | EJoin t => df t && match t with EFor _ _ _ None _ _ _ => true | _ => false end
  (* AST shape: `...` needs a final argument;  specdev_expand_set: expansion of a set value *)
  | ECall _ args expand =>
      forallb df args &&
      (if expand then
         match rev args with
         | [] => false
         | last :: _ =>
             match spec_eval E last with SOk v => negb (is_setval v) | SErr => true end
             (* model limitation, not a deviation: an "unsupported" marker of the expanded argument
                would be lost if the call then fails its arity check *)
             && negb (has_unsupported (snd (eval f c anon last)))
         end
       else true)
  (* specdev_for_probe: the `if` clause, evaluated by the implementation's type-check probe with
     both iteration variables bound to the dynamic value, must not be erroneous *)
  | EFor kvar vvar coll keye vale conde group =>
      df coll &&
      match spec_eval E coll with
      | SErr => true
      | SOk cv =>
          if is_null cv || negb (can_iterate cv) then true else
          match conde with
          | None => true
          | Some ce =>
              let '(r, cds) := eval f (child_ctx c (for_scope kvar vvar dyn_val dyn_val)) anon ce in
              negb (has_errors cds) && negb (is_null r) &&
              match conv r TBool with COk _ => true | _ => false end
          end &&
          forallb (fun kv =>
            let cc := child_ctx c (for_scope kvar vvar (fst kv) (snd kv)) in
            let E' := env_of cc anon in
            match conde with
            | None => true
            | Some ce => dev_free f cc anon ce
            end &&
            (if match conde with
                | None => true
                | Some ce => match spec_eval E' ce with
                             | SOk b => match to_bool b with Some true => true | _ => false end
                             | SErr => false end
                end
             then match keye with Some ke => dev_free f cc anon ke | None => true end
                  && dev_free f cc anon vale
             else true)) (elements cv)
      end
  (* specdev_splat_list: a splat applied to a list or set value (the implementation answers
     with a list, the for-expression reading of the text with a tuple) *)
  | ESplat src each =>
      df src &&
      match spec_eval E src with
      | SErr => true
      | SOk sv =>
          if is_null sv then true
          else negb (is_listset sv) &&
               forallb (fun v => dev_free f c (Some v) each)
                       (if is_sequence sv then map snd (elements sv) else [sv])
      end
  end
  end.

(* ---- refinement statement for one evaluation ---------------------------------------------- *)
Definition IHf (f : nat) : Prop :=
  forall c anon e,
    known_unmarked_ctx c = true -> funcs_ok c -> anon_ok anon = true -> lits_ok e = true ->
    (expr_size e <= f)%nat -> dev_free f c anon e = true ->
    refines1 (eval f c anon e) (spec_eval (env_of c anon) e).

(* ---- unfolding lemmas of the implementation evaluator (statements computed, proofs by reflexivity) *)
Ltac eval_unfold t :=
  let u := eval cbn [eval eval_with] in t in
  let u' := eval pattern (eval_with index) in u in
  match u' with ?F _ => let r := eval cbv beta in (F eval) in exact r end.

Lemma eval_ELit f c a v : eval (S f) c a (ELit v) = ltac:(eval_unfold (eval (S f) c a (ELit v))).
Proof. reflexivity. Qed.
Lemma eval_EParen f c a e : eval (S f) c a (EParen e) = ltac:(eval_unfold (eval (S f) c a (EParen e))).
Proof. reflexivity. Qed.
Lemma eval_EWrap f c a e : eval (S f) c a (EWrap e) = ltac:(eval_unfold (eval (S f) c a (EWrap e))).
Proof. reflexivity. Qed.
Lemma eval_EAnon f c a : eval (S f) c a EAnon = ltac:(eval_unfold (eval (S f) c a EAnon)).
Proof. reflexivity. Qed.
Lemma eval_EScopeTrav f c a r s : eval (S f) c a (EScopeTrav r s) = ltac:(eval_unfold (eval (S f) c a (EScopeTrav r s))).
Proof. reflexivity. Qed.
Lemma eval_ERelTrav f c a e s : eval (S f) c a (ERelTrav e s) = ltac:(eval_unfold (eval (S f) c a (ERelTrav e s))).
Proof. reflexivity. Qed.
Lemma eval_EIndex f c a x y : eval (S f) c a (EIndex x y) = ltac:(eval_unfold (eval (S f) c a (EIndex x y))).
Proof. reflexivity. Qed.
Lemma eval_ETuple f c a es : eval (S f) c a (ETuple es) = ltac:(eval_unfold (eval (S f) c a (ETuple es))).
Proof. reflexivity. Qed.
Lemma eval_EObjKey f c a w b : eval (S f) c a (EObjKey w b) = ltac:(eval_unfold (eval (S f) c a (EObjKey w b))).
Proof. reflexivity. Qed.
Lemma eval_EObj f c a items : eval (S f) c a (EObj items) = ltac:(eval_unfold (eval (S f) c a (EObj items))).
Proof. reflexivity. Qed.
Lemma eval_EUn f c a op e : eval (S f) c a (EUn op e) = ltac:(eval_unfold (eval (S f) c a (EUn op e))).
Proof. reflexivity. Qed.
Lemma eval_EBin f c a op x y : eval (S f) c a (EBin op x y) = ltac:(eval_unfold (eval (S f) c a (EBin op x y))).
Proof. reflexivity. Qed.
Lemma eval_ECond f c a p t e : eval (S f) c a (ECond p t e) = ltac:(eval_unfold (eval (S f) c a (ECond p t e))).
Proof. reflexivity. Qed.
Lemma eval_ETmpl f c a ps : eval (S f) c a (ETmpl ps) = ltac:(eval_unfold (eval (S f) c a (ETmpl ps))).
Proof. reflexivity. Qed.
Lemma eval_EJoin f c a t : eval (S f) c a (EJoin t) = ltac:(eval_unfold (eval (S f) c a (EJoin t))).
Proof. reflexivity. Qed.
Lemma eval_ECall f c a n args x : eval (S f) c a (ECall n args x) = ltac:(eval_unfold (eval (S f) c a (ECall n args x))).
Proof. reflexivity. Qed.
Lemma eval_EFor f c a kv vv cl k v cd g : eval (S f) c a (EFor kv vv cl k v cd g) =
  ltac:(eval_unfold (eval (S f) c a (EFor kv vv cl k v cd g))).
Proof. reflexivity. Qed.
Lemma eval_ESplat f c a s e : eval (S f) c a (ESplat s e) = ltac:(eval_unfold (eval (S f) c a (ESplat s e))).
Proof. reflexivity. Qed.

(* ---- context lookups ---------------------------------------------------------------------- *)
Lemma assoc_get_app {A} k (a b : list (list Z * A)) :
  assoc_get k (a ++ b) = match assoc_get k a with Some v => Some v | None => assoc_get k b end.
Proof. induction a as [|[k' v] r IH]; simpl; [reflexivity|]. destruct (str_eqb k k'); auto. Qed.

Lemma lookup_var_env c name b anon :
  fst (lookup_var c name b) = assoc_get name (e_vars (env_of c anon)).
Proof.
  revert b. induction c as [|fr r IH]; intro b; simpl; [reflexivity|].
  destruct (fvars fr) as [vs|]; simpl.
  - rewrite assoc_get_app. destruct (assoc_get name vs); [reflexivity|apply IH].
  - apply IH.
Qed.
Lemma lookup_fn_env c name b anon :
  fst (lookup_fn c name b) = assoc_get name (e_funs (env_of c anon)).
Proof.
  revert b. induction c as [|fr r IH]; intro b; simpl; [reflexivity|].
  destruct (ffuncs fr) as [vs|]; simpl.
  - rewrite assoc_get_app. destruct (assoc_get name vs); [reflexivity|apply IH].
  - apply IH.
Qed.

Lemma ctx_vars_good c anon name v :
  known_unmarked_ctx c = true -> assoc_get name (e_vars (env_of c anon)) = Some v -> good v = true.
Proof.
  induction c as [|fr r IH]; simpl; intros K H; [discriminate|].
  apply andb_true_iff in K as [K1 K2]. rewrite assoc_get_app in H.
  destruct (fvars fr) as [vs|].
  - destruct (assoc_get name vs) eqn:A; [inversion H; subst; eapply goodkvs_get; eauto|auto].
  - simpl in H. auto.
Qed.
Lemma ctx_funs_ok c anon name fn_ :
  funcs_ok c -> assoc_get name (e_funs (env_of c anon)) = Some fn_ -> fn_ok fn_.
Proof.
  induction c as [|fr r IH]; simpl; intros K H; [discriminate|].
  inversion K as [|? ? K1 K2]; subst. rewrite assoc_get_app in H.
  destruct (ffuncs fr) as [fs|] eqn:FF.
  - destruct (assoc_get name fs) eqn:A; [|auto]. inversion H; subst.
    specialize (K1 fs eq_refl). clear -K1 A.
    induction fs as [|[k x] fs IHf]; simpl in A; [discriminate|].
    inversion K1; subst. destruct (str_eqb name k); [inversion A; subst; auto|auto].
  - simpl in H. auto.
Qed.

Lemma child_ctx_ok c vars : known_unmarked_ctx c = true -> goodkvs vars = true ->
  known_unmarked_ctx (child_ctx c vars) = true.
Proof. intros K G. unfold child_ctx. simpl. rewrite G, K. reflexivity. Qed.
Lemma child_funcs_ok c vars : funcs_ok c -> funcs_ok (child_ctx c vars).
Proof. intro K. constructor; [intros fs H; discriminate|exact K]. Qed.
Lemma env_of_child c vars anon :
  env_of (child_ctx c vars) anon = bind_vars (env_of c anon) vars.
Proof. reflexivity. Qed.
Lemma env_of_anon c a v : env_of c (Some v) = bind_anon (env_of c a) v.
Proof. reflexivity. Qed.
