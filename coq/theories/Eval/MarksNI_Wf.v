(* Eval/MarksNI_Wf.v — C06: every value the evaluator produces is well-formed (no mark directly
   under a mark), for the expressions of the fragment.  Discharges the hypothesis Hwf_eval of
   MarksNI_Eval.ni_all. *)
From Coq Require Import QArith.
From HclV Require Import Base.Prelude Cty.Values Cty.Convert Cty.Ops Eval.Impl
     Eval.MarksNI Eval.MarksNI_Ops Eval.MarksNI_Index Eval.MarksNI_Funcs Eval.MarksNI_Steps Eval.MarksNI_Eval.
Open Scope Z_scope.

Lemma equals_wf : forall f a b r, equals f a b = OOk r -> wf r.
Proof.
  induction f as [|f IH]; intros a b r H; [discriminate H|]. cbn [equals] in H.
  assert (AE : forall ps acc r,
     (forall r0, acc = OOk r0 -> wf r0) ->
     fold_left (fun acc p =>
          match acc with
          | OOk (VBool true) =>
              match equals f (fst p) (snd p) with
              | OOk (VBool true) => OOk (VBool true)
              | other => other
              end
          | other => other
          end) ps acc = OOk r -> wf r).
  { induction ps as [|p ps IHps]; cbn [fold_left]; intros acc r1 Hacc E; [apply Hacc, E|].
    eapply IHps; [|exact E]. intros r0 E0.
    repeat bm E0; try discriminate E0; try (apply Hacc; exact E0); try (injection E0 as <-; reflexivity);
      subst; try (injection E0 as <-); first [eapply IH; eassumption | apply Hacc; assumption | reflexivity]. }
  repeat bm H; try discriminate H; try (injection H as <-; reflexivity);
    try (eapply AE; [|exact H]; intros r0 E0; injection E0 as <-; reflexivity).
Qed.

Lemma lift_marks_wf ms r v : (forall x, r = OOk x -> wf x) -> lift_marks ms r = OOk v -> wf v.
Proof. intros H E. apply lift_marks_ok in E as (x & -> & ->). apply wf_with_marks. apply H. reflexivity. Qed.

Lemma call_binop_wf op a b r : call_binop op a b = OOk r -> wf r.
Proof.
  intro H. destruct (is_eqop op) eqn:Eo.
  - rewrite call_binop_eqop in H by exact Eo. eapply lift_marks_wf; [|exact H].
    intros x Ex. unfold eq_core in Ex. cbv zeta in Ex.
    destruct (equals _ _ _) as [y| |] eqn:Q.
    + pose proof (equals_wf _ _ _ _ Q) as Wy.
      destruct op; try discriminate Eo.
      * injection Ex as <-. exact Wy.
      * destruct y; injection Ex as <-; exact Wy.
    + destruct op; discriminate Ex.
    + destruct op; discriminate Ex.
  - destruct op; try discriminate Eo; cbn [call_binop] in H; repeat bm H; try discriminate H;
      injection H as <-; reflexivity.
Qed.

Lemma call_unop_wf op a r : call_unop op a = OOk r -> wf r.
Proof.
  intro H. destruct op; cbn [call_unop] in H.
  - destruct (unmark a) as [a' ms]. eapply lift_marks_wf; [|exact H].
    intros x Ex. repeat bm Ex; try discriminate Ex; injection Ex as <-; reflexivity.
  - eapply lift_marks_wf; [|exact H].
    intros x Ex. repeat bm Ex; try discriminate Ex; injection Ex as <-; reflexivity.
Qed.

Lemma bin_tail_wf op lu ru mk lds rds : wf (fst (bin_tail op lu ru mk lds rds)).
Proof.
  unfold bin_tail. destruct (sc_val op lu ru (has_errors lds)) as [[sv side]|] eqn:S; cbn [option_map fst snd].
  - apply wf_with_marks. unfold sc_val in S. repeat bm S; try discriminate S; injection S as <- _; reflexivity.
  - destruct (has_errors (lds ++ rds)); [apply wf_with_marks; reflexivity|].
    destruct (call_binop op lu ru) eqn:C; cbn [fst]; try reflexivity. apply wf_with_marks. eapply call_binop_wf; exact C.
Qed.

Lemma wf_assoc_set k v (l : list (list Z * val)) :
  wf v -> forallb (fun p => wfb (snd p)) l = true -> forallb (fun p => wfb (snd p)) (assoc_set k v l) = true.
Proof.
  intros Wv. induction l as [|[k' x] r IH]; cbn [assoc_set forallb snd]; intro H.
  - rewrite Wv. reflexivity.
  - apply andb_true_iff in H as [A B]. destruct (str_eqb k k'); cbn [forallb snd].
    + rewrite Wv, B. reflexivity.
    + destruct (str_ltb k k'); cbn [forallb snd]; rewrite ?Wv, ?A, ?B, ?IH; auto.
Qed.

Lemma cond_unk_obs_wf rt t f : wf (cond_unk_obs rt t f).
Proof.
  unfold cond_unk_obs.
  repeat match goal with
         | |- context [match ?y with _ => _ end] => destruct y
         | |- context [if ?y then _ else _] => destruct y
         end; try reflexivity; apply finish_unknown_wf.
Qed.

Lemma cond_pick_wf rt mk cds bv bds nc o : wf bv -> wf (fst (cond_pick rt mk cds bv bds nc o)).
Proof.
  intro W. unfold cond_pick. cbv zeta. destruct nc; [|apply wf_with_marks, W].
  destruct (conv bv rt) eqn:C; cbn [fst]; try reflexivity; apply wf_with_marks; [|reflexivity].
  eapply conv_wf; eassumption.
Qed.

Lemma cond_tail_wf rt tc fc cv cds tv tds fv fds : wf tv -> wf fv -> wf (fst (cond_tail rt tc fc cv cds tv tds fv fds)).
Proof.
  intros Wt Wf. unfold cond_tail. destruct (is_null cv); [reflexivity|].
  apply wf_unmark in Wt as [_ Wt]. apply wf_unmark in Wf as [_ Wf].
  destruct (unmark cv) as [cu cm]. destruct (unmark tv) as [tu tm]. destruct (unmark fv) as [fu fm]. cbn [fst] in *.
  destruct (negb (is_known cu)); [apply wf_with_marks, cond_unk_obs_wf|].
  destruct (conv cu TBool) as [cb| |]; try reflexivity.
  destruct cb; try reflexivity. destruct b; apply cond_pick_wf; assumption.
Qed.

Lemma join_fold_wf vs : forall st,
  (forall r d, st = inr (r, d) -> wf r) -> forall r d, fold_left join_step vs st = inr (r, d) -> wf r.
Proof.
  induction vs as [|v t IH]; intros st H r d E; cbn [fold_left] in E; [eapply H; exact E|].
  eapply IH; [|exact E]. intros r0 d0 E0. destruct st as [[[buf am] ds]|[r1 d1]]; cbn [join_step] in E0.
  - repeat bm E0; try discriminate E0; injection E0 as <- _; apply wf_with_same_marks, wf_with_marks; reflexivity.
  - eapply H. exact E0.
Qed.

Lemma objkey_shape' idx f w force :
  exists k : option (val * list diag),
    (forall c a, eval_with idx (S f) c a (EObjKey w force) = match k with Some r => r | None => eval_with idx f c a w end) /\
    (forall r, k = Some r -> wf (fst r)).
Proof.
  destruct force; [exists None; split; [reflexivity|discriminate]|].
  destruct w; try (exists None; split; [reflexivity|discriminate]);
    try (destruct steps; eexists (Some _); (split; [intros; cbn [eval_with negb literal_name]; reflexivity|]);
         intros r E; injection E as <-; reflexivity).
  destruct v; try (exists None; split; [reflexivity|discriminate]);
    try (eexists (Some _); (split; [intros; cbn [eval_with negb literal_name]; reflexivity|]);
         intros r E; injection E as <-; reflexivity).
  destruct b; eexists (Some _); (split; [intros; cbn [eval_with negb literal_name]; reflexivity|]);
    intros r E; injection E as <-; reflexivity.
Qed.

Lemma typed_list_wf v0 rest :
  forallb wfb (v0 :: rest) = true -> forallb (fun v => ty_eqb (type_of v) (type_of v0)) rest = true ->
  wf (VList (type_of v0) (v0 :: rest)).
Proof.
  unfold wf. cbn [wfb forallb]. intros W T. apply andb_true_iff in W as [W0 Wr]. rewrite ty_eqb_refl, W0. cbn [andb].
  induction rest as [|x r IH]; cbn [forallb] in *; [reflexivity|].
  apply andb_true_iff in Wr as [A B]. apply andb_true_iff in T as [C D]. rewrite C, A. cbn [andb]. apply IH; assumption.
Qed.

Lemma splat_tail_wf ev c sv0 ds :
  (forall x, wf x -> wf (fst (ev c (Some x)))) -> wf sv0 -> wf (fst (splat_tail ev c sv0 ds)).
Proof.
  intros Hev W0. unfold splat_tail.
  destruct (has_errors ds); [reflexivity|].
  destruct (is_null sv0).
  { destruct (negb (is_seq_ty (type_of sv0))); cbn [fst]; [apply wf_with_same_marks|]; reflexivity. }
  destruct (ty_eqb (type_of sv0) TDyn); [apply wf_with_same_marks; reflexivity|].
  cbv zeta.
  remember (if negb (is_seq_ty (type_of sv0)) then with_same_marks (VTuple [sv0]) sv0 else sv0) as sv eqn:Hsv.
  assert (Wsv : wf sv).
  { subst sv. destruct (negb (is_seq_ty (type_of sv0))); [|exact W0].
    apply wf_with_same_marks. unfold wf in *. cbn [wfb forallb]. rewrite W0. reflexivity. }
  clear Hsv.
  match goal with |- context [if negb (is_known sv) then ?A else ?B] => destruct (negb (is_known sv)) end.
  { match goal with |- context [let '(rt, tds) := ?R in _] => destruct R as [rt tds] end.
    cbn [fst]. apply wf_with_same_marks.
    repeat match goal with
           | |- context [match ?y with _ => _ end] => destruct y
           | |- context [if ?y then _ else _] => destruct y
           end; try reflexivity; apply finish_unknown_wf. }
  destruct (wf_unmark _ Wsv) as [_ Wsu]. destruct (unmark sv) as [su sm]. cbn [fst] in Wsu.
  assert (Wv : forallb wfb (map fst (map (fun kv => ev c (Some (snd kv))) (elements su))) = true).
  { pose proof (elements_wf _ Wsu) as We. induction We as [|p r [_ Wp] _ IH]; cbn [map forallb]; [reflexivity|].
    rewrite (Hev _ Wp), IH. reflexivity. }
  match goal with |- context [match ?U with None => _ | Some _ => _ end] => destruct U as [[|]|] end;
    try reflexivity.
  - apply wf_with_marks. reflexivity.
  - match goal with |- context [if negb ?B then _ else _] => destruct (negb B) end.
    + apply wf_with_marks. reflexivity.
    + destruct (type_of sv); try (apply wf_with_marks; exact Wv).
      * destruct (map fst _) as [|v0 rest] eqn:Mv.
        -- match goal with |- context [let '(rt, tds) := ?R in _] => destruct R as [rt tds] end.
           apply wf_with_marks. reflexivity.
        -- destruct (forallb _ rest) eqn:Ft; [apply wf_with_marks; exact (typed_list_wf _ _ Wv Ft)|reflexivity].
      * destruct (map fst _) as [|v0 rest] eqn:Mv.
        -- match goal with |- context [let '(rt, tds) := ?R in _] => destruct R as [rt tds] end.
           apply wf_with_marks. reflexivity.
        -- destruct (forallb _ rest) eqn:Ft; [apply wf_with_marks; exact (typed_list_wf _ _ Wv Ft)|reflexivity].
Qed.

Section WF.
  Variable m : Z.
  Variable idx : val -> val -> val * list diag.
  Variable Cx : ctx -> Prop.
  Hypothesis Cx_wf : forall c, Cx c -> wf_ctx c.
  Hypothesis Cx_funcs : forall c, Cx c ->
    forall fr fs name f, In fr c -> ffuncs fr = Some fs -> assoc_get name fs = Some f -> fn_wf f.
  Hypothesis Cx_child : forall c vars, Cx c -> (forall k v, In (k, v) vars -> wf v) -> Cx (child_ctx c vars).
  Hypothesis idx_wf : forall c k, wf c -> wf k -> wf (fst (idx c k)).
  Notation frag := (in_fragment m idx Cx).

  Theorem eval_wf : forall fuel c a e v ds,
    Cx c -> wf_opt a -> frag e -> eval_with idx fuel c a e = (v, ds) -> wf v.
  Proof.
    induction fuel as [|f IH]; intros c a e v ds C W Fe E.
    { cbn [eval_with] in E. injection E as <- _. reflexivity. }
    destruct Fe.
    - (* lit *) cbn [eval_with] in E. injection E as <- _. assumption.
    - (* paren *) cbn [eval_with] in E. eapply IH; eassumption.
    - (* wrap *) cbn [eval_with] in E. eapply IH; eassumption.
    - (* anon *) cbn [eval_with] in E. injection E as <- _. destruct a; [exact W|reflexivity].
    - (* scope *) cbn [eval_with] in E. unfold traverse_abs in E.
      destruct (lookup_var c root false) as [[x|] b] eqn:L.
      + pose proof (traverse_rel_wf steps x []) as X. rewrite E in X. apply X.
        eapply lookup_var_wf; [apply Cx_wf, C|rewrite L; reflexivity].
      + destruct b; injection E as <- _; reflexivity.
    - (* rel *) cbn [eval_with] in E. destruct (eval_with idx f c a src) as [s d] eqn:S.
      destruct (traverse_rel steps s []) as [r d'] eqn:T. injection E as <- _.
      pose proof (traverse_rel_wf steps s []) as X. rewrite T in X. apply X. eapply IH; eassumption.
    - (* index *) cbn [eval_with] in E. destruct (eval_with idx f c a coll) as [cv cd] eqn:A.
      destruct (eval_with idx f c a key) as [kv kd] eqn:B. destruct (idx cv kv) as [r id] eqn:I.
      injection E as <- _. pose proof (idx_wf cv kv) as X. rewrite I in X.
      apply X; [eapply (IH c a coll); eassumption|eapply (IH c a key); eassumption].
    - (* tuple *) cbn [eval_with] in E. injection E as <- _. unfold wf. cbn [wfb].
      induction H as [|x r Fx _ IHr]; cbn [map forallb]; [reflexivity|].
      apply andb_true_iff; split; [|exact IHr].
      destruct (eval_with idx f c a x) as [y d] eqn:A. cbn [fst]. eapply IH; eassumption.
    - (* objkey *) destruct (objkey_shape' idx f w force) as [[r|] [Hk Hw]]; rewrite Hk in E.
      + subst r. apply (Hw _ eq_refl).
      + eapply IH; eassumption.
    - (* un *) cbn [eval_with] in E. destruct (eval_with idx f c a e) as [g d] eqn:A.
      destruct (conv g (unop_param op)) as [x| |]; try (injection E as <- _; reflexivity).
      destruct (has_errors d); [injection E as <- _; reflexivity|].
      destruct (unmark x) as [u um]. destruct (call_unop op u) eqn:R; injection E as <- _; try reflexivity.
      apply wf_with_marks. eapply call_unop_wf; exact R.
    - (* bin *) rewrite eval_bin_unfold in E.
      destruct (eval_with idx f c a l) as [g ld]. destruct (eval_with idx f c a r) as [h rd]. cbv zeta in E.
      destruct (has_unsupported ld || has_unsupported rd); [injection E as <- _; reflexivity|].
      destruct (conv g (binop_param op)); destruct (conv h (binop_param op)); try (injection E as <- _; reflexivity).
      destruct (unmark v0) as [lu lm]. destruct (unmark v1) as [ru rm].
      pose proof (bin_tail_wf op lu ru (marks_union lm rm) ld rd) as X. rewrite E in X. exact X.
    - (* tmpl *) rewrite eval_tmpl_unfold in E.
      destruct (fold_left _ parts _) as [[[b k] mk] d]. injection E as <- _. apply wf_with_marks.
      unfold tmpl_ret. destruct (negb k); [destruct (_ && _)|]; reflexivity.
    - (* join *) rewrite eval_join_unfold in E. destruct (eval_with idx f c a e) as [t d] eqn:A.
      destruct (ty_eqb (type_of t) TDyn); [injection E as <- _; apply wf_with_same_marks; reflexivity|].
      destruct (negb (is_known t)); [injection E as <- _; apply wf_with_same_marks; reflexivity|].
      destruct (unmark t) as [tu tm]. destruct tu; try (injection E as <- _; reflexivity).
      destruct (fold_left join_step l (inl ([], tm, d))) as [[[b am] dd]|[r dd]] eqn:Fo; cbn [join_fin] in E.
      + injection E as <- _. apply wf_with_marks. reflexivity.
      + injection E as <- _. eapply join_fold_wf; [|exact Fo]. intros r0 d0 E0. discriminate E0.
    - (* call *)
      assert (TW : forall fnv l d0 emk v' ds', fn_wf fnv -> Forall frag l ->
                 call_tail (eval_with idx f c a) name fnv l d0 emk = (v', ds') -> wf v').
      { intros fnv l d0 emk v' ds' Hfw Fl E0. unfold call_tail in E0.
        destruct (length l <? length (f_params fnv))%nat; [injection E0 as <- _; reflexivity|].
        destruct (_ && _); [injection E0 as <- _; reflexivity|].
        assert (FW : forall l0 i st, Forall frag l0 -> Forall wf (fst st) ->
                    Forall wf (fst (fold_left (call_step (eval_with idx f c a) fnv) (combine (seq i (length l0)) l0) st))).
        { induction l0 as [|x r IHl]; intros i st Fl0 Ws; cbn [length seq combine fold_left]; [exact Ws|].
          inversion Fl0 as [|? ? Fx Fr]; subst. apply IHl; [exact Fr|].
          destruct st as [vals d1]. unfold call_step. cbn [fst snd].
          destruct (eval_with idx f c a x) as [y dy] eqn:A.
          assert (Wy : wf y) by (eapply IH; eassumption).
          destruct (param_for fnv i); [destruct (conv y (p_ty f0)) eqn:Cv|]; cbn [fst];
            apply Forall_app; split; try exact Ws; constructor; try constructor; try exact Wy.
          eapply conv_wf; eassumption. }
        specialize (FW l 0%nat ([], d0) Fl (Forall_nil _)).
        destruct (fold_left _ _ _) as [av d]. cbn [fst] in FW.
        destruct (has_errors d); [injection E0 as <- _; reflexivity|].
        destruct (has_unsupported d); [injection E0 as <- _; reflexivity|].
        destruct (fn_call fnv av) eqn:Fc; injection E0 as <- _; try reflexivity.
        apply wf_with_marks. eapply Hfw; eassumption. }
      destruct expand.
      + rewrite eval_call_unfold_x in E.
        destruct (lookup_fn c name false) as [[fnv|] b] eqn:L; [|destruct b; injection E as <- _; reflexivity].
        destruct (lookup_fn_in _ _ _ _ _ L) as (fr & fs & I1 & I2 & I3).
        pose proof (Cx_funcs c C fr fs name fnv I1 I2 I3) as Hfw.
        unfold call_expanded in E.
        destruct (rev args) as [|last init_rev] eqn:R; [injection E as <- _; reflexivity|].
        assert (Ea : args = rev init_rev ++ [last]) by (rewrite <- (rev_involutive args), R; reflexivity).
        assert (Fl : frag last /\ Forall frag (rev init_rev)).
        { rewrite Ea in H. apply Forall_app in H as [F1 F2]. inversion F2; subst. split; assumption. }
        destruct Fl as [Fl Fi].
        destruct (eval_with idx f c a last) as [xv xd] eqn:A.
        assert (Wx : wf xv) by (eapply (IH c a last); eassumption).
        destruct (has_errors xd); [injection E as <- _; reflexivity|].
        assert (Seq : forall r0,
                  (if is_null xv then inr (dyn_val, xd ++ [derr S_InvalidExpand []])
                   else if negb (is_known xv) then inr (with_same_marks dyn_val xv, xd)
                   else let '(xu, xm) := unmark xv in
                        inl (rev init_rev ++ map (fun kv => ELit (with_marks (snd kv) xm)) (elements xu), xd,
                             match elements xu with [] => xm | _ :: _ => [] end)) = r0 ->
                  match r0 with inr r => r | inl (args', ds0, emk) => call_tail (eval_with idx f c a) name fnv args' ds0 emk end = (v, ds) ->
                  wf v).
        { intros r0 <- E0. destruct (is_null xv); [injection E0 as <- _; reflexivity|].
          destruct (negb (is_known xv)); [injection E0 as <- _; apply wf_with_same_marks; reflexivity|].
          destruct (wf_unmark _ Wx) as [_ Wu]. destruct (unmark xv) as [xu xm]. cbn [fst] in Wu.
          assert (FL : forall l0, Forall wf_pair l0 ->
                    Forall frag (map (fun kv : val * val => ELit (with_marks (snd kv) xm)) l0)).
          { induction 1 as [|p r [_ Wp] _ IHe]; cbn [map]; constructor; [|exact IHe].
            apply F_lit. apply wf_with_marks, Wp. }
          eapply TW; [exact Hfw| |exact E0]. apply Forall_app. split; [exact Fi|].
          apply FL, elements_wf, Wu. }
        destruct (type_of xv); try (injection E as <- _; reflexivity);
          try (eapply Seq; [reflexivity|exact E]).
        destruct (is_null xv); injection E as <- _; [reflexivity|apply wf_with_same_marks; reflexivity].
      + rewrite eval_call_unfold in E.
        destruct (lookup_fn c name false) as [[fnv|] b] eqn:L; [|destruct b; injection E as <- _; reflexivity].
        destruct (lookup_fn_in _ _ _ _ _ L) as (fr & fs & I1 & I2 & I3).
        pose proof (Cx_funcs c C fr fs name fnv I1 I2 I3) as Hfw.
        eapply TW; [exact Hfw|exact H|exact E].
    - (* cond *) rewrite eval_cond_unfold in E.
      destruct (eval_with idx f c a te) as [tv td] eqn:A. destruct (eval_with idx f c a fe) as [fv fd] eqn:B.
      destruct (has_unsupported td || has_unsupported fd); [injection E as <- _; reflexivity|].
      destruct (cond_uni tv fv) as [[[[rt tc] fc]|]|[|]]; try (injection E as <- _; reflexivity).
      destruct (eval_with idx f c a ce) as [cv cd] eqn:D.
      pose proof (cond_tail_wf rt tc fc cv cd tv td fv fd) as X. rewrite E in X. apply X.
      + eapply (IH c a te); eassumption.
      + eapply (IH c a fe); eassumption.
    - (* for *) rewrite eval_for_unfold' in E.
      destruct (eval_with idx f c a coll) as [cv0 d0] eqn:A. unfold for_tail in E.
      assert (Wc : wf cv0) by (eapply (IH c a coll); eassumption).
      destruct (is_null cv0); [injection E as <- _; reflexivity|].
      destruct (ty_eqb (type_of cv0) TDyn); [injection E as <- _; apply wf_with_same_marks; reflexivity|].
      destruct (wf_unmark _ Wc) as [_ Wu]. destruct (unmark cv0) as [cv cmk]. cbn [fst] in Wu.
      destruct (negb (can_iterate cv)); [injection E as <- _; reflexivity|].
      destruct (for_probe _ c kv vv cond d0) as [[cm dp]|[r dr]] eqn:P.
      2:{ injection E as <- _. unfold for_probe in P. destruct cond as [ce|]; [|discriminate P].
          destruct (eval_with idx f _ a ce) as [q qd]. repeat bm P; try discriminate P; injection P as <- _; reflexivity. }
      destruct (negb (is_known cv)); [injection E as <- _; apply wf_with_marks; reflexivity|].
      pose proof (elements_wf _ Wu) as We.
      assert (CC : forall p, wf_pair p -> Cx (for_bind c kv vv (fst p) (snd p))).
      { intros p [Wk Wv]. apply Cx_child; [exact C|apply for_bind_vars_wf; assumption]. }
      destruct key as [ke|].
      + destruct (H ke eq_refl) as [Fke _].
        assert (FW : forall l st, Forall wf_pair l ->
                  forallb (fun p => wfb (snd p)) (fst (fst (fst (fst st)))) = true ->
                  forallb (fun p => forallb wfb (snd p)) (snd (fst (fst (fst st)))) = true ->
                  forallb (fun p => wfb (snd p)) (fst (fst (fst (fst (fold_left (foro_step (fun cc e => eval_with idx f cc a e) c kv vv cond ke vl group) l st))))) = true /\
                  forallb (fun p => forallb wfb (snd p)) (snd (fst (fst (fst (fold_left (foro_step (fun cc e => eval_with idx f cc a e) c kv vv cond ke vl group) l st))))) = true).
        { induction l as [|p r IHl]; intros st Wl Wv Wg; cbn [fold_left]; [split; assumption|].
          inversion Wl as [|? ? Wp Wr]; subst. specialize (CC p Wp).
          assert (St : forallb (fun p0 => wfb (snd p0)) (fst (fst (fst (fst (foro_step (fun cc e => eval_with idx f cc a e) c kv vv cond ke vl group st p))))) = true /\
                       forallb (fun p0 => forallb wfb (snd p0)) (snd (fst (fst (fst (foro_step (fun cc e => eval_with idx f cc a e) c kv vv cond ke vl group st p))))) = true).
          { rewrite foro_step_eq. destruct st as [[[[vals groups] mks] known] dss]. cbn [fst snd] in Wv, Wg. cbv zeta.
            destruct (foro_cond _ _ cond mks known dss) as [[mk' ds']|[[mk' kn'] ds']]; [|split; assumption].
            unfold foro_body. destruct (eval_with idx f _ a ke) as [kr kd].
            destruct (is_null kr); [split; assumption|]. destruct (negb (is_known kr)); [split; assumption|].
            destruct (conv kr TStr) as [kc| |]; try (split; assumption).
            destruct (fst (unmark kc)) as [ks| | | | | | | | | |]; try (split; assumption).
            destruct (eval_with idx f _ a vl) as [x xd] eqn:B.
            assert (Wx : wf x) by (eapply (IH _ a vl); [exact CC|exact W|assumption|exact B]).
            destruct group; [|destruct (assoc_get ks vals)]; cbn [fst snd]; try (split; assumption).
            - split; [exact Wv|].
              assert (Wo : forallb wfb (match assoc_get ks groups with Some l0 => l0 | None => [] end ++ [x]) = true).
              { rewrite forallb_app. cbn [forallb]. rewrite Wx, andb_true_r.
                destruct (assoc_get ks groups) as [l0|] eqn:G; [|reflexivity].
                clear -G Wg. induction groups as [|[k0 y] t IHt]; cbn [assoc_get forallb snd] in *; [discriminate|].
                apply andb_true_iff in Wg as [A0 B0]. destruct (str_eqb ks k0); [injection G as <-; exact A0|auto]. }
              remember (match assoc_get ks groups with Some l0 => l0 | None => [] end ++ [x]) as nw eqn:Hnw.
              clear Hnw. clear -Wo Wg. induction groups as [|[k0 y] t IHt]; cbn [assoc_set forallb snd] in *.
              + rewrite Wo. reflexivity.
              + apply andb_true_iff in Wg as [A0 B0]. destruct (str_eqb ks k0); cbn [forallb snd].
                * rewrite Wo, B0. reflexivity.
                * destruct (str_ltb ks k0); cbn [forallb snd]; rewrite ?Wo, ?A0, ?B0; try reflexivity.
                  rewrite (IHt B0). reflexivity.
            - split; [apply wf_assoc_set; assumption|exact Wg]. }
          destruct St as [St1 St2]. apply IHl; assumption. }
        specialize (FW (elements cv) ([], [], [cmk], true, dp) We eq_refl eq_refl).
        destruct (fold_left _ (elements cv) _) as [[[[vals groups] mks] known] dd]. cbn [fst snd] in FW.
        destruct FW as [FW1 FW2]. cbn [for_fin_o] in E.
        destruct (negb known); injection E as <- _; apply wf_with_marks; [reflexivity|].
        unfold wf. cbn [wfb]. destruct group; [|exact FW1].
        clear -FW2. induction groups as [|[k0 y] t IHt]; cbn [map forallb snd fst wfb] in *; [reflexivity|].
        apply andb_true_iff in FW2 as [A0 B0]. rewrite A0, IHt; auto.
      + assert (FW : forall l st, Forall wf_pair l -> forallb wfb (fst (fst (fst st))) = true ->
                  forallb wfb (fst (fst (fst (fold_left (forl_step (fun cc e => eval_with idx f cc a e) c kv vv cond vl) l st)))) = true).
        { induction l as [|p r IHl]; intros st Wl Wv; cbn [fold_left]; [exact Wv|].
          inversion Wl as [|? ? Wp Wr]; subst. specialize (CC p Wp). apply IHl; [exact Wr|].
          destruct st as [[[vals mks] known] dss]. unfold forl_step. cbn [fst snd] in *.
          assert (Bd : forall (mk' : list marks) (ds' : list diag), forallb wfb (fst (fst (fst (let '(v, vds) := eval_with idx f (for_bind c kv vv (fst p) (snd p)) a vl in
                                                                     (vals ++ [v], mk', known, ds' ++ vds))))) = true).
          { intros. destruct (eval_with idx f _ a vl) as [x xd] eqn:B. cbn [fst].
            rewrite forallb_app, Wv. cbn [forallb]. rewrite andb_true_r.
            eapply (IH _ a vl); [exact CC|exact W|assumption|exact B]. }
          destruct cond as [ce|]; [|apply Bd].
          destruct (eval_with idx f _ a ce) as [inc cds].
          destruct (is_null inc); [exact Wv|]. destruct (negb (is_known inc)); [exact Wv|].
          destruct (conv inc TBool) as [b| |]; try exact Wv.
          destruct (fst (unmark b)) as [| |[|]| | | | | | | |]; try apply Bd. exact Wv. }
        specialize (FW (elements cv) ([], [cmk], true, dp) We eq_refl).
        destruct (fold_left _ (elements cv) _) as [[[vals mks] known] dd]. cbn [fst] in FW. cbn [for_fin_l] in E.
        destruct (negb known); injection E as <- _; apply wf_with_marks; [reflexivity|exact FW].
    - (* splat *) rewrite eval_splat_unfold in E.
      destruct (eval_with idx f c a src) as [sv0 d0] eqn:A.
      pose proof (splat_tail_wf (fun cc an => eval_with idx f cc an each) c sv0 d0) as X. rewrite E in X. apply X.
      + intros x Wx. destruct (eval_with idx f c (Some x) each) as [y dy] eqn:B. cbn [fst].
        eapply (IH c (Some x) each); [exact C|exact Wx|assumption|exact B].
      + eapply (IH c a src); eassumption.
    - (* obj *) rewrite eval_obj_unfold in E.
      assert (FW : forall l st, Forall (fun it => frag (fst it) /\ frag (snd it)) l ->
                  forallb (fun p => wfb (snd p)) (fst (fst (fst st))) = true ->
                  forallb (fun p => wfb (snd p)) (fst (fst (fst (fold_left (obj_step (eval_with idx f c a)) l st)))) = true).
      { induction l as [|it r IHl]; intros st Fl Ws; cbn [fold_left]; [exact Ws|].
        inversion Fl as [|? ? [Fk Fv] Fr]; subst. apply IHl; [exact Fr|].
        destruct st as [[[vals mks] kn] d0]. unfold obj_step. cbn [fst snd] in *.
        destruct (eval_with idx f c a (fst it)) as [k kd]. destruct (eval_with idx f c a (snd it)) as [x xd] eqn:A.
        assert (Wx : wf x) by (eapply IH; eassumption).
        repeat match goal with
               | |- context [match ?y with _ => _ end] => destruct y
               | |- context [if ?y then _ else _] => destruct y
               end; cbn [fst]; try exact Ws. apply wf_assoc_set; assumption. }
      specialize (FW items ([], [], true, []) H eq_refl).
      destruct (fold_left _ items _) as [[[vals mks] kn] d]. cbn [fst] in FW.
      destruct (negb kn); injection E as <- _; apply wf_with_marks; [reflexivity|exact FW].
  Qed.
End WF.
