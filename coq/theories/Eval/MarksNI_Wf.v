(* Eval/MarksNI_Wf.v — C06: every value the evaluator produces is well-formed (no mark directly
   under a mark), for the expressions of the fragment.  Discharges the hypothesis Hwf_eval of
   MarksNI_Eval.ni_all. *)
From Coq Require Import QArith.
From HclV Require Import Base.Prelude Cty.Values Cty.Convert Cty.Ops Eval.Impl
     Eval.MarksNI Eval.MarksNI_Ops Eval.MarksNI_Index Eval.MarksNI_Funcs Eval.MarksNI_Eval.
Open Scope Z_scope.

Lemma equals_wf : forall f a b r, equals f a b = OOk r -> wf r.
Proof.
  induction f as [|f IH]; intros a b r H; [discriminate H|]. cbn [equals] in H.
  assert (AE : forall ps acc r,
     (forall r0, acc = OOk r0 -> wf r0) ->
     fold_left (fun acc p =>
          match acc with
          | OOk (VBool true) =>
              match equals f (fst p) (snd p) with
              | OOk (VBool true) => OOk (VBool true)
              | other => other
              end
          | other => other
          end) ps acc = OOk r -> wf r).
  { induction ps as [|p ps IHps]; cbn [fold_left]; intros acc r1 Hacc E; [apply Hacc, E|].
    eapply IHps; [|exact E]. intros r0 E0.
    repeat bm E0; try discriminate E0; try (apply Hacc; exact E0); try (injection E0 as <-; reflexivity);
      subst; try (injection E0 as <-); first [eapply IH; eassumption | apply Hacc; assumption | reflexivity]. }
  repeat bm H; try discriminate H; try (injection H as <-; reflexivity);
    try (eapply AE; [|exact H]; intros r0 E0; injection E0 as <-; reflexivity).
Qed.

Lemma lift_marks_wf ms r v : (forall x, r = OOk x -> wf x) -> lift_marks ms r = OOk v -> wf v.
Proof. intros H E. apply lift_marks_ok in E as (x & -> & ->). apply wf_with_marks. apply H. reflexivity. Qed.

Lemma call_binop_wf op a b r : call_binop op a b = OOk r -> wf r.
Proof.
  intro H. destruct (is_eqop op) eqn:Eo.
  - rewrite call_binop_eqop in H by exact Eo. eapply lift_marks_wf; [|exact H].
    intros x Ex. unfold eq_core in Ex. cbv zeta in Ex.
    destruct (equals _ _ _) as [y| |] eqn:Q.
    + pose proof (equals_wf _ _ _ _ Q) as Wy.
      destruct op; try discriminate Eo.
      * injection Ex as <-. exact Wy.
      * destruct y; injection Ex as <-; exact Wy.
    + destruct op; discriminate Ex.
    + destruct op; discriminate Ex.
  - destruct op; try discriminate Eo; cbn [call_binop] in H; repeat bm H; try discriminate H;
      injection H as <-; reflexivity.
Qed.

Lemma call_unop_wf op a r : call_unop op a = OOk r -> wf r.
Proof.
  intro H. destruct op; cbn [call_unop] in H.
  - destruct (unmark a) as [a' ms]. eapply lift_marks_wf; [|exact H].
    intros x Ex. repeat bm Ex; try discriminate Ex; injection Ex as <-; reflexivity.
  - eapply lift_marks_wf; [|exact H].
    intros x Ex. repeat bm Ex; try discriminate Ex; injection Ex as <-; reflexivity.
Qed.

Lemma bin_tail_wf op lu ru mk lds rds : wf (fst (bin_tail op lu ru mk lds rds)).
Proof.
  unfold bin_tail. destruct (sc_val op lu ru (has_errors lds)) as [[sv side]|] eqn:S; cbn [option_map fst snd].
  - apply wf_with_marks. unfold sc_val in S. repeat bm S; try discriminate S; injection S as <- _; reflexivity.
  - destruct (has_errors (lds ++ rds)); [apply wf_with_marks; reflexivity|].
    destruct (call_binop op lu ru) eqn:C; cbn [fst]; try reflexivity. apply wf_with_marks. eapply call_binop_wf; exact C.
Qed.

Lemma wf_assoc_set k v (l : list (list Z * val)) :
  wf v -> forallb (fun p => wfb (snd p)) l = true -> forallb (fun p => wfb (snd p)) (assoc_set k v l) = true.
Proof.
  intros Wv. induction l as [|[k' x] r IH]; cbn [assoc_set forallb snd]; intro H.
  - rewrite Wv. reflexivity.
  - apply andb_true_iff in H as [A B]. destruct (str_eqb k k'); cbn [forallb snd].
    + rewrite Wv, B. reflexivity.
    + destruct (str_ltb k k'); cbn [forallb snd]; rewrite ?Wv, ?A, ?B, ?IH; auto.
Qed.

Lemma cond_unk_obs_wf rt t f : wf (cond_unk_obs rt t f).
Proof.
  unfold cond_unk_obs.
  repeat match goal with
         | |- context [match ?y with _ => _ end] => destruct y
         | |- context [if ?y then _ else _] => destruct y
         end; try reflexivity; apply finish_unknown_wf.
Qed.

Lemma cond_pick_wf rt mk cds bv bds nc : wf bv -> wf (fst (cond_pick rt mk cds bv bds nc)).
Proof.
  intro W. unfold cond_pick. destruct nc; [|apply wf_with_marks, W].
  destruct (conv bv rt) eqn:C; cbn [fst]; try reflexivity; apply wf_with_marks; [|reflexivity].
  eapply conv_wf; eassumption.
Qed.

Lemma cond_tail_wf rt tc fc cv cds tv tds fv fds : wf tv -> wf fv -> wf (fst (cond_tail rt tc fc cv cds tv tds fv fds)).
Proof.
  intros Wt Wf. unfold cond_tail. destruct (is_null cv); [reflexivity|].
  apply wf_unmark in Wt as [_ Wt]. apply wf_unmark in Wf as [_ Wf].
  destruct (unmark cv) as [cu cm]. destruct (unmark tv) as [tu tm]. destruct (unmark fv) as [fu fm]. cbn [fst] in *.
  destruct (negb (is_known cu)); [apply wf_with_marks, cond_unk_obs_wf|].
  destruct (conv cu TBool) as [cb| |]; try reflexivity.
  destruct cb; try reflexivity. destruct b; apply cond_pick_wf; assumption.
Qed.

Lemma join_fold_wf vs : forall st,
  (forall r d, st = inr (r, d) -> wf r) -> forall r d, fold_left join_step vs st = inr (r, d) -> wf r.
Proof.
  induction vs as [|v t IH]; intros st H r d E; cbn [fold_left] in E; [eapply H; exact E|].
  eapply IH; [|exact E]. intros r0 d0 E0. destruct st as [[[buf am] ds]|[r1 d1]]; cbn [join_step] in E0.
  - repeat bm E0; try discriminate E0; injection E0 as <- _; apply wf_with_same_marks, wf_with_marks; reflexivity.
  - eapply H. exact E0.
Qed.

Lemma objkey_shape' idx f w force :
  exists k : option (val * list diag),
    (forall c a, eval_with idx (S f) c a (EObjKey w force) = match k with Some r => r | None => eval_with idx f c a w end) /\
    (forall r, k = Some r -> wf (fst r)).
Proof.
  destruct force; [exists None; split; [reflexivity|discriminate]|].
  destruct w; try (exists None; split; [reflexivity|discriminate]);
    try (destruct steps; eexists (Some _); (split; [intros; cbn [eval_with negb literal_name]; reflexivity|]);
         intros r E; injection E as <-; reflexivity).
  destruct v; try (exists None; split; [reflexivity|discriminate]);
    try (eexists (Some _); (split; [intros; cbn [eval_with negb literal_name]; reflexivity|]);
         intros r E; injection E as <-; reflexivity).
  destruct b; eexists (Some _); (split; [intros; cbn [eval_with negb literal_name]; reflexivity|]);
    intros r E; injection E as <-; reflexivity.
Qed.

Section WF.
  Variable m : Z.
  Variable idx : val -> val -> val * list diag.
  Variable Cx : ctx -> Prop.
  Hypothesis Cx_wf : forall c, Cx c -> wf_ctx c.
  Hypothesis Cx_funcs : forall c, Cx c ->
    forall fr fs name f, In fr c -> ffuncs fr = Some fs -> assoc_get name fs = Some f -> fn_wf f.
  Hypothesis idx_wf : forall c k, wf c -> wf k -> wf (fst (idx c k)).
  Notation frag := (in_fragment m idx Cx).

  Theorem eval_wf : forall fuel c a e v ds,
    Cx c -> wf_opt a -> frag e -> eval_with idx fuel c a e = (v, ds) -> wf v.
  Proof.
    induction fuel as [|f IH]; intros c a e v ds C W Fe E.
    { cbn [eval_with] in E. injection E as <- _. reflexivity. }
    destruct Fe.
    - (* lit *) cbn [eval_with] in E. injection E as <- _. assumption.
    - (* paren *) cbn [eval_with] in E. eapply IH; eassumption.
    - (* wrap *) cbn [eval_with] in E. eapply IH; eassumption.
    - (* anon *) cbn [eval_with] in E. injection E as <- _. destruct a; [exact W|reflexivity].
    - (* scope *) cbn [eval_with] in E. unfold traverse_abs in E.
      destruct (lookup_var c root false) as [[x|] b] eqn:L.
      + pose proof (traverse_rel_wf steps x []) as X. rewrite E in X. apply X.
        eapply lookup_var_wf; [apply Cx_wf, C|rewrite L; reflexivity].
      + destruct b; injection E as <- _; reflexivity.
    - (* rel *) cbn [eval_with] in E. destruct (eval_with idx f c a src) as [s d] eqn:S.
      destruct (traverse_rel steps s []) as [r d'] eqn:T. injection E as <- _.
      pose proof (traverse_rel_wf steps s []) as X. rewrite T in X. apply X. eapply IH; eassumption.
    - (* index *) cbn [eval_with] in E. destruct (eval_with idx f c a coll) as [cv cd] eqn:A.
      destruct (eval_with idx f c a key) as [kv kd] eqn:B. destruct (idx cv kv) as [r id] eqn:I.
      injection E as <- _. pose proof (idx_wf cv kv) as X. rewrite I in X.
      apply X; [eapply (IH c a coll); eassumption|eapply (IH c a key); eassumption].
    - (* tuple *) cbn [eval_with] in E. injection E as <- _. unfold wf. cbn [wfb].
      induction H as [|x r Fx _ IHr]; cbn [map forallb]; [reflexivity|].
      apply andb_true_iff; split; [|exact IHr].
      destruct (eval_with idx f c a x) as [y d] eqn:A. cbn [fst]. eapply IH; eassumption.
    - (* objkey *) destruct (objkey_shape' idx f w force) as [[r|] [Hk Hw]]; rewrite Hk in E.
      + subst r. apply (Hw _ eq_refl).
      + eapply IH; eassumption.
    - (* un *) cbn [eval_with] in E. destruct (eval_with idx f c a e) as [g d] eqn:A.
      destruct (conv g (unop_param op)) as [x| |]; try (injection E as <- _; reflexivity).
      destruct (has_errors d); [injection E as <- _; reflexivity|].
      destruct (unmark x) as [u um]. destruct (call_unop op u) eqn:R; injection E as <- _; try reflexivity.
      apply wf_with_marks. eapply call_unop_wf; exact R.
    - (* bin *) rewrite eval_bin_unfold in E.
      destruct (eval_with idx f c a l) as [g ld]. destruct (eval_with idx f c a r) as [h rd]. cbv zeta in E.
      destruct (has_unsupported ld || has_unsupported rd); [injection E as <- _; reflexivity|].
      destruct (conv g (binop_param op)); destruct (conv h (binop_param op)); try (injection E as <- _; reflexivity).
      destruct (unmark v0) as [lu lm]. destruct (unmark v1) as [ru rm].
      pose proof (bin_tail_wf op lu ru (marks_union lm rm) ld rd) as X. rewrite E in X. exact X.
    - (* tmpl *) rewrite eval_tmpl_unfold in E.
      destruct (fold_left _ parts _) as [[[b k] mk] d]. injection E as <- _. apply wf_with_marks.
      unfold tmpl_ret. destruct (negb k); [destruct (_ && _)|]; reflexivity.
    - (* join *) rewrite eval_join_unfold in E. destruct (eval_with idx f c a e) as [t d] eqn:A.
      destruct (ty_eqb (type_of t) TDyn); [injection E as <- _; apply wf_with_same_marks; reflexivity|].
      destruct (negb (is_known t)); [injection E as <- _; apply wf_with_same_marks; reflexivity|].
      destruct (unmark t) as [tu tm]. destruct tu; try (injection E as <- _; reflexivity).
      destruct (fold_left join_step l (inl ([], tm, d))) as [[[b am] dd]|[r dd]] eqn:Fo; cbn [join_fin] in E.
      + injection E as <- _. apply wf_with_marks. reflexivity.
      + injection E as <- _. eapply join_fold_wf; [|exact Fo]. intros r0 d0 E0. discriminate E0.
    - (* call *) rewrite eval_call_unfold in E.
      destruct (lookup_fn c name false) as [[fnv|] b] eqn:L; [|destruct b; injection E as <- _; reflexivity].
      destruct (lookup_fn_in _ _ _ _ _ L) as (fr & fs & I1 & I2 & I3).
      pose proof (Cx_funcs c C fr fs name fnv I1 I2 I3) as Hfw.
      unfold call_tail in E.
      destruct (length args <? length (f_params fnv))%nat; [injection E as <- _; reflexivity|].
      destruct (_ && _); [injection E as <- _; reflexivity|].
      assert (FW : forall l i st, Forall frag l -> Forall wf (fst st) ->
                  Forall wf (fst (fold_left (call_step (eval_with idx f c a) fnv) (combine (seq i (length l)) l) st))).
      { induction l as [|x r IHl]; intros i st Fl Ws; cbn [length seq combine fold_left]; [exact Ws|].
        inversion Fl as [|? ? Fx Fr]; subst. apply IHl; [exact Fr|].
        destruct st as [vals d0]. unfold call_step. cbn [fst snd].
        destruct (eval_with idx f c a x) as [y dy] eqn:A.
        assert (Wy : wf y) by (eapply IH; eassumption).
        destruct (param_for fnv i); [destruct (conv y (p_ty f0)) eqn:Cv|]; cbn [fst];
          apply Forall_app; split; try exact Ws; constructor; try constructor; try exact Wy.
        eapply conv_wf; eassumption. }
      specialize (FW args 0%nat ([], []) H (Forall_nil _)).
      destruct (fold_left _ _ _) as [av d]. cbn [fst] in FW.
      destruct (has_errors d); [injection E as <- _; reflexivity|].
      destruct (has_unsupported d); [injection E as <- _; reflexivity|].
      destruct (fn_call fnv av) eqn:Fc; injection E as <- _; try reflexivity. eapply Hfw; eassumption.
    - (* cond *) rewrite eval_cond_unfold in E.
      destruct (eval_with idx f c a te) as [tv td] eqn:A. destruct (eval_with idx f c a fe) as [fv fd] eqn:B.
      destruct (has_unsupported td || has_unsupported fd); [injection E as <- _; reflexivity|].
      destruct (cond_uni tv fv) as [[[[rt tc] fc]|]|[|]]; try (injection E as <- _; reflexivity).
      destruct (eval_with idx f c a ce) as [cv cd] eqn:D.
      pose proof (cond_tail_wf rt tc fc cv cd tv td fv fd) as X. rewrite E in X. apply X.
      + eapply (IH c a te); eassumption.
      + eapply (IH c a fe); eassumption.
    - (* obj *) rewrite eval_obj_unfold in E.
      assert (FW : forall l st, Forall (fun it => frag (fst it) /\ frag (snd it)) l ->
                  forallb (fun p => wfb (snd p)) (fst (fst (fst st))) = true ->
                  forallb (fun p => wfb (snd p)) (fst (fst (fst (fold_left (obj_step (eval_with idx f c a)) l st)))) = true).
      { induction l as [|it r IHl]; intros st Fl Ws; cbn [fold_left]; [exact Ws|].
        inversion Fl as [|? ? [Fk Fv] Fr]; subst. apply IHl; [exact Fr|].
        destruct st as [[[vals mks] kn] d0]. unfold obj_step. cbn [fst snd] in *.
        destruct (eval_with idx f c a (fst it)) as [k kd]. destruct (eval_with idx f c a (snd it)) as [x xd] eqn:A.
        assert (Wx : wf x) by (eapply IH; eassumption).
        repeat match goal with
               | |- context [match ?y with _ => _ end] => destruct y
               | |- context [if ?y then _ else _] => destruct y
               end; cbn [fst]; try exact Ws. apply wf_assoc_set; assumption. }
      specialize (FW items ([], [], true, []) H eq_refl).
      destruct (fold_left _ items _) as [[[vals mks] kn] d]. cbn [fst] in FW.
      destruct (negb kn); injection E as <- _; apply wf_with_marks; [reflexivity|exact FW].
  Qed.
End WF.
