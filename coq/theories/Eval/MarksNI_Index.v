(* Eval/MarksNI_Index.v — C06: GetAttr, Index (same key), traversals, variable lookup. *)
From Coq Require Import QArith.
From HclV Require Import Base.Prelude Cty.Values Cty.Convert Cty.Ops Eval.Impl Eval.UnknownSound_Base Eval.MarksNI Eval.MarksNI_Ops.
Open Scope Z_scope.

Lemma assoc_get_map {A B} (f : A -> B) n (l : list (list Z * A)) :
  assoc_get n (map (fun p => (fst p, f (snd p))) l) = option_map f (assoc_get n l).
Proof.
  induction l as [|[k a] r IH]; cbn [map assoc_get fst snd option_map]; [reflexivity|].
  destruct (str_eqb n k); [reflexivity|exact IH].
Qed.

Lemma get_attr_u_markhead ms y om n r ds :
  get_attr_u (VMark ms y) om n = (r, ds) -> clean ds -> r = with_marks dyn_val om.
Proof.
  intros E Hc. unfold get_attr_u in E. cbn [hd_null hd_known negb] in E.
  repeat bm E; injection E as <- <-; try (unclean Hc); reflexivity.
Qed.

Lemma get_attr_u_leq m x1 x2 om n r1 r2 ds1 ds2 :
  leq m x1 x2 ->
  get_attr_u x1 om n = (r1, ds1) -> get_attr_u x2 om n = (r2, ds2) ->
  clean ds1 -> clean ds2 -> leq m r1 r2.
Proof.
  intros H E1 E2 Hc1 Hc2.
  leq_heads H;
    try (injection H; intros; subst; rewrite E1 in E2; injection E2 as <- _; apply leq_refl);
    try (apply get_attr_u_markhead in E1; [|exact Hc1]; apply get_attr_u_markhead in E2; [|exact Hc2];
         subst; apply leq_refl).
  - (* list *) unfold get_attr_u in E1. cbn [hd_null type_of] in E1.
    repeat bm E1; injection E1 as <- <-; unclean Hc1.
  - (* set *) unfold get_attr_u in E1. cbn [hd_null type_of] in E1.
    repeat bm E1; injection E1 as <- <-; unclean Hc1.
  - (* map *) injection H as -> H. apply map_erase_kv_Forall2 in H.
    unfold get_attr_u in E1, E2. cbn [hd_null type_of hd_known negb] in E1, E2.
    pose proof (assoc_get_leq m n _ _ H) as G.
    destruct (assoc_get n l), (assoc_get n l0); try contradiction;
      injection E1 as <- <-; injection E2 as <- <-; try (unclean Hc1).
    apply with_marks_leq; [exact G|apply marks_rel_refl].
  - (* tuple *) unfold get_attr_u in E1. cbn [hd_null type_of] in E1.
    repeat bm E1; injection E1 as <- <-; unclean Hc1.
  - (* object *) injection H as H. apply map_erase_kv_Forall2 in H.
    unfold get_attr_u in E1, E2. cbn [hd_null type_of hd_known negb] in E1, E2.
    rewrite !assoc_get_map in E1, E2.
    pose proof (assoc_get_leq m n _ _ H) as G.
    destruct (assoc_get n l), (assoc_get n l0); try contradiction; cbn [option_map] in E1, E2;
      injection E1 as <- <-; injection E2 as <- <-; try (unclean Hc1).
    apply with_marks_leq; [exact G|apply marks_rel_refl].
Qed.

Lemma get_attr_leq m o1 o2 n r1 r2 ds1 ds2 :
  leq m o1 o2 ->
  get_attr o1 n = (r1, ds1) -> get_attr o2 n = (r2, ds2) ->
  clean ds1 -> clean ds2 -> leq m r1 r2.
Proof.
  intros H E1 E2 Hc1 Hc2. rewrite get_attr_unfold in E1, E2.
  destruct (unmark_leq _ _ _ H) as [[A B]|(A & B & C)].
  - apply stars_leq; [exact (get_attr_u_star m _ _ _ _ _ A E1 Hc1)|exact (get_attr_u_star m _ _ _ _ _ B E2 Hc2)].
  - rewrite <- A in E2. eapply get_attr_u_leq; eassumption.
Qed.

(* ---- Index with the same key on both sides ---------------------------------------------------- *)
Lemma wf_unmark v : wf v -> is_mark (fst (unmark v)) = false /\ wf (fst (unmark v)).
Proof.
  destruct v; cbn [unmark fst is_mark]; intro H; try (split; [reflexivity|exact H]).
  apply wf_mark_inv in H as (_ & A & B). split; assumption.
Qed.

Lemma has_index_list t l1 l2 ku : length l1 = length l2 -> has_index (VList t l1) ku = has_index (VList t l2) ku.
Proof. intro H. unfold has_index. cbn [type_of]. rewrite H. reflexivity. Qed.
Lemma has_index_tuple l1 l2 ku : length l1 = length l2 -> has_index (VTuple l1) ku = has_index (VTuple l2) ku.
Proof. intro H. unfold has_index. cbn [type_of]. rewrite !map_length, H. reflexivity. Qed.
Lemma has_index_map m t l1 l2 ku : Forall2 (leq_kv m) l1 l2 -> has_index (VMap t l1) ku = has_index (VMap t l2) ku.
Proof.
  intro H. unfold has_index. cbn [type_of]. destruct ku; try reflexivity.
  pose proof (assoc_get_leq m s _ _ H) as G. destruct (assoc_get s l1), (assoc_get s l2); try contradiction; reflexivity.
Qed.


Definition opt_leq m (a b : option val) : Prop :=
  match a, b with Some x, Some y => leq m x y | None, None => True | _, _ => False end.
Lemma index_known_list m t l1 l2 ku : Forall2 (leq m) l1 l2 ->
  opt_leq m (index_known (VList t l1) ku) (index_known (VList t l2) ku).
Proof.
  intro H. unfold index_known, opt_leq. destruct ku; try exact I.
  destruct (index_of_num n); [apply nth_opt_leq; exact H|exact I].
Qed.
Lemma index_known_tuple m l1 l2 ku : Forall2 (leq m) l1 l2 ->
  opt_leq m (index_known (VTuple l1) ku) (index_known (VTuple l2) ku).
Proof.
  intro H. unfold index_known, opt_leq. destruct ku; try exact I.
  destruct (index_of_num n); [apply nth_opt_leq; exact H|exact I].
Qed.
Lemma index_known_map m t l1 l2 ku : Forall2 (leq_kv m) l1 l2 ->
  opt_leq m (index_known (VMap t l1) ku) (index_known (VMap t l2) ku).
Proof.
  intro H. unfold index_known, opt_leq. destruct ku; try exact I. apply assoc_get_leq; exact H.
Qed.

Ltac fin_known G E1 E2 Hc1 Hc2 :=
  unfold opt_leq in G;
  match type of G with
  | match ?a with _ => _ end =>
      destruct a; match type of G with match ?b with _ => _ end => destruct b | _ => idtac end
  end; try contradiction;
  injection E1 as <- <-; injection E2 as <- <-; try (unclean Hc1);
  repeat (apply with_marks_leq; [|apply marks_rel_refl]); try exact G; try apply leq_refl.

Lemma index_u_leq m x1 x2 cm k r1 r2 ds1 ds2 :
  leq m x1 x2 -> is_mark x1 = false ->
  index_u x1 cm k = (r1, ds1) -> index_u x2 cm k = (r2, ds2) ->
  clean ds1 -> clean ds2 -> leq m r1 r2.
Proof.
  intros H HT E1 E2 Hc1 Hc2.
  leq_heads H;
    try (injection H; intros; subst; rewrite E1 in E2; injection E2 as <- _; apply leq_refl);
    try discriminate HT.
  - (* list *) injection H as -> H. apply map_erase_Forall2 in H.
    unfold index_u in E1, E2. cbn [hd_null type_of ty_eqb] in E1, E2. rewrite orb_false_r in E1, E2.
    destruct (is_null k); [injection E1 as <- <-; unclean Hc1|].
    destruct (ty_eqb (type_of k) TDyn); [injection E1 as <- <-; injection E2 as <- <-; apply leq_refl|].
    destruct (conv k TNum) as [key'| |]; try (injection E1 as <- <-; unclean Hc1).
    destruct (unmark key') as [ku km].
    rewrite (has_index_list t0 l0 l _ (eq_sym (Forall2_length _ _ _ H))) in E2.
    destruct (has_index (VList t0 l) ku); try (injection E1 as <- <-; unclean Hc1).
    + pose proof (index_known_list m t0 _ _ ku H) as G. fin_known G E1 E2 Hc1 Hc2.
    + injection E1 as <- <-; injection E2 as <- <-; apply leq_refl.
  - (* set *)
    unfold index_u in E1, E2. cbn [hd_null type_of ty_eqb] in E1, E2. rewrite orb_false_r in E1, E2.
    destruct (is_null k); [injection E1 as <- <-; unclean Hc1|].
    destruct (ty_eqb (type_of k) TDyn); injection E1 as <- <-; injection E2 as <- <-; [apply leq_refl|unclean Hc1].
  - (* map *) injection H as -> H. apply map_erase_kv_Forall2 in H.
    unfold index_u in E1, E2. cbn [hd_null type_of ty_eqb] in E1, E2. rewrite orb_false_r in E1, E2.
    destruct (is_null k); [injection E1 as <- <-; unclean Hc1|].
    destruct (ty_eqb (type_of k) TDyn); [injection E1 as <- <-; injection E2 as <- <-; apply leq_refl|].
    destruct (conv k TStr) as [key'| |]; try (injection E1 as <- <-; unclean Hc1).
    destruct (unmark key') as [ku km].
    rewrite <- (has_index_map m t0 l l0 ku H) in E2.
    destruct (has_index (VMap t0 l) ku); try (injection E1 as <- <-; unclean Hc1).
    + pose proof (index_known_map m t0 _ _ ku H) as G. fin_known G E1 E2 Hc1 Hc2.
    + injection E1 as <- <-; injection E2 as <- <-; apply leq_refl.
  - (* tuple *) injection H as H. apply map_erase_Forall2 in H.
    unfold index_u in E1, E2. cbn [hd_null type_of ty_eqb] in E1, E2. rewrite orb_false_r in E1, E2.
    destruct (is_null k); [injection E1 as <- <-; unclean Hc1|].
    destruct (ty_eqb (type_of k) TDyn); [injection E1 as <- <-; injection E2 as <- <-; apply leq_refl|].
    destruct (conv k TNum) as [key'| |]; try (injection E1 as <- <-; unclean Hc1).
    destruct (unmark key') as [ku km].
    rewrite <- (has_index_tuple l l0 ku (Forall2_length _ _ _ H)) in E2.
    destruct (has_index (VTuple l) ku); try (injection E1 as <- <-; unclean Hc1).
    + pose proof (index_known_tuple m _ _ ku H) as G. fin_known G E1 E2 Hc1 Hc2.
    + injection E1 as <- <-; injection E2 as <- <-; apply leq_refl.
  - (* object *) injection H as H. apply map_erase_kv_Forall2 in H.
    unfold index_u in E1, E2. cbn [hd_null hd_known negb type_of ty_eqb] in E1, E2. rewrite orb_false_r in E1, E2.
    destruct (is_null k); [injection E1 as <- <-; unclean Hc1|].
    destruct (ty_eqb (type_of k) TDyn); [injection E1 as <- <-; injection E2 as <- <-; apply leq_refl|].
    destruct (conv k TStr) as [key'| |]; try (injection E1 as <- <-; unclean Hc1).
    destruct (negb (is_known key')); [injection E1 as <- <-; injection E2 as <- <-; apply leq_refl|].
    destruct (fst (unmark key')); try (injection E1 as <- <-; unclean Hc1).
    rewrite !assoc_get_map in E1, E2.
    pose proof (assoc_get_leq m s _ _ H) as G.
    destruct (assoc_get s l), (assoc_get s l0); try contradiction; cbn [option_map] in E1, E2;
      injection E1 as <- <-; injection E2 as <- <-; try (unclean Hc1).
    apply with_marks_leq; [exact G|apply marks_rel_refl].
Qed.

Lemma index_leq m c1 c2 k r1 r2 ds1 ds2 :
  leq m c1 c2 -> wf c1 -> index c1 k = (r1, ds1) -> index c2 k = (r2, ds2) ->
  clean ds1 -> clean ds2 -> leq m r1 r2.
Proof.
  intros H W E1 E2 Hc1 Hc2. rewrite index_unfold in E1, E2.
  destruct (unmark_leq _ _ _ H) as [[A B]|(A & B & C)].
  - apply stars_leq; [exact (index_u_star m _ _ _ _ _ A E1 Hc1)|exact (index_u_star m _ _ _ _ _ B E2 Hc2)].
  - rewrite <- A in E2. eapply index_u_leq; try eassumption. apply wf_unmark, W.
Qed.


(* ---- well-formedness is preserved --------------------------------------------------------------- *)
Lemma mark_insert_nonnil x l : is_nilm (mark_insert x l) = false.
Proof. destruct l as [|y r]; cbn [mark_insert]; [reflexivity|]. destruct (x <? y); [reflexivity|]. destruct (x =? y); reflexivity. Qed.
Lemma wf_with_marks v ms : wf v -> wf (with_marks v ms).
Proof.
  unfold wf. destruct ms as [|a r]; [auto|]. destruct v; cbn [with_marks wfb is_mark is_nilm negb andb]; auto.
  intro H. apply andb_true_iff in H as [_ H]. unfold marks_union. cbn [fold_right]. rewrite mark_insert_nonnil. exact H.
Qed.
Lemma wf_with_same_marks v s : wf v -> wf (with_same_marks v s).
Proof. apply wf_with_marks. Qed.
Lemma wf_dyn_val : wf dyn_val.
Proof. reflexivity. Qed.
Lemma wf_assoc_get k (l : list (list Z * val)) v :
  forallb (fun p => wfb (snd p)) l = true -> assoc_get k l = Some v -> wf v.
Proof.
  induction l as [|[k' x] r IH]; cbn [forallb assoc_get snd]; intros H E; [discriminate|].
  apply andb_true_iff in H as [A B]. destruct (str_eqb k k'); [injection E as <-; exact A|auto].
Qed.
Lemma wf_nth_opt (l : list val) i v : forallb wfb l = true -> nth_opt l i = Some v -> wf v.
Proof.
  revert i; induction l as [|x r IH]; intros i H E; destruct i; cbn [nth_opt forallb] in *; try discriminate;
    apply andb_true_iff in H as [A B]; [injection E as <-; exact A|eauto].
Qed.

Lemma wfl_weaken t (l : list val) :
  forallb (fun x => ty_eqb (type_of x) t && wfb x) l = true -> forallb wfb l = true.
Proof.
  induction l as [|x r IH]; cbn [forallb]; [auto|]. intro H. apply andb_true_iff in H as [A B].
  apply andb_true_iff in A as [_ A]. rewrite A, (IH B). reflexivity.
Qed.
Lemma wfm_weaken t (l : list (list Z * val)) :
  forallb (fun p => ty_eqb (type_of (snd p)) t && wfb (snd p)) l = true -> forallb (fun p => wfb (snd p)) l = true.
Proof.
  induction l as [|x r IH]; cbn [forallb]; [auto|]. intro H. apply andb_true_iff in H as [A B].
  apply andb_true_iff in A as [_ A]. rewrite A, (IH B). reflexivity.
Qed.
Ltac weaken_wf W :=
  first [apply wfl_weaken in W | apply wfm_weaken in W | idtac].

Lemma get_attr_u_wf x om n : wf x -> wf (fst (get_attr_u x om n)).
Proof.
  intro W. unfold get_attr_u.
  repeat match goal with
         | |- context [match ?y with _ => _ end] => destruct y eqn:?
         | |- context [if ?y then _ else _] => destruct y eqn:?
         end; cbn [fst]; try apply wf_dyn_val; apply wf_with_marks; try reflexivity;
    subst; unfold wf in W; cbn [wfb] in W; weaken_wf W; eapply wf_assoc_get; eassumption.
Qed.
Lemma get_attr_wf o n : wf o -> wf (fst (get_attr o n)).
Proof. intro W. rewrite get_attr_unfold. apply get_attr_u_wf, wf_unmark, W. Qed.

Lemma index_known_wf x ku v : wf x -> index_known x ku = Some v -> wf v.
Proof.
  unfold index_known, wf. intros W E.
  repeat bm E; try discriminate E; subst; cbn [wfb] in W; weaken_wf W;
    try (injection E as <-; reflexivity);
    try (eapply wf_nth_opt; eassumption); try (eapply wf_assoc_get; eassumption).
Qed.

Lemma index_u_wf x cm k : wf x -> wf (fst (index_u x cm k)).
Proof.
  intro W. unfold index_u.
  repeat match goal with
         | |- context [match ?y with _ => _ end] => destruct y eqn:?
         | |- context [if ?y then _ else _] => destruct y eqn:?
         end; cbn [fst]; try apply wf_dyn_val; repeat apply wf_with_marks; try reflexivity;
    try (eapply index_known_wf; eassumption);
    subst; unfold wf in W; cbn [wfb] in W; weaken_wf W; eapply wf_assoc_get; eassumption.
Qed.
Lemma index_wf c k : wf c -> wf (fst (index c k)).
Proof. intro W. rewrite index_unfold. apply index_u_wf, wf_unmark, W. Qed.

Lemma traverse_rel_wf steps : forall v acc, wf v -> wf (fst (traverse_rel steps v acc)).
Proof.
  induction steps as [|s r IH]; intros v acc W; cbn [traverse_rel]; [exact W|].
  destruct (match s with SAttr n => get_attr v n | SIndex k => index v k end) as [v' d] eqn:S.
  destruct (has_errors d); [apply wf_dyn_val|]. apply IH.
  destruct s; [pose proof (get_attr_wf v name W) as X|pose proof (index_wf v key W) as X]; rewrite S in X; exact X.
Qed.

(* ---- traversals -------------------------------------------------------------------------------- *)
Lemma traverse_rel_leq m steps : forall v1 v2 acc1 acc2 r1 r2 ds1 ds2,
  leq m v1 v2 -> wf v1 ->
  traverse_rel steps v1 acc1 = (r1, ds1) -> traverse_rel steps v2 acc2 = (r2, ds2) ->
  clean ds1 -> clean ds2 -> leq m r1 r2.
Proof.
  induction steps as [|s r IH]; intros v1 v2 acc1 acc2 r1 r2 ds1 ds2 H W E1 E2 Hc1 Hc2; cbn [traverse_rel] in E1, E2.
  - injection E1 as <- _. injection E2 as <- _. exact H.
  - destruct (match s with SAttr n => get_attr v1 n | SIndex k => index v1 k end) as [v1' d1] eqn:S1.
    destruct (match s with SAttr n => get_attr v2 n | SIndex k => index v2 k end) as [v2' d2] eqn:S2.
    destruct (has_errors d1) eqn:He1.
    { injection E1 as <- <-. exfalso. destruct Hc1 as [A _]. rewrite has_errors_app, He1, orb_true_r in A. discriminate. }
    destruct (has_errors d2) eqn:He2.
    { injection E2 as <- <-. exfalso. destruct Hc2 as [A _]. rewrite has_errors_app, He2, orb_true_r in A. discriminate. }
    assert (U1 : has_unsupported d1 = false).
    { destruct (has_unsupported d1) eqn:U; [|reflexivity]. exfalso.
      assert (X : forall st v acc r' ds', traverse_rel st v acc = (r', ds') -> has_unsupported acc = true -> has_unsupported ds' = true).
      { clear. induction st as [|s0 st IHs]; intros v acc r' ds' E Hu; cbn [traverse_rel] in E.
        - injection E as _ <-. exact Hu.
        - destruct (match s0 with SAttr n => get_attr v n | SIndex k => index v k end) as [v' d].
          destruct (has_errors d).
          + injection E as _ <-. rewrite has_unsupported_app, Hu. reflexivity.
          + eapply IHs; [exact E|]. rewrite has_unsupported_app, Hu. reflexivity. }
      destruct Hc1 as [_ B]. rewrite (X _ _ _ _ _ E1) in B; [discriminate|].
      rewrite has_unsupported_app, U. apply orb_true_r. }
    assert (U2 : has_unsupported d2 = false).
    { destruct (has_unsupported d2) eqn:U; [|reflexivity]. exfalso.
      assert (X : forall st v acc r' ds', traverse_rel st v acc = (r', ds') -> has_unsupported acc = true -> has_unsupported ds' = true).
      { clear. induction st as [|s0 st IHs]; intros v acc r' ds' E Hu; cbn [traverse_rel] in E.
        - injection E as _ <-. exact Hu.
        - destruct (match s0 with SAttr n => get_attr v n | SIndex k => index v k end) as [v' d].
          destruct (has_errors d).
          + injection E as _ <-. rewrite has_unsupported_app, Hu. reflexivity.
          + eapply IHs; [exact E|]. rewrite has_unsupported_app, Hu. reflexivity. }
      destruct Hc2 as [_ B]. rewrite (X _ _ _ _ _ E2) in B; [discriminate|].
      rewrite has_unsupported_app, U. apply orb_true_r. }
    eapply IH; [| |exact E1|exact E2|exact Hc1|exact Hc2].
    + destruct s as [n|k].
      * eapply get_attr_leq; [exact H|exact S1|exact S2|split; assumption|split; assumption].
      * eapply index_leq; [exact H|exact W|exact S1|exact S2|split; assumption|split; assumption].
    + destruct s as [n|k];
        [pose proof (get_attr_wf v1 n W) as X|pose proof (index_wf v1 k W) as X]; rewrite S1 in X; exact X.
Qed.

Lemma lookup_var_leq m name : forall c1 c2 b,
  low_eq m c1 c2 ->
  snd (lookup_var c1 name b) = snd (lookup_var c2 name b) /\
  leq_opt m (fst (lookup_var c1 name b)) (fst (lookup_var c2 name b)).
Proof.
  intros c1 c2 b H. revert b. induction H as [|f1 f2 r1 r2 [Hv Hf] _ IH]; intro b; cbn [lookup_var].
  - split; [reflexivity|exact I].
  - unfold leq_vars in Hv. destruct (fvars f1) as [vs1|], (fvars f2) as [vs2|]; try contradiction.
    + pose proof (assoc_get_leq m name _ _ Hv) as G.
      destruct (assoc_get name vs1), (assoc_get name vs2); try contradiction.
      * split; [reflexivity|exact G].
      * apply IH.
    + apply IH.
Qed.

Lemma lookup_fn_low_eq m name : forall c1 c2 b, low_eq m c1 c2 -> lookup_fn c1 name b = lookup_fn c2 name b.
Proof.
  intros c1 c2 b H. revert b. induction H as [|f1 f2 r1 r2 [Hv Hf] _ IH]; intro b; cbn [lookup_fn].
  - reflexivity.
  - rewrite Hf. destruct (ffuncs f2) as [fs|]; [|apply IH]. destruct (assoc_get name fs); [reflexivity|apply IH].
Qed.

Lemma lookup_var_wf c name b v : wf_ctx c -> fst (lookup_var c name b) = Some v -> wf v.
Proof.
  revert b. induction c as [|fr r IH]; intros b W E; cbn [lookup_var] in E; [discriminate E|].
  assert (Wr : wf_ctx r). { intros fr' vs k x Hi. apply (W fr' vs k x). right; exact Hi. }
  destruct (fvars fr) as [vs|] eqn:F; [|eauto].
  destruct (assoc_get name vs) eqn:G; [|eauto]. cbn [fst] in E. injection E as ->.
  assert (X : exists k, In (k, v) vs).
  { clear -G. induction vs as [|[k x] t IHt]; cbn [assoc_get] in G; [discriminate|].
    destruct (str_eqb name k); [injection G as ->; exists k; left; reflexivity|].
    destruct (IHt G) as [k' Hk]. exists k'. right; exact Hk. }
  destruct X as [k Hk]. apply (W fr vs k v); [left; reflexivity|exact F|exact Hk].
Qed.

Lemma traverse_abs_leq m c1 c2 root steps r1 r2 ds1 ds2 :
  low_eq m c1 c2 -> wf_ctx c1 ->
  traverse_abs c1 root steps = (r1, ds1) -> traverse_abs c2 root steps = (r2, ds2) ->
  clean ds1 -> clean ds2 -> leq m r1 r2.
Proof.
  intros H W E1 E2 Hc1 Hc2. unfold traverse_abs in E1, E2.
  destruct (lookup_var_leq m root c1 c2 false H) as [A B].
  pose proof (lookup_var_wf c1 root false) as WV.
  destruct (lookup_var c1 root false) as [o1 b1], (lookup_var c2 root false) as [o2 b2]. cbn [fst snd] in A, B.
  destruct o1 as [v1|], o2 as [v2|]; try contradiction.
  - eapply traverse_rel_leq; try eassumption. apply WV; [exact W|reflexivity].
  - destruct b1; injection E1 as <- <-; unclean Hc1.
Qed.

(* ---- small helpers ------------------------------------------------------------------------------- *)
Lemma with_marks_leq' m v1 v2 ms1 ms2 :
  marks_rel m ms1 ms2 -> (mark_mem m ms1 = false -> leq m v1 v2) ->
  leq m (with_marks v1 ms1) (with_marks v2 ms2).
Proof.
  intros [[A B]| ->] H.
  - apply stars_leq; apply with_marks_star; assumption.
  - destruct (mark_mem m ms2) eqn:E.
    + apply stars_leq; apply with_marks_star; assumption.
    + apply with_marks_leq; [auto|apply marks_rel_refl].
Qed.

Lemma unmark_rel m v1 v2 :
  leq m v1 v2 ->
  marks_rel m (snd (unmark v1)) (snd (unmark v2)) /\
  (mark_mem m (snd (unmark v1)) = false -> leq m (fst (unmark v1)) (fst (unmark v2))).
Proof.
  intro H. destruct (unmark_leq _ _ _ H) as [[A B]|(A & B & C)].
  - split; [left; auto|congruence].
  - split; [right; auto|auto].
Qed.

Lemma convert_wf_pd want : pd_ty want = true ->
  forall f v r, wf v -> convert f v want = COk r -> wf r.
Proof.
  intro Hpd. induction f as [|f IH]; intros v r W E; [discriminate E|].
  destruct (prim_head v) eqn:Hp.
  - rewrite convert_prim_head in E by exact Hp.
    destruct v; try discriminate Hp; destruct want; try discriminate Hpd; cbn in E;
      repeat bm E; try discriminate E; injection E as <-; try reflexivity;
      unfold finish_unknown; repeat match goal with |- context [match ?y with _ => _ end] => destruct y
                                              | |- context [if ?y then _ else _] => destruct y end; reflexivity.
  - destruct (cont_head v) eqn:Hc.
    + rewrite convert_cont_head in E by assumption. destruct (is_dyn want) eqn:Ed.
      * injection E as <-. exact W.
      * exfalso. revert E. apply convert_cont_head_err; assumption.
    + destruct v; try discriminate Hp; try discriminate Hc. rewrite convert_mark in E.
      destruct (convert f v want) eqn:C; try discriminate E. injection E as <-.
      apply wf_with_marks. eapply IH; [|exact C]. apply wf_mark_inv in W as (_ & _ & W). exact W.
Qed.

Lemma conv_wf_pd want v r : pd_ty want = true -> wf v -> conv v want = COk r -> wf r.
Proof. unfold conv. intros. eapply convert_wf_pd; eassumption. Qed.

(* ---- conversion preserves well-formedness (all target types) -------------------------------------- *)
Lemma all_ok_inv l : forall vs, all_ok l = inl (Some vs) -> Forall2 (fun c v => c = COk v) l vs.
Proof.
  induction l as [|c r IH]; intros vs E; cbn [all_ok fold_right] in E.
  - injection E as <-. constructor.
  - fold (all_ok r) in E. destruct (all_ok r) as [[ws|]|e]; try discriminate E.
    destruct c; try discriminate E. injection E as <-. constructor; [reflexivity|apply IH; reflexivity].
Qed.

Lemma finish_unknown_wf t r : wf (finish_unknown t r).
Proof.
  unfold finish_unknown, wf.
  repeat match goal with
         | |- context [match ?y with _ => _ end] => destruct y
         | |- context [if ?y then _ else _] => destruct y
         end; try reflexivity; cbn [wfb forallb type_of]; rewrite ?ty_eqb_refl; try reflexivity;
    match goal with |- forallb _ (repeatZ ?x ?n) = true =>
      induction n; cbn [repeatZ forallb type_of wfb]; rewrite ?ty_eqb_refl; auto end.
Qed.

Lemma wf_list_of (l : list val) : Forall wf l -> forallb wfb l = true.
Proof. induction 1; cbn [forallb]; [reflexivity|]. apply andb_true_iff; split; assumption. Qed.
Lemma wf_list_to (l : list val) : forallb wfb l = true -> Forall wf l.
Proof. intro H. apply Forall_forall. rewrite forallb_forall in H. exact H. Qed.

Lemma all_ok_wf {A} (l : list A) (F : A -> cres) vs :
  (forall a v, In a l -> F a = COk v -> wf v) -> all_ok (map F l) = inl (Some vs) -> Forall wf vs.
Proof.
  intros H E. apply all_ok_inv in E. revert vs E. induction l as [|a r IH]; intros vs E; cbn [map] in E;
    inversion E as [|? y ? ys Hy Hys]; subst; constructor.
  - eapply H; [left; reflexivity|exact Hy].
  - apply IH; [|exact Hys]. intros; eapply H; [right; eassumption|eassumption].
Qed.

Lemma all_ok_inr l : forall c r, all_ok l = inr c -> c <> COk r.
Proof.
  induction l as [|x t IH]; intros c r E; cbn [all_ok fold_right] in E; [discriminate E|].
  fold (all_ok t) in E. destruct (all_ok t) as [[ws|]|e] eqn:A.
  - destruct x; try discriminate E; injection E as <-; discriminate.
  - injection E as <-. discriminate.
  - injection E as <-. eapply IH. reflexivity.
Qed.

Lemma wf_combine_snd (ks : list (list Z)) (vs : list val) :
  Forall wf vs -> forallb (fun p => wfb (snd p)) (combine ks vs) = true.
Proof.
  intro H. revert ks. induction H as [|v r Hv _ IH]; intro ks; destruct ks; cbn [combine forallb snd]; auto.
  apply andb_true_iff; split; [exact Hv|apply IH].
Qed.

Lemma In_wf_list (l : list val) x : forallb wfb l = true -> In x l -> wf x.
Proof. intros H I. rewrite forallb_forall in H. apply H, I. Qed.
Lemma In_wf_kv (l : list (list Z * val)) p : forallb (fun p => wfb (snd p)) l = true -> In p l -> wf (snd p).
Proof. intros H I. rewrite forallb_forall in H. apply (H p), I. Qed.

Lemma wf_typed_list w (l : list val) vs (Q : val -> val -> Prop) :
  Forall2 Q l vs -> (forall x v, In x l -> Q x v -> type_of v = w /\ wf v) ->
  forallb (fun x => ty_eqb (type_of x) w && wfb x) vs = true.
Proof.
  induction 1 as [|x v l vs Hq _ IH]; intro H; cbn [forallb]; [reflexivity|].
  destruct (H x v (or_introl eq_refl) Hq) as [T W]. rewrite T, ty_eqb_refl, W. cbn [andb].
  apply IH. intros x' v' I Q'. apply (H x' v'); [right; exact I|exact Q'].
Qed.
Lemma wf_typed_combine {A} w (l : list A) (ks : list (list Z)) vs (Q : A -> val -> Prop) :
  Forall2 Q l vs -> (forall x v, In x l -> Q x v -> type_of v = w /\ wf v) -> length ks = length l ->
  forallb (fun p => ty_eqb (type_of (snd p)) w && wfb (snd p)) (combine ks vs) = true.
Proof.
  intros F. revert ks. induction F as [|x v l vs Hq _ IH]; intros ks H Len; destruct ks; try discriminate Len;
    cbn [combine forallb snd]; [reflexivity|].
  destruct (H x v (or_introl eq_refl) Hq) as [T W]. rewrite T, ty_eqb_refl, W. cbn [andb].
  apply IH; [|injection Len; auto]. intros x' v' I Q'. apply (H x' v'); [right; exact I|exact Q'].
Qed.
Lemma wf_untyped_list {A} (l : list A) vs (Q : A -> val -> Prop) :
  Forall2 Q l vs -> (forall x v, In x l -> Q x v -> wf v) -> forallb wfb vs = true.
Proof.
  induction 1 as [|x v l vs Hq _ IH]; intro H; cbn [forallb]; [reflexivity|].
  rewrite (H x v (or_introl eq_refl) Hq). apply IH. intros x' v' I Q'. apply (H x' v'); [right; exact I|exact Q'].
Qed.

Lemma In_wf_list_ty t (l : list val) x :
  forallb (fun x => ty_eqb (type_of x) t && wfb x) l = true -> In x l -> wf x /\ type_of x = t.
Proof.
  intros H I. rewrite forallb_forall in H. apply H in I. apply andb_true_iff in I as [A B].
  apply ty_eqb_eq in A. split; assumption.
Qed.
Lemma In_wf_kv_ty t (l : list (list Z * val)) p :
  forallb (fun p => ty_eqb (type_of (snd p)) t && wfb (snd p)) l = true -> In p l -> wf (snd p) /\ type_of (snd p) = t.
Proof.
  intros H I. rewrite forallb_forall in H. apply (H p) in I. apply andb_true_iff in I as [A B].
  apply ty_eqb_eq in A. split; assumption.
Qed.

Lemma convert_wf : forall f v want r, wf v -> convert f v want = COk r -> wf r.
Proof.
  induction f as [|f IH]; intros v want r W E; [discriminate E|].
  apply convert_inv in E.
  destruct E as [m v want r' E|v want Hm Et|v Hm|t0 rf want P|t0 want P|n|b|s n En|s b Eb
                 |t0 l w vs P Hd F|t0 l w vs P Hd F|l w vs P Hd F|l ws vs P F
                 |t0 kvs w vs P Hd F|kvs w vs P Hd F|kvs ws vs P F];
    try exact W; try reflexivity.
  - apply wf_with_marks. eapply IH; [|exact E]. apply wf_mark_inv in W as (_ & _ & W). exact W.
  - destruct (conv_unknown_rf t0 rf want); [reflexivity|apply finish_unknown_wf].
  - unfold wf in *. cbn [wfb] in *. eapply wf_typed_list; [exact F|]. intros x v I Hc. cbn beta in Hc.
    split; [apply (convert_type _ _ _ _ Hc Hd)|eapply IH; [apply (In_wf_list_ty _ _ _ W I)|exact Hc]].
  - unfold wf in *. cbn [wfb] in *. eapply wf_typed_list; [exact F|]. intros x v I Hc. cbn beta in Hc.
    split; [apply (convert_type _ _ _ _ Hc Hd)|eapply IH; [apply (In_wf_list_ty _ _ _ W I)|exact Hc]].
  - unfold wf in *. cbn [wfb] in *. eapply wf_typed_list; [exact F|]. intros x v I Hc. cbn beta in Hc.
    split; [apply (convert_type _ _ _ _ Hc Hd)|eapply IH; [eapply In_wf_list; eassumption|exact Hc]].
  - unfold wf in *. cbn [wfb] in *. eapply wf_untyped_list; [exact F|]. intros [x w] v I Hc. cbn [fst snd] in Hc.
    eapply IH; [|exact Hc]. apply in_combine_l in I. eapply In_wf_list; eassumption.
  - unfold wf in *. cbn [wfb] in *. eapply (wf_typed_combine w kvs); [exact F| |apply map_length].
    intros p v I Hc. cbn beta in Hc.
    split; [apply (convert_type _ _ _ _ Hc Hd)|eapply IH; [apply (In_wf_kv_ty _ _ _ W I)|exact Hc]].
  - unfold wf in *. cbn [wfb] in *. eapply (wf_typed_combine w kvs); [exact F| |apply map_length].
    intros p v I Hc. cbn beta in Hc.
    split; [apply (convert_type _ _ _ _ Hc Hd)|eapply IH; [eapply In_wf_kv; eassumption|exact Hc]].
  - unfold wf in *. cbn [wfb] in *. apply wf_combine_snd.
    assert (X : forall (ws0 : list (list Z * ty)) vs0,
               Forall2 (fun p v => match assoc_get (fst p) kvs with Some x => convert f x (snd p) | None => CErr CEOther end = COk v) ws0 vs0 ->
               Forall wf vs0).
    { induction 1 as [|p v ws0 vs0 Hc _ IHF]; constructor; [|exact IHF].
      destruct (assoc_get (fst p) kvs) eqn:G; [|discriminate Hc]. eapply IH; [eapply wf_assoc_get; eassumption|exact Hc]. }
    apply X with (ws0 := ws). exact F.
Qed.

Lemma conv_wf v want r : wf v -> conv v want = COk r -> wf r.
Proof. unfold conv. apply convert_wf. Qed.

(* ---- more on conversions to primitive / dynamic targets ------------------------------------------ *)
Lemma convert_nomark_pd want f v r :
  pd_ty want = true -> is_mark v = false -> convert (S f) v want = COk r -> is_mark r = false.
Proof.
  intros Hpd Hm E. destruct (prim_head v) eqn:Hp.
  - rewrite convert_prim_head in E by exact Hp.
    destruct v; try discriminate Hp; destruct want; try discriminate Hpd; cbn in E;
      repeat bm E; try discriminate E; injection E as <-; try reflexivity;
      unfold finish_unknown; repeat match goal with |- context [match ?y with _ => _ end] => destruct y
                                              | |- context [if ?y then _ else _] => destruct y end; reflexivity.
  - destruct (cont_head v) eqn:Hc; [|destruct v; discriminate].
    rewrite convert_cont_head in E by assumption. destruct (is_dyn want) eqn:Ed.
    + injection E as <-. exact Hm.
    + exfalso. revert E. apply convert_cont_head_err; assumption.
Qed.

Lemma conv_pd_is_star m want v r :
  pd_ty want = true -> wf v -> conv v want = COk r -> is_star m r = is_star m v.
Proof.
  intros Hpd W E. unfold conv in E. destruct (is_mark v) eqn:Hm.
  - destruct v; try discriminate Hm. cbn [val_size] in E. rewrite convert_mark in E.
    destruct (convert (S (val_size v)) v want) as [r'| |] eqn:C; try discriminate E. injection E as <-.
    apply wf_mark_inv in W as (_ & N & _).
    pose proof (convert_nomark_pd _ _ _ _ Hpd N C) as Nr.
    rewrite is_star_with_marks. cbn [is_star]. destruct r'; try discriminate Nr; reflexivity.
  - pose proof (convert_nomark_pd _ _ _ _ Hpd Hm E) as Nr.
    destruct v; try discriminate Hm; destruct r; try discriminate Nr; reflexivity.
Qed.

(* conversions of low-equal unstarred values to a primitive / dynamic type succeed together *)
Lemma conv_pd_cases m want v1 v2 :
  pd_ty want = true -> leq m v1 v2 -> is_star m v1 = false -> wf v1 ->
  (exists r1 r2, conv v1 want = COk r1 /\ conv v2 want = COk r2 /\ leq m r1 r2) \/
  (conv v1 want = conv v2 want /\ forall r, conv v1 want <> COk r).
Proof.
  intros Hpd L Hs W.
  assert (Core : forall u1 u2, leq m u1 u2 -> is_mark u1 = false ->
            (exists r1 r2, convert (S (val_size u1)) u1 want = COk r1 /\ convert (S (val_size u2)) u2 want = COk r2 /\ leq m r1 r2) \/
            (convert (S (val_size u1)) u1 want = convert (S (val_size u2)) u2 want /\
             forall r, convert (S (val_size u1)) u1 want <> COk r)).
  { intros u1 u2 Lu Nu. destruct (prim_head u1) eqn:Hp.
    - assert (u1 = u2) by (apply (leq_prim_eq m); [exact Lu|destruct u1; try discriminate Hp; exact I]). subst u2.
      destruct (convert (S (val_size u1)) u1 want) as [r| |] eqn:C.
      + left. exists r, r. repeat split; auto.
      + right. split; [reflexivity|discriminate].
      + right. split; [reflexivity|discriminate].
    - assert (Hc : cont_head u1 = true) by (destruct u1; try discriminate Hp; try discriminate Nu; reflexivity).
      assert (Hc2 : cont_head u2 = true) by (leq_heads Lu; try discriminate Hc; reflexivity).
      rewrite (convert_cont_head (val_size u1) u1), (convert_cont_head (val_size u2) u2) by assumption.
      destruct (is_dyn want) eqn:Ed.
      + left. exists u1, u2. repeat split; auto.
      + right. split.
        * destruct u1; try discriminate Hc; destruct u2; try discriminate Hc2; destruct want; try discriminate Hpd;
            try discriminate Ed; reflexivity.
        * intro r. apply convert_cont_head_err; assumption. }
  unfold conv. destruct (unmark_leq _ _ _ L) as [[A _]|(A & B & C)].
  { pose proof (marks_of_nostar _ _ Hs) as X. unfold marks_of in X. congruence. }
  destruct (wf_unmark _ W) as [N _].
  destruct v1 as [| | | | | | | | | |ms1 x1], v2 as [| | | | | | | | | |ms2 x2]; cbn [unmark fst snd] in *;
    try (apply Core; [exact L|reflexivity]);
    try (exfalso; unfold leq in L; cbn [erase] in L; destruct (mark_mem m ms1); discriminate L);
    try (exfalso; unfold leq in L; cbn [erase] in L; destruct (mark_mem m ms2); discriminate L).
  subst ms2. cbn [val_size]. rewrite !convert_mark.
  destruct (Core x1 x2 C N) as [(r1 & r2 & E1 & E2 & Lr)|[E Hn]].
  - left. exists (with_marks r1 ms1), (with_marks r2 ms1). rewrite E1, E2.
    repeat split; try reflexivity. apply with_marks_leq; [exact Lr|apply marks_rel_refl].
  - right. rewrite <- E. destruct (convert (S (val_size x1)) x1 want) as [r| |] eqn:Q.
    + exfalso. eapply Hn. reflexivity.
    + split; [reflexivity|discriminate].
    + split; [reflexivity|discriminate].
Qed.
